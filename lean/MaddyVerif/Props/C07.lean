import MaddyVerif.Model.Dmarc
import MaddyVerif.Spec.C07
/-!
# C07 — DMARC verdict and action equal the specification for every input

Quantifier: all headers (lists of From fields as the header parsers report them), all resolvers,
all lists of authentication results — any number of DKIM results, at most one SPF result, other
result types interleaved — all draws of the pct die, and all implementations `P : Prims` of
strings.EqualFold / strings.ToLower / publicsuffix that satisfy `Laws P T WF` with respect to a
domain theory `T` on the names under consideration.  The specification (`MaddyVerif.Spec.C07`) is
written from the property text and speaks only about `T`.

Main theorem: `C07_model_eq_spec`; the clauses of the property follow as corollaries
(`C07_pass_iff_aligned`, `C07_action_is_published_policy`, `C07_temp_failclosed`,
`C07_bad_author_never_pass`, …); `C07_answer_timing_irrelevant` / `C07_pipeline_eq_spec` carry it
through the asynchronous policy lookup of the pipeline (any schedule of DNS answers, any number of
check blocks); `C07_checks_eq_spec` / `C07_reply_ignores_check_wrapping` /
`C07_reported_results_are_the_evaluated_ones` carry it through the way the checks hand their
verdicts over (stage of the report, attached reason without action, own quarantine action, header
fields, repeated references).  The laws are hypotheses: they are evaluated on the real
libraries by the correspondence harness (`C07 laws` op; `C07_lawFailure_sound` says what its `ok`
means) and a concrete instance is exhibited (`toyLaws`).
-/
set_option linter.unusedSimpArgs false
namespace MaddyVerif.C07
open MaddyVerif.Dmarc

/-! ## alignment -/

theorem C07_isAligned_eq_spec {P : Prims} {T : DomainTheory} {WF : Str → Prop} (L : Laws P T WF)
    (f a : Str) (m : Mode) (hf : WF f) (ha : WF a) :
    isAligned P f a m = specAligned T m f a := by
  cases m with
  | strict => simp [isAligned, specAligned, L.same_eqFold]
  | relaxed =>
    simp only [isAligned, specAligned]
    have hlf := L.lower_same f hf
    have hla := L.lower_same a ha
    cases hef : P.etld1 (P.lower f) with
    | none =>
      have hs : P.eqFold (P.lower f) (P.publicSuffix (P.lower f)) = true := (L.suffix_iff f hf).mpr hef
      have hof := L.org_suffix f hf hef
      simp only [hs, if_true]
      rw [← L.same_eqFold]
      cases hea : P.etld1 (P.lower a) with
      | none =>
        have hoa := L.org_suffix a ha hea
        -- same (lower f) (lower a) ↔ same (org f) (org a)
        apply Bool.eq_iff_iff.mpr
        constructor
        · intro h
          have h1 : T.same f a = true :=
            L.same_trans _ _ _ (L.same_symm _ _ hlf) (L.same_trans _ _ _ h hla)
          exact L.same_trans _ _ _ hof (L.same_trans _ _ _ h1 (L.same_symm _ _ hoa))
        · intro h
          have h1 : T.same f a = true :=
            L.same_trans _ _ _ (L.same_symm _ _ hof) (L.same_trans _ _ _ h hoa)
          exact L.same_trans _ _ _ hlf (L.same_trans _ _ _ h1 (L.same_symm _ _ hla))
      | some oa =>
        have hoa := L.org_etld1 a oa ha hea
        have hne1 : T.same f a = false := L.suffix_not_same f a oa hf ha hef hea
        have hne2 : T.same f oa = false := L.suffix_not_org f a oa hf ha hef hea
        have l1 : T.same (P.lower f) (P.lower a) = false := by
          cases h : T.same (P.lower f) (P.lower a) with
          | false => rfl
          | true =>
            have : T.same f a = true :=
              L.same_trans _ _ _ (L.same_symm _ _ hlf) (L.same_trans _ _ _ h hla)
            rw [hne1] at this; cases this
        have l2 : T.same (T.org f) (T.org a) = false := by
          cases h : T.same (T.org f) (T.org a) with
          | false => rfl
          | true =>
            have : T.same f oa = true :=
              L.same_trans _ _ _ (L.same_symm _ _ hof) (L.same_trans _ _ _ h hoa)
            rw [hne2] at this; cases this
        rw [l1, l2]
    | some of' =>
      have hs : P.eqFold (P.lower f) (P.publicSuffix (P.lower f)) = false := by
        cases h : P.eqFold (P.lower f) (P.publicSuffix (P.lower f)) with
        | false => rfl
        | true => have := (L.suffix_iff f hf).mp h; rw [hef] at this; cases this
      have hof := L.org_etld1 f of' hf hef
      simp only [hs, Bool.false_eq_true, if_false]
      cases hea : P.etld1 (P.lower a) with
      | none =>
        have hoa := L.org_suffix a ha hea
        have hne2 : T.same a of' = false := L.suffix_not_org a f of' ha hf hea hef
        simp only
        symm
        cases h : T.same (T.org f) (T.org a) with
        | false => rfl
        | true =>
          have : T.same a of' = true :=
            L.same_trans _ _ _ (L.same_symm _ _ hoa) (L.same_trans _ _ _ (L.same_symm _ _ h) hof)
          rw [hne2] at this; cases this
      | some oa =>
        have hoa := L.org_etld1 a oa ha hea
        simp only
        rw [← L.same_eqFold]
        apply Bool.eq_iff_iff.mpr
        constructor
        · intro h
          exact L.same_trans _ _ _ hof (L.same_trans _ _ _ h (L.same_symm _ _ hoa))
        · intro h
          exact L.same_trans _ _ _ (L.same_symm _ _ hof) (L.same_trans _ _ _ h hoa)


/-! ## the loop of EvaluateAlignment, for result lists of any length -/

/-- model-side per-result tests (helpers for the loop invariant) -/
def mDkimIs (P : Prims) (f : Str) (r : Record) (val : Val) : AuthRes → Bool
  | .dkim v d _ => isAligned P f d r.adkim && v == val
  | _ => false

def mSpfIs (P : Prims) (f : Str) (r : Record) (val : Val) : AuthRes → Bool
  | .spf v mf h => isAligned P f (spfIdentity mf h) r.aspf && v == val
  | _ => false

def isDkim : AuthRes → Bool
  | .dkim _ _ _ => true
  | _ => false

def isSpf : AuthRes → Bool
  | .spf _ _ _ => true
  | _ => false

def spfNonEmpty : AuthRes → Bool
  | .spf v _ _ => v != .empty
  | _ => false

/-- the identifiers of a result are names under consideration -/
def WFRes (WF : Str → Prop) : AuthRes → Prop
  | .dkim _ d _ => WF d
  | .spf _ mf h => WF mf ∧ WF h
  | .other => True

theorem foldl_step_flags (P : Prims) (f : Str) (r : Record) (rs : List AuthRes) (a : Acc) :
    (rs.foldl (step P f r) a).dkimPresent = (a.dkimPresent || rs.any isDkim) ∧
    (rs.foldl (step P f r) a).dkimAligned = (a.dkimAligned || rs.any (mDkimIs P f r .pass)) ∧
    (rs.foldl (step P f r) a).dkimTemp = (a.dkimTemp || rs.any (mDkimIs P f r .temperror)) ∧
    (rs.foldl (step P f r) a).spfAligned = (a.spfAligned || rs.any (mSpfIs P f r .pass)) ∧
    (rs.foldl (step P f r) a).spfTemp = (a.spfTemp || rs.any (mSpfIs P f r .temperror)) := by
  induction rs generalizing a with
  | nil => simp
  | cons x rest ih =>
    simp only [List.foldl_cons, List.any_cons]
    have := ih (step P f r a x)
    cases x with
    | dkim v d i => simp [step, mDkimIs, mSpfIs, isDkim, Bool.or_assoc] at this ⊢; exact this
    | spf v mf h => simp [step, mDkimIs, mSpfIs, isDkim, Bool.or_assoc] at this ⊢; exact this
    | other => simp [step, mDkimIs, mSpfIs, isDkim] at this ⊢; exact this

/-- without SPF results the recorded SPF value does not change -/
theorem foldl_step_spfVal_noSpf (P : Prims) (f : Str) (r : Record) (rs : List AuthRes) (a : Acc)
    (h : rs.any isSpf = false) : (rs.foldl (step P f r) a).spfVal = a.spfVal := by
  induction rs generalizing a with
  | nil => rfl
  | cons x rest ih =>
    simp only [List.any_cons, Bool.or_eq_false_iff] at h
    simp only [List.foldl_cons]
    rw [ih _ h.2]
    cases x with
    | dkim v d i => rfl
    | spf v mf hh => simp [isSpf] at h
    | other => rfl

theorem any_spfNonEmpty_of_noSpf (rs : List AuthRes) (h : rs.any isSpf = false) :
    rs.any spfNonEmpty = false := by
  induction rs with
  | nil => rfl
  | cons x rest ih =>
    simp only [List.any_cons, Bool.or_eq_false_iff] at h ⊢
    refine ⟨?_, ih h.2⟩
    cases x with
    | dkim v d i => rfl
    | spf v mf hh => simp [isSpf] at h
    | other => rfl

/-- with at most one SPF result, "an SPF value is recorded" means "an SPF result with a value exists" -/
theorem foldl_step_spfVal (P : Prims) (f : Str) (r : Record) (rs : List AuthRes) (a : Acc)
    (ha : a.spfVal = .empty) (h1 : (rs.filter isSpf).length ≤ 1) :
    ((rs.foldl (step P f r) a).spfVal == .empty) = !(rs.any spfNonEmpty) := by
  induction rs generalizing a with
  | nil => simp [ha]
  | cons x rest ih =>
    simp only [List.foldl_cons, List.any_cons]
    cases x with
    | dkim v d i =>
      have h1' : (rest.filter isSpf).length ≤ 1 := by simpa [List.filter, isSpf] using h1
      rw [ih (step P f r a (.dkim v d i)) (by simpa [step] using ha) h1']
      simp [spfNonEmpty]
    | other =>
      have h1' : (rest.filter isSpf).length ≤ 1 := by simpa [List.filter, isSpf] using h1
      rw [ih (step P f r a .other) (by simpa [step] using ha) h1']
      simp [spfNonEmpty]
    | spf v mf hh =>
      have h0 : rest.any isSpf = false := by
        have : (rest.filter isSpf).length = 0 := by
          have e : List.filter isSpf (AuthRes.spf v mf hh :: rest) = AuthRes.spf v mf hh :: List.filter isSpf rest := by
            simp [List.filter, isSpf]
          rw [e, List.length_cons] at h1; omega
        cases hany : rest.any isSpf with
        | false => rfl
        | true =>
          rw [List.any_eq_true] at hany
          obtain ⟨y, hy, hyp⟩ := hany
          have : y ∈ rest.filter isSpf := List.mem_filter.mpr ⟨hy, hyp⟩
          rw [List.length_eq_zero_iff] at *
          simp_all
      rw [foldl_step_spfVal_noSpf P f r rest _ h0, any_spfNonEmpty_of_noSpf rest h0]
      simp only [step, spfNonEmpty, Bool.or_false]
      cases v <;> rfl


theorem spfIdentity_eq (mf h : Str) : spfIdentity mf h = specSpfIdentity mf h := by
  cases mf <;> simp [spfIdentity, specSpfIdentity]

/-- the specification's "some result with value `val` has an aligned identifier", split into the
two tests the loop performs -/
theorem any_aligned_split {P : Prims} {T : DomainTheory} {WF : Str → Prop} (L : Laws P T WF)
    (f : Str) (r : Record) (val : Val) (rs : List AuthRes) (hf : WF f) (hrs : ∀ x ∈ rs, WFRes WF x) :
    (rs.any fun
      | .dkim v d _ => v == val && specAligned T r.adkim f d
      | .spf v mf h => v == val && specAligned T r.aspf f (specSpfIdentity mf h)
      | .other => false)
    = (rs.any (mDkimIs P f r val) || rs.any (mSpfIs P f r val)) := by
  induction rs with
  | nil => rfl
  | cons x rest ih =>
    have ih' := ih (fun y hy => hrs y (List.mem_cons_of_mem _ hy))
    have hx := hrs x List.mem_cons_self
    simp only [List.any_cons]
    rw [ih']
    cases x with
    | dkim v d i =>
      have := C07_isAligned_eq_spec L f d r.adkim hf hx
      simp only [mDkimIs, mSpfIs, this, Bool.false_or]
      cases (v == val) <;> cases specAligned T r.adkim f d <;> simp
    | spf v mf h =>
      have hid : WF (spfIdentity mf h) := by
        unfold spfIdentity; split
        · exact hx.2
        · exact hx.1
      have := C07_isAligned_eq_spec L f (spfIdentity mf h) r.aspf hf hid
      rw [spfIdentity_eq] at this
      simp only [mDkimIs, mSpfIs, spfIdentity_eq, this, Bool.false_or]
      cases (v == val) <;> cases specAligned T r.aspf f (specSpfIdentity mf h) <;>
        cases List.any rest (mDkimIs P f r val) <;> simp
    | other => simp [mDkimIs, mSpfIs]

/-- **EvaluateAlignment** decides exactly what the property says, for result lists of any length
with at most one SPF result. -/
theorem C07_evaluateAlignment_val {P : Prims} {T : DomainTheory} {WF : Str → Prop} (L : Laws P T WF)
    (f : Str) (r : Record) (rs : List AuthRes) (hf : WF f) (hrs : ∀ x ∈ rs, WFRes WF x)
    (h1 : (rs.filter isSpf).length ≤ 1) :
    (evaluateAlignment P f r rs).val =
      if !bothEvaluated rs then .none
      else if hasAlignedPass T r f rs then .pass
      else if hasAlignedTempError T r f rs then .temperror
      else .fail := by
  have hp : hasAlignedPass T r f rs = (rs.any (mDkimIs P f r .pass) || rs.any (mSpfIs P f r .pass)) :=
    any_aligned_split L f r .pass rs hf hrs
  have ht : hasAlignedTempError T r f rs = (rs.any (mDkimIs P f r .temperror) || rs.any (mSpfIs P f r .temperror)) :=
    any_aligned_split L f r .temperror rs hf hrs
  have hb : bothEvaluated rs = (rs.any isDkim && rs.any spfNonEmpty) := by
    unfold bothEvaluated
    congr 2
  obtain ⟨f1, f2, f3, f4, f5⟩ := foldl_step_flags P f r rs {}
  have f6 := foldl_step_spfVal P f r rs {} rfl h1
  simp only [Bool.false_or] at f1 f2 f3 f4 f5
  rw [hp, ht, hb]
  unfold evaluateAlignment
  simp only [f1, f2, f3, f4, f5, f6]
  cases rs.any isDkim <;> cases rs.any spfNonEmpty <;>
    cases rs.any (mDkimIs P f r .pass) <;> cases rs.any (mSpfIs P f r .pass) <;>
    cases rs.any (mDkimIs P f r .temperror) <;> cases rs.any (mSpfIs P f r .temperror) <;> rfl


/-! ## policy discovery -/

theorem dmarcRecords_eq (txts : List Txt) : txts.filterMap isDmarcTxt = dmarcRecords txts := by
  induction txts with
  | nil => rfl
  | cons t rest ih => cases t <;> simp [List.filterMap_cons, isDmarcTxt, dmarcRecords, ih]

/-- what the specification reads at a name, in terms of the model's record list -/
def classify : List (Option Record) → PublishedAt
  | [] => .nothing
  | [some r] => .one r
  | [none] => .invalid
  | _ => .multiple

theorem publishedAt_ok (dns : Str → Lookup) (n : Str) (txts : List Txt) (h : dns n = .ok txts) :
    publishedAt dns n = classify (dmarcRecords txts) := by
  unfold publishedAt
  rw [h]
  simp only [dmarcRecords_eq]
  rcases dmarcRecords txts with _ | ⟨_ | r, _ | ⟨_, _⟩⟩ <;> rfl

/-- the resolver treats spellings of one name alike -/
def DnsRespects (T : DomainTheory) (dns : Str → Lookup) : Prop :=
  ∀ x y, T.same x y = true → dns x = dns y

/-- FetchRecord finds what the specification's discovery finds. -/
theorem C07_fetch_discover {P : Prims} {T : DomainTheory} {WF : Str → Prop} (L : Laws P T WF)
    (dns : Str → Lookup) (f : Str) (hf : WF f) (hdns : DnsRespects T dns) :
    (fetchRecord P dns f = .error .dnsTemp ∧ discover T dns f = .tempFail) ∨
    (∃ pd r, fetchRecord P dns f = .ok (some (pd, r)) ∧ discover T dns f = .found r (!P.eqFold pd f)) ∨
    (discover T dns f = .noPolicy ∧
      (fetchRecord P dns f = .ok none ∨ fetchRecord P dns f = .error .dnsOther ∨
       fetchRecord P dns f = .error .noOrgDomain ∨ fetchRecord P dns f = .error .parse)) := by
  -- the fallback to the organizational domain, shared by "not found" and "no DMARC TXT"
  have fallback : ∀ (_ : publishedAt dns f = .nothing),
      (fetchAtOrg P dns f = .error .dnsTemp ∧ discover T dns f = .tempFail) ∨
      (∃ pd r, fetchAtOrg P dns f = .ok (some (pd, r)) ∧ discover T dns f = .found r (!P.eqFold pd f)) ∨
      (discover T dns f = .noPolicy ∧
        (fetchAtOrg P dns f = .ok none ∨ fetchAtOrg P dns f = .error .dnsOther ∨
         fetchAtOrg P dns f = .error .noOrgDomain ∨ fetchAtOrg P dns f = .error .parse)) := by
    intro hnothing
    unfold fetchAtOrg
    cases he : P.etld1 (P.lower f) with
    | none =>
      have hsame := L.org_suffix f hf he
      have hpo : publishedAt dns (T.org f) = .nothing := by
        have := hdns _ _ hsame
        unfold publishedAt at hnothing ⊢
        rw [this]; exact hnothing
      right; right
      simp [discover, hnothing, hpo]
    | some o =>
      have hsame := L.org_etld1 f o hf he
      have hd : dns (T.org f) = dns o := hdns _ _ hsame
      have hsub : P.eqFold o f = T.same f (T.org f) := by
        rw [← L.same_eqFold]
        apply Bool.eq_iff_iff.mpr
        constructor
        · intro h; exact L.same_symm _ _ (L.same_trans _ _ _ hsame h)
        · intro h; exact L.same_trans _ _ _ (L.same_symm _ _ hsame) (L.same_symm _ _ h)
      cases ho : dns o with
      | temp =>
        left
        have : publishedAt dns (T.org f) = .tempFail := by unfold publishedAt; rw [hd, ho]
        simp [lookupTxts, ho, discover, hnothing, this]
      | other =>
        right; right
        have : publishedAt dns (T.org f) = .failed := by unfold publishedAt; rw [hd, ho]
        simp [lookupTxts, ho, discover, hnothing, this]
      | notFound =>
        right; right
        have : publishedAt dns (T.org f) = .nothing := by unfold publishedAt; rw [hd, ho]
        simp [lookupTxts, ho, discover, hnothing, this, dmarcRecords, pickRecord]
      | ok txts2 =>
        have hp : publishedAt dns (T.org f) = classify (dmarcRecords txts2) :=
          publishedAt_ok dns _ txts2 (by rw [hd, ho])
        rcases hrec : dmarcRecords txts2 with _ | ⟨_ | r, _ | ⟨_, _⟩⟩
        · right; right; simp [lookupTxts, ho, discover, hnothing, hp, hrec, classify, pickRecord]
        · right; right; simp [lookupTxts, ho, discover, hnothing, hp, hrec, classify, pickRecord]
        · right; right; simp [lookupTxts, ho, discover, hnothing, hp, hrec, classify, pickRecord]
        · right; left
          refine ⟨o, r, ?_, ?_⟩
          · simp [lookupTxts, ho, hrec, pickRecord]
          · simp [discover, hnothing, hp, hrec, classify, hsub]
        · right; right; simp [lookupTxts, ho, discover, hnothing, hp, hrec, classify, pickRecord]
  unfold fetchRecord
  cases hd : dns f with
  | temp =>
    left
    have : publishedAt dns f = .tempFail := by unfold publishedAt; rw [hd]
    simp [lookupTxts, discover, this]
  | other =>
    right; right
    have : publishedAt dns f = .failed := by unfold publishedAt; rw [hd]
    simp [lookupTxts, discover, this]
  | notFound =>
    have hn : publishedAt dns f = .nothing := by unfold publishedAt; rw [hd]
    simpa [lookupTxts, dmarcRecords] using fallback hn
  | ok txts =>
    have hp : publishedAt dns f = classify (dmarcRecords txts) := publishedAt_ok dns f txts hd
    rcases hrec : dmarcRecords txts with _ | ⟨_ | r, _ | ⟨_, _⟩⟩
    · have hn : publishedAt dns f = .nothing := by rw [hp, hrec]; rfl
      simpa [lookupTxts, hrec] using fallback hn
    · right; right; simp [lookupTxts, hrec, discover, hp, classify, pickRecord]
    · right; right; simp [lookupTxts, hrec, discover, hp, classify, pickRecord]
    · right; left
      refine ⟨f, r, ?_, ?_⟩
      · simp [lookupTxts, hrec, pickRecord]
      · have : P.eqFold f f = true := by rw [← L.same_eqFold]; exact L.same_refl f
        simp [discover, hp, hrec, classify, this]
    · right; right; simp [lookupTxts, hrec, discover, hp, classify, pickRecord]


/-! ## author extraction -/

/-- ExtractFromDomain yields a domain exactly for a single From field with a single address. -/
theorem C07_extract_eq_spec (hdr : List FieldParse) :
    specAuthor hdr = (match extractFromDomain hdr with | .ok d => some d | .error _ => none) := by
  rcases hdr with _ | ⟨x, _ | ⟨y, rest⟩⟩
  · rfl
  · cases x with
    | malformed => rfl
    | addrs l =>
      rcases l with _ | ⟨a, _ | ⟨b, l'⟩⟩
      · rfl
      · cases a <;> rfl
      · simp [specAuthor, extractFromDomain]
  · cases x <;> simp [specAuthor, extractFromDomain]

/-! ## the property -/

/-- **C07 (main theorem).**  For every header, every resolver, every list of authentication
results (any number of DKIM results, at most one SPF result, anything else interleaved) and every
implementation of the library primitives that satisfies the laws on the names involved: the
verifier's verdict is `pass` exactly when the specification says so, and what the pipeline does
with the message (permanent refusal, temporary refusal, quarantine flag, acceptance) is what the
specification demands. -/
theorem C07_model_eq_spec {P : Prims} {T : DomainTheory} {WF : Str → Prop} (L : Laws P T WF)
    (dns : Str → Lookup) (hdr : List FieldParse) (rs : List AuthRes) (rnd : Nat) (priorQ : Bool)
    (hdns : DnsRespects T dns)
    (hwf : ∀ d, specAuthor hdr = some d → WF d)
    (hrs : ∀ x ∈ rs, WFRes WF x)
    (h1 : (rs.filter isSpf).length ≤ 1)
    (hpct : ∀ d r sub, specAuthor hdr = some d → discover T dns d = .found r sub →
      r.pct = none ∨ r.pct = some 100)
    (hrnd : rnd < 100) :
    ((verify P dns hdr rs rnd).1.val = .pass ↔ (expect T dns hdr rs priorQ).pass = true) ∧
    fateOf (applyResults priorQ (verify P dns hdr rs rnd)) = some (expect T dns hdr rs priorQ).fate := by
  have hex := C07_extract_eq_spec hdr
  unfold verify verifierFetch expect
  cases hE : extractFromDomain hdr with
  | error e =>
    rw [hE] at hex
    simp [hex, apply, applyResults, fateOf]
  | ok f =>
    rw [hE] at hex
    have hau : specAuthor hdr = some f := hex
    have hf : WF f := hwf f hau
    simp only [hau]
    rcases C07_fetch_discover L dns f hf hdns with ⟨hfe, hdi⟩ | ⟨pd, r, hfe, hdi⟩ | ⟨hdi, hfe⟩
    · simp [hfe, hdi, apply, applyResults, fateOf]
    · have hv := C07_evaluateAlignment_val L f r rs hf hrs h1
      have hp := hpct f r _ hau hdi
      simp only [hfe, hdi, apply]
      -- the pct test never skips the policy
      have hnot : ¬ (rnd > 100) := by omega
      -- the policy chosen is the published action
      have hpol : publishedAction r (!P.eqFold pd f) =
          (match r.sp with
          | some sp => if (!P.eqFold pd f) = true then sp else r.p
          | none => r.p) := by
        unfold publishedAction
        cases r.sp <;> cases P.eqFold pd f <;> rfl
      rw [hpol]
      cases hb : bothEvaluated rs with
      | false =>
        simp [hb] at hv
        simp [hv, hb, applyResults, fateOf]
      | true =>
        cases hpass : hasAlignedPass T r f rs with
        | true =>
          simp [hb, hpass] at hv
          simp [hv, hb, hpass, applyResults, fateOf]
        | false =>
          cases htmp : hasAlignedTempError T r f rs with
          | true =>
            simp [hb, hpass, htmp] at hv
            rcases hp with h | h <;> cases hsp : r.sp <;> cases hq : P.eqFold pd f <;> cases hrp : r.p <;>
              (try cases ‹Policy›) <;>
              simp [hv, hb, hpass, htmp, h, hsp, hq, hrp, hnot, applyResults, fateOf]
          | false =>
            simp [hb, hpass, htmp] at hv
            rcases hp with h | h <;> cases hsp : r.sp <;> cases hq : P.eqFold pd f <;> cases hrp : r.p <;>
              (try cases ‹Policy›) <;>
              simp [hv, hb, hpass, htmp, h, hsp, hq, hrp, hnot, applyResults, fateOf]
    · rcases hfe with h | h | h | h <;> simp [h, hdi, apply, applyResults, fateOf]


/-! ## the clauses of the property, one by one (corollaries of the main theorem)

Common hypotheses: `L` (the library primitives agree with the domain theory on the names involved),
`hdns` (the resolver treats spellings of a name alike), a header with the single author domain `f`,
results whose identifiers are names under consideration, at most one SPF result. -/

section clauses
variable {P : Prims} {T : DomainTheory} {WF : Str → Prop} (L : Laws P T WF)
  (dns : Str → Lookup) (hdr : List FieldParse) (rs : List AuthRes) (rnd : Nat) (priorQ : Bool)
  (hdns : DnsRespects T dns) (hrs : ∀ x ∈ rs, WFRes WF x) (h1 : (rs.filter isSpf).length ≤ 1)
  (hrnd : rnd < 100)
include L hdns hrs h1 hrnd

/-- "the DMARC verdict is 'pass' exactly when a passing DKIM signature or the passing SPF identity
is aligned with the From-header domain": for a single author `f`, a published record `r` with
`pct` absent or 100, and SPF and DKIM both evaluated. -/
theorem C07_pass_iff_aligned (f : Str) (r : Record) (sub : Bool)
    (hau : specAuthor hdr = some f) (hf : WF f) (hdisc : discover T dns f = .found r sub)
    (hp : r.pct = none ∨ r.pct = some 100) (hboth : bothEvaluated rs = true) :
    (verify P dns hdr rs rnd).1.val = .pass ↔ hasAlignedPass T r f rs = true := by
  have h := (C07_model_eq_spec L dns hdr rs rnd false hdns
    (fun d hd => by rw [hau] at hd; cases hd; exact hf) hrs h1
    (fun d r' s' hd hdi => by rw [hau] at hd; cases hd; rw [hdisc] at hdi; cases hdi; exact hp) hrnd).1
  rw [h]
  simp only [expect, hau, hdisc, hboth]
  cases hasAlignedPass T r f rs <;> cases publishedAction r sub <;> simp <;>
    cases hasAlignedTempError T r f rs <;> simp

/-- "a non-pass verdict leads to exactly the published action for that domain (the subdomain
policy for subdomains, with pct absent or 100) - reject refuses the message with a permanent code,
quarantine flags it, none accepts it", together with the fail-closed clause "a temporary
authentication error that leaves alignment undecided under a reject policy refuses the message
with a temporary code". -/
theorem C07_action_is_published_policy (f : Str) (r : Record) (sub : Bool)
    (hau : specAuthor hdr = some f) (hf : WF f) (hdisc : discover T dns f = .found r sub)
    (hp : r.pct = none ∨ r.pct = some 100) (hboth : bothEvaluated rs = true)
    (hnopass : hasAlignedPass T r f rs = false) :
    fateOf (applyResults priorQ (verify P dns hdr rs rnd)) = some
      (match publishedAction r sub with
        | .none => .accepted priorQ
        | .quarantine => .accepted true
        | .reject => if hasAlignedTempError T r f rs then .refusedTemporarily else .refusedPermanently) := by
  have h := (C07_model_eq_spec L dns hdr rs rnd priorQ hdns
    (fun d hd => by rw [hau] at hd; cases hd; exact hf) hrs h1
    (fun d r' s' hd hdi => by rw [hau] at hd; cases hd; rw [hdisc] at hdi; cases hdi; exact hp) hrnd).2
  rw [h]
  simp only [expect, hau, hdisc, hboth, hnopass]
  cases publishedAction r sub <;> simp <;> cases hasAlignedTempError T r f rs <;> simp

/-- An aligned pass is never refused nor flagged by DMARC. -/
theorem C07_pass_is_accepted (f : Str) (r : Record) (sub : Bool)
    (hau : specAuthor hdr = some f) (hf : WF f) (hdisc : discover T dns f = .found r sub)
    (hp : r.pct = none ∨ r.pct = some 100) (hboth : bothEvaluated rs = true)
    (hpass : hasAlignedPass T r f rs = true) :
    fateOf (applyResults priorQ (verify P dns hdr rs rnd)) = some (.accepted priorQ) := by
  have h := (C07_model_eq_spec L dns hdr rs rnd priorQ hdns
    (fun d hd => by rw [hau] at hd; cases hd; exact hf) hrs h1
    (fun d r' s' hd hdi => by rw [hau] at hd; cases hd; rw [hdisc] at hdi; cases hdi; exact hp) hrnd).2
  rw [h]
  simp [expect, hau, hdisc, hboth, hpass]

/-- "A temporary DNS failure while fetching the policy … refuses the message with a temporary
code" — whatever the authentication results are — and gives no pass. -/
theorem C07_temp_failclosed (f : Str) (hau : specAuthor hdr = some f) (hf : WF f)
    (hdisc : discover T dns f = .tempFail) :
    fateOf (applyResults priorQ (verify P dns hdr rs rnd)) = some .refusedTemporarily ∧
    (verify P dns hdr rs rnd).1.val ≠ .pass := by
  have h := C07_model_eq_spec L dns hdr rs rnd priorQ hdns
    (fun d hd => by rw [hau] at hd; cases hd; exact hf) hrs h1
    (fun d r' s' hd hdi => by rw [hau] at hd; cases hd; rw [hdisc] at hdi; cases hdi) hrnd
  constructor
  · rw [h.2]; simp [expect, hau, hdisc]
  · intro hc; have := h.1.mp hc; simp [expect, hau, hdisc] at this

/-- Without a usable published policy (nothing published, several records, an invalid record, a
permanent lookup failure) nothing is applied. -/
theorem C07_no_policy_no_action (f : Str) (hau : specAuthor hdr = some f) (hf : WF f)
    (hdisc : discover T dns f = .noPolicy) :
    fateOf (applyResults priorQ (verify P dns hdr rs rnd)) = some (.accepted priorQ) ∧
    (verify P dns hdr rs rnd).1.val ≠ .pass := by
  have h := C07_model_eq_spec L dns hdr rs rnd priorQ hdns
    (fun d hd => by rw [hau] at hd; cases hd; exact hf) hrs h1
    (fun d r' s' hd hdi => by rw [hau] at hd; cases hd; rw [hdisc] at hdi; cases hdi) hrnd
  constructor
  · rw [h.2]; simp [expect, hau, hdisc]
  · intro hc; have := h.1.mp hc; simp [expect, hau, hdisc] at this

end clauses

/-- "a header with no or several author addresses never obtains a pass" — for every primitive
implementation, resolver, result list and random draw; no hypothesis at all. -/
theorem C07_bad_author_never_pass (P : Prims) (dns : Str → Lookup) (hdr : List FieldParse)
    (rs : List AuthRes) (rnd : Nat) (h : specAuthor hdr = none) :
    (verify P dns hdr rs rnd).1.val ≠ .pass ∧ (verify P dns hdr rs rnd).2 = .none := by
  have hex := C07_extract_eq_spec hdr
  rw [h] at hex
  unfold verify verifierFetch
  cases hE : extractFromDomain hdr with
  | error e => simp [apply]
  | ok f => rw [hE] at hex; cases hex

/-- Every refusal the DMARC step produces is coherent: 450 with 4.7.1 or 550 with 5.7.1, and the
temporary one exactly for a `temperror` verdict — for all inputs. -/
theorem C07_refusal_coherent (priorQ : Bool) (res : Eval × Policy) (code c s d : Nat)
    (h : applyResults priorQ res = .refuse code c s d) :
    (code = 450 ∧ c = 4 ∧ res.1.val = .temperror) ∨ (code = 550 ∧ c = 5 ∧ res.1.val ≠ .temperror) := by
  obtain ⟨ev, pol⟩ := res
  cases pol <;> simp only [applyResults] at h
  · cases h
  · cases h
  · by_cases ht : ev.val = .temperror
    · rw [if_pos ht] at h; cases h; exact Or.inl ⟨rfl, rfl, ht⟩
    · rw [if_neg ht] at h; cases h; exact Or.inr ⟨rfl, rfl, ht⟩

/-- With a record carrying `pct`, the policy is skipped exactly when the draw exceeds it (the model
mirrors `rand.Int31n(100) > pct`; the property only speaks about pct absent or 100, where it never
happens). -/
theorem C07_pct_full_never_skips (P : Prims) (f pd : Str) (r : Record) (rs : List AuthRes) (rnd : Nat)
    (hp : r.pct = none ∨ r.pct = some 100) (hrnd : rnd < 100)
    (hv : (evaluateAlignment P f r rs).val ≠ .pass) (hn : (evaluateAlignment P f r rs).val ≠ .none) :
    (apply P (.record f pd r) rs rnd).2 =
      (match r.sp with | some sp => if !P.eqFold pd f then sp else r.p | none => r.p) := by
  have hnot : ¬ (rnd > 100) := by omega
  unfold apply
  rcases hp with h | h <;> simp [h, hv, hn, hnot] <;> cases r.sp <;> rfl

/-! ## the asynchronous hand-off: the decision does not depend on when the DNS answers arrive -/

/-- A lookup under a context that is not cancelled while the message is decided yields what the DNS
holds, whenever the query is made and whenever the answer arrives. -/
theorem timedLookup_uncancelled (dns : Str → Lookup) (arrive : Str → Nat) (start : Nat) :
    timedLookup dns arrive none start = dns := by
  funext n; simp [timedLookup, aborted]

/-- What `Apply` receives through `fetchCh` is what the synchronous composition computes, for every
arrival schedule. -/
theorem C07_fetch_timing_irrelevant (P : Prims) (dns : Str → Lookup) (arrive : Str → Nat)
    (hdr : List FieldParse) :
    verifierFetchTimed P dns arrive bodyCancelAfter hdr = verifierFetch P dns hdr := by
  unfold verifierFetchTimed verifierFetch fetchRecordTimed fetchRecord bodyCancelAfter
  simp only [timedLookup_uncancelled]

/-- **Timing.**  For every number of check blocks, every distribution of the authentication results
over them and every schedule of DNS answers (before, during or after the body checks of any block,
after all of them): the reply of the pipeline is the one the synchronous verifier gives for the
merged results — the lookup result is what the DNS holds, whatever the timing. -/
theorem C07_answer_timing_irrelevant (P : Prims) (dns : Str → Lookup) (arrive : Str → Nat)
    (hdr : List FieldParse) (blocks : List (List AuthRes)) (rnd : Nat) (priorQ : Bool) :
    pipelineBody P dns arrive hdr blocks rnd priorQ =
      applyResults priorQ (verify P dns hdr blocks.flatten rnd) := by
  unfold pipelineBody pipelineBodyWith verify
  rw [C07_fetch_timing_irrelevant]

/-- Two schedules, same decision. -/
theorem C07_decision_independent_of_schedule (P : Prims) (dns : Str → Lookup) (a₁ a₂ : Str → Nat)
    (hdr : List FieldParse) (blocks : List (List AuthRes)) (rnd : Nat) (priorQ : Bool) :
    pipelineBody P dns a₁ hdr blocks rnd priorQ = pipelineBody P dns a₂ hdr blocks rnd priorQ := by
  rw [C07_answer_timing_irrelevant, C07_answer_timing_irrelevant]

/-- The main theorem at the pipeline level: for every schedule of DNS answers and every way the
results are spread over the check blocks, the fate of the message is the specified one. -/
theorem C07_pipeline_eq_spec {P : Prims} {T : DomainTheory} {WF : Str → Prop} (L : Laws P T WF)
    (dns : Str → Lookup) (arrive : Str → Nat) (hdr : List FieldParse) (blocks : List (List AuthRes))
    (rnd : Nat) (priorQ : Bool)
    (hdns : DnsRespects T dns)
    (hwf : ∀ d, specAuthor hdr = some d → WF d)
    (hrs : ∀ x ∈ blocks.flatten, WFRes WF x)
    (h1 : (blocks.flatten.filter isSpf).length ≤ 1)
    (hpct : ∀ d r sub, specAuthor hdr = some d → discover T dns d = .found r sub →
      r.pct = none ∨ r.pct = some 100)
    (hrnd : rnd < 100) :
    fateOf (pipelineBody P dns arrive hdr blocks rnd priorQ) =
      some (expect T dns hdr blocks.flatten priorQ).fate := by
  rw [C07_answer_timing_irrelevant]
  exact (C07_model_eq_spec L dns hdr blocks.flatten rnd priorQ hdns hwf hrs h1 hpct hrnd).2

/-- A header without a single author is never refused or flagged by DMARC, at any timing. -/
theorem C07_bad_author_any_timing (P : Prims) (dns : Str → Lookup) (arrive : Str → Nat)
    (hdr : List FieldParse) (blocks : List (List AuthRes)) (rnd : Nat) (priorQ : Bool)
    (h : specAuthor hdr = none) :
    pipelineBody P dns arrive hdr blocks rnd priorQ = .accept priorQ := by
  rw [C07_answer_timing_irrelevant]
  have := (C07_bad_author_never_pass P dns hdr blocks.flatten rnd h).2
  simp [applyResults, this]


/-! ## the DKIM signing identity (i= / header.i) takes no part in verdict or action

DMARC aligns a signature on its d= domain only (RFC 7489 §3.1.1); the `Identifier` of a
`DKIMResult` - absent, `@d`, `user@sub.d`, another domain, malformed - is not an input of the
decision.  Stated for result lists of any length that agree up to these identities. -/

/-- a result without its DKIM signing identity -/
def eraseIdent : AuthRes → AuthRes
  | .dkim v d _ => .dkim v d []
  | .spf v f h => .spf v f h
  | .other => .other

/-- two result lists that differ at most in the signing identities of their DKIM results -/
def SameUpToIdent (rs rs' : List AuthRes) : Prop := rs.map eraseIdent = rs'.map eraseIdent

theorem step_eraseIdent (P : Prims) (f : Str) (r : Record) (a : Acc) (x : AuthRes) :
    step P f r a (eraseIdent x) = step P f r a x := by
  cases x <;> rfl

theorem foldl_step_eraseIdent (P : Prims) (f : Str) (r : Record) (rs : List AuthRes) (a : Acc) :
    (rs.map eraseIdent).foldl (step P f r) a = rs.foldl (step P f r) a := by
  induction rs generalizing a with
  | nil => rfl
  | cons x rs ih => simp only [List.map_cons, List.foldl_cons, step_eraseIdent, ih]

theorem evaluateAlignment_eraseIdent (P : Prims) (f : Str) (r : Record) (rs : List AuthRes) :
    evaluateAlignment P f r (rs.map eraseIdent) = evaluateAlignment P f r rs := by
  unfold evaluateAlignment
  rw [foldl_step_eraseIdent]

theorem apply_eraseIdent (P : Prims) (data : VerifyData) (rs : List AuthRes) (rnd : Nat) :
    apply P data (rs.map eraseIdent) rnd = apply P data rs rnd := by
  unfold apply
  cases data <;> simp only [evaluateAlignment_eraseIdent]

/-- **The verdict ignores the signing identity.**  For every header, resolver, implementation of the
primitives and die, and any two result lists (any length, any mix) that agree up to the
identities of their DKIM results: the same evaluation (value, reason, alignment flags) and the same
policy to apply. -/
theorem C07_verdict_ignores_dkim_identity (P : Prims) (dns : Str → Lookup) (hdr : List FieldParse)
    (rs rs' : List AuthRes) (rnd : Nat) (h : SameUpToIdent rs rs') :
    verify P dns hdr rs rnd = verify P dns hdr rs' rnd := by
  unfold verify
  rw [← apply_eraseIdent P _ rs, ← apply_eraseIdent P _ rs', h]

/-- … and so does the reply of the pipeline, for every schedule and split over check blocks. -/
theorem C07_reply_ignores_dkim_identity (P : Prims) (dns : Str → Lookup) (arrive arrive' : Str → Nat)
    (hdr : List FieldParse) (blocks blocks' : List (List AuthRes)) (rnd : Nat) (priorQ : Bool)
    (h : SameUpToIdent blocks.flatten blocks'.flatten) :
    pipelineBody P dns arrive hdr blocks rnd priorQ = pipelineBody P dns arrive' hdr blocks' rnd priorQ := by
  rw [C07_answer_timing_irrelevant, C07_answer_timing_irrelevant,
    C07_verdict_ignores_dkim_identity P dns hdr _ _ rnd h]

/-- The specification does not mention the identity either. -/
theorem C07_spec_ignores_dkim_identity (T : DomainTheory) (dns : Str → Lookup) (hdr : List FieldParse)
    (rs rs' : List AuthRes) (priorQ : Bool) (h : SameUpToIdent rs rs') :
    expect T dns hdr rs priorQ = expect T dns hdr rs' priorQ := by
  have key : ∀ rs : List AuthRes, expect T dns hdr (rs.map eraseIdent) priorQ = expect T dns hdr rs priorQ := by
    intro rs
    have e1 : ∀ r f, hasAlignedPass T r f (rs.map eraseIdent) = hasAlignedPass T r f rs := by
      intro r f
      simp only [hasAlignedPass, List.any_map]
      congr 1; funext x; cases x <;> rfl
    have e2 : ∀ r f, hasAlignedTempError T r f (rs.map eraseIdent) = hasAlignedTempError T r f rs := by
      intro r f
      simp only [hasAlignedTempError, List.any_map]
      congr 1; funext x; cases x <;> rfl
    have e3 : bothEvaluated (rs.map eraseIdent) = bothEvaluated rs := by
      simp only [bothEvaluated, List.any_map]
      congr 1 <;> (congr 1; funext x; cases x <;> rfl)
    unfold expect
    simp only [e1, e2, e3]
  rw [← key rs, ← key rs', h]

/-- non-vacuity: lists that differ in the identities (absent, `s.e.c`, `x.c`) are related, lists that
differ in d= are not -/
example : SameUpToIdent [.dkim .pass [101, 46, 99] [], .spf .fail [] []] [.dkim .pass [101, 46, 99] [115, 46, 101, 46, 99], .spf .fail [] []] := rfl
example : ¬ SameUpToIdent [.dkim .pass [101, 46, 99] []] [.dkim .pass [120, 46, 99] []] := by
  unfold SameUpToIdent; decide

/-! ## non-vacuity: a concrete instance of the laws and of every hypothesis

A toy public-suffix list in which every top-level label is a public suffix: `c`; names `e.c`
(organizational), `s.e.c` (subdomain), `E.C` (other spelling), `x.c` (other registrant), `c`
(public suffix), `` (no identifier).  ASCII lower-casing, case-insensitive comparison. -/

def toyLower (s : Str) : Str := s.map fun c => if 65 ≤ c ∧ c ≤ 90 then c + 32 else c

def toySuffix (s : Str) : Str := (s.reverse.takeWhile (· != 46)).reverse

def toyEtld1 (s : Str) : Option Str :=
  let rev := s.reverse
  let l1 := rev.takeWhile (· != 46)
  match rev.dropWhile (· != 46) with
  | [] => none
  | _ :: rest =>
    let l2 := rest.takeWhile (· != 46)
    if l1.isEmpty || l2.isEmpty then none else some (l1 ++ 46 :: l2).reverse

def toyP : Prims := ⟨fun x y => toyLower x == toyLower y, toyLower, toySuffix, toyEtld1⟩

def toyT : DomainTheory :=
  ⟨fun x y => toyLower x == toyLower y, fun x => (toyEtld1 (toyLower x)).getD (toyLower x)⟩

def n_ec : Str := [101, 46, 99]
def n_EC : Str := [69, 46, 67]
def n_sec : Str := [115, 46, 101, 46, 99]
def n_xc : Str := [120, 46, 99]
def n_c : Str := [99]

def toyNames : List Str := [n_ec, n_EC, n_sec, n_xc, n_c, []]

def toyWF (x : Str) : Prop := x ∈ toyNames

instance : DecidablePred toyWF := fun x => inferInstanceAs (Decidable (x ∈ toyNames))

theorem toyLaws : Laws toyP toyT toyWF where
  same_eqFold := fun _ _ => rfl
  same_refl := fun x => by simp [toyT]
  same_symm := fun x y h => by simp [toyT] at h ⊢; exact h.symm
  same_trans := fun x y z h1 h2 => by simp [toyT] at h1 h2 ⊢; exact h1.trans h2
  lower_same := fun x hx => by
    simp only [toyWF, toyNames, List.mem_cons, List.not_mem_nil, or_false] at hx
    rcases hx with rfl | rfl | rfl | rfl | rfl | rfl <;> decide
  suffix_iff := fun x hx => by
    simp only [toyWF, toyNames, List.mem_cons, List.not_mem_nil, or_false] at hx
    rcases hx with rfl | rfl | rfl | rfl | rfl | rfl <;> decide
  org_etld1 := fun x o hx h => by
    simp only [toyWF, toyNames, List.mem_cons, List.not_mem_nil, or_false] at hx
    rcases hx with rfl | rfl | rfl | rfl | rfl | rfl <;>
      first
        | (have h' : some _ = some o := h; cases h'; decide)
        | (have h' : (none : Option Str) = some o := h; cases h')
  org_suffix := fun x hx h => by
    simp only [toyWF, toyNames, List.mem_cons, List.not_mem_nil, or_false] at hx
    rcases hx with rfl | rfl | rfl | rfl | rfl | rfl <;>
      first
        | decide
        | (exact absurd h (by decide))
  suffix_not_org := fun x y o hx hy h1 h2 => by
    simp only [toyWF, toyNames, List.mem_cons, List.not_mem_nil, or_false] at hx hy
    rcases hx with rfl | rfl | rfl | rfl | rfl | rfl <;>
      first
        | (exact absurd h1 (by decide))
        | (rcases hy with rfl | rfl | rfl | rfl | rfl | rfl <;>
            first
              | (have h' : some _ = some o := h2; cases h'; decide)
              | (have h' : (none : Option Str) = some o := h2; cases h'))
  suffix_not_same := fun x y o hx hy h1 h2 => by
    simp only [toyWF, toyNames, List.mem_cons, List.not_mem_nil, or_false] at hx hy
    rcases hx with rfl | rfl | rfl | rfl | rfl | rfl <;>
      first
        | (exact absurd h1 (by decide))
        | (rcases hy with rfl | rfl | rfl | rfl | rfl | rfl <;>
            first
              | decide
              | (have h' : (none : Option Str) = some o := h2; cases h'))

/-- the executable law check agrees on the toy instance -/
example : lawFailure toyP toyT toyNames = none := by decide

/-- a resolver: `_dmarc.e.c` (any spelling) publishes `p=reject; sp=quarantine; adkim=s`, nothing else exists -/
def toyDns (n : Str) : Lookup :=
  if toyLower n == n_ec then .ok [.junk, .dmarc (some ⟨.strict, .relaxed, .reject, some .quarantine, none⟩)]
  else .notFound

theorem toyDns_respects : DnsRespects toyT toyDns := by
  intro x y h
  have : toyLower x = toyLower y := by simpa [toyT] using h
  simp [toyDns, this]

/-- A subdomain author, one DKIM pass of another registrant, SPF temperror on an aligned
identity: all hypotheses of the main theorem hold, the subdomain policy (quarantine) is applied. -/
example :
    let hdr := [FieldParse.addrs [some n_sec]]
    let rs := [AuthRes.dkim .pass n_xc [], .other, .spf .temperror [] n_EC, .dkim .none [] []]
    (∀ d, specAuthor hdr = some d → toyWF d) ∧ (∀ x ∈ rs, WFRes toyWF x) ∧
    (rs.filter isSpf).length ≤ 1 ∧ bothEvaluated rs = true ∧
    discover toyT toyDns n_sec = .found ⟨.strict, .relaxed, .reject, some .quarantine, none⟩ true ∧
    verify toyP toyDns hdr rs 7 = (⟨.temperror, .spfTemp, false, false⟩, .quarantine) ∧
    expect toyT toyDns hdr rs false = ⟨false, .accepted true⟩ := by
  refine ⟨?_, ?_, by decide, by decide, by decide, by decide, by decide⟩
  · intro d hd; cases hd; decide
  · intro x hx
    simp only [List.mem_cons, List.not_mem_nil, or_false] at hx
    rcases hx with rfl | rfl | rfl | rfl
    · show toyWF n_xc; decide
    · trivial
    · exact ⟨by decide, by decide⟩
    · show toyWF []; decide

/-- … and the main theorem applies to it: every hypothesis is discharged. -/
example :
    fateOf (applyResults false (verify toyP toyDns [FieldParse.addrs [some n_sec]]
      [AuthRes.dkim .pass n_xc [], .other, .spf .temperror [] n_EC, .dkim .none [] []] 7)) = some (.accepted true) := by
  have h := (C07_model_eq_spec toyLaws toyDns [FieldParse.addrs [some n_sec]]
    [AuthRes.dkim .pass n_xc [], .other, .spf .temperror [] n_EC, .dkim .none [] []] 7 false toyDns_respects
    (by intro d hd; cases hd; decide)
    (by
      intro x hx
      simp only [List.mem_cons, List.not_mem_nil, or_false] at hx
      rcases hx with rfl | rfl | rfl | rfl
      · show toyWF n_xc; decide
      · trivial
      · exact ⟨by decide, by decide⟩
      · show toyWF []; decide)
    (by decide)
    (by
      intro d r sub hd hdi
      cases hd
      have e : discover toyT toyDns n_sec = .found ⟨.strict, .relaxed, .reject, some .quarantine, none⟩ true := by decide
      rw [e] at hdi; cases hdi; exact Or.inl rfl)
    (by decide)).2
  rw [h]; decide

/-- the organizational domain itself, strict DKIM alignment: a signature of the subdomain does
not align, SPF of the other spelling does (relaxed) → pass; without it → 550. -/
example : (verify toyP toyDns [.addrs [some n_EC]] [.dkim .pass n_sec [], .spf .pass n_ec n_xc] 0).1.val = .pass := by decide
example : applyResults false (verify toyP toyDns [.addrs [some n_EC]] [.dkim .pass n_sec [], .spf .fail n_ec n_xc] 0)
    = .refuse 550 5 7 1 := by decide
/-- aligned DKIM temperror under reject → 450 -/
example : applyResults false (verify toyP toyDns [.addrs [some n_ec]] [.dkim .temperror n_EC [], .spf .fail n_xc n_xc] 0)
    = .refuse 450 4 7 1 := by decide
/-- a temporary lookup failure → 450 whatever the results -/
example : applyResults true (verify toyP (fun _ => .temp) [.addrs [some n_ec]] [.dkim .pass n_ec [], .spf .pass n_ec n_ec] 0)
    = .refuse 450 4 7 1 := by decide
/-- two From fields, the first one empty → no pass (even with aligned passes) -/
example : (verify toyP toyDns [.addrs [], .addrs [some n_ec]] [.dkim .pass n_ec [], .spf .pass n_ec n_ec] 0).1.val = .permerror := by decide
/-- the `pct` draw matters only for partial percentages -/
example : (apply toyP (.record n_ec n_ec ⟨.relaxed, .relaxed, .reject, none, some 50⟩) [.dkim .fail n_ec [], .spf .fail n_ec n_ec] 51).2 = .none := by decide
example : (apply toyP (.record n_ec n_ec ⟨.relaxed, .relaxed, .reject, none, some 50⟩) [.dkim .fail n_ec [], .spf .fail n_ec n_ec] 50).2 = .reject := by decide

/-- The timing statement is not vacuous: the model of the hand-off IS sensitive to a context that
is cancelled early.  A message failing `p=reject` whose policy answer arrives while the second
block's checks run: refused by the code as it is (context of `Body`), … -/
example : pipelineBody toyP toyDns (fun _ => 2) [.addrs [some n_ec]] [[.dkim .fail n_xc []], [.spf .fail n_xc n_xc]] 0 false
    = .refuse 550 5 7 1 := by decide
/-- … accepted unflagged when the lookup's context is cancelled once the first block is done (the
cancelled lookup ends in a non-temporary error: permerror, no policy), … -/
example : pipelineBodyWith (some 1) toyP toyDns (fun _ => 2) [.addrs [some n_ec]] [[.dkim .fail n_xc []], [.spf .fail n_xc n_xc]] 0 false
    = .accept false := by decide
/-- … and a subdomain's message escapes the quarantine flag (`sp=quarantine`) when only the answer
for the organizational domain (the second query) is late. -/
example : pipelineBodyWith (some 1) toyP toyDns (fun n => if n = n_sec then 0 else 3) [.addrs [some n_sec]] [[.dkim .fail n_xc [], .spf .fail n_xc n_xc]] 0 false
    = .accept false := by decide
example : pipelineBody toyP toyDns (fun n => if n = n_sec then 0 else 3) [.addrs [some n_sec]] [[.dkim .fail n_xc [], .spf .fail n_xc n_xc]] 0 false
    = .accept true := by decide
/-- an answer that is there before the early cancellation is used -/
example : pipelineBodyWith (some 1) toyP toyDns (fun _ => 1) [.addrs [some n_ec]] [[.dkim .fail n_xc []], [.spf .fail n_xc n_xc]] 0 false
    = .refuse 550 5 7 1 := by decide


/-! ## how a check hands its verdict over takes no part in verdict or action

A check reports its authentication results at the connection, sender, recipient or body stage,
bare or together with a `Reason` and no action of its own (`check.spf` leaving the decision to
DMARC, or with action "ignore"), with an action of its own (quarantine), with header fields, and may
be referenced by several blocks.  Every reported result is evaluated, exactly the reported ones
are, and the decision is the specified one for the results put together. -/

/-- a check's result without everything the DMARC decision must not depend on -/
def bareCheck (c : CheckRes) : CheckRes := { c with reason := false, header := false, again := false }

/-- agree up to attached reasons, header fields and repeated references -/
def SameUpToWrapping (cs cs' : List CheckRes) : Prop := cs.map bareCheck = cs'.map bareCheck

theorem bareCheck_phase (c : CheckRes) : (bareCheck c).phase = c.phase := rfl
theorem bareCheck_results (c : CheckRes) : (bareCheck c).results = c.results := rfl
theorem bareCheck_quarantine (c : CheckRes) : (bareCheck c).quarantine = c.quarantine := rfl

theorem mergedResults_bare (cs : List CheckRes) : mergedResults (cs.map bareCheck) = mergedResults cs := by
  unfold mergedResults
  simp only [List.filter_map, List.map_map, Function.comp_def, bareCheck_phase, bareCheck_results]

theorem mergedQuarantine_bare (flagged : Bool) (cs : List CheckRes) :
    mergedQuarantine flagged (cs.map bareCheck) = mergedQuarantine flagged cs := by
  simp only [mergedQuarantine, List.any_map, Function.comp_def, bareCheck_quarantine]

theorem phase_le_two (c : CheckRes) : c.phase = 0 ∨ c.phase = 1 ∨ c.phase = 2 := by
  unfold CheckRes.phase
  cases h : c.stage <;> simp only [h] <;> (first | (split <;> simp) | simp)

/-- Nothing is lost and nothing is invented on the way to DMARC: a result is evaluated iff some
check reported it - at whatever stage, with whatever attached. -/
theorem C07_reported_results_are_the_evaluated_ones (cs : List CheckRes) (r : AuthRes) :
    r ∈ (mergedResults cs).flatten ↔ ∃ c ∈ cs, r ∈ c.results := by
  simp only [mergedResults, List.mem_flatten, List.mem_flatMap, List.mem_map, List.mem_filter]
  constructor
  · rintro ⟨l, ⟨ph, _, c, ⟨hc, _⟩, rfl⟩, hr⟩
    exact ⟨c, hc, hr⟩
  · rintro ⟨c, hc, hr⟩
    refine ⟨c.results, ⟨c.phase, ?_, c, ⟨hc, by simp⟩, rfl⟩, hr⟩
    rcases phase_le_two c with h | h | h <;> simp [h]

/-- The pipeline's decision for checks is `applyResults ∘ verify` on the results put together. -/
theorem C07_checks_timing_irrelevant (P : Prims) (dns : Str → Lookup) (arrive : Str → Nat)
    (hdr : List FieldParse) (cs : List CheckRes) (rnd : Nat) (flagged : Bool) :
    pipelineChecks P dns arrive hdr cs rnd flagged =
      applyResults (mergedQuarantine flagged cs) (verify P dns hdr (mergedResults cs).flatten rnd) := by
  unfold pipelineChecks
  rw [C07_answer_timing_irrelevant]

/-- Attached reasons, header fields and repeated references do not change the reply. -/
theorem C07_reply_ignores_check_wrapping (P : Prims) (dns : Str → Lookup) (arrive arrive' : Str → Nat)
    (hdr : List FieldParse) (cs cs' : List CheckRes) (rnd : Nat) (flagged : Bool)
    (h : SameUpToWrapping cs cs') :
    pipelineChecks P dns arrive hdr cs rnd flagged = pipelineChecks P dns arrive' hdr cs' rnd flagged := by
  rw [C07_checks_timing_irrelevant, C07_checks_timing_irrelevant,
    ← mergedResults_bare cs, ← mergedResults_bare cs', ← mergedQuarantine_bare flagged cs,
    ← mergedQuarantine_bare flagged cs', h]

/-- The main theorem for checks: whatever comes with the verdicts and at whatever stage they are
reported, the fate of the message is the specified one for the reported results. -/
theorem C07_checks_eq_spec {P : Prims} {T : DomainTheory} {WF : Str → Prop} (L : Laws P T WF)
    (dns : Str → Lookup) (arrive : Str → Nat) (hdr : List FieldParse) (cs : List CheckRes)
    (rnd : Nat) (flagged : Bool)
    (hdns : DnsRespects T dns)
    (hwf : ∀ d, specAuthor hdr = some d → WF d)
    (hrs : ∀ c ∈ cs, ∀ x ∈ c.results, WFRes WF x)
    (h1 : ((mergedResults cs).flatten.filter isSpf).length ≤ 1)
    (hpct : ∀ d r sub, specAuthor hdr = some d → discover T dns d = .found r sub →
      r.pct = none ∨ r.pct = some 100)
    (hrnd : rnd < 100) :
    fateOf (pipelineChecks P dns arrive hdr cs rnd flagged) =
      some (expect T dns hdr (mergedResults cs).flatten (mergedQuarantine flagged cs)).fate := by
  unfold pipelineChecks
  apply C07_pipeline_eq_spec L dns arrive hdr _ rnd _ hdns hwf _ h1 hpct hrnd
  intro x hx
  obtain ⟨c, hc, hr⟩ := (C07_reported_results_are_the_evaluated_ones cs x).mp hx
  exact hrs c hc x hr

example : SameUpToWrapping
    [⟨0, .body, [.spf .fail [] []], true, false, true, true⟩]
    [⟨0, .body, [.spf .fail [] []], false, false, false, false⟩] := rfl
example : ¬ SameUpToWrapping
    [⟨0, .body, [.spf .fail [] []], true, false, false, false⟩]
    [⟨0, .body, [], true, false, false, false⟩] := by
  intro h; simp [SameUpToWrapping, bareCheck] at h

/-- The order in which the results are put together: command by command, not block by block (a
source check reporting at the sender stage comes before a global check reporting at the
recipient stage). -/
example : mergedResults
    [⟨0, .rcpt, [.other], false, false, false, false⟩, ⟨1, .sender, [.spf .fail [] []], true, false, false, false⟩,
     ⟨2, .conn, [.dkim .pass [] []], false, false, false, false⟩]
    = [[.spf .fail [] []], [.other], [.dkim .pass [] []]] := by decide

/-- Not vacuous: the decision IS sensitive to a verdict that does not arrive.  `p=reject`, nothing
aligned, the SPF verdict handed over with a reason and no action: refused … -/
example : pipelineChecks toyP toyDns (fun _ => 0) [.addrs [some n_ec]]
    [⟨0, .body, [.dkim .pass n_xc []], false, false, false, false⟩,
     ⟨1, .body, [.spf .fail n_xc n_xc], true, false, false, false⟩] 0 false = .refuse 550 5 7 1 := by decide
/-- … while without that check's results (what a runner that returns early on "reason, no action"
hands to DMARC) the message would be accepted: SPF counts as not evaluated. -/
example : pipelineChecks toyP toyDns (fun _ => 0) [.addrs [some n_ec]]
    [⟨0, .body, [.dkim .pass n_xc []], false, false, false, false⟩,
     ⟨1, .body, [], true, false, false, false⟩] 0 false = .accept false := by decide
/-- a check's own quarantine action is kept when DMARC has nothing to add -/
example : pipelineChecks toyP (fun _ => .notFound) (fun _ => 0) [.addrs [some n_ec]]
    [⟨0, .sender, [.spf .softfail n_xc n_xc], true, true, false, false⟩] 0 false = .accept true := by decide


/-! ## the executable law check means what `Laws` says, on the listed names -/

theorem checkOne_none (ds : List Str) (name : String) (f : Str → Bool) :
    checkOne ds name f = none ↔ ∀ x ∈ ds, f x = true := by
  simp [checkOne, List.find?_eq_none]

theorem checkTwo_none (ds : List Str) (name : String) (f : Str → Str → Bool) :
    checkTwo ds name f = none ↔ ∀ x ∈ ds, ∀ y ∈ ds, f x y = true := by
  simp only [checkTwo, Option.map_eq_none_iff, List.find?_eq_none, List.mem_flatMap, List.mem_map]
  constructor
  · intro h x hx y hy
    have := h (x, y) ⟨x, hx, y, hy, rfl⟩
    simpa using this
  · rintro h ⟨a, b⟩ ⟨x, hx, y, hy, hxy⟩
    simp only [Prod.mk.injEq] at hxy
    obtain ⟨rfl, rfl⟩ := hxy
    simpa using h _ hx _ hy

theorem orElse_none {α} (a b : Option α) : (a <|> b) = none ↔ a = none ∧ b = none := by
  cases a <;> simp

/-- **Soundness of the `laws` op.**  When the executable check finds no failure over the list
`ds` of names (this is what the driver answers `ok` for, on the answers of the real libraries and
the hand-written organizational domains), every law of `Laws` holds for the names of the list. -/
theorem C07_lawFailure_sound (P : Prims) (T : DomainTheory) (ds : List Str)
    (h : lawFailure P T ds = none) :
    (∀ x ∈ ds, ∀ y ∈ ds, T.same x y = P.eqFold x y) ∧
    (∀ x ∈ ds, T.same x x = true) ∧
    (∀ x ∈ ds, ∀ y ∈ ds, T.same x y = true → T.same y x = true) ∧
    (∀ x ∈ ds, ∀ y ∈ ds, ∀ z ∈ ds, T.same x y = true → T.same y z = true → T.same x z = true) ∧
    (∀ x ∈ ds, T.same (P.lower x) x = true) ∧
    (∀ x ∈ ds, (P.eqFold (P.lower x) (P.publicSuffix (P.lower x)) = true ↔ P.etld1 (P.lower x) = none)) ∧
    (∀ x ∈ ds, ∀ o, P.etld1 (P.lower x) = some o → T.same (T.org x) o = true) ∧
    (∀ x ∈ ds, P.etld1 (P.lower x) = none → T.same (T.org x) x = true) ∧
    (∀ x ∈ ds, ∀ y ∈ ds, ∀ o, P.etld1 (P.lower x) = none → P.etld1 (P.lower y) = some o → T.same x o = false) ∧
    (∀ x ∈ ds, ∀ y ∈ ds, ∀ o, P.etld1 (P.lower x) = none → P.etld1 (P.lower y) = some o → T.same x y = false) := by
  unfold lawFailure at h
  simp only [orElse_none, checkOne_none, checkTwo_none] at h
  obtain ⟨h1, h2, h3, h4, h5, h6, h7, h8, h9, h10⟩ := h
  refine ⟨?_, h2, ?_, ?_, h5, ?_, ?_, ?_, ?_, ?_⟩
  · intro x hx y hy; simpa using h1 x hx y hy
  · intro x hx y hy hxy; have := h3 x hx y hy; simpa [hxy] using this
  · intro x hx y hy z hz hxy hyz
    have := h4 x hx y hy
    rw [List.all_eq_true] at this
    simpa [hxy, hyz] using this z hz
  · intro x hx
    have := h6 x hx
    cases he : P.etld1 (P.lower x) <;> simp [he] at this ⊢ <;> exact this
  · intro x hx o he; have := h7 x hx; simpa [he] using this
  · intro x hx he; have := h8 x hx; simpa [he] using this
  · intro x hx y hy o h1' h2'; have := h9 x hx y hy; simpa [h1', h2'] using this
  · intro x hx y hy o h1' h2'; have := h10 x hx y hy; simpa [h1', h2'] using this

/-! ### Routing blocks between the evaluating pipeline and the storage -/

theorem routed_accept (hops : List Bool) (q : Bool) :
    routed hops (.accept q) = .accept (q || hops.any id) := by
  induction hops generalizing q with
  | nil => simp [routed]
  | cons h t ih =>
    have : routed (h :: t) (.accept q) = routed t (.accept (q || h)) := by
      simp [routed, applyResultsRouting]
    rw [this, ih]
    simp [Bool.or_assoc]

theorem routed_refuse (hops : List Bool) (c a b d : Nat) :
    routed hops (.refuse c a b d) = .refuse c a b d := by
  induction hops with
  | nil => simp [routed]
  | cons h t ih =>
    have : routed (h :: t) (.refuse c a b d) = routed t (.refuse c a b d) := by
      simp [routed, applyResultsRouting]
    rw [this, ih]

/-- "quarantine flags it": whatever routing blocks (nested pipelines) lie between the pipeline that
evaluated DMARC and the storage target, a message flagged by the evaluation arrives flagged. -/
theorem C07_quarantine_survives_routing (hops : List Bool) :
    routed hops (.accept true) = .accept true := by
  rw [routed_accept]; simp

/-- Routing blocks whose own checks flag nothing do not change the fate at all. -/
theorem C07_routing_is_transparent (hops : List Bool) (h : hops.any id = false) (r : Reply) :
    routed hops r = r := by
  cases r with
  | refuse c a b d => exact routed_refuse hops c a b d
  | accept q => rw [routed_accept, h]; simp

/-- The main theorem carried through the routing blocks: the storage target sees the fate the
specification prescribes for the reported results (a refusal, or acceptance flagged iff the
evaluation or some check - of the evaluating pipeline or of a routing block - flagged it). -/
theorem C07_routed_checks_timing_irrelevant (P : Prims) (dns : Str → Lookup) (arrive : Str → Nat)
    (hdr : List FieldParse) (cs : List CheckRes) (rnd : Nat) (flagged : Bool) (hops : List Bool) :
    routed hops (pipelineChecks P dns arrive hdr cs rnd flagged) =
      routed hops (applyResults (mergedQuarantine flagged cs) (verify P dns hdr (mergedResults cs).flatten rnd)) := by
  rw [C07_checks_timing_irrelevant]

example : routed [false, false] (.accept true) = .accept true := by decide
example : routed [false, true] (.accept false) = .accept true := by decide
-- what the storage must NOT see: a routing block's applyResults writing its own (empty) decision
example : routed [false] (.accept true) ≠ .accept false := by decide

end MaddyVerif.C07
