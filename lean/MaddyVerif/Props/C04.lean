import MaddyVerif.Model.Routing
import MaddyVerif.Generated.Pipeline
import MaddyVerif.Expect.Pipeline
/-!
# C04 — routing follows the documented precedence for every configuration and envelope

Quantifier: every configuration text `a : Ast n` of every `reroute` nesting depth `n`, every
normalisation `N : Norm` (address.ForLookup / dns.ForLookup / validMatchRule / address.Valid),
every sender and recipient string.

* `spec` — the documented rules read directly off the configuration text (declaration order;
  tables, then full-address rules, then domain rules, then the default block; sender first, then
  recipient; on the addresses produced by the rewrites of the enclosing scopes).  It never looks
  at a loaded configuration.
* `C04_route_refines_spec` — for every accepted configuration, what the loaded pipeline does
  (`route`: hand-offs in order and the reply) is exactly what `spec` says.
* `C04_loaded_is_complete`, `C04_every_recipient_decided` — accepted configurations carry a
  decision in every block; no recipient is accepted without being handed to a target.
* `C04_key_invariance` (+ `C04_spelling_insensitive` for the model of the real `ForLookup`) —
  envelopes with equal lookup keys get the same decision.
* `C04_no_panic`.

Reading of "each recipient": every address produced by the rewrites is handled by the block the
precedence selects for it; the reply to the RCPT command is that of the first such address that
is refused (later ones are not looked at, earlier ones stay handed off) — this is what `seqOut`
says, in the specification as in the code.
-/
namespace MaddyVerif.C04
open MaddyVerif.Routing MaddyVerif.Address

/-! ## the specification -/

/-- the modifiers declared by `modify` directives among `hs`, in order -/
def modsOf {H} (kind : H → HKind) (hs : List H) : List Modifier :=
  hs.flatMap (fun h => match kind h with
    | .modify (some ms) => ms
    | _ => [])

/-- a `source` / `destination` block with rules `rs` is written for key `k` -/
def ruleMatches (N : Norm) (rs : List Str) (k : Str) : Bool :=
  rs.any (fun r => normRule N r == some k)

/-- first table block, in declaration order, whose table has `k` -/
def specTbl {H} (nodes : List (LNode H)) (k : Str) : Option (List H) :=
  nodes.findSome? (fun
    | .tbl (some t) b => if t.contains k then some b else none
    | _ => none)

/-- first rule block, in declaration order, with a rule for `k` -/
def specRule {H} (N : Norm) (nodes : List (LNode H)) (k : Str) : Option (List H) :=
  nodes.findSome? (fun
    | .rules rs b => if ruleMatches N rs k then some b else none
    | _ => none)

/-- the handling directives written directly at this level -/
def handlingOf {H} (kind : H → HKind) (nodes : List (LNode H)) : List H :=
  nodes.filterMap (fun
    | .sub h => (match kind h with
      | .handling => some h
      | _ => none)
    | _ => none)

/-- the default block: `default_… { … }` when there is a non-empty one, otherwise "the entire
block is the default block" -/
def specDefault {H} (kind : H → HKind) (nodes : List (LNode H)) : List H :=
  match nodes.findSome? (fun
    | .dflt b => some b
    | _ => none) with
  | some b => if b.isEmpty then handlingOf kind nodes else b
  | none => handlingOf kind nodes

/-- **The documented precedence**: table match, then full-address rule, then domain rule, then
default; first declaration wins. -/
def specSelect {H} (N : Norm) (kind : H → HKind) (nodes : List (LNode H)) (k : Str) (nullOk : Bool) :
    Except Refusal (List H) :=
  match specTbl nodes k with
  | some b => .ok b
  | none =>
    match specRule N nodes k with
    | some b => .ok b
    | none =>
      match split k with
      | .error _ =>
        if nullOk && k.isEmpty then
          match specRule N nodes [] with
          | some b => .ok b
          | none => .ok (specDefault kind nodes)
        else .error r501_513
      | .ok (_, dom) =>
        match specRule N nodes dom with
        | some b => .ok b
        | none => .ok (specDefault kind nodes)

def rejStep {ρ} (acc : Option Reply) (it : Item ρ) : Option Reply :=
  match it with
  | .reject (some r) => some r
  | _ => acc

/-- the reply configured in a block (the last `reject`, if several are written) -/
def bodyReject {ρ} (items : List (Item ρ)) : Option Reply := items.foldl rejStep none

def specDeliver {ρ} (ssub : ρ → Str → Str → Out) (sender to : Str) : Item ρ → Out
  | .deliverTo (.target id) => ([⟨id, sender, to⟩], none)
  | .reroute (some body) => ssub body sender to
  | _ => ([], none)

/-- what a destination block does: its reply, or every address its own modifiers produce goes to
every `deliver_to` / `reroute` of the block, in order -/
def specBlock {ρ} (N : Norm) (ssub : ρ → Str → Str → Out) (items : List (Item ρ)) (sender to : Str) : Out :=
  match bodyReject items with
  | some r => refuse (.reply r)
  | none =>
    match rewriteRcpt N (modsOf Item.kind items) [to] with
    | .error e => refuse e
    | .ok tos => seqOut (fun t => seqOut (specDeliver ssub sender t) items) tos

def specRcpt {ρ} (N : Norm) (ssub : ρ → Str → Str → Out) (sbody : List (SrcN ρ)) (sender to : Str) : Out :=
  match N.key to with
  | none => refuse r553_512
  | some k =>
    match specSelect N Item.kind sbody k false with
    | .error e => refuse e
    | .ok items => specBlock N ssub items sender to

/-- one pipeline text, one sender, one recipient -/
def specF {ρ} (N : Norm) (ssub : ρ → Str → Str → Out) (root : List (RootN ρ)) (sender to : Str) : Out :=
  let gm := modsOf (LNode.kind (LNode.kind Item.kind)) root
  match rewriteSender N gm sender with
  | .error e => refuse e
  | .ok f1 =>
    match srcKey N f1 with
    | none => refuse r501_517
    | some k =>
      match specSelect N (LNode.kind Item.kind) root k true with
      | .error e => refuse e
      | .ok sbody =>
        let sm := modsOf (LNode.kind Item.kind) sbody
        match rewriteSender N sm f1 with
        | .error e => refuse e
        | .ok f2 =>
          match rewriteRcpt2 N gm sm to with
          | .error e => refuse e
          | .ok l2 => seqOut (specRcpt N ssub sbody f2) l2

/-- the specification, for configuration texts of any nesting depth -/
def spec (N : Norm) : (n : Nat) → Ast n → Str → Str → Out
  | 0, a => specF N (fun e _ _ => nomatch e) a
  | n + 1, a => specF N (spec N n) a

/-! ## helper lemmas: sequencing -/

/-- `a`, then (unless `a` failed) `b` -/
def Out.andThen (a b : Out) : Out :=
  match a.2 with
  | some e => (a.1, some e)
  | none => (a.1 ++ b.1, b.2)

theorem andThen_nil_left (b : Out) : Out.andThen ([], none) b = b := by
  simp [Out.andThen]

theorem andThen_nil_right (a : Out) : Out.andThen a ([], none) = a := by
  rcases a with ⟨d, e⟩
  cases e <;> simp [Out.andThen]

theorem andThen_assoc (a b c : Out) : Out.andThen (Out.andThen a b) c = Out.andThen a (Out.andThen b c) := by
  rcases a with ⟨d1, e1⟩
  rcases b with ⟨d2, e2⟩
  cases e1 <;> cases e2 <;> simp [Out.andThen]

theorem seqOut_cons {α} (f : α → Out) (a : α) (r : List α) :
    seqOut f (a :: r) = Out.andThen (f a) (seqOut f r) := by
  simp only [seqOut, Out.andThen]
  rcases h : f a with ⟨d, e⟩
  cases e <;> simp

theorem seqOut_single {α} (f : α → Out) (a : α) : seqOut f [a] = f a := by
  rw [seqOut_cons]
  simp [seqOut, andThen_nil_right]

theorem seqOut_append {α} (f : α → Out) (l1 l2 : List α) :
    seqOut f (l1 ++ l2) = Out.andThen (seqOut f l1) (seqOut f l2) := by
  induction l1 with
  | nil => simp [seqOut, andThen_nil_left]
  | cons a r ih => simp [seqOut_cons, ih, andThen_assoc]

theorem seqOut_congr {α} (f g : α → Out) (l : List α) (h : ∀ a ∈ l, f a = g a) :
    seqOut f l = seqOut g l := by
  induction l with
  | nil => rfl
  | cons a r ih =>
    rw [seqOut_cons, seqOut_cons, h a (by simp), ih (fun x hx => h x (by simp [hx]))]

/-! ## helper lemmas: association lists -/

theorem lookup_nil {β} (k : Str) : lookup ([] : List (Str × β)) k = none := rfl

theorem firstIn_nil {β} (k : Str) : firstIn ([] : List (Table × β)) k = none := rfl

theorem lookup_append_single {β} (m : List (Str × β)) (k' : Str) (b : β) (k : Str) :
    lookup (m ++ [(k', b)]) k =
      match lookup m k with
      | some x => some x
      | none => if k' == k then some b else none := by
  unfold lookup
  rw [List.find?_append]
  cases h : m.find? (fun p => p.1 == k) with
  | some p => simp
  | none =>
    by_cases hk : k' == k <;> simp [List.find?, hk]

theorem firstIn_append_single {β} (l : List (Table × β)) (t : Table) (b : β) (k : Str) :
    firstIn (l ++ [(t, b)]) k =
      match firstIn l k with
      | some x => some x
      | none => if t.contains k then some b else none := by
  unfold firstIn
  rw [List.find?_append]
  cases h : l.find? (fun p => p.1.contains k) with
  | some p => simp
  | none =>
    cases hk : t.contains k <;> simp only [List.find?, hk, Option.none_or] <;> rfl

/-! ## destination blocks -/

/-- nested pipelines that were loaded behave as the specification of their text -/
def SubAgree {ρ σ} (sub : ρ → Except LoadErr σ) (rsub : σ → Str → Str → Out) (ssub : ρ → Str → Str → Out) : Prop :=
  ∀ body p, sub body = .ok p → ∀ s t, rsub p s t = ssub body s t

theorem modsOf_cons {H} (kind : H → HKind) (h : H) (r : List H) :
    modsOf kind (h :: r) = (match kind h with | .modify (some ms) => ms | _ => []) ++ modsOf kind r := by
  simp [modsOf]

theorem loadItems_spec {ρ σ} (sub : ρ → Except LoadErr σ) (rsub : σ → Str → Str → Out)
    (ssub : ρ → Str → Str → Out) (hsub : SubAgree sub rsub ssub) :
    ∀ (items : List (Item ρ)) (b0 b : RcptBlk σ), loadItems sub items b0 = .ok b →
      b.mods = b0.mods ++ modsOf Item.kind items ∧
      b.reject = items.foldl rejStep b0.reject ∧
      ∀ s t, seqOut (deliverOne rsub s t) b.targets =
        Out.andThen (seqOut (deliverOne rsub s t) b0.targets) (seqOut (specDeliver ssub s t) items) := by
  intro items
  induction items with
  | nil =>
    intro b0 b h
    simp [loadItems] at h
    subst h
    simp [modsOf, seqOut, andThen_nil_right]
  | cons it r ih =>
    intro b0 b h
    cases it with
    | check ok =>
      cases ok with
      | false => simp [loadItems] at h
      | true =>
        simp [loadItems] at h
        obtain ⟨h1, h2, h3⟩ := ih b0 b h
        refine ⟨?_, ?_, ?_⟩
        · simp [h1, modsOf_cons, Item.kind]
        · simp [h2, rejStep]
        · intro s t
          rw [h3 s t, seqOut_cons]
          simp [specDeliver, andThen_nil_left]
    | modify ms =>
      cases ms with
      | none => simp [loadItems] at h
      | some ms =>
        simp [loadItems] at h
        obtain ⟨h1, h2, h3⟩ := ih _ b h
        refine ⟨?_, ?_, ?_⟩
        · simp [h1, modsOf_cons, Item.kind]
        · simp [h2, rejStep]
        · intro s t
          rw [h3 s t, seqOut_cons]
          simp [specDeliver, andThen_nil_left]
    | deliverTo a =>
      simp only [loadItems] at h
      split at h
      · simp at h
      · cases a with
        | noArgs => simp at h
        | unknown => simp at h
        | target id =>
          simp at h
          obtain ⟨h1, h2, h3⟩ := ih _ b h
          refine ⟨?_, ?_, ?_⟩
          · simp [h1, modsOf_cons, Item.kind]
          · simp [h2, rejStep]
          · intro s t
            rw [h3 s t, seqOut_cons, seqOut_append, andThen_assoc]
            simp [specDeliver, seqOut, deliverOne, Out.andThen]
    | reroute body =>
      cases body with
      | none => simp [loadItems] at h
      | some body =>
        simp only [loadItems] at h
        split at h
        · simp at h
        · rename_i p hp
          obtain ⟨h1, h2, h3⟩ := ih _ b h
          refine ⟨?_, ?_, ?_⟩
          · simp [h1, modsOf_cons, Item.kind]
          · simp [h2, rejStep]
          · intro s t
            rw [h3 s t, seqOut_cons, seqOut_append, andThen_assoc]
            simp [specDeliver, seqOut_single, deliverOne, hsub body p hp s t]
    | reject rr =>
      simp only [loadItems] at h
      split at h
      · simp at h
      · cases rr with
        | none => simp at h
        | some rep =>
          simp at h
          obtain ⟨h1, h2, h3⟩ := ih _ b h
          refine ⟨?_, ?_, ?_⟩
          · simp [h1, modsOf_cons, Item.kind]
          · simp [h2, rejStep]
          · intro s t
            rw [h3 s t, seqOut_cons]
            simp [specDeliver, andThen_nil_left]
    | other => simp [loadItems] at h

theorem loadRcpt_ok {ρ σ} (sub : ρ → Except LoadErr σ) (items : List (Item ρ)) (blk : RcptBlk σ)
    (h : loadRcpt sub items = .ok blk) :
    loadItems sub items {} = .ok blk ∧ (blk.targets ≠ [] ∨ blk.reject.isSome = true) := by
  unfold loadRcpt at h
  split at h
  · simp at h
  · rename_i b hb
    split at h
    · simp at h
    · rename_i hc
      simp at h
      subst h
      refine ⟨hb, ?_⟩
      cases ht : b.targets with
      | nil =>
        cases hr : b.reject with
        | none => simp [ht, hr] at hc
        | some r => simp
      | cons x xs => simp

/-- a loaded destination block does what the specification says about its text -/
theorem loadRcpt_spec {ρ σ} (N : Norm) (sub : ρ → Except LoadErr σ) (rsub : σ → Str → Str → Out)
    (ssub : ρ → Str → Str → Out) (hsub : SubAgree sub rsub ssub)
    (items : List (Item ρ)) (blk : RcptBlk σ) (h : loadRcpt sub items = .ok blk) (s t : Str) :
    runBlock N rsub blk s t = specBlock N ssub items s t := by
  obtain ⟨h1, h2, h3⟩ := loadItems_spec sub rsub ssub hsub items {} blk (loadRcpt_ok sub items blk h).1
  simp at h1 h2
  unfold runBlock specBlock bodyReject
  rw [h2, h1]
  cases List.foldl rejStep none items with
  | some r => rfl
  | none =>
    simp only
    cases rewriteRcpt N (modsOf Item.kind items) [t] with
    | error e => rfl
    | ok tos =>
      simp only
      apply seqOut_congr
      intro a _
      rw [h3 s a]
      simp [seqOut, andThen_nil_left]

/-! ## levels with match rules -/

theorem ruleMatches_nil (N : Norm) (k : Str) : ruleMatches N [] k = false := rfl

theorem ruleMatches_cons (N : Norm) (r : Str) (rs : List Str) (k : Str) :
    ruleMatches N (r :: rs) k = (normRule N r == some k || ruleMatches N rs k) := by
  simp [ruleMatches]

/-- first declaration wins: after the rules of a block have been inserted, a key that was already
present keeps its block, a new key written in the block gets the block -/
theorem insertRules_lookup {β} (N : Norm) (l : Lvl) (blk : β) :
    ∀ (rs : List Str) (m m' : List (Str × β)), insertRules N l blk rs m = .ok m' →
      ∀ k, lookup m' k =
        match lookup m k with
        | some b => some b
        | none => if ruleMatches N rs k then some blk else none := by
  intro rs
  induction rs with
  | nil =>
    intro m m' h k
    simp [insertRules] at h
    subst h
    cases lookup m k <;> simp [ruleMatches_nil]
  | cons r rs ih =>
    intro m m' h k
    simp only [insertRules] at h
    split at h
    · simp at h
    · rename_i kr hkr
      split at h
      · simp at h
      · split at h
        · rename_i hpres
          rw [ih m m' h k, ruleMatches_cons, hkr]
          cases hm : lookup m k with
          | some b => rfl
          | none =>
            have hne : (kr == k) = false := by
              cases hkk : kr == k with
              | false => rfl
              | true =>
                have : kr = k := by simpa using hkk
                subst this
                simp [hm] at hpres
            have : (some kr == some k) = false := by simpa using hne
            simp [this]
        · rw [ih _ m' h k, lookup_append_single, ruleMatches_cons, hkr]
          cases hm : lookup m k with
          | some b => rfl
          | none =>
            cases hkk : kr == k with
            | true =>
              have : (some kr == some k) = true := by simpa using hkk
              simp [this]
            | false =>
              have : (some kr == some k) = false := by simpa using hkk
              simp [this]

/-- how the answer for a key evolves while the blocks of a level are read: an earlier block keeps
the key; otherwise the first block of the remaining text that is written for it gets it -/
def Sel {H Blk} (loadBody : List H → Except LoadErr Blk) (prev : Option Blk) (sp : Option (List H))
    (res : Option Blk) : Prop :=
  match prev with
  | some b => res = some b
  | none =>
    match sp with
    | some body => ∃ blk, loadBody body = .ok blk ∧ res = some blk
    | none => res = none

theorem Sel_cons {H Blk} (loadBody : List H → Except LoadErr Blk) (prev : Option Blk)
    (hd : Option (List H)) (hb : Option Blk) (spR : Option (List H)) (res : Option Blk)
    (hhd : ∀ body, hd = some body → ∃ blk, loadBody body = .ok blk ∧ hb = some blk)
    (hhd' : hd = none → hb = none)
    (ih : Sel loadBody (match prev with | some x => some x | none => hb) spR res) :
    Sel loadBody prev (hd.or spR) res := by
  cases prev with
  | some x => simpa [Sel] using ih
  | none =>
    cases hd with
    | none =>
      have := hhd' rfl
      subst this
      simpa [Sel] using ih
    | some body =>
      obtain ⟨blk, h1, h2⟩ := hhd body rfl
      subst h2
      simp [Sel] at ih
      simp [Sel]
      exact ⟨blk, h1, ih⟩

theorem specTbl_cons {H} (nd : LNode H) (r : List (LNode H)) (k : Str) :
    specTbl (nd :: r) k =
      (match nd with
       | .tbl (some t) b => if t.contains k then some b else none
       | _ => none).or (specTbl r k) := by
  simp only [specTbl, List.findSome?_cons]
  split <;> simp_all

theorem specRule_cons {H} (N : Norm) (nd : LNode H) (r : List (LNode H)) (k : Str) :
    specRule N (nd :: r) k =
      (match nd with
       | .rules rs b => if ruleMatches N rs k then some b else none
       | _ => none).or (specRule N r k) := by
  simp only [specRule, List.findSome?_cons]
  split <;> simp_all

def dfltOf {H} (nodes : List (LNode H)) : Option (List H) :=
  nodes.findSome? (fun
    | .dflt b => some b
    | _ => none)

theorem handlingOf_cons {H} (kind : H → HKind) (nd : LNode H) (r : List (LNode H)) :
    handlingOf kind (nd :: r) =
      (match nd with
       | .sub h => (match kind h with
         | .handling => [h]
         | _ => [])
       | _ => []) ++ handlingOf kind r := by
  cases nd with
  | sub h => cases hk : kind h <;> simp [handlingOf, hk]
  | _ => simp [handlingOf]

/-- what the loop of `parseMsgPipelineRootCfg` / `SrcCfg` has collected, in terms of the text -/
theorem loadNodes_spec {H Blk} (N : Norm) (l : Lvl) (kind : H → HKind)
    (loadBody : List H → Except LoadErr Blk) :
    ∀ (nodes : List (LNode H)) (a0 a : Acc H Blk), loadNodes N l kind loadBody nodes a0 = .ok a →
      a.mods = a0.mods ++ modsOf (LNode.kind kind) nodes ∧
      a.others = a0.others ++ handlingOf kind nodes ∧
      a.dflt = (match a0.dflt with
        | some d => some d
        | none => dfltOf nodes) ∧
      (∀ k, Sel loadBody (firstIn a0.ins k) (specTbl nodes k) (firstIn a.ins k)) ∧
      (∀ k, Sel loadBody (lookup a0.per k) (specRule N nodes k) (lookup a.per k)) := by
  intro nodes
  induction nodes with
  | nil =>
    intro a0 a h
    simp [loadNodes] at h
    subst h
    refine ⟨by simp [modsOf], by simp [handlingOf], ?_, ?_, ?_⟩
    · cases a0.dflt <;> simp [dfltOf]
    · intro k
      cases hx : firstIn a0.ins k <;> simp [Sel, specTbl]
    · intro k
      cases hx : lookup a0.per k <;> simp [Sel, specRule]
  | cons nd r ih =>
    intro a0 a h
    cases nd with
    | tbl t body =>
      cases t with
      | none => simp [loadNodes] at h
      | some t =>
        simp only [loadNodes] at h
        split at h
        · simp at h
        · rename_i b hb
          obtain ⟨h1, h2, h3, h4, h5⟩ := ih _ a h
          refine ⟨?_, ?_, ?_, ?_, ?_⟩
          · simpa [modsOf_cons, LNode.kind] using h1
          · simpa [handlingOf_cons] using h2
          · simpa [dfltOf, List.findSome?_cons] using h3
          · intro k
            have := h4 k
            simp only [firstIn_append_single] at this
            rw [specTbl_cons]
            apply Sel_cons loadBody _ (if t.contains k then some body else none)
              (if t.contains k then some b else none) _ _ _ _ this
            · cases t.contains k <;> simp [hb]
            · cases t.contains k <;> simp
          · intro k
            simpa [specRule_cons] using h5 k
    | rules rs body =>
      simp only [loadNodes] at h
      split at h
      · simp at h
      · rename_i b hb
        split at h
        · simp at h
        · split at h
          · simp at h
          · rename_i per hper
            obtain ⟨h1, h2, h3, h4, h5⟩ := ih _ a h
            refine ⟨?_, ?_, ?_, ?_, ?_⟩
            · simpa [modsOf_cons, LNode.kind] using h1
            · simpa [handlingOf_cons] using h2
            · simpa [dfltOf, List.findSome?_cons] using h3
            · intro k
              simpa [specTbl_cons] using h4 k
            · intro k
              have := h5 k
              simp only [insertRules_lookup N l b rs a0.per per hper k] at this
              rw [specRule_cons]
              apply Sel_cons loadBody _ (if ruleMatches N rs k then some body else none)
                (if ruleMatches N rs k then some b else none) _ _ _ _ this
              · cases ruleMatches N rs k <;> simp [hb]
              · cases ruleMatches N rs k <;> simp
    | dflt body =>
      simp only [loadNodes] at h
      split at h
      · simp at h
      · rename_i hd
        have hd0 : a0.dflt = none := by
          cases hx : a0.dflt with
          | none => rfl
          | some d => simp [hx] at hd
        obtain ⟨h1, h2, h3, h4, h5⟩ := ih _ a h
        refine ⟨?_, ?_, ?_, ?_, ?_⟩
        · simpa [modsOf_cons, LNode.kind] using h1
        · simpa [handlingOf_cons] using h2
        · simp at h3
          simp [hd0, dfltOf, h3]
        · intro k
          simpa [specTbl_cons] using h4 k
        · intro k
          simpa [specRule_cons] using h5 k
    | sub hh =>
      simp only [loadNodes] at h
      cases hk : kind hh with
      | check ok =>
        cases ok with
        | false => simp [hk] at h
        | true =>
          simp [hk] at h
          obtain ⟨h1, h2, h3, h4, h5⟩ := ih _ a h
          refine ⟨?_, ?_, ?_, ?_, ?_⟩
          · simpa [modsOf_cons, LNode.kind, hk] using h1
          · simpa [handlingOf_cons, hk] using h2
          · simpa [dfltOf, List.findSome?_cons] using h3
          · intro k
            simpa [specTbl_cons] using h4 k
          · intro k
            simpa [specRule_cons] using h5 k
      | modify ms =>
        cases ms with
        | none => simp [hk] at h
        | some ms =>
          simp [hk] at h
          obtain ⟨h1, h2, h3, h4, h5⟩ := ih _ a h
          refine ⟨?_, ?_, ?_, ?_, ?_⟩
          · simpa [modsOf_cons, LNode.kind, hk] using h1
          · simpa [handlingOf_cons, hk] using h2
          · simpa [dfltOf, List.findSome?_cons] using h3
          · intro k
            simpa [specTbl_cons] using h4 k
          · intro k
            simpa [specRule_cons] using h5 k
      | other => simp [hk] at h
      | handling =>
        simp [hk] at h
        obtain ⟨h1, h2, h3, h4, h5⟩ := ih _ a h
        refine ⟨?_, ?_, ?_, ?_, ?_⟩
        · simpa [modsOf_cons, LNode.kind, hk] using h1
        · simpa [handlingOf_cons, hk] using h2
        · simpa [dfltOf, List.findSome?_cons] using h3
        · intro k
          simpa [specTbl_cons] using h4 k
        · intro k
          simpa [specRule_cons] using h5 k

/-- the loaded level answers like the specification: same refusal, or the block loaded from the
text the specification selects -/
def SelRes {H Blk} (loadBody : List H → Except LoadErr Blk) (sp : Except Refusal (List H))
    (r : Except Refusal Blk) : Prop :=
  match sp with
  | .error e => r = .error e
  | .ok body => ∃ blk, loadBody body = .ok blk ∧ r = .ok blk

theorem finishLevel_spec {H Blk} (l : Lvl) (kind : H → HKind) (loadBody : List H → Except LoadErr Blk)
    (nodes : List (LNode H)) (a : Acc H Blk) (L : Level Blk)
    (hd : a.dflt = dfltOf nodes) (ho : a.others = handlingOf kind nodes)
    (h : finishLevel l loadBody a = .ok L) :
    L.mods = a.mods ∧ L.ins = a.ins ∧ L.per = a.per ∧ loadBody (specDefault kind nodes) = .ok L.dflt := by
  unfold finishLevel at h
  simp only at h
  split at h
  · rename_i hc
    split at h
    · simp at h
    · split at h
      · simp at h
      · rename_i b hb
        simp at h
        subst h
        refine ⟨rfl, rfl, rfl, ?_⟩
        simp only
        have hde : (a.dflt.getD []).isEmpty = true := by
          simp at hc
          simp [hc.2]
        unfold specDefault
        rw [← dfltOf, ← hd, ← ho]
        cases hx : a.dflt with
        | none => exact hb
        | some d =>
          simp [hx] at hde
          simp [hde, hb]
  · split at h
    · simp at h
    · split at h
      · simp at h
      · rename_i hne
        split at h
        · simp at h
        · rename_i b hb
          simp at h
          subst h
          refine ⟨rfl, rfl, rfl, ?_⟩
          simp only
          unfold specDefault
          rw [← dfltOf, ← hd]
          cases hx : a.dflt with
          | none => simp [hx] at hne
          | some d =>
            simp [hx] at hne hb
            simp [hne, hb]

theorem loadLevel_spec {H Blk} (N : Norm) (l : Lvl) (kind : H → HKind)
    (loadBody : List H → Except LoadErr Blk) (nodes : List (LNode H)) (L : Level Blk)
    (h : loadLevel N l kind loadBody nodes = .ok L) :
    L.mods = modsOf (LNode.kind kind) nodes ∧
    ∀ k nullOk, SelRes loadBody (specSelect N kind nodes k nullOk) (selectBlock L k nullOk) := by
  unfold loadLevel at h
  split at h
  · simp at h
  · rename_i a ha
    obtain ⟨h1, h2, h3, h4, h5⟩ := loadNodes_spec N l kind loadBody nodes {} a ha
    simp at h1 h2 h3
    obtain ⟨g1, g2, g3, g4⟩ := finishLevel_spec l kind loadBody nodes a L h3 h2 h
    refine ⟨by rw [g1, h1], ?_⟩
    intro k nullOk
    have hins : ∀ k, Sel loadBody none (specTbl nodes k) (firstIn L.ins k) := by
      intro k; rw [g2]; exact h4 k
    have hper : ∀ k, Sel loadBody none (specRule N nodes k) (lookup L.per k) := by
      intro k; rw [g3]; exact h5 k
    unfold specSelect selectBlock
    have e1 := hins k
    cases hs1 : specTbl nodes k with
    | some body =>
      simp [Sel, hs1] at e1
      obtain ⟨blk, hb, hf⟩ := e1
      simp [hf, SelRes, hb]
    | none =>
      simp [Sel, hs1] at e1
      simp only [e1]
      have e2 := hper k
      cases hs2 : specRule N nodes k with
      | some body =>
        simp [Sel, hs2] at e2
        obtain ⟨blk, hb, hf⟩ := e2
        simp [hf, SelRes, hb]
      | none =>
        simp [Sel, hs2] at e2
        simp only [e2]
        cases hsp : split k with
        | error err =>
          simp only
          split
          · have e3 := hper []
            cases hs3 : specRule N nodes [] with
            | some body =>
              simp [Sel, hs3] at e3
              obtain ⟨blk, hb, hf⟩ := e3
              simp [hf, SelRes, hb]
            | none =>
              simp [Sel, hs3] at e3
              simp [e3, SelRes, g4]
          · simp [SelRes]
        | ok md =>
          obtain ⟨m, dom⟩ := md
          simp only
          have e3 := hper dom
          cases hs3 : specRule N nodes dom with
          | some body =>
            simp [Sel, hs3] at e3
            obtain ⟨blk, hb, hf⟩ := e3
            simp [hf, SelRes, hb]
          | none =>
            simp [Sel, hs3] at e3
            simp [e3, SelRes, g4]

/-! ## one pipeline -/

theorem loadSrc_spec {ρ σ} (N : Norm) (sub : ρ → Except LoadErr σ) (rsub : σ → Str → Str → Out)
    (ssub : ρ → Str → Str → Out) (hsub : SubAgree sub rsub ssub)
    (sbody : List (SrcN ρ)) (sb : SrcBlk σ) (h : loadSrc N sub sbody = .ok sb) (s t : Str) :
    handleRcpt N rsub sb s t = specRcpt N ssub sbody s t := by
  obtain ⟨_, hsel⟩ := loadLevel_spec N .dst Item.kind (loadRcpt sub) sbody sb h
  unfold handleRcpt specRcpt
  cases N.key t with
  | none => rfl
  | some k =>
    simp only
    have := hsel k false
    cases hs : specSelect N Item.kind sbody k false with
    | error e =>
      simp [SelRes, hs] at this
      simp [this]
    | ok items =>
      simp [SelRes, hs] at this
      obtain ⟨blk, hb, hf⟩ := this
      simp only [hf]
      exact loadRcpt_spec N sub rsub ssub hsub items blk hb s t

theorem routeF_spec {ρ σ} (N : Norm) (sub : ρ → Except LoadErr σ) (rsub : σ → Str → Str → Out)
    (ssub : ρ → Str → Str → Out) (hsub : SubAgree sub rsub ssub)
    (root : List (RootN ρ)) (c : Cfg σ) (h : loadRoot N sub root = .ok c) (s t : Str) :
    routeF N rsub c s t = specF N ssub root s t := by
  obtain ⟨hm, hsel⟩ := loadLevel_spec N .src (LNode.kind Item.kind) (loadSrc N sub) root c h
  unfold routeF start specF
  simp only [hm]
  cases rewriteSender N (modsOf (LNode.kind (LNode.kind Item.kind)) root) s with
  | error e => rfl
  | ok f1 =>
    simp only
    cases srcKey N f1 with
    | none => rfl
    | some k =>
      simp only
      have := hsel k true
      cases hs : specSelect N (LNode.kind Item.kind) root k true with
      | error e =>
        simp [SelRes, hs] at this
        simp [this]
      | ok sbody =>
        simp [SelRes, hs] at this
        obtain ⟨sb, hb, hf⟩ := this
        obtain ⟨hm2, _⟩ := loadLevel_spec N .dst Item.kind (loadRcpt sub) sbody sb hb
        simp only [hf, hm2]
        cases rewriteSender N (modsOf (LNode.kind Item.kind) sbody) f1 with
        | error e => rfl
        | ok f2 =>
          simp only [hm2]
          cases rewriteRcpt2 N (modsOf (LNode.kind (LNode.kind Item.kind)) root)
              (modsOf (LNode.kind Item.kind) sbody) t with
          | error e => rfl
          | ok l2 =>
            simp only
            apply seqOut_congr
            intro a _
            exact loadSrc_spec N sub rsub ssub hsub sbody sb hb f2 a

/-! ## every nesting depth -/

/-- **C04 (routing refines the documented precedence).** For every configuration text of every
nesting depth that is accepted at load time, every sender and every recipient: the hand-offs to
delivery targets (which target, with which sender and recipient address, in which order) and the
reply are exactly those the specification derives from the text — so each address produced by the
rewrites reaches exactly the targets of the one block the precedence selects, or gets that
block's reply, and no other target sees it. -/
theorem C04_route_refines_spec (N : Norm) :
    ∀ (n : Nat) (a : Ast n) (c : Loaded n), load N n a = .ok c →
      ∀ sender to, route N n c sender to = spec N n a sender to := by
  intro n
  induction n with
  | zero =>
    intro a c h s t
    simp only [load] at h
    simp only [route, spec]
    exact routeF_spec N (fun e => nomatch e) (fun e _ _ => nomatch e) (fun e _ _ => nomatch e)
      (fun body => nomatch body) a c h s t
  | succ n ih =>
    intro a c h s t
    simp only [load] at h
    simp only [route, spec]
    apply routeF_spec N (fun b => if Ast.isEmpty n b then .error .emptyReroute else load N n b)
      (route N n) (spec N n) _ a c h s t
    intro body p hp s' t'
    simp only at hp
    split at hp
    · simp at hp
    · exact ih body p hp s' t'

/-- the reply to MAIL FROM is the refusal every recipient of that sender would get (so it is covered
by the specification as well) -/
theorem C04_mail_refusal_is_route_refusal (N : Norm) (n : Nat) (c : Loaded n) (s : Str) (e : Refusal)
    (h : mailRefusal N n c s = some e) (t : Str) : route N n c s t = refuse e := by
  cases n with
  | zero =>
    simp only [mailRefusal] at h
    simp only [route, routeF]
    split at h
    · rename_i e' he'
      simp at h
      subst h
      simp [he']
    · simp at h
  | succ n =>
    simp only [mailRefusal] at h
    simp only [route, routeF]
    split at h
    · rename_i e' he'
      simp at h
      subst h
      simp [he']
    · simp at h

/-! ## accepted configurations are complete -/

/-- a destination block carries an explicit decision -/
def Decided {σ} (b : RcptBlk σ) : Prop := b.targets ≠ [] ∨ b.reject.isSome = true

/-- every block of a level (table blocks, rule blocks, default block) satisfies `P` -/
def Level.All {Blk} (P : Blk → Prop) (L : Level Blk) : Prop :=
  (∀ p ∈ L.ins, P p.2) ∧ (∀ p ∈ L.per, P p.2) ∧ P L.dflt

def completeF {σ} (subOK : σ → Prop) (c : Cfg σ) : Prop :=
  Level.All (Level.All (fun b => Decided b ∧ ∀ p, Tgt.pipe p ∈ b.targets → subOK p)) c

/-- every destination block of the pipeline and of all nested pipelines has a delivery target or
a reply -/
def Complete : (n : Nat) → Loaded n → Prop
  | 0, c => completeF (fun _ => True) c
  | n + 1, c => completeF (Complete n) c

theorem loadItems_pipes {ρ σ} (sub : ρ → Except LoadErr σ) (Q : σ → Prop)
    (hQ : ∀ body p, sub body = .ok p → Q p) :
    ∀ (items : List (Item ρ)) (b0 b : RcptBlk σ), loadItems sub items b0 = .ok b →
      (∀ p, Tgt.pipe p ∈ b0.targets → Q p) → ∀ p, Tgt.pipe p ∈ b.targets → Q p := by
  intro items
  induction items with
  | nil =>
    intro b0 b h h0
    simp [loadItems] at h
    subst h
    exact h0
  | cons it r ih =>
    intro b0 b h h0
    cases it with
    | check ok =>
      cases ok with
      | false => simp [loadItems] at h
      | true =>
        simp [loadItems] at h
        exact ih b0 b h h0
    | modify ms =>
      cases ms with
      | none => simp [loadItems] at h
      | some ms =>
        simp [loadItems] at h
        exact ih _ b h h0
    | deliverTo a =>
      simp only [loadItems] at h
      split at h
      · simp at h
      · cases a with
        | noArgs => simp at h
        | unknown => simp at h
        | target id =>
          simp at h
          apply ih _ b h
          intro p hp
          simp at hp
          exact h0 p hp
    | reroute body =>
      cases body with
      | none => simp [loadItems] at h
      | some body =>
        simp only [loadItems] at h
        split at h
        · simp at h
        · rename_i p0 hp0
          apply ih _ b h
          intro p hp
          simp at hp
          rcases hp with hp | hp
          · exact h0 p hp
          · subst hp
            exact hQ body p hp0
    | reject rr =>
      simp only [loadItems] at h
      split at h
      · simp at h
      · cases rr with
        | none => simp at h
        | some rep =>
          simp at h
          exact ih _ b h h0
    | other => simp [loadItems] at h

theorem loadRcpt_complete {ρ σ} (sub : ρ → Except LoadErr σ) (Q : σ → Prop)
    (hQ : ∀ body p, sub body = .ok p → Q p) (items : List (Item ρ)) (blk : RcptBlk σ)
    (h : loadRcpt sub items = .ok blk) :
    Decided blk ∧ ∀ p, Tgt.pipe p ∈ blk.targets → Q p := by
  obtain ⟨h1, h2⟩ := loadRcpt_ok sub items blk h
  exact ⟨h2, loadItems_pipes sub Q hQ items {} blk h1 (by simp)⟩

theorem insertRules_all {β} (N : Norm) (l : Lvl) (blk : β) (P : β → Prop) (hb : P blk) :
    ∀ (rs : List Str) (m m' : List (Str × β)), insertRules N l blk rs m = .ok m' →
      (∀ p ∈ m, P p.2) → ∀ p ∈ m', P p.2 := by
  intro rs
  induction rs with
  | nil =>
    intro m m' h hm
    simp [insertRules] at h
    subst h
    exact hm
  | cons r rs ih =>
    intro m m' h hm
    simp only [insertRules] at h
    split at h
    · simp at h
    · split at h
      · simp at h
      · split at h
        · exact ih m m' h hm
        · apply ih _ m' h
          intro p hp
          simp at hp
          rcases hp with hp | hp
          · exact hm p hp
          · subst hp
            exact hb

theorem loadNodes_all {H Blk} (N : Norm) (l : Lvl) (kind : H → HKind)
    (loadBody : List H → Except LoadErr Blk) (P : Blk → Prop)
    (hP : ∀ body blk, loadBody body = .ok blk → P blk) :
    ∀ (nodes : List (LNode H)) (a0 a : Acc H Blk), loadNodes N l kind loadBody nodes a0 = .ok a →
      (∀ p ∈ a0.ins, P p.2) → (∀ p ∈ a0.per, P p.2) →
      (∀ p ∈ a.ins, P p.2) ∧ (∀ p ∈ a.per, P p.2) := by
  intro nodes
  induction nodes with
  | nil =>
    intro a0 a h h1 h2
    simp [loadNodes] at h
    subst h
    exact ⟨h1, h2⟩
  | cons nd r ih =>
    intro a0 a h h1 h2
    cases nd with
    | tbl t body =>
      cases t with
      | none => simp [loadNodes] at h
      | some t =>
        simp only [loadNodes] at h
        split at h
        · simp at h
        · rename_i b hb
          apply ih _ a h
          · intro p hp
            simp at hp
            rcases hp with hp | hp
            · exact h1 p hp
            · subst hp
              exact hP body b hb
          · exact h2
    | rules rs body =>
      simp only [loadNodes] at h
      split at h
      · simp at h
      · rename_i b hb
        split at h
        · simp at h
        · split at h
          · simp at h
          · rename_i per hper
            apply ih _ a h h1
            exact insertRules_all N l b P (hP body b hb) rs a0.per per hper h2
    | dflt body =>
      simp only [loadNodes] at h
      split at h
      · simp at h
      · exact ih _ a h h1 h2
    | sub hh =>
      simp only [loadNodes] at h
      cases hk : kind hh with
      | check ok =>
        cases ok with
        | false => simp [hk] at h
        | true =>
          simp [hk] at h
          exact ih _ a h h1 h2
      | modify ms =>
        cases ms with
        | none => simp [hk] at h
        | some ms =>
          simp [hk] at h
          exact ih _ a h h1 h2
      | other => simp [hk] at h
      | handling =>
        simp [hk] at h
        exact ih _ a h h1 h2

theorem loadLevel_all {H Blk} (N : Norm) (l : Lvl) (kind : H → HKind)
    (loadBody : List H → Except LoadErr Blk) (P : Blk → Prop)
    (hP : ∀ body blk, loadBody body = .ok blk → P blk)
    (nodes : List (LNode H)) (L : Level Blk) (h : loadLevel N l kind loadBody nodes = .ok L) :
    Level.All P L := by
  unfold loadLevel at h
  split at h
  · simp at h
  · rename_i a ha
    obtain ⟨h1, h2⟩ := loadNodes_all N l kind loadBody P hP nodes {} a ha (by simp) (by simp)
    unfold finishLevel at h
    simp only at h
    split at h
    · split at h
      · simp at h
      · split at h
        · simp at h
        · rename_i b hb
          simp at h
          subst h
          exact ⟨h1, h2, hP _ b hb⟩
    · split at h
      · simp at h
      · split at h
        · simp at h
        · split at h
          · simp at h
          · rename_i b hb
            simp at h
            subst h
            exact ⟨h1, h2, hP _ b hb⟩

theorem loadRoot_complete {ρ σ} (N : Norm) (sub : ρ → Except LoadErr σ) (Q : σ → Prop)
    (hQ : ∀ body p, sub body = .ok p → Q p) (root : List (RootN ρ)) (c : Cfg σ)
    (h : loadRoot N sub root = .ok c) : completeF Q c := by
  apply loadLevel_all N .src (LNode.kind Item.kind) (loadSrc N sub) _ _ root c h
  intro sbody sb hsb
  apply loadLevel_all N .dst Item.kind (loadRcpt sub) _ _ sbody sb hsb
  intro items blk hblk
  exact loadRcpt_complete sub Q hQ items blk hblk

/-- **C04 (configurations without an explicit decision are refused at load time).** In every
accepted configuration, every destination block — explicit, default or implied, of the pipeline
and of all nested `reroute` pipelines — has a delivery target or a reply. -/
theorem C04_loaded_is_complete (N : Norm) :
    ∀ (n : Nat) (a : Ast n) (c : Loaded n), load N n a = .ok c → Complete n c := by
  intro n
  induction n with
  | zero =>
    intro a c h
    simp only [load] at h
    exact loadRoot_complete N _ (fun _ => True) (fun _ _ _ => trivial) a c h
  | succ n ih =>
    intro a c h
    simp only [load] at h
    apply loadRoot_complete N _ (Complete n) _ a c h
    intro body p hp
    try simp only at hp
    split at hp
    · simp at hp
    · exact ih body p hp

/-! ## no recipient is accepted without being handed to a target; no panic -/

/-- the recipient was refused, or at least one delivery target was handed an address for it -/
def OutDecided (o : Out) : Prop := o.2.isSome = true ∨ o.1 ≠ []

def NoPanic (o : Out) : Prop := o.2 ≠ some .panic

theorem rewrite_cases (N : Norm) (tb : MTable) (v : Str) :
    (∃ l, rewrite N tb v = .ok l ∧ l ≠ []) ∨ rewrite N tb v = .error .malformed ∨
      rewrite N tb v = .error .badReplacement := by
  unfold rewrite
  split
  · simp
  · rename_i k _
    simp only
    split
    · rename_i h1
      split
      · left
        refine ⟨_, rfl, ?_⟩
        intro h
        simp [h] at h1
      · simp
    · split
      · left; exact ⟨_, rfl, by simp⟩
      · try simp only
        split
        · rename_i h2
          split
          · left
            refine ⟨_, rfl, ?_⟩
            intro h
            simp at h
            simp [h] at h2
          · simp
        · left; exact ⟨_, rfl, by simp⟩

theorem rewriteSender_no_panic (N : Norm) :
    ∀ (ms : List Modifier) (a : Str), rewriteSender N ms a ≠ .error .panic := by
  intro ms
  induction ms with
  | nil => intro a; simp [rewriteSender]
  | cons m ms ih =>
    intro a
    simp only [rewriteSender]
    split
    · exact ih a
    · rcases rewrite_cases N m.tbl a with ⟨l, h, hl⟩ | h | h
      · rw [h]
        cases l with
        | nil => exact absurd rfl hl
        | cons x xs => exact ih x
      · rw [h]; simp
      · rw [h]; simp

theorem mapCat_props {α β} (f : α → Except Refusal (List β))
    (hf : ∀ a, (∃ l, f a = .ok l ∧ l ≠ []) ∨ ∃ e, f a = .error e ∧ e ≠ .panic) :
    ∀ (xs : List α), (∃ l, mapCat f xs = .ok l ∧ (xs ≠ [] → l ≠ [])) ∨
      ∃ e, mapCat f xs = .error e ∧ e ≠ .panic := by
  intro xs
  induction xs with
  | nil => left; exact ⟨[], rfl, by simp⟩
  | cons a r ih =>
    simp only [mapCat]
    rcases hf a with ⟨l, h, hl⟩ | ⟨e, h, he⟩
    · rw [h]
      rcases ih with ⟨l', h', _⟩ | ⟨e, h', he⟩
      · rw [h']
        left
        exact ⟨l ++ l', rfl, fun _ => by simp [hl]⟩
      · rw [h']
        right
        exact ⟨e, rfl, he⟩
    · rw [h]
      right
      exact ⟨e, rfl, he⟩

theorem rewriteRcptOne_props (N : Norm) (m : Modifier) (a : Str) :
    (∃ l, rewriteRcptOne N m a = .ok l ∧ l ≠ []) ∨ ∃ e, rewriteRcptOne N m a = .error e ∧ e ≠ .panic := by
  unfold rewriteRcptOne
  split
  · rcases rewrite_cases N m.tbl a with ⟨l, h, hl⟩ | h | h
    · left; exact ⟨l, h, hl⟩
    · right; exact ⟨_, h, by simp⟩
    · right; exact ⟨_, h, by simp⟩
  · left; exact ⟨[a], rfl, by simp⟩

theorem rewriteRcpt_props (N : Norm) :
    ∀ (ms : List Modifier) (res : List Str), res ≠ [] →
      (∃ l, rewriteRcpt N ms res = .ok l ∧ l ≠ []) ∨ ∃ e, rewriteRcpt N ms res = .error e ∧ e ≠ .panic := by
  intro ms
  induction ms with
  | nil => intro res h; left; exact ⟨res, rfl, h⟩
  | cons m ms ih =>
    intro res h
    simp only [rewriteRcpt]
    rcases mapCat_props (rewriteRcptOne N m) (rewriteRcptOne_props N m) res with ⟨l, h1, hl⟩ | ⟨e, h1, he⟩
    · rw [h1]
      exact ih l (hl h)
    · rw [h1]
      right
      exact ⟨e, rfl, he⟩

theorem rewriteRcpt2_props (N : Norm) (g sm : List Modifier) (to : Str) :
    (∃ l, rewriteRcpt2 N g sm to = .ok l ∧ l ≠ []) ∨ ∃ e, rewriteRcpt2 N g sm to = .error e ∧ e ≠ .panic := by
  unfold rewriteRcpt2
  rcases rewriteRcpt_props N g [to] (by simp) with ⟨l, h, hl⟩ | ⟨e, h, he⟩
  · rw [h]
    simp only
    rcases mapCat_props (fun t => rewriteRcpt N sm [t]) (fun t => rewriteRcpt_props N sm [t] (by simp)) l with
      ⟨l', h', hl'⟩ | ⟨e, h', he⟩
    · left; exact ⟨l', h', hl' hl⟩
    · right; exact ⟨e, h', he⟩
  · rw [h]
    right
    exact ⟨e, rfl, he⟩

theorem seqOut_decided {α} (f : α → Out) (l : List α) (hl : l ≠ []) (h : ∀ a ∈ l, OutDecided (f a)) :
    OutDecided (seqOut f l) := by
  cases l with
  | nil => exact absurd rfl hl
  | cons a r =>
    rw [seqOut_cons]
    have := h a (by simp)
    unfold OutDecided Out.andThen at *
    rcases hfa : f a with ⟨d, e⟩
    rw [hfa] at this
    cases e with
    | some e => simp
    | none =>
      simp at this
      simp [this]

theorem seqOut_no_panic {α} (f : α → Out) (l : List α) (h : ∀ a ∈ l, NoPanic (f a)) :
    NoPanic (seqOut f l) := by
  induction l with
  | nil => simp [seqOut, NoPanic]
  | cons a r ih =>
    rw [seqOut_cons]
    have h1 := h a (by simp)
    have h2 := ih (fun x hx => h x (by simp [hx]))
    unfold NoPanic Out.andThen at *
    rcases hfa : f a with ⟨d, e⟩
    rw [hfa] at h1
    cases e with
    | some e => simpa using h1
    | none => simpa using h2

theorem firstIn_mem {β} (l : List (Table × β)) (k : Str) (b : β) (h : firstIn l k = some b) :
    ∃ p ∈ l, p.2 = b := by
  unfold firstIn at h
  split at h
  · rename_i p hp
    simp at h
    exact ⟨p, List.mem_of_find?_eq_some hp, h⟩
  · simp at h

theorem lookup_mem {β} (m : List (Str × β)) (k : Str) (b : β) (h : lookup m k = some b) :
    ∃ p ∈ m, p.2 = b := by
  unfold lookup at h
  split at h
  · rename_i p hp
    simp at h
    exact ⟨p, List.mem_of_find?_eq_some hp, h⟩
  · simp at h

theorem selectBlock_all {β} (P : β → Prop) (L : Level β) (hL : Level.All P L) (k : Str) (nullOk : Bool)
    (b : β) (h : selectBlock L k nullOk = .ok b) : P b := by
  obtain ⟨h1, h2, h3⟩ := hL
  have hin : ∀ k b, firstIn L.ins k = some b → P b := by
    intro k b hb
    obtain ⟨p, hp, rfl⟩ := firstIn_mem _ _ _ hb
    exact h1 p hp
  have hper : ∀ k b, lookup L.per k = some b → P b := by
    intro k b hb
    obtain ⟨p, hp, rfl⟩ := lookup_mem _ _ _ hb
    exact h2 p hp
  unfold selectBlock at h
  split at h
  · rename_i b' hb'
    simp at h; subst h
    exact hin _ _ hb'
  · split at h
    · rename_i b' hb'
      simp at h; subst h
      exact hper _ _ hb'
    · split at h
      · split at h
        · split at h
          · rename_i b' hb'
            simp at h; subst h
            exact hper _ _ hb'
          · simp at h; subst h
            exact h3
        · simp at h
      · split at h
        · rename_i b' hb'
          simp at h; subst h
          exact hper _ _ hb'
        · simp at h; subst h
          exact h3

theorem selectBlock_error {β} (L : Level β) (k : Str) (nullOk : Bool) (e : Refusal)
    (h : selectBlock L k nullOk = .error e) : e = r501_513 := by
  unfold selectBlock at h
  repeat' split at h
  all_goals simp at h
  all_goals exact h.symm

theorem start_ok {σ} (N : Norm) (c : Cfg σ) (s : Str) (sb : SrcBlk σ) (f2 : Str)
    (h : start N c s = .ok (sb, f2)) : ∃ k, selectBlock c k true = .ok sb := by
  unfold start at h
  repeat' split at h
  all_goals simp at h
  rename_i k _ _ sb' hsb _ _ _
  exact ⟨k, by rw [hsb, h.1]⟩

theorem start_error {σ} (N : Norm) (c : Cfg σ) (s : Str) (e : Refusal)
    (h : start N c s = .error e) : e ≠ .panic := by
  unfold start at h
  split at h
  · rename_i e' he'
    simp at h; subst h
    intro hp; subst hp
    exact rewriteSender_no_panic N _ _ he'
  · split at h
    · simp at h; subst h; simp [r501_517]
    · split at h
      · rename_i e' he'
        simp at h; subst h
        rw [selectBlock_error _ _ _ _ he']
        simp [r501_513]
      · split at h
        · rename_i e' he'
          simp at h; subst h
          intro hp; subst hp
          exact rewriteSender_no_panic N _ _ he'
        · simp at h

theorem deliverOne_decided {σ} (rsub : σ → Str → Str → Out) (Q : σ → Prop)
    (hQ : ∀ p, Q p → ∀ s t, OutDecided (rsub p s t)) (s t : Str) (tg : Tgt σ)
    (h : ∀ p, tg = .pipe p → Q p) : OutDecided (deliverOne rsub s t tg) := by
  cases tg with
  | named id => simp [deliverOne, OutDecided]
  | pipe p => exact hQ p (h p rfl) s t

theorem runBlock_decided {σ} (N : Norm) (rsub : σ → Str → Str → Out) (Q : σ → Prop)
    (hQ : ∀ p, Q p → ∀ s t, OutDecided (rsub p s t)) (blk : RcptBlk σ)
    (hb : Decided blk ∧ ∀ p, Tgt.pipe p ∈ blk.targets → Q p) (s t : Str) :
    OutDecided (runBlock N rsub blk s t) := by
  unfold runBlock
  split
  · simp [refuse, OutDecided]
  · rename_i hrej
    rcases rewriteRcpt_props N blk.mods [t] (by simp) with ⟨l, h, hl⟩ | ⟨e, h, _⟩
    · rw [h]
      simp only
      apply seqOut_decided _ l hl
      intro a _
      have hne : blk.targets ≠ [] := by
        rcases hb.1 with h1 | h1
        · exact h1
        · simp [hrej] at h1
      apply seqOut_decided _ _ hne
      intro tg htg
      apply deliverOne_decided rsub Q hQ
      intro p hp
      subst hp
      exact hb.2 p htg
    · rw [h]
      simp [refuse, OutDecided]

theorem routeF_decided {σ} (N : Norm) (rsub : σ → Str → Str → Out) (Q : σ → Prop)
    (hQ : ∀ p, Q p → ∀ s t, OutDecided (rsub p s t)) (c : Cfg σ) (hc : completeF Q c) (s t : Str) :
    OutDecided (routeF N rsub c s t) := by
  unfold routeF
  split
  · simp [refuse, OutDecided]
  · rename_i sb f2 hst
    obtain ⟨k, hk⟩ := start_ok N c s sb f2 hst
    have hsb := selectBlock_all _ c hc k true sb hk
    rcases rewriteRcpt2_props N c.mods sb.mods t with ⟨l, h, hl⟩ | ⟨e, h, _⟩
    · rw [h]
      simp only
      apply seqOut_decided _ l hl
      intro a _
      unfold handleRcpt
      split
      · simp [refuse, OutDecided]
      · split
        · simp [refuse, OutDecided]
        · rename_i blk hblk
          exact runBlock_decided N rsub Q hQ blk (selectBlock_all _ sb hsb _ false blk hblk) f2 a
    · rw [h]
      simp [refuse, OutDecided]

/-- **C04 (no silent drop).** With a complete configuration — in particular with every accepted
one — a recipient is either refused or at least one delivery target is handed an address for it:
no sender/recipient combination is accepted and then dropped. -/
theorem C04_every_recipient_decided (N : Norm) :
    ∀ (n : Nat) (c : Loaded n), Complete n c → ∀ sender to, OutDecided (route N n c sender to) := by
  intro n
  induction n with
  | zero =>
    intro c hc s t
    simp only [route]
    exact routeF_decided N _ (fun _ => True) (fun p => nomatch p) c hc s t
  | succ n ih =>
    intro c hc s t
    simp only [route]
    exact routeF_decided N (route N n) (Complete n) (fun p hp => ih p hp) c hc s t

theorem C04_accepted_never_drops (N : Norm) (n : Nat) (a : Ast n) (c : Loaded n)
    (h : load N n a = .ok c) (sender to : Str) : OutDecided (route N n c sender to) :=
  C04_every_recipient_decided N n c (C04_loaded_is_complete N n a c h) sender to

theorem routeF_no_panic {σ} (N : Norm) (rsub : σ → Str → Str → Out)
    (hsub : ∀ p s t, NoPanic (rsub p s t)) (c : Cfg σ) (s t : Str) : NoPanic (routeF N rsub c s t) := by
  unfold routeF
  split
  · rename_i e he
    simp [refuse, NoPanic]
    exact start_error N c s e he
  · rename_i sb f2 _
    rcases rewriteRcpt2_props N c.mods sb.mods t with ⟨l, h, _⟩ | ⟨e, h, he⟩
    · rw [h]
      simp only
      apply seqOut_no_panic
      intro a _
      unfold handleRcpt
      split
      · simp [refuse, NoPanic, r553_512]
      · split
        · rename_i e he
          rw [selectBlock_error _ _ _ _ he]
          simp [refuse, NoPanic, r501_513]
        · rename_i blk _
          unfold runBlock
          split
          · simp [refuse, NoPanic]
          · rcases rewriteRcpt_props N blk.mods [a] (by simp) with ⟨l', h', _⟩ | ⟨e, h', he⟩
            · rw [h']
              simp only
              apply seqOut_no_panic
              intro a' _
              apply seqOut_no_panic
              intro tg _
              cases tg with
              | named id => simp [deliverOne, NoPanic]
              | pipe p => exact hsub p f2 a'
            · rw [h']
              simpa [refuse, NoPanic] using he
    · rw [h]
      simpa [refuse, NoPanic] using he

/-- **C04 (crash freedom).** `results[0]` in `replaceAddr.RewriteSender` never indexes an empty
slice: the model's explicit panic outcome is unreachable for every configuration and envelope. -/
theorem C04_no_panic (N : Norm) :
    ∀ (n : Nat) (c : Loaded n) (sender to : Str), NoPanic (route N n c sender to) := by
  intro n
  induction n with
  | zero =>
    intro c s t
    simp only [route]
    exact routeF_no_panic N _ (fun p => nomatch p) c s t
  | succ n ih =>
    intro c s t
    simp only [route]
    exact routeF_no_panic N (route N n) ih c s t

/-! ## the decision depends on lookup keys only -/

/-- two spellings with the same lookup key (or both without one) -/
def KeyEq (N : Norm) (a b : Str) : Prop := N.key a = N.key b

inductive Rel2 {α} (R : α → α → Prop) : List α → List α → Prop
  | nil : Rel2 R [] []
  | cons {a b l l'} : R a b → Rel2 R l l' → Rel2 R (a :: l) (b :: l')

/-- same target, sender and recipient spelled with the same keys -/
def DelivRel (N : Norm) (d d' : Deliv) : Prop :=
  d.tgt = d'.tgt ∧ KeyEq N d.sender d'.sender ∧ KeyEq N d.rcpt d'.rcpt

/-- the same decision: the same reply, and the same targets are handed equivalent addresses in
the same order -/
def OutRel (N : Norm) (o o' : Out) : Prop := Rel2 (DelivRel N) o.1 o'.1 ∧ o.2 = o'.2

def ExRel {ε α} (R : α → α → Prop) (x y : Except ε α) : Prop :=
  match x, y with
  | .ok a, .ok b => R a b
  | .error e, .error e' => e = e'
  | _, _ => False

theorem Rel2.append {α} {R : α → α → Prop} {l1 l1' l2 l2' : List α} (h1 : Rel2 R l1 l1') (h2 : Rel2 R l2 l2') :
    Rel2 R (l1 ++ l2) (l1' ++ l2') := by
  induction h1 with
  | nil => simpa using h2
  | cons hab _ ih => exact Rel2.cons hab ih

theorem Rel2.refl {α} {R : α → α → Prop} (hR : ∀ a, R a a) : ∀ l, Rel2 R l l
  | [] => Rel2.nil
  | a :: l => Rel2.cons (hR a) (Rel2.refl hR l)

/-- the part of `replaceAddr.rewrite` after the key has been computed; `none` = address unchanged -/
def rewriteByKey (N : Norm) (t : MTable) (k : Str) : Option (Except Refusal (List Str)) :=
  let r1 := lookupMulti t k
  if !r1.isEmpty then
    some (if r1.all N.validAddr then .ok r1 else .error .badReplacement)
  else
    match split k with
    | .error _ => none
    | .ok (mbox, dom) =>
      let r2 := lookupMulti t mbox
      if !r2.isEmpty then
        some (if r2.all (fun r => !addrLike r || N.validAddr r) then
          .ok (r2.map (fun r => if addrLike r then r else r ++ AT :: dom))
        else .error .badReplacement)
      else none

theorem rewrite_eq (N : Norm) (t : MTable) (v : Str) :
    rewrite N t v =
      match N.key v with
      | none => .error .malformed
      | some k =>
        match rewriteByKey N t k with
        | some r => r
        | none => .ok [v] := by
  unfold rewrite rewriteByKey
  cases N.key v with
  | none => rfl
  | some k =>
    simp only
    cases h1 : !(lookupMulti t k).isEmpty with
    | true => simp
    | false =>
      simp only [Bool.false_eq_true, if_false]
      cases split k with
      | error e => rfl
      | ok md =>
        obtain ⟨mbox, dom⟩ := md
        simp only
        cases h2 : !(lookupMulti t mbox).isEmpty with
        | true => simp
        | false => simp

theorem rewrite_rel (N : Norm) (t : MTable) (v v' : Str) (h : KeyEq N v v') :
    ExRel (Rel2 (KeyEq N)) (rewrite N t v) (rewrite N t v') := by
  rw [rewrite_eq, rewrite_eq]
  unfold KeyEq at h
  rw [← h]
  cases N.key v with
  | none => simp [ExRel]
  | some k =>
    simp only
    cases rewriteByKey N t k with
    | none => exact Rel2.cons h Rel2.nil
    | some r =>
      cases r with
      | error e => simp [ExRel]
      | ok l =>
        simp only [ExRel]
        exact Rel2.refl (R := KeyEq N) (fun _ => rfl) l

theorem rewriteSender_rel (N : Norm) :
    ∀ (ms : List Modifier) (a a' : Str), KeyEq N a a' →
      ExRel (KeyEq N) (rewriteSender N ms a) (rewriteSender N ms a') := by
  intro ms
  induction ms with
  | nil => intro a a' h; exact h
  | cons m ms ih =>
    intro a a' h
    simp only [rewriteSender]
    split
    · exact ih a a' h
    · have hr := rewrite_rel N m.tbl a a' h
      cases h1 : rewrite N m.tbl a with
      | error e =>
        cases h2 : rewrite N m.tbl a' with
        | error e' => simpa [ExRel, h1, h2] using hr
        | ok l' => simp [ExRel, h1, h2] at hr
      | ok l =>
        cases h2 : rewrite N m.tbl a' with
        | error e' => simp [ExRel, h1, h2] at hr
        | ok l' =>
          simp [ExRel, h1, h2] at hr
          cases hr with
          | nil => simp [ExRel]
          | cons hab _ => exact ih _ _ hab

theorem mapCat_rel {α β} (R : α → α → Prop) (R' : β → β → Prop) (f : α → Except Refusal (List β))
    (hf : ∀ a a', R a a' → ExRel (Rel2 R') (f a) (f a')) :
    ∀ (l l' : List α), Rel2 R l l' → ExRel (Rel2 R') (mapCat f l) (mapCat f l') := by
  intro l l' h
  induction h with
  | nil => exact Rel2.nil
  | @cons a b r r' hab _ ih =>
    simp only [mapCat]
    have h1 := hf a b hab
    cases hfa : f a with
    | error e =>
      cases hfb : f b with
      | error e' => simpa [ExRel, hfa, hfb] using h1
      | ok y => simp [ExRel, hfa, hfb] at h1
    | ok x =>
      cases hfb : f b with
      | error e' => simp [ExRel, hfa, hfb] at h1
      | ok y =>
        simp [ExRel, hfa, hfb] at h1
        simp only
        cases hr : mapCat f r with
        | error e =>
          cases hr' : mapCat f r' with
          | error e' => simpa [ExRel, hr, hr'] using ih
          | ok y' => simp [ExRel, hr, hr'] at ih
        | ok x' =>
          cases hr' : mapCat f r' with
          | error e' => simp [ExRel, hr, hr'] at ih
          | ok y' =>
            simp [ExRel, hr, hr'] at ih
            exact Rel2.append h1 ih

theorem rewriteRcptOne_rel (N : Norm) (m : Modifier) (a a' : Str) (h : KeyEq N a a') :
    ExRel (Rel2 (KeyEq N)) (rewriteRcptOne N m a) (rewriteRcptOne N m a') := by
  unfold rewriteRcptOne
  split
  · exact rewrite_rel N m.tbl a a' h
  · exact Rel2.cons h Rel2.nil

theorem rewriteRcpt_rel (N : Norm) :
    ∀ (ms : List Modifier) (l l' : List Str), Rel2 (KeyEq N) l l' →
      ExRel (Rel2 (KeyEq N)) (rewriteRcpt N ms l) (rewriteRcpt N ms l') := by
  intro ms
  induction ms with
  | nil => intro l l' h; exact h
  | cons m ms ih =>
    intro l l' h
    simp only [rewriteRcpt]
    have h1 := mapCat_rel (KeyEq N) (KeyEq N) (rewriteRcptOne N m) (rewriteRcptOne_rel N m) l l' h
    cases hx : mapCat (rewriteRcptOne N m) l with
    | error e =>
      cases hy : mapCat (rewriteRcptOne N m) l' with
      | error e' => simpa [ExRel, hx, hy] using h1
      | ok y => simp [ExRel, hx, hy] at h1
    | ok x =>
      cases hy : mapCat (rewriteRcptOne N m) l' with
      | error e' => simp [ExRel, hx, hy] at h1
      | ok y =>
        simp [ExRel, hx, hy] at h1
        exact ih x y h1

theorem rewriteRcpt2_rel (N : Norm) (g sm : List Modifier) (t t' : Str) (h : KeyEq N t t') :
    ExRel (Rel2 (KeyEq N)) (rewriteRcpt2 N g sm t) (rewriteRcpt2 N g sm t') := by
  unfold rewriteRcpt2
  have h1 := rewriteRcpt_rel N g [t] [t'] (Rel2.cons h Rel2.nil)
  cases hx : rewriteRcpt N g [t] with
  | error e =>
    cases hy : rewriteRcpt N g [t'] with
    | error e' => simpa [ExRel, hx, hy] using h1
    | ok y => simp [ExRel, hx, hy] at h1
  | ok x =>
    cases hy : rewriteRcpt N g [t'] with
    | error e' => simp [ExRel, hx, hy] at h1
    | ok y =>
      simp [ExRel, hx, hy] at h1
      exact mapCat_rel (KeyEq N) (KeyEq N) _
        (fun a a' haa => rewriteRcpt_rel N sm [a] [a'] (Rel2.cons haa Rel2.nil)) x y h1

theorem seqOut_rel {α} (N : Norm) (R : α → α → Prop) (f f' : α → Out)
    (hf : ∀ a a', R a a' → OutRel N (f a) (f' a')) :
    ∀ (l l' : List α), Rel2 R l l' → OutRel N (seqOut f l) (seqOut f' l') := by
  intro l l' h
  induction h with
  | nil => exact ⟨Rel2.nil, rfl⟩
  | @cons a b r r' hab _ ih =>
    rw [seqOut_cons, seqOut_cons]
    obtain ⟨h1, h2⟩ := hf a b hab
    obtain ⟨i1, i2⟩ := ih
    unfold Out.andThen
    rcases hfa : f a with ⟨d, e⟩
    rcases hfb : f' b with ⟨d', e'⟩
    rw [hfa, hfb] at h1 h2
    simp only at h1 h2
    subst h2
    cases e with
    | some e => exact ⟨h1, rfl⟩
    | none => exact ⟨Rel2.append h1 i1, i2⟩

theorem srcKey_eq_key (N : Norm) (h0 : N.key [] = some []) (a : Str) : srcKey N a = N.key a := by
  unfold srcKey
  cases a with
  | nil => simp [h0]
  | cons x xs => simp

theorem start_rel {σ} (N : Norm) (h0 : N.key [] = some []) (c : Cfg σ) (s s' : Str) (h : KeyEq N s s') :
    ExRel (fun (x y : SrcBlk σ × Str) => x.1 = y.1 ∧ KeyEq N x.2 y.2) (start N c s) (start N c s') := by
  unfold start
  have h1 := rewriteSender_rel N c.mods s s' h
  cases hx : rewriteSender N c.mods s with
  | error e =>
    cases hy : rewriteSender N c.mods s' with
    | error e' => simpa [ExRel, hx, hy] using h1
    | ok y => simp [ExRel, hx, hy] at h1
  | ok f1 =>
    cases hy : rewriteSender N c.mods s' with
    | error e' => simp [ExRel, hx, hy] at h1
    | ok f1' =>
      simp [ExRel, hx, hy] at h1
      simp only
      rw [srcKey_eq_key N h0, srcKey_eq_key N h0]
      have hk : N.key f1 = N.key f1' := h1
      rw [← hk]
      cases N.key f1 with
      | none => simp [ExRel]
      | some k =>
        simp only
        cases selectBlock c k true with
        | error e => simp [ExRel]
        | ok sb =>
          simp only
          have h2 := rewriteSender_rel N sb.mods f1 f1' h1
          cases hx2 : rewriteSender N sb.mods f1 with
          | error e =>
            cases hy2 : rewriteSender N sb.mods f1' with
            | error e' => simpa [ExRel, hx2, hy2] using h2
            | ok y => simp [ExRel, hx2, hy2] at h2
          | ok f2 =>
            cases hy2 : rewriteSender N sb.mods f1' with
            | error e' => simp [ExRel, hx2, hy2] at h2
            | ok f2' =>
              simp [ExRel, hx2, hy2] at h2
              exact ⟨rfl, h2⟩

theorem refuse_rel (N : Norm) (e : Refusal) : OutRel N (refuse e) (refuse e) := ⟨Rel2.nil, rfl⟩

theorem runBlock_rel {σ} (N : Norm) (rsub : σ → Str → Str → Out)
    (hsub : ∀ p s s' t t', KeyEq N s s' → KeyEq N t t' → OutRel N (rsub p s t) (rsub p s' t'))
    (blk : RcptBlk σ) (s s' t t' : Str) (hs : KeyEq N s s') (ht : KeyEq N t t') :
    OutRel N (runBlock N rsub blk s t) (runBlock N rsub blk s' t') := by
  unfold runBlock
  split
  · exact refuse_rel N _
  · have h1 := rewriteRcpt_rel N blk.mods [t] [t'] (Rel2.cons ht Rel2.nil)
    cases hx : rewriteRcpt N blk.mods [t] with
    | error e =>
      cases hy : rewriteRcpt N blk.mods [t'] with
      | error e' =>
        simp [ExRel, hx, hy] at h1
        subst h1
        exact refuse_rel N _
      | ok y => simp [ExRel, hx, hy] at h1
    | ok x =>
      cases hy : rewriteRcpt N blk.mods [t'] with
      | error e' => simp [ExRel, hx, hy] at h1
      | ok y =>
        simp [ExRel, hx, hy] at h1
        simp only
        apply seqOut_rel N (KeyEq N) _ _ _ x y h1
        intro a a' haa
        apply seqOut_rel N (fun (x y : Tgt σ) => x = y) _ _ _ _ _ (Rel2.refl (R := fun (x y : Tgt σ) => x = y) (fun _ => rfl) _)
        intro tg tg' htg
        subst htg
        cases tg with
        | named id => exact ⟨Rel2.cons ⟨rfl, hs, haa⟩ Rel2.nil, rfl⟩
        | pipe p => exact hsub p s s' a a' hs haa

theorem routeF_rel {σ} (N : Norm) (h0 : N.key [] = some []) (rsub : σ → Str → Str → Out)
    (hsub : ∀ p s s' t t', KeyEq N s s' → KeyEq N t t' → OutRel N (rsub p s t) (rsub p s' t'))
    (c : Cfg σ) (s s' t t' : Str) (hs : KeyEq N s s') (ht : KeyEq N t t') :
    OutRel N (routeF N rsub c s t) (routeF N rsub c s' t') := by
  unfold routeF
  have h1 := start_rel N h0 c s s' hs
  cases hx : start N c s with
  | error e =>
    cases hy : start N c s' with
    | error e' =>
      simp [ExRel, hx, hy] at h1
      subst h1
      exact refuse_rel N _
    | ok y => simp [ExRel, hx, hy] at h1
  | ok x =>
    cases hy : start N c s' with
    | error e' => simp [ExRel, hx, hy] at h1
    | ok y =>
      obtain ⟨sb, f2⟩ := x
      obtain ⟨sb', f2'⟩ := y
      simp [ExRel, hx, hy] at h1
      obtain ⟨hsb, hf2⟩ := h1
      subst hsb
      simp only
      have h2 := rewriteRcpt2_rel N c.mods sb.mods t t' ht
      cases hx2 : rewriteRcpt2 N c.mods sb.mods t with
      | error e =>
        cases hy2 : rewriteRcpt2 N c.mods sb.mods t' with
        | error e' =>
          simp [ExRel, hx2, hy2] at h2
          subst h2
          exact refuse_rel N _
        | ok y => simp [ExRel, hx2, hy2] at h2
      | ok l2 =>
        cases hy2 : rewriteRcpt2 N c.mods sb.mods t' with
        | error e' => simp [ExRel, hx2, hy2] at h2
        | ok l2' =>
          simp [ExRel, hx2, hy2] at h2
          simp only
          apply seqOut_rel N (KeyEq N) _ _ _ l2 l2' h2
          intro a a' haa
          unfold handleRcpt
          have hk : N.key a = N.key a' := haa
          rw [← hk]
          cases N.key a with
          | none => exact refuse_rel N _
          | some k =>
            simp only
            cases selectBlock sb k false with
            | error e => exact refuse_rel N _
            | ok blk => exact runBlock_rel N rsub hsub blk f2 f2' a a' hf2 haa

/-- **C04 (matching depends on lookup keys only).** For every pipeline of every nesting depth
(accepted or not): two envelopes whose senders have equal lookup keys and whose recipients have
equal lookup keys get the same decision — the same reply, and the same targets are handed
addresses with equal keys in the same order.  `h0` is the one law of `address.ForLookup` that is
needed (the empty sender is its own key); it is a theorem for the model of the real function
(`C04_spelling_insensitive`) and is checked on the real one in every run. -/
theorem C04_key_invariance (N : Norm) (h0 : N.key [] = some []) :
    ∀ (n : Nat) (c : Loaded n) (s s' t t' : Str), KeyEq N s s' → KeyEq N t t' →
      OutRel N (route N n c s t) (route N n c s' t') := by
  intro n
  induction n with
  | zero =>
    intro c s s' t t' hs ht
    simp only [route]
    exact routeF_rel N h0 _ (fun p => nomatch p) c s s' t t' hs ht
  | succ n ih =>
    intro c s s' t t' hs ht
    simp only [route]
    exact routeF_rel N h0 (route N n) ih c s s' t t' hs ht

/-! ## the model of the real `ForLookup` as the normalisation: spelling insensitivity -/

/-- `Norm` built from the model of `framework/address` (C17) for any Unicode primitives -/
def normOfPrims (P : Prims) (validRule validAddr : Str → Bool) : Norm where
  key a := if (forLookup P a).2 then some (forLookup P a).1 else none
  dkey d := if (dnsForLookup P d).2 then some (dnsForLookup P d).1 else none
  validRule := validRule
  validAddr := validAddr

theorem normOfPrims_key_nil (P : Prims) (vr va : Str → Bool) : (normOfPrims P vr va).key [] = some [] := by
  simp [normOfPrims, forLookup]

/-- **C04 (spelling insensitivity).** With `address.ForLookup` as modelled for C17 and any
Unicode primitives: envelopes whose addresses have the same `ForLookup` result are routed to the
same decision, for every pipeline of every depth. -/
theorem C04_spelling_insensitive (P : Prims) (vr va : Str → Bool) (n : Nat) (c : Loaded n)
    (s s' t t' : Str) (hs : forLookup P s = forLookup P s') (ht : forLookup P t = forLookup P t') :
    OutRel (normOfPrims P vr va) (route (normOfPrims P vr va) n c s t) (route (normOfPrims P vr va) n c s' t') := by
  apply C04_key_invariance _ (normOfPrims_key_nil P vr va) n c s s' t t'
  · simp [KeyEq, normOfPrims, hs]
  · simp [KeyEq, normOfPrims, ht]

/-- spellings of one mailbox: local parts equal after NFC + lower-casing, domains with the same
DNS lookup key (letter case, NFC/NFD, A-label/U-label — the laws of the Unicode primitives that
C17 samples on the real libraries) -/
def Variant (P : Prims) (a b : Str) : Prop :=
  ∃ m1 d1 m2 d2, split a = .ok (m1, d1) ∧ split b = .ok (m2, d2) ∧ d1 ≠ [] ∧ d2 ≠ [] ∧
    P.lower (P.nfc m1) = P.lower (P.nfc m2) ∧ dnsForLookup P d1 = dnsForLookup P d2 ∧
    (dnsForLookup P d1).2 = true

theorem forLookup_variant (P : Prims) (a b : Str) (h : Variant P a b) : forLookup P a = forLookup P b := by
  obtain ⟨m1, d1, m2, d2, ha, hb, hd1, hd2, hm, hd, hok⟩ := h
  have ha0 : a ≠ [] := by intro h; subst h; simp [split, isPostmaster, postmaster, splitLastAt] at ha
  have hb0 : b ≠ [] := by intro h; subst h; simp [split, isPostmaster, postmaster, splitLastAt] at hb
  unfold forLookup
  have e1 : d1.isEmpty = false := by cases d1 <;> simp_all
  have e2 : d2.isEmpty = false := by cases d2 <;> simp_all
  have ea : a.isEmpty = false := by cases a <;> simp_all
  have eb : b.isEmpty = false := by cases b <;> simp_all
  simp only [ea, eb, Bool.false_eq_true, ↓reduceIte, ha, hb, e1, e2]
  rw [← hd]
  cases hq : dnsForLookup P d1 with
  | mk dk ok =>
    rw [hq] at hok
    simp at hok; subst hok
    simp [hm]

/-- **C04 (case / normalisation form / A-label insensitivity).** Envelopes that differ only in the
spelling of sender and recipient (in the sense of `Variant`) get the same decision. -/
theorem C04_variants_same_decision (P : Prims) (vr va : Str → Bool) (n : Nat) (c : Loaded n)
    (s s' t t' : Str) (hs : Variant P s s') (ht : Variant P t t') :
    OutRel (normOfPrims P vr va) (route (normOfPrims P vr va) n c s t) (route (normOfPrims P vr va) n c s' t') :=
  C04_spelling_insensitive P vr va n c s s' t t' (forLookup_variant P s s' hs) (forLookup_variant P t t' ht)

/-! ## non-vacuity: concrete configurations, envelopes and normalisations -/

namespace Ex

/-- ASCII lower-casing as the lookup key; everything is a valid rule / address -/
def lowerNorm : Norm where
  key a := some (a.map asciiLower)
  dkey d := some (d.map asciiLower)
  validRule _ := true
  validAddr _ := true

def a_x : Str := [97, 64, 120]    -- a@x
def A_X : Str := [65, 64, 88]     -- A@X
def b_x : Str := [98, 64, 120]    -- b@x
def c_y : Str := [99, 64, 121]    -- c@y
def l_x : Str := [108, 64, 120]   -- l@x  (a list)
def dx : Str := [120]             -- x
def dy : Str := [121]             -- y

def isOk {ε α} : Except ε α → Bool
  | .ok _ => true
  | .error _ => false

def errOf {ε α} : Except ε α → Option ε
  | .ok _ => none
  | .error e => some e

/-- ```
destination x            { deliver_to t0 }
destination A@X x        { deliver_to t1 }
destination a@x          { deliver_to t2 }
default_destination      { reject 550 5.1.1 }
``` -/
def exPrec : Ast 0 :=
  [ .sub (.rules [dx] [.deliverTo (.target 0)]),
    .sub (.rules [A_X, dx] [.deliverTo (.target 1)]),
    .sub (.rules [a_x] [.deliverTo (.target 2)]),
    .sub (.dflt [.reject (some ⟨550, 5, 1, 1, []⟩)]) ]

/-- the configuration is accepted (the hypothesis of `C04_route_refines_spec` is satisfiable) -/
example : isOk (load lowerNorm 0 exPrec) = true := by decide
/-- the full-address rule wins over the domain rule declared before it; among the two blocks with
a rule for a@x the first declared one wins; the rule spelling A@X matches a@x -/
example : spec lowerNorm 0 exPrec [] a_x = ([⟨1, [], a_x⟩], none) := by decide
example : spec lowerNorm 0 exPrec [] b_x = ([⟨0, [], b_x⟩], none) := by decide
example : spec lowerNorm 0 exPrec [] c_y = ([], some (.reply ⟨550, 5, 1, 1, []⟩)) := by decide
/-- … and so does the loaded pipeline, by the theorem -/
example (c : Loaded 0) (h : load lowerNorm 0 exPrec = .ok c) :
    route lowerNorm 0 c [] a_x = ([⟨1, [], a_x⟩], none) := by
  rw [C04_route_refines_spec lowerNorm 0 exPrec c h]
  decide

/-- the documentation's alias example, with a 1-to-2 rewrite and a nested pipeline:
```
destination x {
    modify { replace_rcpt static { entry l@x a@x c@y } }
    reroute {
        destination x { deliver_to t1 }
        default_destination { deliver_to t2 }
    }
}
default_destination { reject 521 5.0.0 }
``` -/
def exAlias : Ast 1 :=
  [ .sub (.rules [dx]
      [ .modify (some [⟨.rcpt, [(l_x, [a_x, c_y])]⟩]),
        .reroute (some
          [ .sub (.rules [dx] [.deliverTo (.target 1)]),
            .sub (.dflt [.deliverTo (.target 2)]) ]) ]),
    .sub (.dflt [.reject (some ⟨521, 5, 0, 0, []⟩)]) ]

example : isOk (load lowerNorm 1 exAlias) = true := by decide
/-- the nested pipeline routes on the rewritten addresses -/
example : spec lowerNorm 1 exAlias b_x l_x = ([⟨1, b_x, a_x⟩, ⟨2, b_x, c_y⟩], none) := by decide
/-- a remote address that was not produced by the rewrite is refused by the outer default block -/
example : spec lowerNorm 1 exAlias b_x c_y = ([], some (.reply ⟨521, 5, 0, 0, []⟩)) := by decide

/-- sender side: a table block declared after a rule block still wins; the null sender goes to the
default block:
```
source x            { deliver_to t0 }
source_in {b@x}     { deliver_to t1 }
default_source      { reject 554 5.7.0 }
``` -/
def exSrc : Ast 0 :=
  [ .rules [dx] [.sub (.deliverTo (.target 0))],
    .tbl (some ⟨[b_x], 0⟩) [.sub (.deliverTo (.target 1))],
    .dflt [.sub (.reject (some ⟨554, 5, 7, 0, []⟩))] ]

example : isOk (load lowerNorm 0 exSrc) = true := by decide
example : spec lowerNorm 0 exSrc b_x c_y = ([⟨1, b_x, c_y⟩], none) := by decide
example : spec lowerNorm 0 exSrc a_x c_y = ([⟨0, a_x, c_y⟩], none) := by decide
example : spec lowerNorm 0 exSrc [] c_y = ([], some (.reply ⟨554, 5, 7, 0, []⟩)) := by decide

/-- configurations that leave a combination without a decision are refused:
`destination x { }  default_destination { deliver_to t0 }`, a block with only check / modify, and
a nested pipeline with such a block -/
example : errOf (load lowerNorm 0
    [ .sub (.rules [dx] []), .sub (.dflt [.deliverTo (.target 0)]) ]) = some .noDecision := by decide
example : errOf (load lowerNorm 0
    [ .sub (.rules [dx] [.check true, .modify (some [])]), .sub (.dflt [.deliverTo (.target 0)]) ])
      = some .noDecision := by decide
example : errOf (load lowerNorm 1
    [ .sub (.sub (.reroute (some [ .sub (.rules [dx] []), .sub (.dflt [.deliverTo (.target 0)]) ]))) ])
      = some .noDecision := by decide

/-- why `Complete` is needed in `C04_every_recipient_decided`: a loaded structure with an undecided
block (what the code built for `destination x { }` before the load-time check was added) accepts
the recipient and nobody sees it -/
def undecided : Loaded 0 :=
  ⟨[], [], [], ⟨[], [], [(dx, {})], { targets := [.named 0] }⟩⟩
example : route lowerNorm 0 undecided b_x a_x = ([], none) := by decide
example : route lowerNorm 0 undecided b_x c_y = ([⟨0, b_x, c_y⟩], none) := by decide

/-- key invariance is used with distinct spellings: a@x and A@X have one key under `lowerNorm` -/
example : lowerNorm.key [] = some [] := by decide
example : a_x ≠ A_X ∧ KeyEq lowerNorm a_x A_X := ⟨by decide, by unfold KeyEq; decide⟩
example (c : Loaded 0) : OutRel lowerNorm (route lowerNorm 0 c [] a_x) (route lowerNorm 0 c [] A_X) :=
  C04_key_invariance lowerNorm (by decide) 0 c [] [] a_x A_X rfl (by unfold KeyEq; decide)

/-- `Variant` is satisfiable by distinct spellings for a concrete choice of primitives -/
def asciiPrims : Prims where
  nfc s := s
  lower s := s.map asciiLower
  toUnicode s := (s, true)
  toASCII s := (s, true)

example : Variant asciiPrims A_X a_x :=
  ⟨[65], [88], [97], [120], rfl, rfl, by decide, by decide, by decide, by decide, by decide⟩

end Ex

/-! ## no other target: where a hand-off can come from -/

theorem mem_seqOut {α} (f : α → Out) (d : Deliv) :
    ∀ (l : List α), d ∈ (seqOut f l).1 → ∃ a ∈ l, d ∈ (f a).1 := by
  intro l
  induction l with
  | nil => intro h; simp [seqOut] at h
  | cons a r ih =>
    intro h
    rw [seqOut_cons] at h
    unfold Out.andThen at h
    rcases hfa : f a with ⟨da, e⟩
    rw [hfa] at h
    cases e with
    | some e =>
      simp at h
      exact ⟨a, by simp, by rw [hfa]; exact h⟩
    | none =>
      simp at h
      rcases h with h | h
      · exact ⟨a, by simp, by rw [hfa]; exact h⟩
      · obtain ⟨x, hx, hd⟩ := ih h
        exact ⟨x, by simp [hx], hd⟩

/-- **C04 (no other target sees the recipient).** Every hand-off the specification allows — hence,
by `C04_route_refines_spec`, every hand-off an accepted pipeline makes — comes from a `deliver_to`
(or from the nested pipeline of a `reroute`) written in a destination block that the precedence
selected, inside the source block the precedence selected, and that block has no `reject`. -/
theorem C04_spec_handoff_origin {ρ} (N : Norm) (ssub : ρ → Str → Str → Out) (root : List (RootN ρ))
    (s t : Str) (d : Deliv) (hd : d ∈ (specF N ssub root s t).1) :
    ∃ k sbody rk items,
      specSelect N (LNode.kind Item.kind) root k true = .ok sbody ∧
      specSelect N Item.kind sbody rk false = .ok items ∧ bodyReject items = none ∧
      (Item.deliverTo (.target d.tgt) ∈ items ∨
        ∃ body f2 t2, Item.reroute (some body) ∈ items ∧ d ∈ (ssub body f2 t2).1) := by
  unfold specF at hd
  simp only at hd
  split at hd
  · simp [refuse] at hd
  · split at hd
    · simp [refuse] at hd
    · rename_i k _
      split at hd
      · simp [refuse] at hd
      · rename_i sbody hsb
        split at hd
        · simp [refuse] at hd
        · rename_i f2 _
          split at hd
          · simp [refuse] at hd
          · rename_i l2 _
            obtain ⟨a, _, ha⟩ := mem_seqOut _ d l2 hd
            unfold specRcpt at ha
            split at ha
            · simp [refuse] at ha
            · rename_i rk _
              split at ha
              · simp [refuse] at ha
              · rename_i items hit
                unfold specBlock at ha
                split at ha
                · simp [refuse] at ha
                · rename_i hrej
                  split at ha
                  · simp [refuse] at ha
                  · rename_i tos _
                    obtain ⟨t2, _, ht2⟩ := mem_seqOut _ d tos ha
                    obtain ⟨it, hitm, hd2⟩ := mem_seqOut _ d items ht2
                    refine ⟨k, sbody, rk, items, hsb, hit, hrej, ?_⟩
                    cases it with
                    | deliverTo a =>
                      cases a with
                      | target id =>
                        simp [specDeliver] at hd2
                        subst hd2
                        left
                        exact hitm
                      | noArgs => simp [specDeliver] at hd2
                      | unknown => simp [specDeliver] at hd2
                    | reroute body =>
                      cases body with
                      | none => simp [specDeliver] at hd2
                      | some body =>
                        right
                        exact ⟨body, f2, t2, hitm, hd2⟩
                    | check ok => simp [specDeliver] at hd2
                    | modify ms => simp [specDeliver] at hd2
                    | reject r => simp [specDeliver] at hd2
                    | other => simp [specDeliver] at hd2

/-! ## the lookup order is the declaration order, whatever the answering order

Table modules answer after a latency (`Table.delay`, an input of every case: the harness' modules
answer in the order the case scripts).  The selection reads the tables in declaration order and waits
for each answer, so latencies change how long it takes and nothing else. -/

theorem firstIn_cons {β} (t : Table) (b : β) (r : List (Table × β)) (k : Str) :
    firstIn ((t, b) :: r) k = if t.contains k then some b else firstIn r k := by
  unfold firstIn
  cases h : t.contains k <;> simp [List.find?, h]

/-- the sequential loop with latencies selects exactly what `firstIn` selects -/
theorem firstInTimed_block {β} (l : List (Table × β)) (k : Str) :
    (firstInTimed l k).1 = firstIn l k := by
  induction l with
  | nil => rfl
  | cons p r ih =>
    obtain ⟨t, b⟩ := p
    rw [firstIn_cons]
    unfold firstInTimed
    cases h : t.contains k <;> simp [ih]

theorem retime_contains (f : Table → Nat) (t : Table) (k : Str) :
    ({ t with delay := f t } : Table).contains k = t.contains k := rfl

theorem firstIn_retime {β} (f : Table → Nat) (l : List (Table × β)) (k : Str) :
    firstIn (retime f l) k = firstIn l k := by
  induction l with
  | nil => rfl
  | cons p r ih =>
    obtain ⟨t, b⟩ := p
    have hr : retime f ((t, b) :: r) = ({ t with delay := f t }, b) :: retime f r := rfl
    rw [hr, firstIn_cons, firstIn_cons, retime_contains, ih]

/-- **the lookup order is the declaration order whatever the answering order**: for all table lists,
keys and latency assignments `f`, the block selected by `srcBlockForAddr` / `rcptBlockForAddr`
(`selectBlock`) is the same, and so is the block the timed sequential loop returns. -/
theorem C04_lookup_order_ignores_latency {β} (f : Table → Nat) (L : Level β) (k : Str) (nullOk : Bool) :
    selectBlock { L with ins := retime f L.ins } k nullOk = selectBlock L k nullOk ∧
    (firstInTimed (retime f L.ins) k).1 = firstIn L.ins k := by
  constructor
  · unfold selectBlock
    simp only [firstIn_retime]
  · rw [firstInTimed_block, firstIn_retime]

/-- the first DECLARED matching table wins: the selected block belongs to a table that contains the
key and no table declared before it does -/
theorem C04_first_declared_table_wins {β} (l : List (Table × β)) (k : Str) (b : β)
    (h : firstIn l k = some b) :
    ∃ pre t post, l = pre ++ (t, b) :: post ∧ t.contains k = true ∧
      ∀ p ∈ pre, p.1.contains k = false := by
  induction l with
  | nil => simp [firstIn] at h
  | cons p r ih =>
    obtain ⟨t, b'⟩ := p
    rw [firstIn_cons] at h
    cases hc : t.contains k with
    | true =>
      simp [hc] at h
      subst h
      exact ⟨[], t, r, rfl, hc, by simp⟩
    | false =>
      simp [hc] at h
      obtain ⟨pre, t', post, hl, ht, hpre⟩ := ih h
      refine ⟨(t, b') :: pre, t', post, by simp [hl], ht, ?_⟩
      intro p hp
      cases hp with
      | head => exact hc
      | tail _ hp => exact hpre p hp

namespace Ex
/-- two `destination_in` tables that both contain `b@x`; the later one answers first -/
def slowFirst : List (Table × Nat) := [(⟨[b_x], 5⟩, 0), (⟨[b_x, a_x], 1⟩, 1)]
/-- the code selects the first declared one (and has waited 5 units for it) -/
example : firstInTimed slowFirst b_x = (some 0, 5) := by decide
example : firstIn slowFirst b_x = some 0 := by decide
/-- a "first answer wins" selection would take the other block: the theorem above is not a
property of every way of consulting the tables -/
example : firstAnswering slowFirst b_x = some (1, 1) := by decide
/-- a key only the second table has: both lookups are waited for -/
example : firstInTimed slowFirst a_x = (some 1, 6) := by decide
end Ex

/-! ## T1: facts regenerated from the current tree agree with what the model was written from

(finite tables extracted by `tools/extract pipeline`; `decide` is the right tool here) -/

/-! ## a block's configured reply (`parseRejectDirective`)

"… or is refused with that block's configured reply": the reply of a rejecting block is what the `reject`
directive says — basic code, enhanced code and message are taken as written, independently of each other
(`reject 450 5.7.1 …` answers 450 5.7.1, `reject 550 4.2.1 …` answers 550 4.2.1), and the defaults are
554 / 5.7.0 / "Message rejected due to a local policy". -/

theorem tdiv100_class (code : Int) : (Int.tdiv code 100 = 4 ∨ Int.tdiv code 100 = 5) ↔ (400 ≤ code ∧ code ≤ 599) := by
  rcases Int.le_total 0 code with h | h
  · rw [Int.tdiv_eq_ediv_of_nonneg h]; omega
  · have h2 : Int.tdiv code 100 ≤ 0 := by
      have h3 : 0 ≤ Int.tdiv (-code) 100 := Int.tdiv_nonneg (by omega) (by decide)
      rw [Int.neg_tdiv] at h3
      omega
    omega

theorem rejectWithCode_spec (cs : Str) (e : Nat × Int × Int) (m : Str) (code : Int)
    (hc : atoi cs = some code) (hcode : 400 ≤ code ∧ code ≤ 599) :
    rejectWithCode cs e m = some ⟨code.toNat, e.1, e.2.1, e.2.2, m⟩ := by
  have h := (tdiv100_class code).2 hcode
  unfold rejectWithCode
  rw [hc]
  rcases h with h | h <;> simp [h]

/-- Three arguments (and two arguments: default message): the reply carries exactly the configured basic
code, the three configured numbers of the enhanced code and the configured message, whatever the classes
of the two codes are. -/
theorem C04_reject_reply_is_configured (cs es m : Str) (code x y z : Int)
    (hc : atoi cs = some code) (he : parseEnhanced es = some (x, y, z))
    (hcode : 400 ≤ code ∧ code ≤ 599) (hx : x = 4 ∨ x = 5) (hm : m ≠ []) :
    parseReject [cs, es, m] = some ⟨code.toNat, x.toNat, y, z, m⟩ ∧
    parseReject [cs, es] = some ⟨code.toNat, x.toNat, y, z, defaultRejectMsg⟩ := by
  have hm' : m.isEmpty = false := by cases m <;> simp_all
  have hw : ∀ m', rejectWithEnh cs es m' = some ⟨code.toNat, x.toNat, y, z, m'⟩ := by
    intro m'
    unfold rejectWithEnh
    rw [he]
    have := rejectWithCode_spec cs (x.toNat, y, z) m' code hc hcode
    rcases hx with hx | hx <;> subst hx <;> simpa using this
  constructor
  · simp [parseReject, hm', hw]
  · simp [parseReject, hw]

/-- One argument: the configured basic code with the default enhanced code and message; no argument: the
documented default reply. -/
theorem C04_reject_code_only (cs : Str) (code : Int) (hc : atoi cs = some code) (hcode : 400 ≤ code ∧ code ≤ 599) :
    parseReject [cs] = some ⟨code.toNat, 5, 7, 0, defaultRejectMsg⟩ ∧
    parseReject [] = some ⟨554, 5, 7, 0, defaultRejectMsg⟩ := by
  constructor
  · simpa [parseReject] using rejectWithCode_spec cs (5, 7, 0) defaultRejectMsg code hc hcode
  · rfl

theorem rejectWithCode_sound (cs : Str) (e : Nat × Int × Int) (m : Str) (r : Reply)
    (h : rejectWithCode cs e m = some r) :
    (400 ≤ r.code ∧ r.code ≤ 599) ∧ r.e0 = e.1 ∧ r.e1 = e.2.1 ∧ r.e2 = e.2.2 ∧ r.msg = m := by
  unfold rejectWithCode at h
  cases hc : atoi cs with
  | none => simp [hc] at h
  | some code =>
    simp only [hc] at h
    by_cases hd : (Int.tdiv code 100 != 4 && Int.tdiv code 100 != 5) = true
    · simp [hd] at h
    · simp only [hd] at h
      have hcl : Int.tdiv code 100 = 4 ∨ Int.tdiv code 100 = 5 := by
        simp at hd
        by_cases h4 : Int.tdiv code 100 = 4
        · exact Or.inl h4
        · exact Or.inr (hd h4)
      have hr := (tdiv100_class code).1 hcl
      simp at h
      subst h
      simp
      omega

theorem rejectWithEnh_sound (cs es m : Str) (r : Reply) (h : rejectWithEnh cs es m = some r) :
    (400 ≤ r.code ∧ r.code ≤ 599) ∧ (r.e0 = 4 ∨ r.e0 = 5) ∧ r.msg = m := by
  unfold rejectWithEnh at h
  cases he : parseEnhanced es with
  | none => simp [he] at h
  | some t =>
    obtain ⟨x, y, z⟩ := t
    simp only [he] at h
    by_cases hd : (x != 4 && x != 5) = true
    · simp [hd] at h
    · simp only [hd] at h
      have hs := rejectWithCode_sound cs _ m r h
      have hx : x = 4 ∨ x = 5 := by
        simp at hd
        by_cases h4 : x = 4
        · exact Or.inl h4
        · exact Or.inr (hd h4)
      refine ⟨hs.1, ?_, hs.2.2.2.2⟩
      rw [hs.2.1]
      rcases hx with hx | hx <;> subst hx <;> simp

/-- Every reply that an accepted `reject` directive configures is a refusal: a 4xx/5xx basic code, an
enhanced code of class 4 or 5 and a non-empty message. -/
theorem C04_reject_reply_is_a_refusal (args : List Str) (r : Reply) (h : parseReject args = some r) :
    (400 ≤ r.code ∧ r.code ≤ 599) ∧ (r.e0 = 4 ∨ r.e0 = 5) ∧ r.msg ≠ [] := by
  have hdef : defaultRejectMsg ≠ [] := by decide
  match args, h with
  | [], h =>
    simp [parseReject] at h
    subst h
    exact ⟨by decide, by decide, hdef⟩
  | [c], h =>
    have hs := rejectWithCode_sound c (5, 7, 0) defaultRejectMsg r (by simpa [parseReject] using h)
    exact ⟨hs.1, Or.inr hs.2.1, by rw [hs.2.2.2.2]; exact hdef⟩
  | [c, e], h =>
    have hs := rejectWithEnh_sound c e defaultRejectMsg r (by simpa [parseReject] using h)
    exact ⟨hs.1, hs.2.1, by rw [hs.2.2]; exact hdef⟩
  | [c, e, m], h =>
    simp only [parseReject] at h
    by_cases hm : m.isEmpty = true
    · simp [hm] at h
    · simp only [hm] at h
      have hs := rejectWithEnh_sound c e m r h
      refine ⟨hs.1, hs.2.1, ?_⟩
      rw [hs.2.2]
      intro h0
      subst h0
      simp at hm
  | _ :: _ :: _ :: _ :: _, h => simp [parseReject] at h

namespace Ex
def s450 : Str := [52, 53, 48]            -- 450
def s550 : Str := [53, 53, 48]            -- 550
def s571 : Str := [53, 46, 55, 46, 49]    -- 5.7.1
def s421 : Str := [52, 46, 50, 46, 49]    -- 4.2.1
def later : Str := [108, 97, 116, 101, 114]  -- later

/-- the hypotheses of `C04_reject_reply_is_configured` are satisfiable with disagreeing classes -/
example : atoi s450 = some 450 ∧ parseEnhanced s571 = some (5, 7, 1) := by decide
example : parseReject [s450, s571, later] = some ⟨450, 5, 7, 1, later⟩ := by decide
example : parseReject [s550, s421] = some ⟨550, 4, 2, 1, defaultRejectMsg⟩ := by decide
example : parseReject [s450] = some ⟨450, 5, 7, 0, defaultRejectMsg⟩ := by decide
/-- refused: basic code outside 4xx/5xx, enhanced class 2, two numbers only, empty message, four arguments -/
example : parseReject [[50, 48, 48]] = none := by decide
example : parseReject [s550, [50, 46, 48, 46, 48]] = none := by decide
example : parseReject [s550, [53, 46, 55]] = none := by decide
example : parseReject [s550, s571, []] = none := by decide
example : parseReject [s550, s571, later, later] = none := by decide

/-- ```
destination x            { deliver_to t0 }
default_destination      { reject 450 5.7.1 later }
``` : the recipient is refused with 450 5.7.1 "later" -/
def exRej : Ast 0 :=
  [ .sub (.rules [dx] [.deliverTo (.target 0)]),
    .sub (.dflt [.reject (parseReject [s450, s571, later])]) ]
example : isOk (load lowerNorm 0 exRej) = true := by decide
example : spec lowerNorm 0 exRej [] c_y = ([], some (.reply ⟨450, 5, 7, 1, later⟩)) := by decide
end Ex

/-- the directive grammar of the three parsers -/
theorem C04_T1_directive_cases :
    Generated.Pipeline.rootCases = Expect.Pipeline.rootCases ∧
    Generated.Pipeline.srcCases = Expect.Pipeline.srcCases ∧
    Generated.Pipeline.rcptCases = Expect.Pipeline.rcptCases := by decide

/-- both rule loops keep the first declaration of a rule (`insertRules`) -/
theorem C04_T1_first_declaration_wins :
    Generated.Pipeline.sourceFirstWinsGuards = 1 ∧ Generated.Pipeline.destinationFirstWinsGuards = 1 := by decide

/-- blocks without `deliver_to` / `reroute` / `reject` are refused (`loadRcpt`) -/
theorem C04_T1_decision_required :
    Generated.Pipeline.rcptTrailingRefusals = Expect.Pipeline.rcptTrailingRefusals := by decide

/-- tables, then the whole key, then the domain, then the default (`selectBlock`) -/
theorem C04_T1_lookup_order :
    Generated.Pipeline.sourceLookupOrder = Expect.Pipeline.sourceLookupOrder ∧
    Generated.Pipeline.destinationLookupOrder = Expect.Pipeline.destinationLookupOrder := by decide

end MaddyVerif.C04
