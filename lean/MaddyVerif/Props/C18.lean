import MaddyVerif.Model.QueueDsn
import MaddyVerif.Props.C01
/-!
# C18 — failure reports are well-formed, name the right recipients, and cannot loop

Quantifier: all recipient lists (duplicate-free, as C01), all `maxTries`, all per-recipient errors
of the attempt (`now`, any error value), all stored errors of earlier attempts, all rewrite maps,
all address namings and IDNA behaviours (`Cfg.name`, `Cfg.idna`), both report flavours, all
original headers, and the report delivery failing at any stage (`failAt`).

Model: `Model/Dsn.lean` (dsn.GenerateDSN) and `Model/QueueDsn.lean` (emitDSN inside tryDelivery);
the classification loop is `Queue.classify`, the one C01 is proved about.
-/
namespace MaddyVerif.C18
open MaddyVerif.Queue MaddyVerif.Errors MaddyVerif.Dsn MaddyVerif.QueueDsn

/-! ## specification vocabulary -/

/-- Recipient `r` fails terminally in this attempt: it has an error and the error is not
retryable or the attempts are used up (the property's "failed terminally in that attempt"). -/
def failsNow (maxTries : Nat) (now : Addr → Option Err) (tries : Addr → Nat) (r : Addr) : Bool :=
  match now r with
  | some e => !isTemporaryOrUnspec e || decide (tries r + 1 ≥ maxTries)
  | none => false

/-- The recipients of the attempt that fail terminally, in the order of `meta.To`. -/
def failedNow (maxTries : Nat) (now : Addr → Option Err) (q : QMeta) : List Addr :=
  q.to.filter (failsNow maxTries now q.tries)

/-- What the bounce pipeline saw during the attempt. -/
def bounces : List QEv → List BEv
  | [] => []
  | .bounce e :: t => e :: bounces t
  | _ :: t => bounces t

/-- What happened to the spool entry. -/
def spoolEvs : List QEv → List QEv
  | [] => []
  | .bounce _ :: t => spoolEvs t
  | e :: t => e :: spoolEvs t

/-- The Diagnostic-Code text of a stored error in a report of flavour `utf8`. -/
def shownText (utf8 : Bool) (s : Reply) : Str :=
  if utf8 then oneLine (msgText s.msg) else mangle (oneLine (msgText s.msg))

/-- The per-recipient group the property asks for: recipient `r` under the address `root r` the
sender used, with the status and diagnostic of the error of THIS attempt. `none` when the attempt
has no error for `r` or the address cannot be written in this flavour of report. -/
def expectedGroup (cfg : Cfg) (utf8 : Bool) (root : Addr → Addr) (now : Addr → Option Err)
    (r : Addr) : Option RcptGroup :=
  match now r, cfg.idna.addr utf8 (cfg.name (root r)) with
  | some e, some a =>
    some { addrType := addrType utf8, addr := a, action := actionFailed,
           status := storedEnch (toSMTPErr e),
           diag := .smtp (toSMTPErr e).code (storedEnch (toSMTPErr e)) (shownText utf8 (toSMTPErr e)),
           remoteMTA := none }
  | _, _ => none

/-- The rewrite map records, for every recipient of the queue, the address the sender used
(`root`) — directly, the way ONE pipeline level does (`msgpipeline.AddRcpt`: an entry only when
the address changed). -/
def RecordsRoot (m : Addr → Addr) (root : Addr → Addr) (to : List Addr) : Prop :=
  ∀ r ∈ to, root r ≠ 0 ∧ m r = if root r = r then 0 else root r

/-! ## helper lemmas -/

theorem retryable_clsOfErr (e : Err) : (clsOfErr e).retryable = isTemporaryOrUnspec e := by
  unfold clsOfErr isTemporaryOrUnspec
  cases h : tempOf e with
  | none => simp [Cls.retryable]
  | some b => cases b <;> simp [Cls.retryable]

theorem willFail_eq (maxTries : Nat) (now : Addr → Option Err) (tries : Addr → Nat) (r : Addr) :
    C01.willFail maxTries (fun r => (now r).map clsOfErr) tries r = failsNow maxTries now tries r := by
  unfold C01.willFail failsNow
  cases h : now r with
  | none => simp [h]
  | some e => simp [h, retryable_clsOfErr]

/-- The failed set computed by `tryDelivery` is exactly `failedNow`. -/
theorem split_failed (maxTries : Nat) (now : Addr → Option Err) (q : QMeta) (hnd : q.to.Nodup) :
    (split maxTries now q).failedR = failedNow maxTries now q := by
  unfold split failedNow
  have h := (C01.classify_spec maxTries (fun r => (now r).map clsOfErr) q.to hnd ⟨q.tries, [], []⟩).2.1
  simp only [List.nil_append] at h
  rw [h]
  apply List.filter_congr
  intro r _
  exact willFail_eq maxTries now q.tries r

theorem split_new (maxTries : Nat) (now : Addr → Option Err) (q : QMeta) (hnd : q.to.Nodup) :
    (split maxTries now q).newR =
      q.to.filter (C01.willRetry maxTries (fun r => (now r).map clsOfErr) q.tries) := by
  unfold split
  have h := (C01.classify_spec maxTries (fun r => (now r).map clsOfErr) q.to hnd ⟨q.tries, [], []⟩).1
  simpa using h

theorem failsNow_some {maxTries : Nat} {now : Addr → Option Err} {tries : Addr → Nat} {r : Addr}
    (h : failsNow maxTries now tries r = true) : ∃ e, now r = some e := by
  unfold failsNow at h
  cases hn : now r with
  | none => simp [hn] at h
  | some e => exact ⟨e, rfl⟩

theorem mem_failedNow {maxTries : Nat} {now : Addr → Option Err} {q : QMeta} {r : Addr}
    (h : r ∈ failedNow maxTries now q) : r ∈ q.to ∧ ∃ e, now r = some e := by
  unfold failedNow at h
  rw [List.mem_filter] at h
  exact ⟨h.1, failsNow_some h.2⟩

/-- Every recipient with an error in this attempt has `toSMTPErr` of THAT error stored. -/
theorem storeErrs_now (now : Addr → Option Err) (to : List Addr) (old : Addr → Option Reply)
    (r : Addr) (e : Err) (hr : r ∈ to) (he : now r = some e) :
    storeErrs now to old r = some (toSMTPErr e) := by
  simp [storeErrs, hr, he]

/-! ### the `rcptInfo` loop and `GenerateDSN` -/

def infoOf (cfg : Cfg) (m : MsgMeta) (r : Addr) (se : Reply) : RcptInfo :=
  { finalRcpt := cfg.name (translate m r), remoteMTA := [], action := actionFailed,
    status := storedEnch se, diag := .smtp se.code (storedEnch se) (msgText se.msg) }

theorem rcptInfos_spec (cfg : Cfg) (m : MsgMeta) (l : List Addr) (s : Addr → Reply)
    (h : ∀ r ∈ l, m.rcptErrs r = some (s r)) :
    rcptInfos cfg m l = some (l.map (fun r => infoOf cfg m r (s r))) := by
  induction l with
  | nil => simp [rcptInfos]
  | cons a t ih =>
    have ha := h a (by simp)
    have ht := ih (fun r hr => h r (by simp [hr]))
    simp [rcptInfos, ha, ht, infoOf]

theorem rcptGroups_spec (ix : Idna) (utf8 : Bool) (rs : List RcptInfo) (gs : List RcptGroup)
    (h : rcptGroups ix utf8 rs = .ok gs) :
    rs.map (rcptGroup ix utf8) = gs.map Except.ok := by
  induction rs generalizing gs with
  | nil => simp [rcptGroups] at h; subst h; simp
  | cons r t ih =>
    unfold rcptGroups at h
    cases hg : rcptGroup ix utf8 r with
    | error e => simp [hg] at h
    | ok g =>
      cases ht : rcptGroups ix utf8 t with
      | error e => simp [hg, ht] at h
      | ok gs' =>
        simp [hg, ht] at h
        subst h
        simp [hg, ih gs' ht]

/-- `Except` to `Option`. -/
def okOf {ε α} : Except ε α → Option α
  | .ok a => some a
  | .error _ => none

/-- What `RecipientInfo.WriteTo` makes of a record built by `emitDSN` (when it succeeds). -/
theorem rcptGroup_infoOf (cfg : Cfg) (m : MsgMeta) (r : Addr) (se : Reply) (g : RcptGroup)
    (h : rcptGroup cfg.idna m.utf8 (infoOf cfg m r se) = .ok g) :
    cfg.idna.addr m.utf8 (cfg.name (translate m r)) = some g.addr ∧
    g = { addrType := addrType m.utf8, addr := g.addr, action := actionFailed,
          status := storedEnch se,
          diag := .smtp se.code (storedEnch se) (shownText m.utf8 se), remoteMTA := none } ∧
    (storedEnch se).cls ≠ 0 := by
  unfold rcptGroup infoOf at h
  simp only at h
  split at h
  · simp at h
  · cases ha : cfg.idna.addr m.utf8 (cfg.name (translate m r)) with
    | none => simp [ha] at h
    | some a =>
      simp only [ha] at h
      have hact : actionFailed.isEmpty = false := by decide
      simp only [hact, Bool.false_eq_true, ↓reduceIte] at h
      split at h
      · simp at h
      · rename_i hcls
        simp only [diagOut, List.isEmpty_nil, ↓reduceIte] at h
        have : g = _ := (Except.ok.inj h).symm
        subst this
        refine ⟨rfl, ?_, ?_⟩
        · simp [shownText]
        · simpa using hcls


theorem generate_ok (ix : Idna) (utf8 : Bool) (env : Envelope) (mta : MtaInfo) (rs : List RcptInfo)
    (h : Hdr) (rep : Report) (hg : generate ix utf8 env mta rs h = .ok rep) :
    rep.utf8 = utf8 ∧ rep.msgId = env.msgId ∧ rep.hdrTo = env.to ∧ rep.hdrFrom = env.from_ ∧
    rep.partTypes = partTypes utf8 ∧ rep.human = humanLines rs ∧ rep.origHdr = h ∧
    mtaGroup ix utf8 mta = .ok rep.mta ∧ rcptGroups ix utf8 rs = .ok rep.rcpts := by
  unfold generate at hg
  cases hm : mtaGroup ix utf8 mta with
  | error e => simp [hm] at hg
  | ok mg =>
    cases hr : rcptGroups ix utf8 rs with
    | error e => simp [hm, hr] at hg
    | ok gs =>
      simp [hm, hr] at hg
      subst hg
      simp

/-- The five ways `emitDSN` can end. -/
theorem emitDSN_cases (cfg : Cfg) (m : MsgMeta) (failed : List Addr) (failAt : Option Stage) :
    (emitDSN cfg m failed failAt = [] ∧ (cfg.pipeline = false ∨ m.originalFrom = 0)) ∨
    (emitDSN cfg m failed failAt = [.panic] ∧ rcptInfos cfg m failed = none) ∨
    (∃ infos e, emitDSN cfg m failed failAt = [.genError e] ∧ rcptInfos cfg m failed = some infos ∧
      generate cfg.idna m.utf8 (envelope cfg m) (mtaInfo cfg m) infos m.hdr = .error e) ∨
    (∃ infos rep, emitDSN cfg m failed failAt = handOver m rep failAt ∧
      cfg.pipeline = true ∧ m.originalFrom ≠ 0 ∧ rcptInfos cfg m failed = some infos ∧
      generate cfg.idna m.utf8 (envelope cfg m) (mtaInfo cfg m) infos m.hdr = .ok rep) := by
  unfold emitDSN
  by_cases hp : cfg.pipeline = true
  · by_cases ho : m.originalFrom = 0
    · left; simp [hp, ho]
    · right
      simp only [hp, Bool.not_true, Bool.false_eq_true, ↓reduceIte, ho]
      cases hi : rcptInfos cfg m failed with
      | none => left; simp
      | some infos =>
        right
        cases hg : generate cfg.idna m.utf8 (envelope cfg m) (mtaInfo cfg m) infos m.hdr with
        | error e => left; exact ⟨infos, e, by simp [hg], rfl, hg⟩
        | ok rep => right; exact ⟨infos, rep, by simp [hg], trivial, ho, rfl, hg⟩
  · left; simp [hp]

theorem reportsOf_handOver (m : MsgMeta) (rep : Report) (failAt : Option Stage) :
    ∀ r ∈ reportsOf (handOver m rep failAt), r = rep := by
  intro r hr
  unfold handOver at hr
  repeat' split at hr
  all_goals simp [reportsOf] at hr
  all_goals first | exact hr | skip

theorem bounces_append (a b : List QEv) : bounces (a ++ b) = bounces a ++ bounces b := by
  induction a with
  | nil => rfl
  | cons e t ih => cases e <;> simp [bounces, ih]

theorem bounces_map (l : List BEv) : bounces (l.map QEv.bounce) = l := by
  induction l with
  | nil => rfl
  | cons e t ih => simp [bounces, ih]

theorem spoolEvs_append (a b : List QEv) : spoolEvs (a ++ b) = spoolEvs a ++ spoolEvs b := by
  induction a with
  | nil => rfl
  | cons e t ih => cases e <;> simp [spoolEvs, ih]

theorem spoolEvs_map (l : List BEv) : spoolEvs (l.map QEv.bounce) = [] := by
  induction l with
  | nil => rfl
  | cons e t ih => simp [spoolEvs, ih]

/-- The metadata `emitDSN` is called with: this attempt's errors stored. -/
def metaNow (now : Addr → Option Err) (q : QMeta) : MsgMeta :=
  { q.msg with rcptErrs := storeErrs now q.to q.msg.rcptErrs }

/-- What the bounce pipeline sees in one attempt: `emitDSN` for the failed set, if there is one. -/
theorem bounces_attempt (cfg : Cfg) (maxTries : Nat) (now : Addr → Option Err)
    (failAt : Option Stage) (q : QMeta) (hnd : q.to.Nodup) :
    bounces (attempt cfg maxTries now failAt q).2 =
      if (failedNow maxTries now q).isEmpty then []
      else emitDSN cfg (metaNow now q) (failedNow maxTries now q) failAt := by
  unfold attempt
  simp only [split_failed maxTries now q hnd]
  split <;> split <;> simp [bounces_append, bounces_map, bounces, metaNow, *]


theorem reportsOf_nil_of (l : List BEv)
    (h : l = [] ∨ l = [.panic] ∨ ∃ e, l = [.genError e]) : reportsOf l = [] := by
  rcases h with h | h | ⟨e, h⟩ <;> subst h <;> rfl

/-- Any report handed to the bounce pipeline in the attempt is what `GenerateDSN` made of the
records `emitDSN` built for exactly the recipients failing terminally now. -/
theorem report_core (cfg : Cfg) (maxTries : Nat) (now : Addr → Option Err) (failAt : Option Stage)
    (q : QMeta) (hnd : q.to.Nodup) (rep : Report)
    (hrep : rep ∈ reportsOf (bounces (attempt cfg maxTries now failAt q).2)) :
    cfg.pipeline = true ∧ q.msg.originalFrom ≠ 0 ∧ failedNow maxTries now q ≠ [] ∧
    ∃ infos, rcptInfos cfg (metaNow now q) (failedNow maxTries now q) = some infos ∧
      generate cfg.idna q.msg.utf8 (envelope cfg (metaNow now q)) (mtaInfo cfg (metaNow now q))
        infos q.msg.hdr = .ok rep := by
  rw [bounces_attempt cfg maxTries now failAt q hnd] at hrep
  by_cases hemp : (failedNow maxTries now q).isEmpty = true
  · simp [hemp, reportsOf] at hrep
  · simp only [hemp, Bool.false_eq_true, ↓reduceIte] at hrep
    have hne : failedNow maxTries now q ≠ [] := by
      intro h; rw [h] at hemp; simp at hemp
    rcases emitDSN_cases cfg (metaNow now q) (failedNow maxTries now q) failAt with
      ⟨h, _⟩ | ⟨h, _⟩ | ⟨infos, e, h, _, _⟩ | ⟨infos, rep', h, hp, ho, hi, hg⟩
    · rw [h] at hrep; simp [reportsOf] at hrep
    · rw [h] at hrep; simp [reportsOf] at hrep
    · rw [h] at hrep; simp [reportsOf] at hrep
    · rw [h] at hrep
      have := reportsOf_handOver (metaNow now q) rep' failAt rep hrep
      subst this
      exact ⟨hp, ho, hne, infos, hi, hg⟩

/-- The stored error `emitDSN` finds for a recipient of this attempt. -/
def storedNow (now : Addr → Option Err) (r : Addr) : Reply :=
  match now r with
  | some e => toSMTPErr e
  | none => default

theorem metaNow_errs (maxTries : Nat) (now : Addr → Option Err) (q : QMeta) :
    ∀ r ∈ failedNow maxTries now q, (metaNow now q).rcptErrs r = some (storedNow now r) := by
  intro r hr
  obtain ⟨hto, e, he⟩ := mem_failedNow hr
  simp [metaNow, storedNow, he, storeErrs_now now q.to q.msg.rcptErrs r e hto he]

/-- The per-recipient groups of a report: exactly the recipients failing terminally in this
attempt, in order, each under its one-level translation, with the status and the diagnostic of
the error of this attempt. -/
theorem report_groups (cfg : Cfg) (maxTries : Nat) (now : Addr → Option Err) (failAt : Option Stage)
    (q : QMeta) (hnd : q.to.Nodup) (rep : Report)
    (hrep : rep ∈ reportsOf (bounces (attempt cfg maxTries now failAt q).2)) :
    rep.rcpts.map some =
      (failedNow maxTries now q).map (expectedGroup cfg q.msg.utf8 (translate q.msg) now) := by
  obtain ⟨_, _, _, infos, hi, hg⟩ := report_core cfg maxTries now failAt q hnd rep hrep
  have hspec := rcptInfos_spec cfg (metaNow now q) (failedNow maxTries now q) (storedNow now)
    (metaNow_errs maxTries now q)
  rw [hspec] at hi
  have hi' := Option.some.inj hi
  subst hi'
  have hgs := (generate_ok _ _ _ _ _ _ _ hg).2.2.2.2.2.2.2.2
  have hmap := rcptGroups_spec _ _ _ _ hgs
  rw [List.map_map] at hmap
  have h2 : rep.rcpts.map some = (rep.rcpts.map Except.ok).map (okOf (ε := GenErr)) := by
    rw [List.map_map]; apply List.map_congr_left; intro g _; rfl
  rw [h2, ← hmap, List.map_map]
  apply List.map_congr_left
  intro r hr
  obtain ⟨hto, e, he⟩ := mem_failedNow hr
  -- this element is `.ok g` for some group of the report
  have hmem : (rcptGroup cfg.idna q.msg.utf8 ∘ fun r => infoOf cfg (metaNow now q) r (storedNow now r)) r
      ∈ rep.rcpts.map Except.ok := by
    rw [← hmap]; exact List.mem_map_of_mem hr
  obtain ⟨g, _, hgr⟩ := List.mem_map.mp hmem
  have hok : rcptGroup cfg.idna (metaNow now q).utf8 (infoOf cfg (metaNow now q) r (storedNow now r)) = .ok g :=
    hgr.symm
  obtain ⟨ha, hgeq, _⟩ := rcptGroup_infoOf cfg (metaNow now q) r (storedNow now r) g hok
  have hst : storedNow now r = toSMTPErr e := by simp [storedNow, he]
  simp only [Function.comp]
  show okOf (rcptGroup cfg.idna (metaNow now q).utf8 (infoOf cfg (metaNow now q) r (storedNow now r))) = _
  rw [hok]
  have ha' : cfg.idna.addr q.msg.utf8 (cfg.name (translate q.msg r)) = some g.addr := ha
  simp only [okOf, expectedGroup, he, ha']
  rw [hgeq, hst]
  rfl


theorem all_some_of_map_eq {α β} {l : List α} {gs : List β} {f : α → Option β}
    (h : gs.map some = l.map f) : ∀ x ∈ l, ∃ g, f x = some g := by
  intro x hx
  have : f x ∈ gs.map some := by rw [h]; exact List.mem_map_of_mem hx
  obtain ⟨g, _, hg⟩ := List.mem_map.mp this
  exact ⟨g, hg.symm⟩

theorem translate_root (m : MsgMeta) (root : Addr → Addr) (to : List Addr)
    (h : RecordsRoot m.origRcpts root to) : ∀ r ∈ to, translate m r = root r := by
  intro r hr
  obtain ⟨hne, hm⟩ := h r hr
  unfold translate
  by_cases heq : root r = r
  · simp [hm, heq]
  · simp [hm, heq, hne]

theorem expectedGroup_congr (cfg : Cfg) (utf8 : Bool) (f g : Addr → Addr) (now : Addr → Option Err)
    (r : Addr) (h : f r = g r) : expectedGroup cfg utf8 f now r = expectedGroup cfg utf8 g now r := by
  simp [expectedGroup, h]

/-! ## the property -/

/-- **Lists exactly the failed recipients, under the addresses the sender used.**  When the
rewrite map records the sender's address for every recipient of the queue (what one pipeline level
produces, see `C18_one_pipeline_records_root`), every report handed over in an attempt has one
per-recipient group for each recipient failing terminally in that attempt and for nobody else, in
order, and the address shown is the conversion (for this flavour of report) of the address the
sender used — never of the effective address. -/
theorem C18_lists_exactly_failed_under_original_addresses
    (cfg : Cfg) (maxTries : Nat) (now : Addr → Option Err) (failAt : Option Stage) (q : QMeta)
    (hnd : q.to.Nodup) (root : Addr → Addr) (hroot : RecordsRoot q.msg.origRcpts root q.to)
    (rep : Report) (hrep : rep ∈ reportsOf (bounces (attempt cfg maxTries now failAt q).2)) :
    rep.rcpts.map (fun g => some g.addr) =
      (failedNow maxTries now q).map (fun r => cfg.idna.addr q.msg.utf8 (cfg.name (root r))) ∧
    rep.rcpts.length = (failedNow maxTries now q).length ∧
    ∀ g ∈ rep.rcpts, g.addrType = addrType q.msg.utf8 ∧ g.action = actionFailed := by
  have hg := report_groups cfg maxTries now failAt q hnd rep hrep
  have hsome := all_some_of_map_eq hg
  refine ⟨?_, ?_, ?_⟩
  · have h1 : rep.rcpts.map (fun g => some g.addr) = (rep.rcpts.map some).map (Option.map (·.addr)) := by
      rw [List.map_map]; apply List.map_congr_left; intro g _; rfl
    rw [h1, hg, List.map_map]
    apply List.map_congr_left
    intro r hr
    obtain ⟨hto, e, he⟩ := mem_failedNow hr
    have htr := translate_root q.msg root q.to hroot r hto
    simp only [Function.comp, expectedGroup, he, htr]
    cases cfg.idna.addr q.msg.utf8 (cfg.name (root r)) <;> rfl
  · have := congrArg List.length hg
    simpa using this
  · intro g hgm
    have : some g ∈ (failedNow maxTries now q).map (expectedGroup cfg q.msg.utf8 (translate q.msg) now) := by
      rw [← hg]; exact List.mem_map_of_mem hgm
    obtain ⟨r, hr, hrg⟩ := List.mem_map.mp this
    obtain ⟨_, e, he⟩ := mem_failedNow hr
    simp only [expectedGroup, he] at hrg
    cases ha : cfg.idna.addr q.msg.utf8 (cfg.name (translate q.msg r)) with
    | none => simp [ha] at hrg
    | some a =>
      simp only [ha] at hrg
      have := Option.some.inj hrg
      subst this
      exact ⟨rfl, rfl⟩

/-- **Status is the last error.**  For every listed recipient the `Status` field and the
`Diagnostic-Code` are those of `toSMTPErr` of the error the recipient got in THIS attempt
(whatever was stored from earlier attempts), the text with CR/LF replaced and, in a report about
a non-SMTPUTF8 message, restricted to ASCII. -/
theorem C18_status_is_last_error
    (cfg : Cfg) (maxTries : Nat) (now : Addr → Option Err) (failAt : Option Stage) (q : QMeta)
    (hnd : q.to.Nodup)
    (rep : Report) (hrep : rep ∈ reportsOf (bounces (attempt cfg maxTries now failAt q).2)) :
    rep.rcpts.map (fun g => some (g.status, g.diag)) =
      (failedNow maxTries now q).map (fun r => (now r).map (fun e =>
        (storedEnch (toSMTPErr e),
         DiagOut.smtp (toSMTPErr e).code (storedEnch (toSMTPErr e)) (shownText q.msg.utf8 (toSMTPErr e))))) := by
  have hg := report_groups cfg maxTries now failAt q hnd rep hrep
  have hsome := all_some_of_map_eq hg
  have h1 : rep.rcpts.map (fun g => some (g.status, g.diag)) =
      (rep.rcpts.map some).map (Option.map (fun g => (g.status, g.diag))) := by
    rw [List.map_map]; apply List.map_congr_left; intro g _; rfl
  rw [h1, hg, List.map_map]
  apply List.map_congr_left
  intro r hr
  obtain ⟨_, e, he⟩ := mem_failedNow hr
  obtain ⟨g, hgr⟩ := hsome r hr
  simp only [Function.comp, he, Option.map]
  simp only [expectedGroup, he] at hgr ⊢
  cases ha : cfg.idna.addr q.msg.utf8 (cfg.name (translate q.msg r)) with
  | none => simp [ha] at hgr
  | some a => rfl


/-- What an event of one hand-over must look like. -/
def evOk (m : MsgMeta) (rep : Report) : BEv → Prop
  | .start mf orf u t _ => mf = 0 ∧ orf = 0 ∧ u = m.utf8 ∧ t = m.requireTLS
  | .rcpt to _ => to = m.from_
  | .body r _ => r = rep
  | .genError _ => False
  | .panic => False
  | _ => True

theorem handOver_evOk (m : MsgMeta) (rep : Report) (failAt : Option Stage) :
    ∀ ev ∈ handOver m rep failAt, evOk m rep ev := by
  unfold handOver
  repeat' split
  all_goals simp [evOk]

/-- What the events of one hand-over say. -/
theorem handOver_events (m : MsgMeta) (rep : Report) (failAt : Option Stage) :
    ∀ ev ∈ handOver m rep failAt,
      (∀ mf orf u t ok, ev = .start mf orf u t ok → mf = 0 ∧ orf = 0 ∧ u = m.utf8 ∧ t = m.requireTLS) ∧
      (∀ to ok, ev = .rcpt to ok → to = m.from_) ∧
      (∀ r ok, ev = .body r ok → r = rep) ∧
      (∀ e, ev ≠ .genError e) ∧ ev ≠ .panic := by
  intro ev hev
  have h := handOver_evOk m rep failAt ev hev
  refine ⟨?_, ?_, ?_, ?_, ?_⟩
  · intro mf orf u t ok he; subst he; exact h
  · intro to ok he; subst he; exact h
  · intro r ok he; subst he; exact h
  · intro e he; subst he; exact h
  · intro he; subst he; exact h

/-- **Delivered with the null return path to the sender, carrying the original header.**
Every hand-over to the bounce pipeline starts a message from `<>` whose metadata names no original
sender, addresses it to the sender of the failed message (`meta.From`), and the report's `To:` is
the original sender, its `From:` the mailer daemon of the configured domain, its third part the
header of the failed message, its flavour that of the failed message. -/
theorem C18_report_to_sender_with_null_return_path
    (cfg : Cfg) (maxTries : Nat) (now : Addr → Option Err) (failAt : Option Stage) (q : QMeta)
    (hnd : q.to.Nodup) :
    (∀ ev ∈ bounces (attempt cfg maxTries now failAt q).2,
      (∀ mf orf u t ok, ev = .start mf orf u t ok → mf = 0 ∧ orf = 0 ∧ u = q.msg.utf8 ∧ t = q.msg.requireTLS) ∧
      (∀ to ok, ev = .rcpt to ok → to = q.msg.from_)) ∧
    (∀ rep ∈ reportsOf (bounces (attempt cfg maxTries now failAt q).2),
      rep.utf8 = q.msg.utf8 ∧ rep.hdrTo = cfg.name q.msg.originalFrom ∧
      rep.hdrFrom = lit "MAILER-DAEMON@" ++ cfg.autogenDomain ∧ rep.origHdr = q.msg.hdr ∧
      rep.partTypes = partTypes q.msg.utf8) := by
  constructor
  · intro ev hev
    rw [bounces_attempt cfg maxTries now failAt q hnd] at hev
    split at hev
    · simp at hev
    · rcases emitDSN_cases cfg (metaNow now q) (failedNow maxTries now q) failAt with
        ⟨h, _⟩ | ⟨h, _⟩ | ⟨infos, e, h, _, _⟩ | ⟨infos, rep', h, _, _, _, _⟩
      · rw [h] at hev; simp at hev
      · rw [h] at hev; simp at hev; subst hev; simp
      · rw [h] at hev; simp at hev; subst hev; simp
      · rw [h] at hev
        have := handOver_events (metaNow now q) rep' failAt ev hev
        exact ⟨this.1, this.2.1⟩
  · intro rep hrep
    obtain ⟨_, _, _, infos, _, hg⟩ := report_core cfg maxTries now failAt q hnd rep hrep
    obtain ⟨h1, _, h3, h4, h5, _, h7, _, _⟩ := generate_ok _ _ _ _ _ _ _ hg
    exact ⟨h1, h3, h4, h7, h5⟩

/-- **No report for the null sender** (and none without a bounce pipeline). -/
theorem C18_null_sender_no_report (cfg : Cfg) (m : MsgMeta) (failed : List Addr)
    (failAt : Option Stage) (h : m.originalFrom = 0 ∨ cfg.pipeline = false) :
    emitDSN cfg m failed failAt = [] := by
  unfold emitDSN
  rcases h with h | h <;> simp [h]

theorem attempt_null_sender (cfg : Cfg) (maxTries : Nat) (now : Addr → Option Err)
    (failAt : Option Stage) (q : QMeta) (h : q.msg.originalFrom = 0) :
    bounces (attempt cfg maxTries now failAt q).2 = [] := by
  unfold attempt
  have he : ∀ l, emitDSN cfg { q.msg with rcptErrs := storeErrs now q.to q.msg.rcptErrs } l failAt = [] :=
    fun l => C18_null_sender_no_report cfg _ l failAt (Or.inl h)
  simp only [he]
  split <;> split <;> simp [bounces_append, bounces]

/-- **Reports cannot trigger reports.**  Whatever message the bounce pipeline is started with
(`.start mf orf …`: envelope sender `mf`, metadata original sender `orf`), a queue that receives
THAT message — directly (original sender = `orf`) or after another SMTP hop (original sender =
the envelope sender `mf`); any queue, any configuration, any failures, any attempt — hands nothing
to its own bounce pipeline. -/
theorem C18_no_report_loops
    (cfg : Cfg) (maxTries : Nat) (now : Addr → Option Err) (failAt : Option Stage) (q : QMeta)
    (hnd : q.to.Nodup) (mf orf : Addr) (u t ok : Bool)
    (hev : BEv.start mf orf u t ok ∈ bounces (attempt cfg maxTries now failAt q).2)
    (cfg' : Cfg) (maxTries' : Nat) (now' : Addr → Option Err) (failAt' : Option Stage) (q' : QMeta)
    (hq' : q'.msg.originalFrom = orf ∨ q'.msg.originalFrom = mf) :
    bounces (attempt cfg' maxTries' now' failAt' q').2 = [] := by
  have h := (C18_report_to_sender_with_null_return_path cfg maxTries now failAt q hnd).1 _ hev
  have h0 : orf = 0 := (h.1 mf orf u t ok rfl).2.1
  have h1 : mf = 0 := (h.1 mf orf u t ok rfl).1
  exact attempt_null_sender cfg' maxTries' now' failAt' q' (by rcases hq' with h | h <;> simp [h, h0, h1])

/-- **Failure of the report delivery is contained.**  Whether and where the bounce pipeline fails
changes neither what is requeued (recipients, attempt counters, stored errors) nor the spool
events (removal / requeue). -/
theorem C18_report_failure_is_contained
    (cfg : Cfg) (maxTries : Nat) (now : Addr → Option Err) (f f' : Option Stage) (q : QMeta) :
    (attempt cfg maxTries now f q).1 = (attempt cfg maxTries now f' q).1 ∧
    spoolEvs (attempt cfg maxTries now f q).2 = spoolEvs (attempt cfg maxTries now f' q).2 := by
  simp only [attempt]
  constructor
  · split <;> rfl
  · split <;> split <;> simp [spoolEvs_append, spoolEvs_map, spoolEvs]

/-- …and the failed report delivery is aborted, never committed: a failure at `Start` ends the
hand-over there; a later failure is followed by exactly one `Abort`, which is the last call; only
a hand-over without failure ends with a successful `Commit`. -/
theorem C18_failed_report_delivery_is_aborted (m : MsgMeta) (rep : Report) (s : Stage) :
    BEv.commit true ∉ handOver m rep (some s) ∧
    (s = .start → handOver m rep (some s) = [.start 0 0 m.utf8 m.requireTLS false]) ∧
    (s ≠ .start → (handOver m rep (some s)).getLast? = some .abort ∧
                  (handOver m rep (some s)).count .abort = 1) ∧
    BEv.abort ∉ handOver m rep none ∧ (handOver m rep none).getLast? = some (.commit true) := by
  cases s <;> simp [handOver, List.count_cons]

/-- **The nil dereference in `emitDSN` cannot happen**: every recipient in the failed set has
its error stored just before. -/
theorem C18_emitDSN_never_panics
    (cfg : Cfg) (maxTries : Nat) (now : Addr → Option Err) (failAt : Option Stage) (q : QMeta)
    (hnd : q.to.Nodup) : BEv.panic ∉ bounces (attempt cfg maxTries now failAt q).2 := by
  intro hev
  rw [bounces_attempt cfg maxTries now failAt q hnd] at hev
  split at hev
  · simp at hev
  · have hspec := rcptInfos_spec cfg (metaNow now q) (failedNow maxTries now q) (storedNow now)
      (metaNow_errs maxTries now q)
    rcases emitDSN_cases cfg (metaNow now q) (failedNow maxTries now q) failAt with
      ⟨h, _⟩ | ⟨_, h2⟩ | ⟨infos, e, h, _, _⟩ | ⟨infos, rep', h, _, _, _, _⟩
    · rw [h] at hev; simp at hev
    · rw [hspec] at h2; simp at h2
    · rw [h] at hev; simp at hev
    · rw [h] at hev
      exact (handOver_events (metaNow now q) rep' failAt _ hev).2.2.2.2 rfl


/-- The human-readable part names the same addresses: one line per failed recipient, under the
address the sender used (unconverted), never the effective one. -/
theorem C18_human_part_names_original_addresses
    (cfg : Cfg) (maxTries : Nat) (now : Addr → Option Err) (failAt : Option Stage) (q : QMeta)
    (hnd : q.to.Nodup) (root : Addr → Addr) (hroot : RecordsRoot q.msg.origRcpts root q.to)
    (rep : Report) (hrep : rep ∈ reportsOf (bounces (attempt cfg maxTries now failAt q).2)) :
    rep.human.map (·.1) = (failedNow maxTries now q).map (fun r => cfg.name (root r)) := by
  obtain ⟨_, _, _, infos, hi, hg⟩ := report_core cfg maxTries now failAt q hnd rep hrep
  have hspec := rcptInfos_spec cfg (metaNow now q) (failedNow maxTries now q) (storedNow now)
    (metaNow_errs maxTries now q)
  rw [hspec] at hi
  have hi' := Option.some.inj hi
  subst hi'
  have hh := (generate_ok _ _ _ _ _ _ _ hg).2.2.2.2.2.1
  rw [hh, humanLines, List.map_map, List.map_map]
  apply List.map_congr_left
  intro r hr
  obtain ⟨hto, _, _⟩ := mem_failedNow hr
  have htr := translate_root q.msg root q.to hroot r hto
  simp only [Function.comp, infoOf]
  show cfg.name (translate q.msg r) = _
  rw [htr]

/-! ## a report IS generated when it can be written -/

/-- Everything the report has to show can be written in the flavour of the failed message:
the reporting host, the sender, and the one-level translation of every failed recipient (NOT the
HELO name of the client: `Received-From-MTA` is optional and left out when the name cannot be
converted, `C18_inconvertible_client_name_never_suppresses_report`); and every last error has a status class (C16 proves
`StoredCoherent (toSMTPErr e)` for the error values maddy builds, which gives class 4 or 5). -/
structure Presentable (cfg : Cfg) (m : MsgMeta) (failed : List Addr) (now : Addr → Option Err) : Prop where
  host   : cfg.hostname ≠ [] ∧ (cfg.idna.dom m.utf8 cfg.hostname).isSome
  sender : cfg.name m.from_ = [] ∨ (cfg.idna.addr m.utf8 (cfg.name m.from_)).isSome
  rcpts  : ∀ r ∈ failed, cfg.name (translate m r) ≠ [] ∧
             (cfg.idna.addr m.utf8 (cfg.name (translate m r))).isSome
  status : ∀ r ∈ failed, ∀ e, now r = some e → (storedEnch (toSMTPErr e)).cls ≠ 0

theorem mtaGroup_ok (ix : Idna) (utf8 : Bool) (m : MtaInfo)
    (h1 : m.reportingMTA ≠ [] ∧ (ix.dom utf8 m.reportingMTA).isSome)
    (h3 : m.xSender = [] ∨ (ix.addr utf8 m.xSender).isSome) :
    ∃ g, mtaGroup ix utf8 m = .ok g := by
  unfold mtaGroup
  have hne : m.reportingMTA.isEmpty = false := by
    cases hm : m.reportingMTA with
    | nil => exact absurd hm h1.1
    | cons a t => rfl
  obtain ⟨rm, hrm⟩ := Option.isSome_iff_exists.mp h1.2
  simp only [hne, Bool.false_eq_true, ↓reduceIte, hrm]
  by_cases hs : m.xSender = []
  · simp [hs]
  · have : (ix.addr utf8 m.xSender).isSome := by rcases h3 with h | h; exact absurd h hs; exact h
    obtain ⟨a, ha⟩ := Option.isSome_iff_exists.mp this
    have hse : m.xSender.isEmpty = false := by
      cases hx : m.xSender with
      | nil => exact absurd hx hs
      | cons _ _ => rfl
    simp [hse, ha]

theorem rcptGroup_infoOf_ok (cfg : Cfg) (m : MsgMeta) (r : Addr) (se : Reply)
    (h1 : cfg.name (translate m r) ≠ []) (h2 : (cfg.idna.addr m.utf8 (cfg.name (translate m r))).isSome)
    (h3 : (storedEnch se).cls ≠ 0) :
    ∃ g, rcptGroup cfg.idna m.utf8 (infoOf cfg m r se) = .ok g := by
  unfold rcptGroup infoOf
  have hne : (cfg.name (translate m r)).isEmpty = false := by
    cases hx : cfg.name (translate m r) with
    | nil => exact absurd hx h1
    | cons _ _ => rfl
  obtain ⟨a, ha⟩ := Option.isSome_iff_exists.mp h2
  have hact : actionFailed.isEmpty = false := by decide
  have hcls : ((storedEnch se).cls == 0) = false := by simpa using h3
  simp [hne, ha, hact, hcls, diagOut]

theorem rcptGroups_ok (ix : Idna) (utf8 : Bool) (l : List RcptInfo)
    (h : ∀ i ∈ l, ∃ g, rcptGroup ix utf8 i = .ok g) : ∃ gs, rcptGroups ix utf8 l = .ok gs := by
  induction l with
  | nil => exact ⟨[], rfl⟩
  | cons a t ih =>
    obtain ⟨g, hg⟩ := h a (by simp)
    obtain ⟨gs, hgs⟩ := ih (fun i hi => h i (by simp [hi]))
    exact ⟨g :: gs, by simp [rcptGroups, hg, hgs]⟩

/-- The report of `C18_report_generated_when_presentable`, with where it comes from. -/
theorem report_generated_core
    (cfg : Cfg) (maxTries : Nat) (now : Addr → Option Err) (failAt : Option Stage) (q : QMeta)
    (hnd : q.to.Nodup) (hp : cfg.pipeline = true) (hs : q.msg.originalFrom ≠ 0)
    (hf : failedNow maxTries now q ≠ [])
    (hpres : Presentable cfg q.msg (failedNow maxTries now q) now) :
    ∃ rep, generate cfg.idna (metaNow now q).utf8 (envelope cfg (metaNow now q))
        (mtaInfo cfg (metaNow now q))
        ((failedNow maxTries now q).map (fun r => infoOf cfg (metaNow now q) r (storedNow now r)))
        (metaNow now q).hdr = .ok rep ∧
      bounces (attempt cfg maxTries now failAt q).2 = handOver (metaNow now q) rep failAt := by
  rw [bounces_attempt cfg maxTries now failAt q hnd]
  have hemp : (failedNow maxTries now q).isEmpty = false := by
    cases hx : failedNow maxTries now q with
    | nil => exact absurd hx hf
    | cons _ _ => rfl
  simp only [hemp, Bool.false_eq_true, ↓reduceIte]
  have hspec := rcptInfos_spec cfg (metaNow now q) (failedNow maxTries now q) (storedNow now)
    (metaNow_errs maxTries now q)
  have hm : ∃ g, mtaGroup cfg.idna (metaNow now q).utf8 (mtaInfo cfg (metaNow now q)) = .ok g :=
    mtaGroup_ok cfg.idna q.msg.utf8 _ hpres.host hpres.sender
  have hr : ∃ gs, rcptGroups cfg.idna (metaNow now q).utf8
      ((failedNow maxTries now q).map (fun r => infoOf cfg (metaNow now q) r (storedNow now r))) = .ok gs := by
    apply rcptGroups_ok
    intro i hi
    obtain ⟨r, hr, rfl⟩ := List.mem_map.mp hi
    obtain ⟨_, e, he⟩ := mem_failedNow hr
    have h3 : (storedEnch (storedNow now r)).cls ≠ 0 := by
      simp only [storedNow, he]; exact hpres.status r hr e he
    exact rcptGroup_infoOf_ok cfg (metaNow now q) r (storedNow now r) (hpres.rcpts r hr).1 (hpres.rcpts r hr).2 h3
  obtain ⟨mg, hmg⟩ := hm
  obtain ⟨gs, hgs⟩ := hr
  have hgen : ∃ rep, generate cfg.idna (metaNow now q).utf8 (envelope cfg (metaNow now q))
      (mtaInfo cfg (metaNow now q))
      ((failedNow maxTries now q).map (fun r => infoOf cfg (metaNow now q) r (storedNow now r)))
      (metaNow now q).hdr = .ok rep := by
    simp [generate, hmg, hgs]
  obtain ⟨rep, hgen⟩ := hgen
  have ho : (metaNow now q).originalFrom ≠ 0 := hs
  refine ⟨rep, hgen, ?_⟩
  unfold emitDSN
  simp only [hp, Bool.not_true, Bool.false_eq_true, ↓reduceIte, ho, hspec, hgen]

/-- **A report is generated whenever it can be written**: with a bounce pipeline, a non-null
sender, a non-empty failed set and presentable data, the attempt hands a report to the bounce
pipeline (no silent "failed to generate fail DSN").  `Presentable` says nothing about the name the
client gave in HELO/EHLO: whatever it is, it cannot make the report disappear. -/
theorem C18_report_generated_when_presentable
    (cfg : Cfg) (maxTries : Nat) (now : Addr → Option Err) (failAt : Option Stage) (q : QMeta)
    (hnd : q.to.Nodup) (hp : cfg.pipeline = true) (hs : q.msg.originalFrom ≠ 0)
    (hf : failedNow maxTries now q ≠ [])
    (hpres : Presentable cfg q.msg (failedNow maxTries now q) now) :
    ∃ rep, bounces (attempt cfg maxTries now failAt q).2 = handOver (metaNow now q) rep failAt := by
  obtain ⟨rep, _, h⟩ := report_generated_core cfg maxTries now failAt q hnd hp hs hf hpres
  exact ⟨rep, h⟩


/-! ## well-formedness (the part that is provable on the abstract report) -/

def isAscii (s : Str) : Prop := ∀ c ∈ s, c < 128

/-- `address.ToASCII` / `idna.ToASCII` produce ASCII (the local part is checked, the domain is
A-label encoded). An assumption about the conversion library, used only for the ASCII theorem. -/
def AsciiWhenNotUtf8 (ix : Idna) : Prop :=
  (∀ s a, ix.addr false s = some a → isAscii a) ∧ (∀ s a, ix.dom false s = some a → isAscii a)

theorem mangle_isAscii (s : Str) : isAscii (mangle s) := by
  intro c hc
  unfold mangle at hc
  obtain ⟨x, _, rfl⟩ := List.mem_map.mp hc
  by_cases h : x ≥ 128
  · simp [h]
  · simp [h]; omega

/-- The full well-formedness clause of the property speaks about BYTES: the serialisation of the
report by go-message's multipart writer and header folding is not modelled, so this statement is
kept as the visible target; the harness establishes it by an independent parse
(net/mail + mime/multipart + net/textproto) of every generated report — sampling. -/
def C18_wellformed_stmt (serialise : Report → List Nat) (IsMultipartReport : List Nat → Prop) : Prop :=
  ∀ ix utf8 env mta rs h rep, generate ix utf8 env mta rs h = .ok rep → IsMultipartReport (serialise rep)

/-- **Structure of every generated report** (the provable part of well-formedness): three parts
— human-readable text, `message/delivery-status` (`message/global-delivery-status` for an SMTPUTF8
message), `text/rfc822-headers` (`message/global-headers`) carrying the original header; one
per-recipient group per recipient record, each with the three fields RFC 3464 requires
(address from a successful conversion of a non-empty address, non-empty action, status with a
class); the per-message group with `Reporting-MTA` from a successful conversion. -/
theorem C18_report_structure_partial (ix : Idna) (utf8 : Bool) (env : Envelope) (mta : MtaInfo)
    (rs : List RcptInfo) (h : Hdr) (rep : Report) (hg : generate ix utf8 env mta rs h = .ok rep) :
    rep.partTypes = [ "text/plain",
        if utf8 then "message/global-delivery-status" else "message/delivery-status",
        if utf8 then "message/global-headers" else "text/rfc822-headers" ] ∧
    rep.origHdr = h ∧
    rep.rcpts.length = rs.length ∧
    (∀ g ∈ rep.rcpts, g.addrType = addrType utf8 ∧ g.action ≠ [] ∧ g.status.cls ≠ 0 ∧
        ∃ r ∈ rs, r.finalRcpt ≠ [] ∧ ix.addr utf8 r.finalRcpt = some g.addr) ∧
    mta.reportingMTA ≠ [] ∧ ix.dom utf8 mta.reportingMTA = some rep.mta.reportingMTA := by
  obtain ⟨_, _, _, _, h5, _, h7, h8, h9⟩ := generate_ok _ _ _ _ _ _ _ hg
  have hmap := rcptGroups_spec _ _ _ _ h9
  refine ⟨h5, h7, ?_, ?_, ?_⟩
  · have := congrArg List.length hmap; simpa using this.symm
  · intro g hgm
    have : Except.ok g ∈ rs.map (rcptGroup ix utf8) := by rw [hmap]; exact List.mem_map_of_mem hgm
    obtain ⟨r, hr, hrg⟩ := List.mem_map.mp this
    unfold rcptGroup at hrg
    split at hrg
    · simp at hrg
    · rename_i hfe
      cases ha : ix.addr utf8 r.finalRcpt with
      | none => simp [ha] at hrg
      | some a =>
        simp only [ha] at hrg
        split at hrg
        · simp at hrg
        · rename_i hae
          split at hrg
          · simp at hrg
          · rename_i hcls
            have hfin : r.finalRcpt ≠ [] := by intro hx; rw [hx] at hfe; simp at hfe
            have hact : r.action ≠ [] := by intro hx; rw [hx] at hae; simp at hae
            cases hd : diagOut utf8 r.diag with
            | none => simp [hd] at hrg
            | some d =>
              simp only [hd] at hrg
              split at hrg
              · have := (Except.ok.inj hrg).symm; subst this
                exact ⟨rfl, hact, by simpa using hcls, r, hr, hfin, ha⟩
              · cases hrm : ix.dom utf8 r.remoteMTA with
                | none => simp [hrm] at hrg
                | some rm =>
                  simp only [hrm] at hrg
                  have := (Except.ok.inj hrg).symm; subst this
                  exact ⟨rfl, hact, by simpa using hcls, r, hr, hfin, ha⟩
  · unfold mtaGroup at h8
    split at h8
    · simp at h8
    · rename_i hne
      have hne' : mta.reportingMTA ≠ [] := by intro hx; rw [hx] at hne; simp at hne
      cases hrm : ix.dom utf8 mta.reportingMTA with
      | none => simp [hrm] at h8
      | some rm =>
        simp only [hrm] at h8
        refine ⟨hne', ?_⟩
        repeat' split at h8
        all_goals first | (simp at h8; done) | (have := (Except.ok.inj h8).symm; rw [this])

/-- **A report about a non-SMTPUTF8 message keeps `message/delivery-status` ASCII**: every
address, host name and diagnostic text in the per-recipient groups is ASCII (the fields of
that media type are 7-bit, RFC 3464 §2.1), given that the conversion library returns ASCII. -/
theorem C18_non_utf8_recipient_fields_are_ascii (ix : Idna) (hix : AsciiWhenNotUtf8 ix)
    (env : Envelope) (mta : MtaInfo) (rs : List RcptInfo) (h : Hdr) (rep : Report)
    (hg : generate ix false env mta rs h = .ok rep) :
    ∀ g ∈ rep.rcpts, isAscii g.addr ∧
      (∀ c e t, g.diag = .smtp c e t → isAscii t) ∧ (∀ t, g.diag ≠ .xMaddy t) ∧
      (∀ rm, g.remoteMTA = some rm → isAscii rm) := by
  obtain ⟨_, _, _, _, _, _, _, _, h9⟩ := generate_ok _ _ _ _ _ _ _ hg
  have hmap := rcptGroups_spec _ _ _ _ h9
  intro g hgm
  have : Except.ok g ∈ rs.map (rcptGroup ix false) := by rw [hmap]; exact List.mem_map_of_mem hgm
  obtain ⟨r, _, hrg⟩ := List.mem_map.mp this
  unfold rcptGroup at hrg
  split at hrg
  · simp at hrg
  · cases ha : ix.addr false r.finalRcpt with
    | none => simp [ha] at hrg
    | some a =>
      simp only [ha] at hrg
      split at hrg
      · simp at hrg
      · split at hrg
        · simp at hrg
        · have hdiag : ∀ d, diagOut false r.diag = some d →
              (∀ c e t, d = .smtp c e t → isAscii t) ∧ (∀ t, d ≠ .xMaddy t) := by
            intro d hd
            cases hr : r.diag with
            | smtp c e m =>
              simp [diagOut, hr] at hd; subst hd
              refine ⟨?_, ?_⟩
              · intro c' e' t ht
                injection ht with _ _ h3
                subst h3
                exact mangle_isAscii _
              · intro t ht; cases ht
            | other t =>
              simp [diagOut, hr] at hd; subst hd
              refine ⟨?_, ?_⟩
              · intro _ _ _ ht; cases ht
              · intro t ht; cases ht
            | nil =>
              simp [diagOut, hr] at hd; subst hd
              refine ⟨?_, ?_⟩
              · intro _ _ _ ht; cases ht
              · intro t ht; cases ht
          cases hd : diagOut false r.diag with
          | none => simp [hd] at hrg
          | some d =>
            simp only [hd] at hrg
            split at hrg
            · have := (Except.ok.inj hrg).symm; subst this
              refine ⟨hix.1 _ _ ha, (hdiag d hd).1, (hdiag d hd).2, ?_⟩
              intro rm hrm; cases hrm
            · cases hrm : ix.dom false r.remoteMTA with
              | none => simp [hrm] at hrg
              | some rm =>
                simp only [hrm] at hrg
                have := (Except.ok.inj hrg).symm; subst this
                refine ⟨hix.1 _ _ ha, (hdiag d hd).1, (hdiag d hd).2, ?_⟩
                intro rm' hrm'
                injection hrm' with h'
                subst h'
                exact hix.2 _ _ hrm

/-- …and so does the per-message group: reporting host, HELO name and sender are ASCII. -/
theorem C18_non_utf8_message_fields_are_ascii (ix : Idna) (hix : AsciiWhenNotUtf8 ix)
    (env : Envelope) (mta : MtaInfo) (rs : List RcptInfo) (h : Hdr) (rep : Report)
    (hg : generate ix false env mta rs h = .ok rep) :
    isAscii rep.mta.reportingMTA ∧ (∀ d, rep.mta.receivedFrom = some d → isAscii d) ∧
    (∀ t a, rep.mta.xSender = some (t, a) → isAscii a ∧ t = .rfc822) := by
  obtain ⟨_, _, _, _, _, _, _, h8, _⟩ := generate_ok _ _ _ _ _ _ _ hg
  unfold mtaGroup at h8
  split at h8
  · simp at h8
  · cases hrm : ix.dom false mta.reportingMTA with
    | none => simp [hrm] at h8
    | some rm =>
      simp only [hrm] at h8
      have hR : ∀ d', rcvdField ix false mta.receivedFromMTA = some d' → isAscii d' := by
        intro d' hd
        unfold rcvdField at hd
        split at hd
        · simp at hd
        · exact hix.2 _ _ hd
      have hS : ∀ (sv : Option (AddrType × Str)),
          (if mta.xSender.isEmpty then Except.ok none else
            match ix.addr false mta.xSender with
            | none => Except.error GenErr.senderConv
            | some a => Except.ok (some (addrType false, a))) = (Except.ok sv : Except GenErr _) →
          ∀ t a, sv = some (t, a) → isAscii a ∧ t = .rfc822 := by
        intro sv hd t a hsv
        subst hsv
        split at hd
        · simp at hd
        · cases hx : ix.addr false mta.xSender with
          | none => simp [hx] at hd
          | some y =>
            simp [hx] at hd
            obtain ⟨h1, h2⟩ := hd
            subst h2
            exact ⟨hix.1 _ _ hx, by rw [← h1]; rfl⟩
      split at h8
      · simp at h8
      · rename_i snd hsn
        have := (Except.ok.inj h8).symm
        rw [this]
        exact ⟨hix.2 _ _ hrm, hR, hS snd hsn⟩

/-- The `Status` class of every listed recipient is 4 or 5 when the stored errors are coherent
(what C16 proves of `toSMTPErr` for the error values maddy builds). -/
theorem C18_status_class_is_4_or_5
    (cfg : Cfg) (maxTries : Nat) (now : Addr → Option Err) (failAt : Option Stage) (q : QMeta)
    (hnd : q.to.Nodup)
    (hcoh : ∀ r e, now r = some e → StoredCoherent (toSMTPErr e))
    (rep : Report) (hrep : rep ∈ reportsOf (bounces (attempt cfg maxTries now failAt q).2)) :
    ∀ g ∈ rep.rcpts, g.status.cls = 4 ∨ g.status.cls = 5 := by
  have hst := C18_status_is_last_error cfg maxTries now failAt q hnd rep hrep
  intro g hgm
  have : some (g.status, g.diag) ∈ rep.rcpts.map (fun g => some (g.status, g.diag)) :=
    List.mem_map_of_mem (f := fun g => some (g.status, g.diag)) hgm
  rw [hst] at this
  obtain ⟨r, _, hr⟩ := List.mem_map.mp this
  cases he : now r with
  | none => simp [he] at hr
  | some e =>
    simp only [he, Option.map] at hr
    have h1 : g.status = storedEnch (toSMTPErr e) := by
      have := Option.some.inj hr; exact (congrArg Prod.fst this).symm
    obtain ⟨en, hen, _, h45⟩ := hcoh r e he
    rw [h1]; simp [storedEnch, hen]; exact h45


/-! ## where the `RecordsRoot` hypothesis comes from, and where it fails -/

theorem recordAll_not_mem (m : Addr → Addr) (l : List (Addr × Addr)) (x : Addr)
    (h : x ∉ l.map (·.2)) : recordAll m l x = m x := by
  induction l generalizing m with
  | nil => rfl
  | cons p t ih =>
    simp only [List.map_cons, List.mem_cons, not_or] at h
    rw [recordAll, ih _ h.2]
    unfold recordLevel
    split
    · simp [h.1]
    · rfl

theorem recordAll_spec (m : Addr → Addr) (l : List (Addr × Addr)) (hnd : (l.map (·.2)).Nodup) :
    ∀ p ∈ l, recordAll m l p.2 = if p.1 = p.2 then m p.2 else p.1 := by
  induction l generalizing m with
  | nil => intro p hp; cases hp
  | cons a t ih =>
    simp only [List.map_cons, List.nodup_cons] at hnd
    intro p hp
    rw [recordAll]
    rcases List.mem_cons.mp hp with rfl | hpt
    · rw [recordAll_not_mem _ _ _ hnd.1]
      unfold recordLevel
      by_cases h : p.1 = p.2 <;> simp [h]
    · rw [ih _ hnd.2 p hpt]
      have hne : p.2 ≠ a.2 := by
        intro he; apply hnd.1; rw [← he]; exact List.mem_map_of_mem hpt
      unfold recordLevel
      by_cases h : p.1 = p.2
      · simp only [h, ↓reduceIte]; split <;> simp [hne]
      · simp [h]

/-- **One pipeline level records the sender's addresses**: after a pipeline handled the recipients
`l` (distinct effective addresses, non-empty given addresses) starting from an empty map, the map
satisfies `RecordsRoot` for the effective recipients — the hypothesis of
`C18_lists_exactly_failed_under_original_addresses` is what a single level of rewriting produces. -/
theorem C18_one_pipeline_records_root (l : List (Addr × Addr)) (hnd : (l.map (·.2)).Nodup)
    (hne : ∀ p ∈ l, p.1 ≠ 0) (root : Addr → Addr) (hroot : ∀ p ∈ l, root p.2 = p.1) :
    RecordsRoot (recordAll (fun _ => 0) l) root (l.map (·.2)) := by
  intro r hr
  obtain ⟨p, hp, rfl⟩ := List.mem_map.mp hr
  have := recordAll_spec (fun _ => 0) l hnd p hp
  rw [hroot p hp]
  exact ⟨hne p hp, this⟩

/-! ### two levels: the defect (not repaired, see notes/C18.md) -/

def cexCfg : Cfg :=
  { pipeline := true, hostname := [109], autogenDomain := [100],
    idna := ⟨fun _ s => some s, fun _ s => some s⟩, name := fun n => if n = 0 then [] else [n] }

/-- Recipient 1 (what the sender wrote) rewritten by an outer pipeline to 2 and by a nested
pipeline to 3; the queue gets 3. -/
def cexMsg : MsgMeta :=
  { id := [105], from_ := 9, originalFrom := 9, origRcpts := recordChain (fun _ => 0) [1, 2, 3],
    utf8 := false, requireTLS := false, rcvdFrom := [], rcptErrs := fun _ => none, hdr := 0 }

def cexNow : Addr → Option Err := fun r => if r = 3 then some (.smtp 550 ⟨5, 1, 1⟩ []) else none

/-- **Counterexample (two-level rewriting).** The sender wrote address 1; the report names
address 2, the intermediate alias target. -/
theorem C18_two_level_rewriting_counterexample :
    (reportsOf (bounces (attempt cexCfg 1 cexNow none ⟨[3], fun _ => 0, cexMsg⟩).2)).map
      (fun rep => rep.rcpts.map (·.addr)) = [[[2]]] := by
  decide

/-- The same map arises from two SIBLING recipients of one pipeline (1→2 and 2→3, both 2 and 3
delivered), where the sender did use 2 for the recipient 3 — one level is right there. So no
translation that looks only at the map can be right in both situations; the repair needs a
per-recipient root in the metadata, not a change in `emitDSN`. -/
theorem C18_rewrite_map_is_ambiguous :
    (∀ x, recordChain (fun _ => 0) [1, 2, 3] x = recordAll (fun _ => 0) [(1, 2), (2, 3)] x) ∧
    ∀ tr : (Addr → Addr) → Addr → Addr,
      ¬ (tr (recordChain (fun _ => 0) [1, 2, 3]) 3 = 1 ∧ tr (recordAll (fun _ => 0) [(1, 2), (2, 3)]) 3 = 2) := by
  have h : ∀ x, recordChain (fun _ => 0) [1, 2, 3] x = recordAll (fun _ => 0) [(1, 2), (2, 3)] x := by
    intro x; simp [recordChain, recordAll, recordLevel]
  refine ⟨h, ?_⟩
  intro tr ⟨h1, h2⟩
  have : recordChain (fun _ => 0) [1, 2, 3] = recordAll (fun _ => 0) [(1, 2), (2, 3)] := funext h
  rw [this, h2] at h1
  exact absurd h1 (by decide)

/-! ## tie to the C01 model -/

/-- The failed set `emitDSN` is called with is the one `Queue.tryDelivery` (the model C01 is proved
about) puts into its `report` event, whenever the error classes agree. -/
theorem C18_failed_set_is_C01s (maxTries : Nat) (k : Kind) (p : Plan) (now : Addr → Option Err)
    (q : QMeta) (h : ∀ r, (now r).map clsOfErr = (deliver k p q.to).1 r) :
    split maxTries now q = classify maxTries (deliver k p q.to).1 q.to ⟨q.tries, [], []⟩ := by
  unfold split
  have : (fun r => (now r).map clsOfErr) = (deliver k p q.to).1 := funext h
  rw [this]


/-! ## the real pipeline in front of the queue (1-to-N rewriting, recipients handled after the
queue delivery was started) -/

theorem frontSteps_snd (outer : Rules) (given : List Addr) :
    (frontSteps outer none given).map (·.2) = frontRcpts outer none given := by
  simp only [frontSteps, frontRcpts]
  induction given with
  | nil => rfl
  | cons a t ih =>
    simp only [List.flatMap_cons, List.map_append, ih]
    congr 1
    simp [Rules.pairs, List.map_map, Function.comp_def]

theorem mem_frontSteps (outer : Rules) (given : List Addr) (p : Addr × Addr)
    (hp : p ∈ frontSteps outer none given) : p.1 ∈ given ∧ p.2 ∈ outer.outputs p.1 := by
  simp only [frontSteps, List.mem_flatMap, Rules.pairs, List.mem_map] at hp
  obtain ⟨a, ha, o, ho, rfl⟩ := hp
  exact ⟨ha, ho⟩

/-- **A message that reached the queue through ONE real pipeline is reported under the addresses
the sender used** — for every recipient, wherever it stands in the transaction (the queue
delivery is started while the pipeline handles the first one), with aliases expanding 1-to-N:
whenever the effective recipients are distinct and `root` names, for every effective address, the
address it was expanded from, every report has one group per terminally failed recipient, in
order, each under the conversion of `root r`.  Several groups may show the SAME address (two
members of one alias failing): they are separate groups. -/
theorem C18_pipeline_fed_queue_names_senders_addresses
    (cfg : Cfg) (maxTries : Nat) (now : Addr → Option Err) (failAt : Option Stage)
    (outer : Rules) (given : List Addr) (m : MsgMeta)
    (hnd : (frontRcpts outer none given).Nodup) (hne : ∀ a ∈ given, a ≠ 0)
    (root : Addr → Addr) (hroot : ∀ a ∈ given, ∀ o ∈ outer.outputs a, root o = a)
    (rep : Report)
    (hrep : rep ∈ reportsOf (bounces (attempt cfg maxTries now failAt (viaFront outer none given m)).2)) :
    rep.rcpts.map (fun g => some g.addr) =
      (failedNow maxTries now (viaFront outer none given m)).map
        (fun r => cfg.idna.addr m.utf8 (cfg.name (root r))) ∧
    rep.rcpts.length = (failedNow maxTries now (viaFront outer none given m)).length := by
  have hrr : RecordsRoot (viaFront outer none given m).msg.origRcpts root (viaFront outer none given m).to := by
    have h := C18_one_pipeline_records_root (frontSteps outer none given)
      (by rw [frontSteps_snd]; exact hnd)
      (fun p hp => hne _ (mem_frontSteps outer given p hp).1) root
      (fun p hp => hroot _ (mem_frontSteps outer given p hp).1 _ (mem_frontSteps outer given p hp).2)
    rw [frontSteps_snd] at h
    exact h
  have h := C18_lists_exactly_failed_under_original_addresses cfg maxTries now failAt
    (viaFront outer none given m) hnd root hrr rep hrep
  exact ⟨h.1, h.2.1⟩

/-- Why the queue must see the map as it is AFTER the transaction: had it kept the map as it was
when its delivery was started (after the first recipient), the second recipient — rewritten
2 → 3 — would be reported as 3, the alias target.  With the real (final) map it is reported as 2. -/
theorem C18_start_time_snapshot_counterexample :
    let outer : Rules := ⟨fun a => if a = 2 then some [3] else none, fun _ => none, fun _ => none⟩
    let q := viaFront outer none [1, 2] { cexMsg with origRcpts := fun _ => 0 }
    let now : Addr → Option Err := fun r => if r = 3 then some (.smtp 550 ⟨5, 1, 1⟩ []) else none
    let snap : QMeta := { q with msg := { q.msg with origRcpts := recordAll (fun _ => 0) (frontSteps outer none [1]) } }
    q.to = [1, 3] ∧
    (reportsOf (bounces (attempt cexCfg 1 now none q).2)).map (fun rep => rep.rcpts.map (·.addr)) = [[[2]]] ∧
    (reportsOf (bounces (attempt cexCfg 1 now none snap).2)).map (fun rep => rep.rcpts.map (·.addr)) = [[[3]]] := by
  decide

/-! ## which error a recipient is reported with (`Queue.deliver`) -/

theorem clsOfErr_not_ok (e : Err) : (clsOfErr e).isOk = false := by
  unfold clsOfErr
  cases tempOf e with
  | none => rfl
  | some b => cases b <;> rfl

/-- The class a stage result has for C01's model. -/
def clsOpt (o : Option Err) : Cls := (o.map clsOfErr).getD .ok

theorem clsOpt_isOk (o : Option Err) : (clsOpt o).isOk = o.isNone := by
  cases o with
  | none => rfl
  | some e => simp [clsOpt, clsOfErr_not_ok]

/-- The fault plan C01's model sees of a value-level plan. -/
def clsPlan (p : APlan) : Plan :=
  { start := clsOpt p.start, rcpt := fun r => clsOpt (p.rcpt r), body := clsOpt p.body,
    bodyRc := fun r => clsOpt (p.bodyRc r), commit := clsOpt p.commit }

theorem clsOpt_some (o : Option Err) (h : o.isSome) : some (clsOpt o) = o.map clsOfErr := by
  cases o with
  | none => cases h
  | some e => rfl

/-- **`deliverErrs` is `Queue.deliver` with values**: the classes of the errors it attributes are
the ones C01's `deliver` attributes, recipient by recipient — the hypothesis of
`C18_failed_set_is_C01s` holds for `now := deliverErrs k p q.to`. -/
theorem deliverErrs_cls (k : Kind) (p : APlan) (to : List Addr) (r : Addr) :
    (deliverErrs k p to r).map clsOfErr = (deliver k (clsPlan p) to).1 r := by
  have hacc : to.filter (fun r => ((clsPlan p).rcpt r).isOk) = to.filter (fun r => (p.rcpt r).isNone) := by
    apply List.filter_congr; intro x _; simp [clsPlan, clsOpt_isOk]
  unfold deliver deliverErrs
  cases hs : p.start with
  | some e =>
    simp only [clsPlan, clsOpt, hs, Option.map, Option.getD, clsOfErr_not_ok]
    by_cases h : r ∈ to <;> simp [h]
  | none =>
    have hst : (clsPlan p).start.isOk = true := by simp [clsPlan, clsOpt_isOk, hs]
    simp only [hst, Bool.not_true, Bool.false_eq_true, ↓reduceIte, hacc]
    -- the errors after the RCPT stage
    have he1 : ∀ x, (if x ∈ to then p.rcpt x else none).map clsOfErr =
        (if x ∈ to ∧ (!((clsPlan p).rcpt x).isOk) = true then some ((clsPlan p).rcpt x) else none) := by
      intro x
      by_cases hx : x ∈ to
      · cases hr : p.rcpt x with
        | none => simp [hx, clsPlan, clsOpt, hr, Cls.isOk]
        | some e => simp [hx, clsPlan, clsOpt, hr, clsOfErr_not_ok]
      · simp [hx]
    by_cases hemp : (to.filter (fun r => (p.rcpt r).isNone)).isEmpty = true
    · simp only [hemp, ↓reduceIte]
      exact he1 r
    · simp only [hemp, Bool.false_eq_true, ↓reduceIte]
      cases k with
      | atomic =>
        cases hb : p.body with
        | some e =>
          have hbo : (!((clsPlan p).body).isOk) = true := by simp [clsPlan, clsOpt_isOk, hb]
          simp only [hbo, ↓reduceIte]
          have he2 : ∀ x, (if x ∈ to.filter (fun r => (p.rcpt r).isNone) then some e else
                (if x ∈ to then p.rcpt x else none)).map clsOfErr =
              (if x ∈ to.filter (fun r => (p.rcpt r).isNone) then some ((clsPlan p).body) else
                (if x ∈ to ∧ (!((clsPlan p).rcpt x).isOk) = true then some ((clsPlan p).rcpt x) else none)) := by
            intro x
            by_cases hx : x ∈ to.filter (fun r => (p.rcpt r).isNone)
            · simp [hx, clsPlan, clsOpt, hb]
            · simp only [hx, ↓reduceIte]; exact he1 x
          have hall : (to.filter (fun r => (p.rcpt r).isNone)).all (fun x =>
                (if x ∈ to.filter (fun r => (p.rcpt r).isNone) then some e else
                  (if x ∈ to then p.rcpt x else none)).isSome) =
              (to.filter (fun r => (p.rcpt r).isNone)).all (fun x =>
                (if x ∈ to.filter (fun r => (p.rcpt r).isNone) then some ((clsPlan p).body) else
                  (if x ∈ to ∧ (!((clsPlan p).rcpt x).isOk) = true then some ((clsPlan p).rcpt x) else none)).isSome) := by
            apply List.all_congr rfl; intro x; rw [← he2 x]; simp
          rw [← hall]
          split
          · exact he2 r
          · cases hc : p.commit with
            | some c =>
              have hco : (!((clsPlan p).commit).isOk) = true := by simp [clsPlan, clsOpt_isOk, hc]
              simp only [hco, ↓reduceIte]
              by_cases hx : r ∈ to.filter (fun r => (p.rcpt r).isNone)
              · simp [hx, clsPlan, clsOpt, hc]
              · simp only [hx, ↓reduceIte]; exact he1 r
            | none =>
              have hco : (!((clsPlan p).commit).isOk) = false := by simp [clsPlan, clsOpt_isOk, hc]
              simp only [hco, Bool.false_eq_true, ↓reduceIte]
              exact he2 r
        | none =>
          have hbo : (!((clsPlan p).body).isOk) = false := by simp [clsPlan, clsOpt_isOk, hb]
          simp only [hbo, Bool.false_eq_true, ↓reduceIte]
          have hall : (to.filter (fun r => (p.rcpt r).isNone)).all (fun x =>
                (if x ∈ to then p.rcpt x else none).isSome) =
              (to.filter (fun r => (p.rcpt r).isNone)).all (fun x =>
                (if x ∈ to ∧ (!((clsPlan p).rcpt x).isOk) = true then some ((clsPlan p).rcpt x) else none).isSome) := by
            apply List.all_congr rfl; intro x; rw [← he1 x]; simp
          rw [← hall]
          split
          · exact he1 r
          · cases hc : p.commit with
            | some c =>
              have hco : (!((clsPlan p).commit).isOk) = true := by simp [clsPlan, clsOpt_isOk, hc]
              simp only [hco, ↓reduceIte]
              by_cases hx : r ∈ to.filter (fun r => (p.rcpt r).isNone)
              · simp [hx, clsPlan, clsOpt, hc]
              · simp only [hx, ↓reduceIte]; exact he1 r
            | none =>
              have hco : (!((clsPlan p).commit).isOk) = false := by simp [clsPlan, clsOpt_isOk, hc]
              simp only [hco, Bool.false_eq_true, ↓reduceIte]
              exact he1 r
      | partialD =>
        have he2 : ∀ x, (if x ∈ to.filter (fun r => (p.rcpt r).isNone) ∧ (p.bodyRc x).isSome = true then p.bodyRc x else
              (if x ∈ to then p.rcpt x else none)).map clsOfErr =
            (if x ∈ to.filter (fun r => (p.rcpt r).isNone) ∧ (!((clsPlan p).bodyRc x).isOk) = true then some ((clsPlan p).bodyRc x) else
              (if x ∈ to ∧ (!((clsPlan p).rcpt x).isOk) = true then some ((clsPlan p).rcpt x) else none)) := by
          intro x
          cases hbx : p.bodyRc x with
          | none =>
            have h1 : ((clsPlan p).bodyRc x).isOk = true := by simp [clsPlan, clsOpt_isOk, hbx]
            simp only [h1, Option.isSome_none, Bool.false_eq_true, and_false, Bool.not_true, ↓reduceIte]
            exact he1 x
          | some e =>
            by_cases hx : x ∈ to.filter (fun r => (p.rcpt r).isNone)
            · simp [hx, clsPlan, clsOpt, hbx, clsOfErr_not_ok]
            · simp only [hx, false_and, ↓reduceIte]; exact he1 x
        have hall : (to.filter (fun r => (p.rcpt r).isNone)).all (fun x =>
              (if x ∈ to.filter (fun r => (p.rcpt r).isNone) ∧ (p.bodyRc x).isSome = true then p.bodyRc x else
                (if x ∈ to then p.rcpt x else none)).isSome) =
            (to.filter (fun r => (p.rcpt r).isNone)).all (fun x =>
              (if x ∈ to.filter (fun r => (p.rcpt r).isNone) ∧ (!((clsPlan p).bodyRc x).isOk) = true then some ((clsPlan p).bodyRc x) else
                (if x ∈ to ∧ (!((clsPlan p).rcpt x).isOk) = true then some ((clsPlan p).rcpt x) else none)).isSome) := by
          apply List.all_congr rfl; intro x; rw [← he2 x]; simp
        simp only []
        rw [← hall]
        split
        · exact he2 r
        · cases hc : p.commit with
          | some c =>
            have hco : (!((clsPlan p).commit).isOk) = true := by simp [clsPlan, clsOpt_isOk, hc]
            simp only [hco, ↓reduceIte]
            by_cases hx : r ∈ to.filter (fun r => (p.rcpt r).isNone)
            · simp [hx, clsPlan, clsOpt, hc]
            · rw [if_neg hx, if_neg hx]; exact he2 r
          | none =>
            have hco : (!((clsPlan p).commit).isOk) = false := by simp [clsPlan, clsOpt_isOk, hc]
            simp only [hco, Bool.false_eq_true, ↓reduceIte]
            exact he2 r

/-- Hence the failed set `emitDSN` is called with, in an attempt whose errors are those of
`deliverErrs`, is the one C01's `tryDelivery` reports — no hypothesis left. -/
theorem C18_deliver_failed_set_is_C01s (maxTries : Nat) (k : Kind) (p : APlan) (q : QMeta) :
    split maxTries (deliverErrs k p q.to) q =
      classify maxTries (deliver k (clsPlan p) q.to).1 q.to ⟨q.tries, [], []⟩ :=
  C18_failed_set_is_C01s maxTries k (clsPlan p) (deliverErrs k p q.to) q (deliverErrs_cls k p q.to)

/-- **A recipient refused at RCPT keeps its own error**: whatever happens later in the same
attempt (the message refused at DATA, per-recipient LMTP statuses, a failing Commit — all of which
concern the ACCEPTED recipients), the error `deliver` attributes to a recipient the target refused
at `AddRcpt` is the error of that refusal. -/
theorem C18_refused_at_rcpt_keeps_own_error (k : Kind) (p : APlan) (to : List Addr) (r : Addr)
    (hs : p.start = none) (hr : r ∈ to) (e : Err) (he : p.rcpt r = some e) :
    deliverErrs k p to r = some e := by
  have hna : r ∉ to.filter (fun r => (p.rcpt r).isNone) := by simp [he]
  unfold deliverErrs
  simp only [hs]
  split
  · simp [hr, he]
  · cases k with
    | atomic =>
      cases hb : p.body with
      | some b =>
        simp only []
        split
        · simp [hna, hr, he]
        · cases hc : p.commit <;> simp [hna, hr, he]
      | none =>
        simp only []
        split
        · simp [hr, he]
        · cases hc : p.commit <;> simp [hna, hr, he]
    | partialD =>
      simp only []
      split
      · simp [hna, hr, he]
      · cases hc : p.commit <;> simp [hna, hr, he]

/-- …and the report says so: in every report of an attempt whose errors are those of `deliver`,
the group of a recipient refused at RCPT carries Status and Diagnostic-Code of `toSMTPErr` of ITS
refusal — not of the DATA / Commit failure of the same attempt. -/
theorem C18_refused_recipient_reported_with_own_error
    (cfg : Cfg) (maxTries : Nat) (k : Kind) (p : APlan) (failAt : Option Stage) (q : QMeta)
    (hnd : q.to.Nodup) (hs : p.start = none)
    (rep : Report)
    (hrep : rep ∈ reportsOf (bounces (attempt cfg maxTries (deliverErrs k p q.to) failAt q).2))
    (i : Nat) (r : Addr) (hi : (failedNow maxTries (deliverErrs k p q.to) q)[i]? = some r)
    (e : Err) (he : p.rcpt r = some e) :
    (rep.rcpts[i]?).map (fun g => (g.status, g.diag)) =
      some (storedEnch (toSMTPErr e),
            DiagOut.smtp (toSMTPErr e).code (storedEnch (toSMTPErr e)) (shownText q.msg.utf8 (toSMTPErr e))) := by
  have h := C18_status_is_last_error cfg maxTries (deliverErrs k p q.to) failAt q hnd rep hrep
  have hr : r ∈ q.to := by
    have : r ∈ failedNow maxTries (deliverErrs k p q.to) q := List.mem_of_getElem? hi
    exact (mem_failedNow this).1
  have hown := C18_refused_at_rcpt_keeps_own_error k p q.to r hs hr e he
  have h2 := congrArg (fun l => l[i]?) h
  simp only [List.getElem?_map, hi, Option.map_some, hown] at h2
  cases hg : rep.rcpts[i]? with
  | none => simp [hg] at h2
  | some g => simp only [hg, Option.map_some] at h2 ⊢; exact Option.some.inj h2

/-- An accepted recipient ends the attempt without error or with the error of the body stage
(DATA, or its own LMTP status) or of Commit — never with another recipient's RCPT refusal. -/
theorem C18_accepted_recipient_error_is_from_data_or_commit (k : Kind) (p : APlan) (to : List Addr)
    (r : Addr) (hs : p.start = none) (hr : p.rcpt r = none) (e : Err)
    (he : deliverErrs k p to r = some e) :
    p.body = some e ∨ p.bodyRc r = some e ∨ p.commit = some e := by
  have h1 : (if r ∈ to then p.rcpt r else none) ≠ some e := by
    by_cases h : r ∈ to <;> simp [h, hr]
  unfold deliverErrs at he
  simp only [hs] at he
  split at he
  · exact absurd he h1
  · cases k with
    | atomic =>
      cases hb : p.body with
      | some b =>
        have h2 : (if r ∈ to.filter (fun r => (p.rcpt r).isNone) then some b
            else (if r ∈ to then p.rcpt r else none)) = some e → some b = some e := by
          intro h; split at h
          · exact h
          · exact absurd h h1
        simp only [hb] at he
        split at he
        · left; exact h2 he
        · cases hc : p.commit with
          | some c =>
            simp only [hc] at he
            by_cases hx : r ∈ to.filter (fun r => (p.rcpt r).isNone)
            · right; right; simpa [hx] using he
            · left; apply h2; simpa [hx] using he
          | none => simp only [hc] at he; left; exact h2 he
      | none =>
        simp only [hb] at he
        split at he
        · exact absurd he h1
        · cases hc : p.commit with
          | some c =>
            simp only [hc] at he
            by_cases hx : r ∈ to.filter (fun r => (p.rcpt r).isNone)
            · right; right; simpa [hx] using he
            · exfalso; apply h1; simpa [hx] using he
          | none => simp only [hc] at he; exact absurd he h1
    | partialD =>
      have h2 : (if r ∈ to.filter (fun r => (p.rcpt r).isNone) ∧ (p.bodyRc r).isSome = true then p.bodyRc r
          else (if r ∈ to then p.rcpt r else none)) = some e → p.bodyRc r = some e := by
        intro h; split at h
        · exact h
        · exact absurd h h1
      simp only [] at he
      split at he
      · right; left; exact h2 he
      · cases hc : p.commit with
        | some c =>
          simp only [hc] at he
          by_cases hx : r ∈ to.filter (fun r => (p.rcpt r).isNone)
          · right; right; simpa [hx] using he
          · right; left; apply h2; rw [if_neg hx] at he; exact he
        | none => simp only [hc] at he; right; left; exact h2 he

/-! ## non-vacuity: concrete instances of the hypotheses -/

/-- recipient 1 refused at RCPT (550 5.1.1), the message then refused at DATA (552 5.3.4) for 2 -/
def exPlan : APlan :=
  { start := none, rcpt := fun r => if r = 1 then some (.smtp 550 ⟨5, 1, 1⟩ []) else none,
    body := some (.smtp 552 ⟨5, 3, 4⟩ []), bodyRc := fun _ => none, commit := none }

example : ((deliverErrs .atomic exPlan [1, 2] 1).map (fun e => (toSMTPErr e).code),
           (deliverErrs .atomic exPlan [1, 2] 2).map (fun e => (toSMTPErr e).code)) = (some 550, some 552) := by decide

example : (reportsOf (bounces (attempt cexCfg 1 (deliverErrs .atomic exPlan [1, 2]) none
      ⟨[1, 2], fun _ => 0, { cexMsg with origRcpts := fun _ => 0 }⟩).2)).map
    (fun rep => rep.rcpts.map (·.status)) = [[⟨5, 1, 1⟩, ⟨5, 3, 4⟩]] := by decide

/-- an alias 1 → [2, 3] and an untouched recipient 4: hypotheses of
`C18_pipeline_fed_queue_names_senders_addresses` -/
def exRules : Rules := ⟨fun a => if a = 1 then some [2, 3] else none, fun _ => none, fun _ => none⟩

example : (frontRcpts exRules none [4, 1]).Nodup := by decide
example : frontRcpts exRules none [4, 1] = [4, 2, 3] := by decide
example : ∀ a ∈ [4, 1], ∀ o ∈ exRules.outputs a, (fun o => if o = 4 then 4 else 1) o = a := by decide

/-- Recipient 2 is what one pipeline made of the sender's 1; recipient 4 was not rewritten. -/
def exMsg : MsgMeta :=
  { cexMsg with origRcpts := recordAll (fun _ => 0) [(1, 2), (4, 4)], rcvdFrom := [104] }

def exNow : Addr → Option Err := fun r =>
  if r = 2 then some (.smtp 550 ⟨5, 1, 1⟩ [110, 111])              -- permanent
  else if r = 4 then some (.withTemp true .plain)                      -- temporary, attempts used up
  else if r = 5 then none                                              -- delivered
  else none

def exQ : QMeta := ⟨[2, 4, 5], fun _ => 0, exMsg⟩

def exRoot : Addr → Addr := fun r => if r = 2 then 1 else r

-- the hypotheses of the main theorems hold, a report exists, and it shows 1 and 4 (not 2)
example : exQ.to.Nodup := by decide
example : RecordsRoot exQ.msg.origRcpts exRoot exQ.to := by
  have h := C18_one_pipeline_records_root [(1, 2), (4, 4), (5, 5)] (by decide) (by decide) exRoot (by decide)
  intro r hr
  have h' := h r (by simpa [exQ] using hr)
  refine ⟨h'.1, ?_⟩
  have : ∀ x, recordAll (fun _ => 0) [(1, 2), (4, 4)] x = recordAll (fun _ => 0) [(1, 2), (4, 4), (5, 5)] x := by
    intro x; simp [recordAll, recordLevel]
  show recordAll (fun _ => 0) [(1, 2), (4, 4)] r = _
  rw [this r]; exact h'.2
example : (reportsOf (bounces (attempt cexCfg 1 exNow (some .body) exQ).2)).map
    (fun rep => (rep.rcpts.map (·.addr), rep.rcpts.map (·.status), rep.hdrTo, rep.origHdr)) =
    [([[1], [4]], [⟨5, 1, 1⟩, ⟨4, 0, 0⟩], [9], 0)] := by decide
example : failedNow 1 exNow exQ = [2, 4] := by decide
example : BEv.start 0 0 false false true ∈ bounces (attempt cexCfg 1 exNow (some .commit) exQ).2 := by decide
example : Presentable cexCfg exQ.msg (failedNow 1 exNow exQ) exNow := by
  refine ⟨by decide, by decide, by decide, ?_⟩
  intro r hr e he
  have hr' : r = 2 ∨ r = 4 := by
    have : failedNow 1 exNow exQ = [2, 4] := by decide
    rw [this] at hr; simpa using hr
  rcases hr' with rfl | rfl
  · have : e = .smtp 550 ⟨5, 1, 1⟩ [110, 111] := by simp [exNow] at he; exact he.symm
    subst this; decide
  · have : e = .withTemp true .plain := by simp [exNow] at he; exact he.symm
    subst this; decide
example : AsciiWhenNotUtf8 ⟨fun _ s => some (mangle s), fun _ s => some (mangle s)⟩ := by
  constructor <;> (intro s a h; simp at h; subst h; exact mangle_isAscii s)
example : StoredCoherent (toSMTPErr (.smtp 550 ⟨5, 1, 1⟩ [110, 111])) := ⟨⟨5, 1, 1⟩, rfl, by decide, by decide⟩
-- the two-level situation violates `RecordsRoot` for the true root (address 1)
example : ¬ RecordsRoot cexMsg.origRcpts (fun _ => 1) [3] := by
  intro h
  have := (h 3 (by simp)).2
  revert this
  decide


/-! ## the local part is opaque (strengthening round 8)

`address.SelectIDNA` (mirrored by `Dsn.selectIDNA`, the library calls on the DOMAIN being the
parameter `DomConv`) cuts the address at its last at-sign, converts the domain and puts the local
part back untouched — for every input, whatever the library answers. -/

/-- `out` shows `addr` with the local part that `address.Split` cuts off untouched: it is that
local part alone (the domain-less postmaster) or that local part, an at-sign and some domain. -/
def KeepsLocalPart (addr out : Str) : Prop :=
  ∃ mb dom, splitAddr addr = some (mb, dom) ∧
    ((dom = [] ∧ out = mb) ∨ (dom ≠ [] ∧ ∃ d, out = mb ++ 64 :: d))

theorem splitLast_spec (c : Nat) (s a b : Str) (h : splitLast c s = some (a, b)) :
    s = a ++ c :: b := by
  induction s generalizing a with
  | nil => simp [splitLast] at h
  | cons x rest ih =>
    unfold splitLast at h
    cases hr : splitLast c rest with
    | some p =>
      obtain ⟨a', b'⟩ := p
      simp only [hr, Option.some.injEq, Prod.mk.injEq] at h
      obtain ⟨rfl, rfl⟩ := h
      simp [ih a' hr]
    | none =>
      simp only [hr] at h
      by_cases hx : (x == c) = true
      · simp only [hx, if_true, Option.some.injEq, Prod.mk.injEq] at h
        obtain ⟨rfl, rfl⟩ := h
        simp at hx; simp [hx]
      · simp [hx] at h

theorem splitLast_none (c : Nat) (s : Str) (h : c ∉ s) : splitLast c s = none := by
  induction s with
  | nil => rfl
  | cons x rest ih =>
    have h1 : c ∉ rest := fun hm => h (List.mem_cons_of_mem _ hm)
    have h2 : (x == c) = false := by
      simp only [beq_eq_false_iff_ne, ne_eq]
      intro hx; exact h (by simp [hx])
    simp [splitLast, ih h1, h2]

theorem splitLast_append (c : Nat) (a b : Str) (hb : c ∉ b) :
    splitLast c (a ++ c :: b) = some (a, b) := by
  induction a with
  | nil => simp [splitLast, splitLast_none c b hb]
  | cons x t ih => simp [splitLast, ih]

/-- `address.Split` answers with the two sides of the last at-sign (or the whole string and no
domain for the domain-less postmaster). -/
theorem splitAddr_spec (addr mb dom : Str) (h : splitAddr addr = some (mb, dom)) :
    (dom = [] ∧ mb = addr) ∨ (dom ≠ [] ∧ addr = mb ++ 64 :: dom) := by
  unfold splitAddr at h
  split at h
  · simp only [Option.some.injEq, Prod.mk.injEq] at h
    exact .inl ⟨h.2.symm, h.1.symm⟩
  · split at h
    · simp at h
    · rename_i mb' dom' hs
      split at h
      · simp at h
      · rename_i hne
        simp only [Option.some.injEq, Prod.mk.injEq] at h
        obtain ⟨rfl, rfl⟩ := h
        refine .inr ⟨?_, splitLast_spec 64 addr _ _ hs⟩
        intro hd; simp [hd] at hne

/-- **The converted address keeps the supplied local part, for every input.**  Whatever the
library does with the domain, a successful `address.SelectIDNA` (either direction) returns the
local part of its argument byte for byte. -/
theorem C18_selectIDNA_keeps_local_part (dc : DomConv) (u : Bool) (addr out : Str)
    (h : selectIDNA dc u addr = some out) : KeepsLocalPart addr out := by
  unfold selectIDNA at h
  cases hs : splitAddr addr with
  | none => cases u <;> simp [toUnicode, toASCII, hs] at h
  | some p =>
    obtain ⟨mb, dom⟩ := p
    refine ⟨mb, dom, hs, ?_⟩
    cases dom with
    | nil =>
      left
      cases u
      · simp only [toASCII, hs, Bool.false_eq_true, if_false] at h
        split at h
        · simp at h
        · simp at h; exact ⟨rfl, h.symm⟩
      · simp [toUnicode, hs] at h; exact ⟨rfl, h.symm⟩
    | cons x t =>
      right
      refine ⟨by simp, ?_⟩
      cases u
      · simp only [toASCII, hs, Bool.false_eq_true, if_false] at h
        split at h
        · simp at h
        · simp only [List.isEmpty_cons, Bool.false_eq_true, if_false] at h
          split at h
          · simp at h
          · rename_i d _
            exact ⟨d, (Option.some.inj h).symm⟩
      · simp only [toUnicode, hs, if_true, List.isEmpty_cons, Bool.false_eq_true, if_false] at h
        split at h
        · simp at h
        · rename_i d _
          exact ⟨d, (Option.some.inj h).symm⟩

/-- Read back the way a mail system reads an address: when the library's answer for the domain
contains no at-sign, cutting the shown address at its LAST at-sign gives exactly the supplied local
part (and the converted domain). -/
theorem C18_shown_address_splits_at_supplied_local_part (dc : DomConv) (u : Bool)
    (addr out mb dom : Str) (h : selectIDNA dc u addr = some out)
    (hs : splitAddr addr = some (mb, dom)) (hdom : dom ≠ [])
    (hno : ∀ d, (dc.toASCII dom = some d ∨ dc.toUnicode dom = some d) → 64 ∉ d) :
    ∃ d, splitLast 64 out = some (mb, d) := by
  unfold selectIDNA at h
  cases dom with
  | nil => exact absurd rfl hdom
  | cons x t =>
    cases u
    · simp only [toASCII, hs, Bool.false_eq_true, if_false] at h
      split at h
      · simp at h
      · simp only [List.isEmpty_cons, Bool.false_eq_true, if_false] at h
        split at h
        · simp at h
        · rename_i d hd
          have := (Option.some.inj h).symm
          subst this
          exact ⟨d, splitLast_append 64 mb d (hno d (.inl hd))⟩
    · simp only [toUnicode, hs, if_true, List.isEmpty_cons, Bool.false_eq_true, if_false] at h
      split at h
      · simp at h
      · rename_i d hd
        have := (Option.some.inj h).symm
        subst this
        exact ⟨d, splitLast_append 64 mb d (hno d (.inr hd))⟩

/-- The two lists have the same length and `P` holds position by position. -/
inductive AllPairs {α β : Type} (P : α → β → Prop) : List α → List β → Prop
  | nil : AllPairs P [] []
  | cons {a b l1 l2} : P a b → AllPairs P l1 l2 → AllPairs P (a :: l1) (b :: l2)

theorem mtaGroup_xSender (ix : Idna) (utf8 : Bool) (m : MtaInfo) (g : MtaGroup)
    (h : mtaGroup ix utf8 m = .ok g) (t : AddrType) (a : Str) (hx : g.xSender = some (t, a)) :
    ix.addr utf8 m.xSender = some a := by
  unfold mtaGroup at h
  cases h0 : m.reportingMTA.isEmpty <;> simp only [h0, if_true, Bool.false_eq_true, if_false] at h
  · cases h1 : ix.dom utf8 m.reportingMTA <;> simp only [h1] at h
    · cases h
    · cases h3 : m.xSender.isEmpty <;> cases h5 : ix.addr utf8 m.xSender <;>
        simp only [h3, h5, if_true, Bool.false_eq_true, if_false] at h <;>
        first
          | (cases h; done)
          | (cases h; simp at hx; done)
          | (cases h; simp only [Option.some.injEq, Prod.mk.injEq] at hx; rw [hx.2])
  · cases h

theorem rcptGroup_addr (ix : Idna) (utf8 : Bool) (r : RcptInfo) (g : RcptGroup)
    (h : rcptGroup ix utf8 r = .ok g) : ix.addr utf8 r.finalRcpt = some g.addr := by
  unfold rcptGroup at h
  split at h
  · simp at h
  · split at h
    · simp at h
    · rename_i a ha
      split at h
      · simp at h
      · split at h
        · simp at h
        · split at h
          · simp at h
          · split at h
            · cases h; exact ha
            · split at h
              · simp at h
              · cases h; exact ha

theorem rcptGroups_keep_local_parts (dc : DomConv) (dom : Bool → Str → Option Str) (utf8 : Bool) :
    ∀ (rs : List RcptInfo) (gs : List RcptGroup),
      rcptGroups (Idna.ofConv dc dom) utf8 rs = .ok gs →
      AllPairs (fun r g => KeepsLocalPart r.finalRcpt g.addr) rs gs := by
  intro rs
  induction rs with
  | nil => intro gs h; simp [rcptGroups] at h; subst h; exact .nil
  | cons r t ih =>
    intro gs h
    unfold rcptGroups at h
    cases hg : rcptGroup (Idna.ofConv dc dom) utf8 r with
    | error e => simp [hg] at h
    | ok g =>
      cases ht : rcptGroups (Idna.ofConv dc dom) utf8 t with
      | error e => simp [hg, ht] at h
      | ok gs' =>
        simp [hg, ht] at h
        subst h
        refine .cons ?_ (ih gs' ht)
        exact C18_selectIDNA_keeps_local_part dc utf8 _ _ (rcptGroup_addr _ utf8 r g hg)

/-- **Every report names each recipient record — and the sender — under exactly the local part that
was supplied**, in both report flavours, for every input and whatever the IDNA library answers:
group i of the delivery-status part shows record i with its local part byte for byte (only the
domain is in the form the report type requires), the `X-Maddy-Sender` field likewise, and the
human-readable part and the `To:` field carry the supplied strings unconverted. -/
theorem C18_report_shows_supplied_local_parts (dc : DomConv) (dom : Bool → Str → Option Str)
    (utf8 : Bool) (env : Envelope) (mta : MtaInfo) (rs : List RcptInfo) (h : Hdr) (rep : Report)
    (hg : generate (Idna.ofConv dc dom) utf8 env mta rs h = .ok rep) :
    AllPairs (fun r g => KeepsLocalPart r.finalRcpt g.addr) rs rep.rcpts ∧
    (∀ t a, rep.mta.xSender = some (t, a) → KeepsLocalPart mta.xSender a) ∧
    rep.human.map (·.1) = rs.map (·.finalRcpt) ∧ rep.hdrTo = env.to := by
  obtain ⟨_, _, hto, _, _, hhum, _, hm, hr⟩ := generate_ok _ utf8 env mta rs h rep hg
  refine ⟨rcptGroups_keep_local_parts dc dom utf8 rs rep.rcpts hr, ?_, ?_, hto⟩
  · intro t a hx
    exact C18_selectIDNA_keeps_local_part dc utf8 _ _ (mtaGroup_xSender _ utf8 mta rep.mta hm t a hx)
  · rw [hhum]; simp [humanLines]

theorem forall2_of_map_eq {α β γ : Type} (f : α → γ) (g : β → Option γ) (P : α → β → Prop)
    (hP : ∀ a b, g b = some (f a) → P a b) :
    ∀ (l1 : List α) (l2 : List β), l1.map (fun a => some (f a)) = l2.map g → AllPairs P l1 l2 := by
  intro l1
  induction l1 with
  | nil => intro l2 h; cases l2 with
    | nil => exact .nil
    | cons b t => simp at h
  | cons a t ih =>
    intro l2 h
    cases l2 with
    | nil => simp at h
    | cons b t2 =>
      simp only [List.map_cons, List.cons.injEq] at h
      exact .cons (hP a b h.1.symm) (ih t2 h.2)

/-- **Through the queue: each failed recipient is reported under exactly the local part the sender
used.**  With `address.SelectIDNA` as the code has it, the groups of every report handed over in an
attempt stand, in order, for the recipients failing terminally in that attempt, and group i shows
the address the SENDER used for recipient i (`root`) with its local part byte for byte — not a
normalised, case-folded or otherwise "equivalent" spelling. -/
theorem C18_queue_report_keeps_senders_local_parts
    (cfg : Cfg) (dc : DomConv) (hix : cfg.idna.addr = selectIDNA dc)
    (maxTries : Nat) (now : Addr → Option Err) (failAt : Option Stage) (q : QMeta)
    (hnd : q.to.Nodup) (root : Addr → Addr) (hroot : RecordsRoot q.msg.origRcpts root q.to)
    (rep : Report) (hrep : rep ∈ reportsOf (bounces (attempt cfg maxTries now failAt q).2)) :
    AllPairs (fun g r => KeepsLocalPart (cfg.name (root r)) g.addr)
      rep.rcpts (failedNow maxTries now q) := by
  have h := (C18_lists_exactly_failed_under_original_addresses cfg maxTries now failAt q hnd root
    hroot rep hrep).1
  refine forall2_of_map_eq (fun g : RcptGroup => g.addr)
    (fun r => cfg.idna.addr q.msg.utf8 (cfg.name (root r))) _ ?_ _ _ h
  intro g r hgr
  rw [hix] at hgr
  exact C18_selectIDNA_keeps_local_part dc q.msg.utf8 _ _ hgr

/-- The seeded change C18-14 as a model (`address.ToUnicode` normalising the WHOLE address) would
violate it: `KeepsLocalPart` is not satisfied by an address whose local part was rewritten. -/
example : ¬ KeepsLocalPart [101, 769, 64, 120] [233, 64, 120] := by
  intro ⟨mb, dom, hs, h⟩
  have : splitAddr [101, 769, 64, 120] = some ([101, 769], [120]) := by decide
  rw [this] at hs
  simp only [Option.some.injEq, Prod.mk.injEq] at hs
  obtain ⟨rfl, rfl⟩ := hs
  rcases h with ⟨hd, _⟩ | ⟨_, d, hd⟩
  · simp at hd
  · simp at hd

-- non-vacuity: decomposed local part + IDN domain, both flavours; the domain-less postmaster
-- (also with U+017F); the hypotheses of the queue theorem hold for the example queue
def exConv : DomConv := ⟨fun d => some (120 :: 110 :: 45 :: 45 :: d), fun d => some d⟩
example : selectIDNA exConv true [101, 769, 64, 1087] = some [101, 769, 64, 1087] := by decide
example : selectIDNA exConv false [101, 769, 64, 1087] = none := by decide
example : selectIDNA exConv false [85, 115, 64, 1087] = some [85, 115, 64, 120, 110, 45, 45, 1087] := by decide
example : splitAddr [112, 111, 383, 116, 109, 97, 115, 116, 101, 114] =
    some ([112, 111, 383, 116, 109, 97, 115, 116, 101, 114], []) := by decide
example : selectIDNA exConv true postmaster = some postmaster := by decide
example : splitAddr [64, 120] = none ∧ splitAddr [120, 64] = none ∧ splitAddr [120] = none := by decide
example : ({ cexCfg with idna := Idna.ofConv exConv (fun _ d => some d) } : Cfg).idna.addr = selectIDNA exConv := rfl


/-! ## spelling-only rewriting and the flattening of error texts (strengthening round 9)

Addresses are identifiers with an INJECTIVE naming: two identifiers are the same string iff they
are equal.  `address.Equal` (letter case, NFC, IDN form, trailing dot) is a coarser relation `eqv`
on them — any relation: nothing below depends on what it is.  `msgpipeline.AddRcpt` records
`OriginalRcpts[to] = originalTo` whenever the two STRINGS differ (`recordLevel`: `input ≠ output`),
so a modifier that only changes the spelling of a recipient is recorded like any other. -/

/-- The table records every byte-wise change — also one between two spellings `eqv` identifies. -/
theorem C18_table_records_every_bytewise_change (eqv : Addr → Addr → Prop) (m : Addr → Addr)
    (a b : Addr) (_hspell : eqv a b) (hne : a ≠ b) : recordLevel m a b b = a := by
  simp [recordLevel, hne]

/-- …and ONLY an identical output leaves it as it is. -/
theorem C18_table_unchanged_iff_identical (m : Addr → Addr) (a b : Addr) (hm : m b ≠ a) :
    recordLevel m a b = m ↔ a = b := by
  constructor
  · intro h
    apply Classical.byContradiction
    intro hne
    have := congrFun h b
    simp [recordLevel, hne] at this
    exact hm this.symm
  · intro h; simp [recordLevel, h]

/-- One modifier FUNCTION `f` (1-to-1 rewriting) at the global (0), per-source (1) or
per-destination (otherwise) stage of the pipeline. -/
def rulesOf (stage : Nat) (f : Addr → Addr) : Rules :=
  if stage = 0 then ⟨fun a => some [f a], fun _ => none, fun _ => none⟩
  else if stage = 1 then ⟨fun _ => none, fun a => some [f a], fun _ => none⟩
  else ⟨fun _ => none, fun _ => none, fun a => some [f a]⟩

theorem rulesOf_outputs (stage : Nat) (f : Addr → Addr) (a : Addr) :
    (rulesOf stage f).outputs a = [f a] := by
  unfold rulesOf
  split
  · simp [Rules.outputs, expand]
  · split <;> simp [Rules.outputs, expand]

theorem frontRcpts_rulesOf (stage : Nat) (f : Addr → Addr) (given : List Addr) :
    frontRcpts (rulesOf stage f) none given = given.map f := by
  simp only [frontRcpts]
  induction given with
  | nil => rfl
  | cons a t ih => simp [List.flatMap_cons, rulesOf_outputs, ih]

/-- **The reported address is the supplied one for EVERY modifier function** `f`, at whichever
stage it runs: no hypothesis relates `f a` to `a` — `f` may map to another mailbox, to another
spelling of the same mailbox (`eqv (f a) a`, `f a ≠ a`), or leave the address alone.  The only
requirements are those of the queue itself: distinct effective recipients, no empty address.
Every report lists the terminally failed recipients in order, the i-th under the conversion of the
address the SENDER supplied (`inv` = any left inverse of `f` on the supplied addresses). -/
theorem C18_every_modifier_function_reported_under_supplied_address
    (cfg : Cfg) (maxTries : Nat) (now : Addr → Option Err) (failAt : Option Stage)
    (stage : Nat) (f : Addr → Addr) (given : List Addr) (m : MsgMeta)
    (hnd : (given.map f).Nodup) (hne : ∀ a ∈ given, a ≠ 0)
    (inv : Addr → Addr) (hinv : ∀ a ∈ given, inv (f a) = a)
    (rep : Report)
    (hrep : rep ∈ reportsOf (bounces (attempt cfg maxTries now failAt
      (viaFront (rulesOf stage f) none given m)).2)) :
    rep.rcpts.map (fun g => some g.addr) =
      (failedNow maxTries now (viaFront (rulesOf stage f) none given m)).map
        (fun r => cfg.idna.addr m.utf8 (cfg.name (inv r))) := by
  have h := C18_pipeline_fed_queue_names_senders_addresses cfg maxTries now failAt
    (rulesOf stage f) given m (by rw [frontRcpts_rulesOf]; exact hnd) hne inv
    (fun a ha o ho => by
      rw [rulesOf_outputs] at ho
      simp at ho
      subst ho
      exact hinv a ha)
    rep hrep
  exact h.1

/-- The same, spelled out for the case the round is about: `f` changes ONLY the spelling of every
supplied address (`eqv (f a) a` but `f a ≠ a`, e.g. a table handing back the lower-case form). -/
theorem C18_respelled_recipient_reported_under_supplied_bytes
    (cfg : Cfg) (maxTries : Nat) (now : Addr → Option Err) (failAt : Option Stage)
    (stage : Nat) (f : Addr → Addr) (eqv : Addr → Addr → Prop) (given : List Addr) (m : MsgMeta)
    (_hspell : ∀ a ∈ given, eqv (f a) a ∧ f a ≠ a)
    (hnd : (given.map f).Nodup) (hne : ∀ a ∈ given, a ≠ 0)
    (inv : Addr → Addr) (hinv : ∀ a ∈ given, inv (f a) = a)
    (rep : Report)
    (hrep : rep ∈ reportsOf (bounces (attempt cfg maxTries now failAt
      (viaFront (rulesOf stage f) none given m)).2)) :
    rep.rcpts.map (fun g => some g.addr) =
      (failedNow maxTries now (viaFront (rulesOf stage f) none given m)).map
        (fun r => cfg.idna.addr m.utf8 (cfg.name (inv r))) :=
  C18_every_modifier_function_reported_under_supplied_address cfg maxTries now failAt stage f given m
    hnd hne inv hinv rep hrep

/-- What `AddRcpt` would record if it compared with `address.Equal` (`eqv`) instead of `!=`. -/
def recordLevelEq (eqv : Addr → Addr → Bool) (m : Addr → Addr) (input output : Addr) : Addr → Addr :=
  if !eqv input output then fun x => if x = output then input else m x else m

def recordAllEq (eqv : Addr → Addr → Bool) (m : Addr → Addr) : List (Addr × Addr) → (Addr → Addr)
  | [] => m
  | p :: t => recordAllEq eqv (recordLevelEq eqv m p.1 p.2) t

/-- Why the comparison has to be on the bytes: 2 and 3 are two spellings of one mailbox
(`eqv`), the modifier hands back 3 for 2.  With the real table the failed recipient is reported as
2, the bytes the sender used; with an `Equal`-based table there is no way back and the report names
3, a string the sender never wrote. -/
theorem C18_equal_based_table_counterexample :
    let eqv : Addr → Addr → Bool := fun a b => a / 2 == b / 2
    let outer : Rules := rulesOf 0 (fun a => if a = 2 then 3 else a)
    let q := viaFront outer none [2] { cexMsg with origRcpts := fun _ => 0 }
    let now : Addr → Option Err := fun r => if r = 3 then some (.smtp 550 ⟨5, 1, 1⟩ []) else none
    let qe : QMeta := { q with msg := { q.msg with origRcpts := recordAllEq eqv (fun _ => 0) (frontSteps outer none [2]) } }
    eqv 3 2 = true ∧ q.to = [3] ∧
    (reportsOf (bounces (attempt cexCfg 1 now none q).2)).map (fun rep => rep.rcpts.map (·.addr)) = [[[2]]] ∧
    (reportsOf (bounces (attempt cexCfg 1 now none qe).2)).map (fun rep => rep.rcpts.map (·.addr)) = [[[3]]] := by
  decide

-- non-vacuity: a spelling-only function satisfies every hypothesis
example : let f : Addr → Addr := fun a => if a = 2 then 3 else if a = 4 then 5 else a
    (([2, 4].map f).Nodup) ∧ (∀ a ∈ [2, 4], a ≠ 0) ∧
    (∀ a ∈ [2, 4], (fun x y : Addr => x / 2 = y / 2) (f a) a ∧ f a ≠ a) ∧
    (∀ a ∈ [2, 4], (fun r : Addr => r - 1) (f a) = a) := by decide

/-! ### the flattening of an error text into a field value (`fieldText` of dsn.go) -/

/-- **The flattening is total and its output contains neither CR nor LF** — for every string:
bare CR, CR CR LF, LF CR, … -/
theorem C18_flattened_text_has_no_line_break (s : Str) : 13 ∉ oneLine s ∧ 10 ∉ oneLine s := by
  constructor <;>
  · intro h
    simp only [oneLine, List.mem_map] at h
    obtain ⟨c, _, hc⟩ := h
    by_cases hk : isCtl c
    · simp [hk] at hc
    · simp only [hk] at hc
      simp at hc
      subst hc
      simp [isCtl] at hk

/-- No control character at all survives, except the horizontal tab. -/
theorem C18_flattened_text_has_no_control (s : Str) : ∀ c ∈ oneLine s, isCtl c = false := by
  intro c h
  simp only [oneLine, List.mem_map] at h
  obtain ⟨d, _, hd⟩ := h
  by_cases hk : isCtl d
  · simp [hk] at hd; subst hd; decide
  · simp only [hk] at hd
    simp at hd
    subst hd
    simpa using hk

/-- Nothing else changes: same length, and a text without control characters is copied. -/
theorem oneLine_length (s : Str) : (oneLine s).length = s.length := by simp [oneLine]

theorem oneLine_id_of_clean (s : Str) (h : ∀ c ∈ s, isCtl c = false) : oneLine s = s := by
  induction s with
  | nil => rfl
  | cons a t ih =>
    have ha := h a (by simp)
    have ht := ih (fun c hc => h c (by simp [hc]))
    simp only [oneLine, List.map_cons] at ht ⊢
    simp [ha, ht]

/-- The ASCII filter of the non-SMTPUTF8 flavour keeps that: the Diagnostic-Code text of a report,
either flavour, has neither CR nor LF. -/
theorem C18_diagnostic_text_is_one_line (utf8 : Bool) (s : Reply) :
    13 ∉ shownText utf8 s ∧ 10 ∉ shownText utf8 s := by
  have h := C18_flattened_text_has_no_line_break (msgText s.msg)
  unfold shownText
  cases utf8
  · simp only [Bool.false_eq_true, if_false]
    constructor <;>
    · intro hm
      simp only [mangle, List.mem_map] at hm
      obtain ⟨c, hc, he⟩ := hm
      by_cases hb : c ≥ 128
      · simp [hb] at he
      · simp only [hb] at he
        simp at he
        subst he
        first | exact h.1 hc | exact h.2 hc
  · simpa using h

example : oneLine [97, 13, 98, 13, 13, 10, 99, 10, 13, 0, 9, 127, 233] =
    [97, 32, 98, 32, 32, 32, 99, 32, 32, 32, 9, 32, 233] := by decide

/-! ## the client's HELO name: `Received-From-MTA` (round 10)

Follows the fix "a client HELO name that cannot be converted (malformed A-label) made the queue drop
the failure report": the optional field is LEFT OUT when `dns.SelectIDNA` fails on the name
(`Dsn.rcvdField`); before, `GenerateDSN` failed and the sender never learnt of the failure. -/

theorem mtaGroup_receivedFrom (ix : Idna) (utf8 : Bool) (m : MtaInfo) (g : MtaGroup)
    (h : mtaGroup ix utf8 m = .ok g) : g.receivedFrom = rcvdField ix utf8 m.receivedFromMTA := by
  unfold mtaGroup at h
  cases h0 : m.reportingMTA.isEmpty <;> simp only [h0, if_true, Bool.false_eq_true, if_false] at h
  · cases h1 : ix.dom utf8 m.reportingMTA <;> simp only [h1] at h
    · cases h
    · cases h3 : m.xSender.isEmpty <;> cases h5 : ix.addr utf8 m.xSender <;>
        simp only [h3, h5, if_true, Bool.false_eq_true, if_false] at h <;>
        first
          | (cases h; done)
          | (cases h; rfl)
  · cases h

/-- The name of the client reaches `ReportingMTAInfo.WriteTo` in one place only. -/
theorem mtaGroup_client_name (ix : Idna) (utf8 : Bool) (m : MtaInfo) (name : Str) :
    mtaGroup ix utf8 { m with receivedFromMTA := name } =
      (mtaGroup ix utf8 m).map (fun g => { g with receivedFrom := rcvdField ix utf8 name }) := by
  unfold mtaGroup
  cases h0 : m.reportingMTA.isEmpty <;> simp only [h0, if_true, Bool.false_eq_true, if_false]
  · cases h1 : ix.dom utf8 m.reportingMTA <;> simp only [h1]
    · rfl
    · cases h3 : m.xSender.isEmpty <;> cases h5 : ix.addr utf8 m.xSender <;>
        simp only [h3, h5, if_true, Bool.false_eq_true, if_false] <;> rfl
  · rfl

/-- **The client's name decides its own field and nothing else**: `GenerateDSN` with another
HELO name fails or succeeds alike, and a report differs in `Received-From-MTA` only. -/
theorem C18_client_name_decides_only_its_own_field (ix : Idna) (utf8 : Bool) (env : Envelope)
    (mta : MtaInfo) (rs : List RcptInfo) (h : Hdr) (name : Str) :
    generate ix utf8 env { mta with receivedFromMTA := name } rs h =
      (generate ix utf8 env mta rs h).map
        (fun rep => { rep with mta := { rep.mta with receivedFrom := rcvdField ix utf8 name } }) := by
  unfold generate
  rw [mtaGroup_client_name]
  cases hm : mtaGroup ix utf8 mta with
  | error e => rfl
  | ok mg => cases hr : rcptGroups ix utf8 rs <;> rfl

/-- **No HELO name suppresses the report** (`GenerateDSN` level): whether a report can be generated
does not depend on the client's name — convertible, inconvertible or absent. -/
theorem C18_client_name_never_suppresses_generation (ix : Idna) (utf8 : Bool) (env : Envelope)
    (mta : MtaInfo) (rs : List RcptInfo) (h : Hdr) (name : Str) :
    (∃ rep, generate ix utf8 env { mta with receivedFromMTA := name } rs h = .ok rep) ↔
    (∃ rep, generate ix utf8 env mta rs h = .ok rep) := by
  rw [C18_client_name_decides_only_its_own_field]
  cases hg : generate ix utf8 env mta rs h with
  | error e => simp [Except.map]
  | ok rep => simp [Except.map]

/-- **`Received-From-MTA` is present iff the client gave a name that converts**, and then it is the
converted name. -/
theorem C18_received_from_present_iff_convertible (ix : Idna) (utf8 : Bool) (env : Envelope)
    (mta : MtaInfo) (rs : List RcptInfo) (h : Hdr) (rep : Report)
    (hg : generate ix utf8 env mta rs h = .ok rep) (d : Str) :
    rep.mta.receivedFrom = some d ↔
      (mta.receivedFromMTA ≠ [] ∧ ix.dom utf8 mta.receivedFromMTA = some d) := by
  obtain ⟨_, _, _, _, _, _, _, h8, _⟩ := generate_ok _ _ _ _ _ _ _ hg
  rw [mtaGroup_receivedFrom ix utf8 mta rep.mta h8]
  unfold rcvdField
  cases hx : mta.receivedFromMTA with
  | nil => simp
  | cons a t => simp

/-- …in particular: a name that cannot be converted is never shown. -/
theorem C18_inconvertible_client_name_left_out (ix : Idna) (utf8 : Bool) (env : Envelope)
    (mta : MtaInfo) (rs : List RcptInfo) (h : Hdr) (rep : Report)
    (hg : generate ix utf8 env mta rs h = .ok rep)
    (hbad : ix.dom utf8 mta.receivedFromMTA = none) : rep.mta.receivedFrom = none := by
  cases hr : rep.mta.receivedFrom with
  | none => rfl
  | some d =>
    have := (C18_received_from_present_iff_convertible ix utf8 env mta rs h rep hg d).mp hr
    rw [hbad] at this
    exact absurd this.2 (by simp)

/-- Queue level: every report of an attempt shows the HELO name of the connection the message
came in on iff it converts (a later attempt, read back from the spool, knows no connection:
`attempt` clears `rcvdFrom`). -/
theorem C18_queue_report_received_from
    (cfg : Cfg) (maxTries : Nat) (now : Addr → Option Err) (failAt : Option Stage) (q : QMeta)
    (hnd : q.to.Nodup) (rep : Report)
    (hrep : rep ∈ reportsOf (bounces (attempt cfg maxTries now failAt q).2)) :
    rep.mta.receivedFrom = rcvdField cfg.idna q.msg.utf8 q.msg.rcvdFrom := by
  obtain ⟨_, _, _, infos, _, hg⟩ := report_core cfg maxTries now failAt q hnd rep hrep
  obtain ⟨_, _, _, _, _, _, _, h8, _⟩ := generate_ok _ _ _ _ _ _ _ hg
  exact mtaGroup_receivedFrom _ _ _ _ h8

/-- **An inconvertible client name never suppresses the report** (queue level): with a bounce
pipeline, a non-null sender, a non-empty failed set and presentable data — NO condition on the
HELO name — the attempt hands a report to the bounce pipeline, whatever stage of the hand-over
fails; when the name cannot be converted the report simply has no `Received-From-MTA`. -/
theorem C18_inconvertible_client_name_never_suppresses_report
    (cfg : Cfg) (maxTries : Nat) (now : Addr → Option Err) (failAt : Option Stage) (q : QMeta)
    (hnd : q.to.Nodup) (hp : cfg.pipeline = true) (hs : q.msg.originalFrom ≠ 0)
    (hf : failedNow maxTries now q ≠ [])
    (hpres : Presentable cfg q.msg (failedNow maxTries now q) now)
    (hbad : cfg.idna.dom q.msg.utf8 q.msg.rcvdFrom = none) :
    ∃ rep, bounces (attempt cfg maxTries now failAt q).2 = handOver (metaNow now q) rep failAt ∧
      rep.mta.receivedFrom = none := by
  obtain ⟨rep, hg, h⟩ := report_generated_core cfg maxTries now failAt q hnd hp hs hf hpres
  exact ⟨rep, h, C18_inconvertible_client_name_left_out _ _ _ _ _ _ rep hg hbad⟩

-- non-vacuity: the client of `exQ` called itself [104]; a library that cannot convert that name
/-- `cexCfg` with a conversion library that fails on the host name `[104]`. -/
def badNameCfg : Cfg :=
  { cexCfg with idna := ⟨fun _ s => some s, fun _ s => if s = [104] then none else some s⟩ }

example : badNameCfg.idna.dom exQ.msg.utf8 exQ.msg.rcvdFrom = none := by decide
example : exQ.msg.rcvdFrom ≠ [] := by decide
example : Presentable badNameCfg exQ.msg (failedNow 1 exNow exQ) exNow := by
  refine ⟨by decide, by decide, by decide, ?_⟩
  intro r hr e he
  have hr' : r = 2 ∨ r = 4 := by
    have : failedNow 1 exNow exQ = [2, 4] := by decide
    rw [this] at hr; simpa using hr
  rcases hr' with rfl | rfl
  · have : e = .smtp 550 ⟨5, 1, 1⟩ [110, 111] := by simp [exNow] at he; exact he.symm
    subst this; decide
  · have : e = .withTemp true .plain := by simp [exNow] at he; exact he.symm
    subst this; decide
-- the same report as with a convertible name (recipients 1 and 4), only the field is gone
example : (reportsOf (bounces (attempt badNameCfg 1 exNow (some .body) exQ).2)).map
    (fun rep => (rep.rcpts.map (·.addr), rep.mta.receivedFrom)) = [([[1], [4]], none)] := by decide
example : (reportsOf (bounces (attempt cexCfg 1 exNow (some .body) exQ).2)).map
    (fun rep => (rep.rcpts.map (·.addr), rep.mta.receivedFrom)) = [([[1], [4]], some [104])] := by decide
example : rcvdField badNameCfg.idna false [104] = none ∧ rcvdField badNameCfg.idna false [105] = some [105] ∧
    rcvdField badNameCfg.idna false [] = none := by decide

/-! ### Round 11: the text of an error is opaque

`toSMTPErr` never READS the reply text: replacing every text inside an error value by anything else
(`retext f`) leaves the stored reply code and status exactly what they were, and the stored text is the
text the error carried, as a whole, under the same replacement.  In particular a text that begins like an
enhanced status code, an IP address or a version number (`192.0.2.25 is listed …`) decides nothing. -/

/-- The same error value with every annotated text replaced through `f`. -/
def retext (f : List Nat → List Nat) : Err → Err
  | .plain => .plain
  | .deadline => .deadline
  | .net t => .net t
  | .smtp c en m => .smtp c en (f m)
  | .smtpWrap c en m i => .smtpWrap c en (f m) (retext f i)
  | .withTemp t i => .withTemp t (retext f i)
  | .withFields c en m i => .withFields c en (m.map f) (retext f i)
  | .rawSmtp c en m => .rawSmtp c en (f m)

/-- `f` applied to an annotated text; the two constant texts stay. -/
def retextMsg (f : List Nat → List Nat) : Msg → Msg
  | .text m => .text (f m)
  | m => m

theorem tempOf_retext (f : List Nat → List Nat) (e : Err) : tempOf (retext f e) = tempOf e := by
  induction e with
  | withFields c en m i ih => simpa [retext, tempOf] using ih
  | _ => simp [retext, tempOf]

theorem codeField_retext (f : List Nat → List Nat) (e : Err) : codeField (retext f e) = codeField e := by
  induction e with
  | withFields c en m i ih => cases c <;> simp [retext, codeField, ih]
  | withTemp t i ih => simpa [retext, codeField] using ih
  | _ => simp [retext, codeField]

theorem enchField_retext (f : List Nat → List Nat) (e : Err) : enchField (retext f e) = enchField e := by
  induction e with
  | withFields c en m i ih => cases en <;> simp [retext, enchField, ih]
  | withTemp t i ih => simpa [retext, enchField] using ih
  | _ => simp [retext, enchField]

theorem msgField_retext (f : List Nat → List Nat) (e : Err) :
    msgField (retext f e) = (msgField e).map f := by
  induction e with
  | withFields c en m i ih => cases m <;> simp [retext, msgField, ih]
  | withTemp t i ih => simpa [retext, msgField] using ih
  | _ => simp [retext, msgField]

/-- The stored reply of the re-texted error is the stored reply of the error with ONLY the text
replaced - as a whole, by the same replacement. -/
theorem C18_stored_reply_does_not_read_the_text (f : List Nat → List Nat) (e : Err) :
    toSMTPErr (retext f e) =
      { toSMTPErr e with msg := retextMsg f (toSMTPErr e).msg } := by
  cases e with
  | rawSmtp c en m => simp [retext, toSMTPErr, retextMsg, isTemporaryOrUnspec, tempOf]
  | plain => simp [retext, toSMTPErr, retextMsg, msgOf, msgField]; exact ⟨rfl, rfl⟩
  | deadline => simp [retext, toSMTPErr, retextMsg, msgOf, msgField]; exact ⟨rfl, rfl⟩
  | net t => simp [retext, toSMTPErr, retextMsg, msgOf, msgField]; exact ⟨rfl, rfl⟩
  | smtp c en m => simp [retext, toSMTPErr, retextMsg, msgOf, msgField, codeField, enchField, isTemporaryOrUnspec, tempOf]
  | smtpWrap c en m i =>
    simp [retext, toSMTPErr, retextMsg, msgOf, msgField, codeField, enchField, isTemporaryOrUnspec, tempOf]
  | withTemp t i =>
    simp only [retext, toSMTPErr, isTemporaryOrUnspec, tempOf, codeField, enchField, msgField,
      codeField_retext, enchField_retext, msgField_retext]
    cases msgField i <;> simp [msgOf, retextMsg] <;> exact ⟨rfl, rfl⟩
  | withFields c en m i =>
    have h1 := codeField_retext f (.withFields c en m i)
    have h2 := enchField_retext f (.withFields c en m i)
    have h3 := msgField_retext f (.withFields c en m i)
    have h4 := tempOf_retext f (.withFields c en m i)
    simp only [retext] at h1 h2 h3 h4
    simp only [retext, toSMTPErr, isTemporaryOrUnspec, h1, h2, h3, h4]
    cases msgField (.withFields c en m i) <;> simp [msgOf, retextMsg] <;> exact ⟨rfl, rfl⟩

/-- Code and status of a stored error are functions of everything BUT the texts. -/
theorem C18_status_independent_of_text (f : List Nat → List Nat) (e : Err) :
    (toSMTPErr (retext f e)).code = (toSMTPErr e).code ∧
    storedEnch (toSMTPErr (retext f e)) = storedEnch (toSMTPErr e) := by
  rw [C18_stored_reply_does_not_read_the_text]
  exact ⟨rfl, rfl⟩

/-- The stored text IS the annotated text of the error (outermost annotation), nothing cut off. -/
theorem C18_stored_text_is_whole_text (e : Err) (m : List Nat) (h : msgField e = some m)
    (hraw : ∀ c en t, e ≠ .rawSmtp c en t) : (toSMTPErr e).msg = .text m := by
  cases e with
  | rawSmtp c en t => exact absurd rfl (hraw c en t)
  | _ => simp_all [toSMTPErr, msgOf, msgField]

-- a reply without enhanced code whose text is "192.0.2.25 x": status 5.0.0, the text whole
example : toSMTPErr (.smtp 550 ⟨0, 0, 0⟩ [49, 57, 50, 46, 48, 46, 50, 46, 50, 53, 32, 120]) =
    ⟨550, some ⟨5, 0, 0⟩, .text [49, 57, 50, 46, 48, 46, 50, 46, 50, 53, 32, 120]⟩ := by decide
-- "4.2.2 x" in the text of a 550 without enhanced code: still 5.0.0, the text whole
example : toSMTPErr (.withFields (some 550) none (some [52, 46, 50, 46, 50, 32, 120]) .plain) =
    ⟨550, some ⟨4, 0, 0⟩, .text [52, 46, 50, 46, 50, 32, 120]⟩ := by decide

end MaddyVerif.C18
