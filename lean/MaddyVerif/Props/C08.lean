import MaddyVerif.Model.DkimWire
import MaddyVerif.Model.DkimKeys
import MaddyVerif.Model.DkimTime
import MaddyVerif.Generated.DkimLists
import MaddyVerif.Expect.DkimLists
/-!
# C08 — DKIM signatures made by maddy verify at the next hop after spooling and SMTP

Quantifier: all headers made of RFC 5322-shaped raw fields (`RFCField`: any folding, repeated
fields, empty and long values, any octets but CR/LF inside lines), all bodies made of
CRLF-terminated lines (`CleanLine`), both canonicalisations, all `h=` lists / configured lists, both
spool paths (header object in memory, header re-read from the spool), every hash and signature
scheme satisfying the stated laws (symbolic cryptography: rsa2048 / ed25519 are instances only
through those laws).

Level: partial.  Cryptography is a parameter; the byte behaviour of go-message, go-msgauth,
net/textproto and go-smtp is the hand-written model `Model/DkimWire.lean`, tied to the libraries by
differential runs only; `hb` (see `C08_verifies_stmt`) is a hypothesis about go-msgauth's
formatting of the signature field.

Main results: `C08_readHeader_writeHeader`, `C08_dkimReadHeader_writeHeader`,
`C08_dotUnstuff_dotStuff`, `C08_transport_identity`, `C08_transport_preserves_canonical_form`,
`C08_signed_message_verifies_at_next_hop` (= `C08_verifies_partial`), `C08_fieldsToSign_counts`,
`C08_fieldsToSign_covers_header`, `C08_tamper_{add,remove,alter}_changes_digest`,
`C08_tamper_detected`, `C08_fieldsToSign_makes_tamper_evident`, `C08_maddy_signature_tamper_detected`; over facts regenerated from the
current tree: `C08_fieldsToSign_skeleton_as_modelled`, `C08_default_lists_wellformed`,
`C08_default_config_verifies_at_next_hop`.

Key store (`Model/DkimKeys.lean`, "… against the PUBLISHED key"): for every `key_path` template,
selector, list of domains (any spelling), directory contents and `newkey_algo`s —
`C08_restart_finds_the_same_keys`, `C08_any_number_of_restarts` (an instance started again on the
directory an earlier start left creates no file and holds the same key pairs),
`C08_generated_key_has_its_record`, `C08_signer_after_restarts_matches_first_record`,
`C08_signed_after_restarts_verifies_against_published_key` (the headline theorem with the key taken
from the restarted instance and the record written at the first start),
`C08_default_key_path_uses_names_as_written`.  Side conditions `NoClash` / `RecInj` (no record file
of the configuration lands on a key path of the configuration; two key paths never share a record
file) hold for every template whose key paths end in `.key` (`noClash_recInj_of_dotKey`).

Key selection (round 9, `selectKey`): `C08_signed_domain_has_published_key` (the `d=` of an added
signature has a normal form under which the instance holds the key that signed — for every
configuration, `sign_subdomains` on or off, every sender spelling, EAI or not),
`C08_signed_domain_is_a_configured_domain`, `C08_subdomain_signed_as_configured_domain`,
`C08_selected_key_signature_verifies`.
-/
namespace MaddyVerif.C08
open MaddyVerif.DkimWire

/-! ## lines -/

theorem linesKeep_line (l r : Bytes) (h : 10 ∉ l) :
    linesKeep (l ++ 10 :: r) = (l ++ [10]) :: linesKeep r := by
  induction l with
  | nil => simp [linesKeep]
  | cons c l ih =>
    have hc : c ≠ 10 := by intro e; apply h; simp [e]
    have hl : 10 ∉ l := by intro e; apply h; simp [e]
    simp [linesKeep, hc, ih hl]

theorem linesKeep_flatten (s : Bytes) : (linesKeep s).flatten = s := by
  induction s with
  | nil => simp [linesKeep]
  | cons c r ih =>
    unfold linesKeep
    split
    · next h => simp [ih, h]
    · split
      · next h => simp [h] at ih; simp [← ih]
      · next l ls h => simp [h] at ih; simp [← ih]

theorem chomp_crlf (x : Bytes) : chomp (x ++ crlf) = x := by
  simp [chomp, crlf]

/-- a line ended by CRLF -/
theorem linesKeep_crlf_line (x r : Bytes) (h : 10 ∉ x) :
    linesKeep (x ++ crlf ++ r) = (x ++ crlf) :: linesKeep r := by
  have : 10 ∉ x ++ [13] := by simp [h]
  have e : x ++ crlf ++ r = (x ++ [13]) ++ 10 :: r := by simp [crlf]
  rw [e, linesKeep_line _ _ this]; simp [crlf]

/-- A line of a message: no CR and no LF inside. -/
def CleanLine (l : Bytes) : Prop := 13 ∉ l ∧ 10 ∉ l

/-- Lines, each ended by CRLF. -/
def linesBytes (ls : List Bytes) : Bytes := (ls.map (· ++ crlf)).flatten

@[simp] theorem linesBytes_nil : linesBytes [] = [] := rfl
@[simp] theorem linesBytes_cons (l : Bytes) (ls : List Bytes) :
    linesBytes (l :: ls) = l ++ crlf ++ linesBytes ls := by simp [linesBytes]

/-- Shape of an RFC 5322 header field: `key *WSP ":" value CRLF *(WSP … CRLF)`. -/
structure FieldShape (key ws value : Bytes) (conts : List Bytes) : Prop where
  key_ne : key ≠ []
  key_valid : ∀ c ∈ key, validKeyByte c = true
  ws_wsp : ∀ c ∈ ws, isWsp c = true
  value_clean : CleanLine value
  conts_clean : ∀ l ∈ conts, CleanLine l
  conts_wsp : ∀ l ∈ conts, startsWsp l = true

def mkField (key ws value : Bytes) (conts : List Bytes) : Bytes :=
  linesBytes ((key ++ ws ++ 58 :: value) :: conts)

def RFCField (f : Bytes) : Prop :=
  ∃ key ws value conts, FieldShape key ws value conts ∧ f = mkField key ws value conts

theorem validKey_not_wsp {c : Nat} (h : validKeyByte c = true) : isWsp c = false := by
  simp [validKeyByte] at h
  simp [isWsp]; omega

theorem validKey_ne_colon {c : Nat} (h : validKeyByte c = true) : c ≠ 58 := by
  simp [validKeyByte] at h; omega

theorem validKey_clean {c : Nat} (h : validKeyByte c = true) : c ≠ 13 ∧ c ≠ 10 := by
  simp [validKeyByte] at h; omega

theorem wsp_clean {c : Nat} (h : isWsp c = true) : c ≠ 13 ∧ c ≠ 10 ∧ c ≠ 58 := by
  simp [isWsp] at h; omega

/-- first line of a shaped field -/
def firstLine (key ws value : Bytes) : Bytes := key ++ ws ++ 58 :: value

theorem firstLine_clean {key ws value conts} (s : FieldShape key ws value conts) :
    CleanLine (firstLine key ws value) := by
  constructor
  · intro h
    simp [firstLine] at h
    rcases h with h | h | h
    · exact (validKey_clean (s.key_valid _ h)).1 rfl
    · exact (wsp_clean (s.ws_wsp _ h)).1 rfl
    · exact s.value_clean.1 h
  · intro h
    simp [firstLine] at h
    rcases h with h | h | h
    · exact (validKey_clean (s.key_valid _ h)).2 rfl
    · exact (wsp_clean (s.ws_wsp _ h)).2.1 rfl
    · exact s.value_clean.2 h

theorem firstLine_not_wsp {key ws value conts} (s : FieldShape key ws value conts) :
    startsWsp (firstLine key ws value) = false := by
  cases hk : key with
  | nil => exact absurd hk s.key_ne
  | cons c r =>
    have := s.key_valid c (by simp [hk])
    simp [firstLine, startsWsp, validKey_not_wsp this]

theorem beforeColon_firstLine {key ws value conts} (s : FieldShape key ws value conts) (rest : Bytes) :
    beforeColon (firstLine key ws value ++ rest) = key ++ ws := by
  have h1 : ∀ c ∈ key ++ ws, (c != 58) = true := by
    intro c hc
    simp at hc
    rcases hc with hc | hc
    · simpa using validKey_ne_colon (s.key_valid c hc)
    · simpa using (wsp_clean (s.ws_wsp c hc)).2.2
  have e : firstLine key ws value ++ rest = (key ++ ws) ++ 58 :: (value ++ rest) := by
    simp [firstLine]
  rw [e, beforeColon, List.takeWhile_append_of_pos h1]
  simp

theorem dropWhile_all {α} (p : α → Bool) (xs rest : List α) (h : ∀ x ∈ xs, p x = true) :
    (xs ++ rest).dropWhile p = rest.dropWhile p := by
  induction xs with
  | nil => rfl
  | cons x xs ih =>
    have hx := h x (by simp)
    simp [hx]
    exact ih (fun y hy => h y (by simp [hy]))

theorem trimBy_key_ws (p : Nat → Bool) (key ws : Bytes) (hne : key ≠ [])
    (hk : ∀ c ∈ key, p c = false) (hw : ∀ c ∈ ws, p c = true) :
    trimBy p (key ++ ws) = key := by
  unfold trimBy
  have h1 : (key ++ ws).dropWhile p = key ++ ws := by
    cases key with
    | nil => exact absurd rfl hne
    | cons c r => simp [hk c (by simp)]
  rw [h1, List.reverse_append]
  rw [dropWhile_all p ws.reverse key.reverse (by intro x hx; exact hw x (by simpa using hx))]
  have h2 : key.reverse.dropWhile p = key.reverse := by
    have : key.reverse ≠ [] := by simpa using hne
    cases hr : key.reverse with
    | nil => exact absurd hr this
    | cons c r =>
      have hc : c ∈ key := by
        have : c ∈ key.reverse := by simp [hr]
        simpa using this
      simp [List.dropWhile, hk c hc]
  rw [h2]; simp

theorem gmRawKey_field {key ws value conts} (s : FieldShape key ws value conts) (rest : Bytes) :
    gmRawKey (firstLine key ws value ++ rest) = key := by
  unfold gmRawKey trimWsp
  rw [beforeColon_firstLine s]
  exact trimBy_key_ws isWsp key ws s.key_ne (fun c hc => validKey_not_wsp (s.key_valid c hc)) s.ws_wsp

theorem gmFlush_field {key ws value conts} (s : FieldShape key ws value conts) (rest : Bytes)
    (acc : List Bytes) :
    gmFlush (some (firstLine key ws value ++ rest)) acc = .ok ((firstLine key ws value ++ rest) :: acc) := by
  unfold gmFlush
  have hall : (gmRawKey (firstLine key ws value ++ rest)).all validKeyByte = true := by
    rw [gmRawKey_field s]; simpa using s.key_valid
  have hne : gmRawKey (firstLine key ws value ++ rest) ≠ [] := by
    rw [gmRawKey_field s]; exact s.key_ne
  have h58 : 58 ∈ firstLine key ws value := by simp [firstLine]
  simp [hall, hne, h58]

/-! ## go-message: ReadHeader ∘ WriteHeader -/

theorem startsWsp_crlf_line (l : Bytes) (h : startsWsp l = true) : startsWsp (l ++ crlf) = true := by
  cases l with
  | nil => simp [startsWsp] at h
  | cons c r => simpa [startsWsp] using h

theorem startsWsp_crlf_line_false (l : Bytes) (hne : l ≠ []) (h : startsWsp l = false) :
    startsWsp (l ++ crlf) = false := by
  cases l with
  | nil => exact absurd rfl hne
  | cons c r => simpa [startsWsp] using h

/-- continuation lines are appended to the field being read -/
theorem gmLoop_conts (conts : List Bytes) (R : List Bytes) (kv : Bytes) (acc : List Bytes)
    (hw : ∀ l ∈ conts, startsWsp l = true) :
    gmLoop (conts.map (· ++ crlf) ++ R) (some kv) acc = gmLoop R (some (kv ++ linesBytes conts)) acc := by
  induction conts generalizing kv with
  | nil => simp
  | cons l ls ih =>
    have h1 := startsWsp_crlf_line l (hw l (by simp))
    simp only [List.map_cons, List.cons_append, gmLoop, h1, if_true, chomp_crlf]
    rw [ih _ (fun x hx => hw x (by simp [hx]))]
    simp [List.append_assoc]

/-- the lines of a list of fields -/
def fieldLines (key ws value : Bytes) (conts : List Bytes) : List Bytes := firstLine key ws value :: conts

/-- Header given as shaped fields. -/
structure ShapedField where
  key : Bytes
  ws : Bytes
  value : Bytes
  conts : List Bytes
  shape : FieldShape key ws value conts

def ShapedField.bytes (f : ShapedField) : Bytes := mkField f.key f.ws f.value f.conts
def ShapedField.lines (f : ShapedField) : List Bytes := firstLine f.key f.ws f.value :: f.conts

theorem ShapedField.bytes_eq (f : ShapedField) :
    f.bytes = firstLine f.key f.ws f.value ++ crlf ++ linesBytes f.conts := by
  simp [ShapedField.bytes, mkField, firstLine]

theorem firstLine_ne_nil (key ws value : Bytes) : firstLine key ws value ≠ [] := by
  simp [firstLine]

theorem gmLoop_fields (fs : List ShapedField) (R : List Bytes) (cur : Option Bytes) (acc acc₀ : List Bytes)
    (hfl : gmFlush cur acc = .ok acc₀) :
    gmLoop ((fs.flatMap (·.lines)).map (· ++ crlf) ++ crlf :: R) cur acc
      = .ok (acc₀.reverse ++ fs.map (·.bytes), R) := by
  induction fs generalizing cur acc acc₀ with
  | nil =>
    have hc : chomp crlf = [] := by simp [chomp, crlf]
    have hs : startsWsp crlf = false := by simp [startsWsp, crlf, isWsp]
    cases cur with
    | none =>
      simp [gmFlush] at hfl
      simp [gmLoop, hc, hfl]
    | some kv =>
      simp [gmLoop, hs, hfl, hc]
  | cons f fs ih =>
    have hne := firstLine_ne_nil f.key f.ws f.value
    have hs := startsWsp_crlf_line_false _ hne (firstLine_not_wsp f.shape)
    have hc : chomp (firstLine f.key f.ws f.value ++ crlf) ≠ [] := by rw [chomp_crlf]; exact hne
    have step : gmLoop ((((f :: fs).flatMap (·.lines)).map (· ++ crlf)) ++ crlf :: R) cur acc
        = gmLoop (f.conts.map (· ++ crlf) ++ ((fs.flatMap (·.lines)).map (· ++ crlf) ++ crlf :: R))
            (some (firstLine f.key f.ws f.value ++ crlf)) acc₀ := by
      cases cur with
      | none =>
        simp [gmFlush] at hfl
        simp [ShapedField.lines, gmLoop, chomp_crlf, hfl, hne]
      | some kv =>
        simp [ShapedField.lines, gmLoop, hs, hfl, chomp_crlf, hne]
    rw [step, gmLoop_conts _ _ _ _ f.shape.conts_wsp]
    have hfl' : gmFlush (some (firstLine f.key f.ws f.value ++ crlf ++ linesBytes f.conts)) acc₀
        = .ok (f.bytes :: acc₀) := by
      rw [f.bytes_eq]
      have := gmFlush_field f.shape (crlf ++ linesBytes f.conts) acc₀
      simpa [List.append_assoc] using this
    rw [ih _ _ _ hfl']
    simp

theorem linesKeep_linesBytes (ls : List Bytes) (r : Bytes) (h : ∀ l ∈ ls, 10 ∉ l) :
    linesKeep (linesBytes ls ++ r) = ls.map (· ++ crlf) ++ linesKeep r := by
  induction ls with
  | nil => simp
  | cons l ls ih =>
    have := linesKeep_crlf_line l (linesBytes ls ++ r) (h l (by simp))
    simp only [linesBytes_cons, List.append_assoc] at this ⊢
    rw [this, ih (fun x hx => h x (by simp [hx]))]
    simp

theorem ShapedField.lines_clean (f : ShapedField) : ∀ l ∈ f.lines, CleanLine l := by
  intro l hl
  simp [ShapedField.lines] at hl
  rcases hl with hl | hl
  · rw [hl]; exact firstLine_clean f.shape
  · exact f.shape.conts_clean l hl

theorem ShapedField.bytes_lines (f : ShapedField) : f.bytes = linesBytes f.lines := by
  simp [ShapedField.bytes, mkField, ShapedField.lines, firstLine]

theorem flatten_bytes_lines (fs : List ShapedField) :
    (fs.map (·.bytes)).flatten = linesBytes (fs.flatMap (·.lines)) := by
  induction fs with
  | nil => simp
  | cons f fs ih =>
    simp only [List.map_cons, List.flatten_cons, List.flatMap_cons, ih, f.bytes_lines]
    simp [linesBytes]

theorem flatMap_lines_clean (fs : List ShapedField) : ∀ l ∈ fs.flatMap (·.lines), CleanLine l := by
  intro l hl
  simp at hl
  obtain ⟨f, _, hf⟩ := hl
  exact f.lines_clean l hf

theorem linesKeep_message (fs : List ShapedField) (body : Bytes) :
    linesKeep (writeHeader (fs.map (·.bytes)) ++ body)
      = (fs.flatMap (·.lines)).map (· ++ crlf) ++ crlf :: linesKeep body := by
  unfold writeHeader
  rw [flatten_bytes_lines, List.append_assoc,
    linesKeep_linesBytes _ _ (fun l hl => (flatMap_lines_clean fs l hl).2)]
  have := linesKeep_crlf_line [] body (by simp)
  simp at this
  rw [this]

theorem head_not_wsp (fs : List ShapedField) (body : Bytes) :
    ∃ c r, writeHeader (fs.map (·.bytes)) ++ body = c :: r ∧ isWsp c = false := by
  cases fs with
  | nil => exact ⟨13, 10 :: body, by simp [writeHeader, crlf], by simp [isWsp]⟩
  | cons f fs =>
    cases hk : f.key with
    | nil => exact absurd hk f.shape.key_ne
    | cons c r =>
      refine ⟨c, ?_, ?_, validKey_not_wsp (f.shape.key_valid c (by simp [hk]))⟩
      · exact r ++ f.ws ++ 58 :: f.value ++ crlf ++ linesBytes f.conts ++
          ((fs.map (·.bytes)).flatten ++ crlf ++ body)
      · simp [writeHeader, ShapedField.bytes_eq, firstLine, hk]

/-- `ReadHeader (WriteHeader h ‖ body) = (h, body)` for shaped fields. -/
theorem gmReadHeader_writeHeader_shaped (fs : List ShapedField) (body : Bytes) :
    gmReadHeader (writeHeader (fs.map (·.bytes)) ++ body) = .ok (fs.map (·.bytes), body) := by
  obtain ⟨c, r, he, hc⟩ := head_not_wsp fs body
  have hl := linesKeep_message fs body
  have hg := gmLoop_fields fs (linesKeep body) none [] [] (by simp [gmFlush])
  unfold gmReadHeader
  rw [he] at hl ⊢
  simp only [hc]
  rw [hl, hg]
  simp [Except.map, linesKeep_flatten]

theorem exists_shaped (h : List Bytes) (hwf : ∀ f ∈ h, RFCField f) :
    ∃ fs : List ShapedField, h = fs.map (·.bytes) := by
  induction h with
  | nil => exact ⟨[], rfl⟩
  | cons f h ih =>
    obtain ⟨fs, hfs⟩ := ih (fun x hx => hwf x (by simp [hx]))
    obtain ⟨key, ws, value, conts, sh, e⟩ := hwf f (by simp)
    exact ⟨⟨key, ws, value, conts, sh⟩ :: fs, by simp [hfs, e, ShapedField.bytes]⟩

/-- **C08.** go-message reads back exactly the fields it wrote, and leaves the body untouched. -/
theorem C08_readHeader_writeHeader (h : List Bytes) (body : Bytes) (hwf : ∀ f ∈ h, RFCField f) :
    gmReadHeader (writeHeader h ++ body) = .ok (h, body) := by
  obtain ⟨fs, rfl⟩ := exists_shaped h hwf
  exact gmReadHeader_writeHeader_shaped fs body

/-! ## go-msgauth header reader -/

theorem maLoop_conts (conts : List Bytes) (R : List Bytes) (cur : Bytes) (acc : List Bytes)
    (hw : ∀ l ∈ conts, startsWsp l = true) :
    maLoop (conts.map (· ++ crlf) ++ R) (cur :: acc) = maLoop R ((cur ++ linesBytes conts) :: acc) := by
  induction conts generalizing cur with
  | nil => simp
  | cons l ls ih =>
    have h1 := hw l (by simp)
    have hne : l ≠ [] := by intro e; simp [e, startsWsp] at h1
    simp only [List.map_cons, List.cons_append, maLoop, chomp_crlf, hne, if_false, h1, if_true]
    rw [ih _ (fun x hx => hw x (by simp [hx]))]
    simp [List.append_assoc]

theorem maLoop_fields (fs : List ShapedField) (R : List Bytes) (acc : List Bytes) :
    maLoop ((fs.flatMap (·.lines)).map (· ++ crlf) ++ crlf :: R) acc
      = some (acc.reverse ++ fs.map (·.bytes), R) := by
  induction fs generalizing acc with
  | nil =>
    have hc : chomp crlf = [] := by simp [chomp, crlf]
    simp [maLoop, hc]
  | cons f fs ih =>
    have hne := firstLine_ne_nil f.key f.ws f.value
    have hs := firstLine_not_wsp f.shape
    have step : maLoop ((((f :: fs).flatMap (·.lines)).map (· ++ crlf)) ++ crlf :: R) acc
        = maLoop (f.conts.map (· ++ crlf) ++ ((fs.flatMap (·.lines)).map (· ++ crlf) ++ crlf :: R))
            ((firstLine f.key f.ws f.value ++ crlf) :: acc) := by
      cases acc with
      | nil => simp [ShapedField.lines, maLoop, chomp_crlf, hne]
      | cons a acc => simp [ShapedField.lines, maLoop, chomp_crlf, hne, hs]
    rw [step, maLoop_conts _ _ _ _ f.shape.conts_wsp, ih]
    simp [f.bytes_eq]

theorem maReadHeader_writeHeader_shaped (fs : List ShapedField) (body : Bytes) :
    maReadHeader (writeHeader (fs.map (·.bytes)) ++ body) = some (fs.map (·.bytes), body) := by
  unfold maReadHeader
  rw [linesKeep_message, maLoop_fields]
  simp [linesKeep_flatten]

/-- **C08.** The DKIM signer's and verifier's header reader returns exactly the fields written. -/
theorem C08_dkimReadHeader_writeHeader (h : List Bytes) (body : Bytes) (hwf : ∀ f ∈ h, RFCField f) :
    maReadHeader (writeHeader h ++ body) = some (h, body) := by
  obtain ⟨fs, rfl⟩ := exists_shaped h hwf
  exact maReadHeader_writeHeader_shaped fs body

/-! ## SMTP DATA dot encoding -/

def stuff (x : Bytes) : Bytes :=
  match x with
  | 46 :: _ => 46 :: x
  | _ => x

def consAll (pre : Bytes) (o : Option (Bytes × Bytes)) : Option (Bytes × Bytes) :=
  o.map (fun p => (pre ++ p.1, p.2))

theorem consOut_consAll (c : Nat) (pre : Bytes) (o : Option (Bytes × Bytes)) :
    consOut c (consAll pre o) = consAll (c :: pre) o := by
  cases o <;> simp [consOut, consAll]

theorem consAll_nil (o : Option (Bytes × Bytes)) : consAll [] o = o := by
  cases o <;> simp [consAll]

theorem dotW_data_line (x r : Bytes) (hx : CleanLine x) :
    dotW .data (x ++ crlf ++ r) = x ++ crlf ++ dotW .beginLine r := by
  induction x with
  | nil => simp [crlf, dotW]
  | cons c x ih =>
    have h13 : c ≠ 13 := by intro e; exact hx.1 (by simp [e])
    have h10 : c ≠ 10 := by intro e; exact hx.2 (by simp [e])
    have hx' : CleanLine x := ⟨fun h => hx.1 (by simp [h]), fun h => hx.2 (by simp [h])⟩
    have := ih hx'
    simp only [List.append_assoc] at this
    simp [dotW, h13, h10, this]

theorem dotW_line (st : WState) (hst : st = .begin ∨ st = .beginLine) (x r : Bytes) (hx : CleanLine x) :
    dotW st (x ++ crlf ++ r) = stuff x ++ crlf ++ dotW .beginLine r := by
  cases x with
  | nil => rcases hst with rfl | rfl <;> simp [crlf, dotW, stuff]
  | cons c x =>
    have h13 : c ≠ 13 := by intro e; exact hx.1 (by simp [e])
    have h10 : c ≠ 10 := by intro e; exact hx.2 (by simp [e])
    have hx' : CleanLine x := ⟨fun h => hx.1 (by simp [h]), fun h => hx.2 (by simp [h])⟩
    have hd := dotW_data_line x r hx'
    simp only [List.append_assoc] at hd
    by_cases h46 : c = 46
    · subst h46
      rcases hst with rfl | rfl <;> simp [dotW, stuff, hd]
    · have hs : stuff (c :: x) = c :: x := by
        unfold stuff; split
        · next h => simp at h; exact absurd h.1 h46
        · rfl
      rcases hst with rfl | rfl <;> simp [dotW, h13, h10, h46, hs, hd]

theorem dotR_data_line (x r : Bytes) (hx : CleanLine x) :
    dotR .data (x ++ crlf ++ r) = consAll (x ++ crlf) (dotR .beginLine r) := by
  induction x with
  | nil =>
    simp only [crlf, List.nil_append, List.cons_append, dotR]
    cases dotR .beginLine r <;> simp [consOut, consAll]
  | cons c x ih =>
    have h13 : c ≠ 13 := by intro e; exact hx.1 (by simp [e])
    have hx' : CleanLine x := ⟨fun h => hx.1 (by simp [h]), fun h => hx.2 (by simp [h])⟩
    simp only [List.cons_append, dotR, h13, if_false]
    rw [ih hx', consOut_consAll]

theorem dotR_line (x r : Bytes) (hx : CleanLine x) :
    dotR .beginLine (stuff x ++ crlf ++ r) = consAll (x ++ crlf) (dotR .beginLine r) := by
  cases x with
  | nil =>
    simp only [stuff, crlf, List.nil_append, List.cons_append, dotR]
    cases dotR .beginLine r <;> simp [consOut, consAll]
  | cons c x =>
    have h13 : c ≠ 13 := by intro e; exact hx.1 (by simp [e])
    have hx' : CleanLine x := ⟨fun h => hx.1 (by simp [h]), fun h => hx.2 (by simp [h])⟩
    have hd := dotR_data_line x r hx'
    by_cases h46 : c = 46
    · subst h46
      simp only [stuff, List.cons_append, dotR, if_true]
      simp only [List.append_assoc] at hd
      simp [hd, consOut_consAll]
    · have hs : stuff (c :: x) = c :: x := by
        unfold stuff; split
        · next h => simp at h; exact absurd h.1 h46
        · rfl
      rw [hs]
      simp only [List.cons_append, dotR, h46, h13, if_false]
      rw [hd, consOut_consAll]

theorem dot_roundtrip_lines (ls : List Bytes) (tail : Bytes) (hc : ∀ l ∈ ls, CleanLine l) :
    dotR .beginLine (dotW .beginLine (linesBytes ls) ++ tail) = some (linesBytes ls, tail) := by
  induction ls with
  | nil => simp [dotW, dotR]
  | cons l ls ih =>
    have hl := hc l (by simp)
    have hw := dotW_line .beginLine (Or.inr rfl) l (linesBytes ls) hl
    rw [linesBytes_cons, hw, List.append_assoc, dotR_line _ _ hl, ih (fun x hx => hc x (by simp [hx]))]
    simp [consAll]

/-- **C08.** What the DATA reader of the next hop decodes is what was written to the DATA writer,
for every non-empty sequence of CRLF-terminated lines (leading dots, empty lines, any octets
other than CR and LF inside the lines). -/
theorem C08_dotUnstuff_dotStuff (ls : List Bytes) (tail : Bytes) (hne : ls ≠ [])
    (hc : ∀ l ∈ ls, CleanLine l) :
    dotR .beginLine (dotW .begin (linesBytes ls) ++ tail) = some (linesBytes ls, tail) := by
  cases ls with
  | nil => exact absurd rfl hne
  | cons l ls =>
    have hl := hc l (by simp)
    have hw := dotW_line .begin (Or.inl rfl) l (linesBytes ls) hl
    have hb := dot_roundtrip_lines ls tail (fun x hx => hc x (by simp [hx]))
    rw [linesBytes_cons, hw, List.append_assoc, dotR_line _ _ hl, hb]
    simp [consAll]

/-! ## a transmission that is given up part-way is never accepted -/

/-- The model of `Write … Close` used above is `Write` followed by `Close`. -/
theorem dotW_eq_dotOut_dotClose (st : WState) (s : Bytes) :
    dotW st s = dotOut st s ++ dotClose (dotEnd st s) := by
  induction s generalizing st with
  | nil => cases st <;> simp [dotW, dotOut, dotEnd, dotClose]
  | cons c r ih =>
    cases st <;> simp only [dotW, dotOut, dotEnd] <;>
      (repeat' split) <;> simp_all

/-- The dot writer is a streaming encoder: writing `a` then `b` is writing `a ++ b`. -/
theorem dotOut_append (st : WState) (a b : Bytes) :
    dotOut st (a ++ b) = dotOut st a ++ dotOut (dotEnd st a) b := by
  induction a generalizing st with
  | nil => simp [dotOut, dotEnd]
  | cons c r ih =>
    cases st <;> simp only [List.cons_append, dotOut, dotEnd] <;>
      (repeat' split) <;> simp_all

/-- The reader state after the reader has consumed everything a writer in state `st` emitted. -/
def readerOf : WState → RState
  | .begin => .beginLine
  | .beginLine => .beginLine
  | .data => .data
  | .cr => .cr

/-- Whatever is written WITHOUT closing the writer (any octets at all, from any writer state) does
not contain an end-of-data marker: the server's reader does not complete. -/
theorem dotR_dotOut_none (st : WState) (s : Bytes) : dotR (readerOf st) (dotOut st s) = none := by
  induction s generalizing st with
  | nil => cases st <;> simp [dotOut, dotR]
  | cons c r ih =>
    have hb := ih .beginLine
    have hd := ih .data
    have hc := ih .cr
    simp only [readerOf] at hb hd hc
    cases st <;> simp only [dotOut, readerOf] <;> (repeat' split) <;>
      simp_all [dotR, consOut]

/-- Once the reader has seen the end-of-data marker what follows is left alone. -/
theorem dotR_append (st : RState) (p q x t : Bytes) (h : dotR st p = some (x, t)) :
    dotR st (p ++ q) = some (x, t ++ q) := by
  induction p generalizing st x with
  | nil => simp [dotR] at h
  | cons c r ih =>
    cases st <;> simp only [List.cons_append, dotR] at h ⊢ <;> (repeat' split at h) <;>
      simp_all [consOut] <;> grind

theorem dotR_prefix_none (st : RState) (p q : Bytes) (h : dotR st (p ++ q) = none) :
    dotR st p = none := by
  cases hp : dotR st p with
  | none => rfl
  | some v =>
    obtain ⟨x, t⟩ := v
    rw [dotR_append st p q x t hp] at h
    cases h

/-- **C08.** No prefix of what the DATA writer emitted before it is closed is taken for a complete
message by the next hop — whatever octets were written (no shape hypothesis), wherever the
connection is cut.  Hence an attempt that `smtpconn.Data` abandons (it returns the error and does
NOT close the writer) cannot put a truncated copy of the signed message into the next hop's hands. -/
theorem C08_unterminated_data_never_accepted (s p : Bytes) (hp : p <+: dotOut .begin s) :
    receive p = none := by
  obtain ⟨q, hq⟩ := hp
  have h := dotR_dotOut_none .begin s
  rw [← hq] at h
  simp [receive, dotR_prefix_none _ p q (by simpa [readerOf] using h)]

/-- **C08.** The attempt whose body reader fails after `k` octets is not accepted (any header, any
body, any `k`). -/
theorem C08_failed_attempt_not_accepted (h : List Bytes) (body : Bytes) (k : Nat) :
    receive (transmitCut h body k) = none :=
  C08_unterminated_data_never_accepted _ _ (List.prefix_refl _)

/-- The defect repaired by fix 2, kept as a counterexample: `C.Close` used to send QUIT on the
connection of an abandoned `Data` call, and net/textproto closes a pending dot writer before it
writes any command line — the cut transmission was followed by `dotClose`, and THAT the next hop
takes for a complete message: a truncated copy of the signed message (here the body `ab⏎cd⏎`
cut after 3 octets arrives as `ab⏎`). -/
theorem C08_close_after_cut_accepted_truncated_counterexample :
    receive (transmitCut [[70, 58, 120, 13, 10]] [97, 98, 13, 10, 99, 100, 13, 10] 3
      ++ dotClose (dotEnd .begin (writeHeader [[70, 58, 120, 13, 10]] ++ [97, 98, 13])))
      = some (writeHeader [[70, 58, 120, 13, 10]] ++ [97, 98, 13, 10]) := by decide

/-- What a cut attempt put on the wire is a prefix of the complete transmission: nothing but
octets of the signed message, in order. -/
theorem transmitCut_prefix (h : List Bytes) (body : Bytes) (k : Nat) :
    transmitCut h body k <+: transmit h body := by
  unfold transmitCut transmit
  conv => rhs; rw [← List.take_append_drop k body, ← List.append_assoc, dotW_eq_dotOut_dotClose, dotOut_append]
  simp [List.append_assoc]

/-! ## transport -/

theorem message_lines (fs : List ShapedField) (bl : List Bytes) :
    writeHeader (fs.map (·.bytes)) ++ linesBytes bl
      = linesBytes (fs.flatMap (·.lines) ++ [] :: bl) := by
  unfold writeHeader
  rw [flatten_bytes_lines]
  simp [linesBytes]

theorem cleanLine_nil : CleanLine [] := ⟨by simp, by simp⟩

theorem receive_transmit_shaped (fs : List ShapedField) (bl : List Bytes) (hbl : ∀ l ∈ bl, CleanLine l) :
    receive (transmit (fs.map (·.bytes)) (linesBytes bl))
      = some (writeHeader (fs.map (·.bytes)) ++ linesBytes bl) := by
  unfold receive transmit
  rw [message_lines]
  have hc : ∀ l ∈ fs.flatMap (·.lines) ++ [] :: bl, CleanLine l := by
    intro l hl
    rw [List.mem_append] at hl
    rcases hl with hl | hl
    · exact flatMap_lines_clean fs l hl
    · simp at hl
      rcases hl with rfl | hl
      · exact cleanLine_nil
      · exact hbl l hl
  have := C08_dotUnstuff_dotStuff (fs.flatMap (·.lines) ++ [] :: bl) [] (by simp) hc
  rw [List.append_nil] at this
  rw [this]; rfl

/-- **C08.** store → (retry / restart) → reload → transmit → receive is the identity on the
octets of an RFC 5322-shaped header followed by a body of CRLF-terminated lines. -/
theorem C08_transport_identity (viaDisk : Bool) (h : List Bytes) (bl : List Bytes)
    (hwf : ∀ f ∈ h, RFCField f) (hbl : ∀ l ∈ bl, CleanLine l) :
    nextHop viaDisk h (linesBytes bl) = some (writeHeader h ++ linesBytes bl) := by
  obtain ⟨fs, rfl⟩ := exists_shaped h hwf
  have hr : reload (spool (fs.map (·.bytes))) = .ok (fs.map (·.bytes)) := by
    have := gmReadHeader_writeHeader_shaped fs []
    rw [List.append_nil] at this
    simp [reload, spool, this, Except.map]
  cases viaDisk <;> simp [nextHop, hr, receive_transmit_shaped fs bl hbl]

/-- **C08.** However many attempts fail while the message is being written, the next hop accepts
exactly one copy per undisturbed attempt — and by `C08_transport_identity` that copy is the
signed message. -/
theorem C08_accepted_once_per_clean_attempt (h : List Bytes) (bl : List Bytes)
    (hwf : ∀ f ∈ h, RFCField f) (hbl : ∀ l ∈ bl, CleanLine l) (as : List (Option Nat)) :
    acceptedCount h (linesBytes bl) as = (as.filter (·.isNone)).length := by
  have hok : receive (transmit h (linesBytes bl)) = some (writeHeader h ++ linesBytes bl) := by
    have := C08_transport_identity false h bl hwf hbl
    simpa [nextHop] using this
  induction as with
  | nil => simp [acceptedCount]
  | cons a r ih =>
    cases a with
    | none => simp [acceptedCount, hok, ih]; omega
    | some k => simp [acceptedCount, C08_failed_attempt_not_accepted, ih]

example : acceptedCount [[70, 58, 120, 13, 10]] [46, 13, 10, 97, 13, 10] [some 0, some 3, some 4, none] = 1 := by decide

/-- **C08.** Both canonical forms, hence the digest input of any signature over any selection
of fields, are the same at the next hop as at the signer: the verifier's reader returns the
very fields and body that were handed to the queue. -/
theorem C08_transport_preserves_canonical_form (viaDisk : Bool) (h : List Bytes) (bl : List Bytes)
    (hwf : ∀ f ∈ h, RFCField f) (hbl : ∀ l ∈ bl, CleanLine l) :
    ∃ p hdr' body', nextHop viaDisk h (linesBytes bl) = some p ∧ maReadHeader p = some (hdr', body') ∧
      (∀ bc, canonBody bc body' = canonBody bc (linesBytes bl)) ∧
      (∀ hc ks sig, digestInput hc ks hdr' sig = digestInput hc ks h sig) := by
  refine ⟨_, h, linesBytes bl, C08_transport_identity viaDisk h bl hwf hbl,
    C08_dkimReadHeader_writeHeader h _ hwf, fun _ => rfl, fun _ _ _ => rfl⟩

/-! ## the signature added on top does not disturb the selection -/

theorem pickFirst_append_unmatched {α} (p : α → Bool) (rem : List α) (s : α) (hs : p s = false) :
    pickFirst p (rem ++ [s]) = (pickFirst p rem).map (fun q => (q.1, q.2 ++ [s])) := by
  induction rem with
  | nil => simp [pickFirst, hs]
  | cons x xs ih =>
    by_cases hx : p x = true
    · simp [pickFirst, hx]
    · simp only [Bool.not_eq_true] at hx
      simp only [List.cons_append, pickFirst, hx, ih]
      cases pickFirst p xs <;> simp

theorem select_append_unmatched (ks : List Bytes) (rem : List Bytes) (s : Bytes)
    (hs : ∀ k ∈ ks, maKey s ≠ lowerA k) :
    select ks (rem ++ [s]) = select ks rem := by
  induction ks generalizing rem with
  | nil => simp [select]
  | cons k ks ih =>
    have hk : (fun f => maKey f == lowerA k) s = false := by
      simpa using hs k (by simp)
    have ih' := fun rem => ih rem (fun k' hk' => hs k' (by simp [hk']))
    simp only [select]
    rw [pickFirst_append_unmatched _ rem s hk]
    cases pickFirst (fun f => maKey f == lowerA k) rem with
    | none => simp [ih']
    | some q => simp [ih']

/-- **C08.** A message signed by the modifier verifies at the next hop: for any key pair of a
correct signature scheme, any hash, both canonicalisations, any list of signed names that does
not name the signature field itself, after spooling (with or without a reload) and SMTP. -/
theorem C08_signed_message_verifies_at_next_hop {D S} [DecidableEq D] (C : Crypto D S)
    (hcorrect : ∀ d, C.vrfy d (C.sign d) = true)
    (viaDisk : Bool) (hc bc : Canon) (ks : List Bytes) (h₀ : List Bytes) (bl : List Bytes)
    (tmpl sig : Bytes)
    (hwf : ∀ f ∈ h₀, RFCField f) (hsig : RFCField sig) (hbl : ∀ l ∈ bl, CleanLine l)
    (hnot : ∀ k ∈ ks, maKey sig ≠ lowerA k)
    (hb : trimRightCRLF (canonHeader hc (removeSig sig)) = trimRightCRLF (canonHeader hc tmpl)) :
    ∃ p hdr body' hs bs,
      -- what the signer read from the bytes it was handed
      maReadHeader (writeHeader h₀ ++ linesBytes bl) = some (hs, bs) ∧
      -- what arrives, and what the verifier reads from it
      nextHop viaDisk (sig :: h₀) (linesBytes bl) = some p ∧
      maReadHeader p = some (hdr, body') ∧
      verifyMsg C hc bc ks hdr sig body' (signMsg C hc bc ks hs tmpl bs) = true := by
  have hwf' : ∀ f ∈ sig :: h₀, RFCField f := by
    intro f hf
    simp at hf
    rcases hf with rfl | hf
    · exact hsig
    · exact hwf f hf
  refine ⟨_, sig :: h₀, linesBytes bl, h₀, linesBytes bl,
    C08_dkimReadHeader_writeHeader h₀ _ hwf,
    C08_transport_identity viaDisk (sig :: h₀) bl hwf' hbl,
    C08_dkimReadHeader_writeHeader (sig :: h₀) _ hwf', ?_⟩
  have hsel : select ks (h₀.reverse ++ [sig]) = select ks h₀.reverse :=
    select_append_unmatched ks _ sig hnot
  simp [verifyMsg, signMsg, digestInput, signerDigestInput, hsel, hb, hcorrect]

/-! ## fieldsToSign: slot counts -/

/-- entries of an `h=` list naming `κ` (lower-case form) -/
def slots (r : List Bytes) (κ : Bytes) : Nat := r.countP (fun k => lowerA k == κ)

theorem slots_append (a b : List Bytes) (κ : Bytes) : slots (a ++ b) κ = slots a κ + slots b κ := by
  simp [slots]

theorem slots_replicate (n : Nat) (k κ : Bytes) :
    slots (List.replicate n k) κ = if lowerA k = κ then n else 0 := by
  simp [slots, List.countP_replicate]

theorem ftsLoop_spec (hk : List Bytes) (e : Nat) (ks seen : List Bytes) (κ : Bytes) :
    slots (ftsLoop hk e ks seen).1 κ =
        (if κ ∈ seen then 0 else if κ ∈ ks.map lowerA then hk.countP (fun k => lowerA k == κ) + e else 0)
      ∧ (∀ x, x ∈ (ftsLoop hk e ks seen).2 ↔ x ∈ seen ∨ x ∈ ks.map lowerA) := by
  induction ks generalizing seen with
  | nil => simp [ftsLoop, slots]
  | cons k ks ih =>
    unfold ftsLoop
    by_cases hs : seen.contains (lowerA k) = true
    · simp only [hs, if_true]
      have hmem : lowerA k ∈ seen := by simpa using hs
      obtain ⟨h1, h2⟩ := ih seen
      constructor
      · rw [h1]
        by_cases hκ : κ ∈ seen
        · simp [hκ]
        · have : κ ≠ lowerA k := fun e => hκ (e ▸ hmem)
          simp [hκ, this]
      · intro x; rw [h2]
        constructor
        · rintro (h | h)
          · exact Or.inl h
          · exact Or.inr (by simp [h])
        · rintro (h | h)
          · exact Or.inl h
          · simp at h
            rcases h with rfl | h
            · exact Or.inl hmem
            · exact Or.inr (by simpa using h)
    · simp only [hs, Bool.false_eq_true, if_false]
      have hmem : lowerA k ∉ seen := by simpa using hs
      obtain ⟨h1, h2⟩ := ih (lowerA k :: seen)
      constructor
      · rw [slots_append, slots_replicate, h1]
        by_cases hκ : κ ∈ seen
        · have : lowerA k ≠ κ := fun e => hmem (e ▸ hκ)
          simp [hκ, this]
        · by_cases hk' : lowerA k = κ
          · subst hk'
            simp [hκ, fieldCount]
          · have hk'' : κ ≠ lowerA k := fun e => hk' e.symm
            simp [hκ, hk', hk'']
      · intro x; rw [h2]; simp
        constructor
        · rintro ((h | h) | h)
          · exact Or.inr (Or.inl h)
          · exact Or.inl h
          · exact Or.inr (Or.inr h)
        · rintro (h | h | h)
          · exact Or.inl (Or.inr h)
          · exact Or.inl (Or.inl h)
          · exact Or.inr h

/-- **C08.** `fieldsToSign`: every name of the over-sign list gets one slot per header field of
that name plus one; every other name of the sign list one slot per field; no other slots — whatever
the spelling, repetition or overlap of the two configured lists (no duplicates). -/
theorem C08_fieldsToSign_counts (ov sg hk : List Bytes) (κ : Bytes) :
    slots (fieldsToSign ov sg hk) κ =
      if κ ∈ ov.map lowerA then hk.countP (fun k => lowerA k == κ) + 1
      else if κ ∈ sg.map lowerA then hk.countP (fun k => lowerA k == κ)
      else 0 := by
  unfold fieldsToSign
  obtain ⟨a1, a2⟩ := ftsLoop_spec hk 1 ov [] κ
  obtain ⟨b1, _⟩ := ftsLoop_spec hk 0 sg (ftsLoop hk 1 ov []).2 κ
  simp only [slots_append, a1, b1, a2]
  by_cases h1 : κ ∈ ov.map lowerA
  · simp [h1]
  · simp [h1]

/-! ### the header side: go-message keys and picker keys name the same fields -/

theorem lowerByte_idem (c : Nat) : lowerByte (lowerByte c) = lowerByte c := by
  unfold lowerByte
  by_cases h : 65 ≤ c ∧ c ≤ 90
  · have : ¬ (65 ≤ c + 32 ∧ c + 32 ≤ 90) := by omega
    rw [if_pos h, if_neg this]
  · rw [if_neg h, if_neg h]

theorem lowerByte_upperByte (c : Nat) : lowerByte (upperByte c) = lowerByte c := by
  unfold lowerByte upperByte
  by_cases h : 97 ≤ c ∧ c ≤ 122
  · have h1 : 65 ≤ c - 32 ∧ c - 32 ≤ 90 := by omega
    have h2 : ¬ (65 ≤ c ∧ c ≤ 90) := by omega
    simp [h, h1, h2]; omega
  · simp [h]

theorem lowerA_canonGo (u : Bool) (k : Bytes) : lowerA (canonGo u k) = lowerA k := by
  induction k generalizing u with
  | nil => rfl
  | cons c r ih =>
    simp only [canonGo, lowerA, List.map_cons]
    cases u
    · simp only [Bool.false_eq_true, if_false, lowerByte_idem]
      exact congrArg _ (ih _)
    · simp only [if_true, lowerByte_upperByte]
      exact congrArg _ (ih _)

theorem lowerA_canonKey (k : Bytes) : lowerA (canonKey k) = lowerA k := by
  unfold canonKey; split
  · exact lowerA_canonGo true k
  · rfl

theorem isSpaceA_of_wsp {c : Nat} (h : isWsp c = true) : isSpaceA c = true := by
  simp [isWsp] at h; simp [isSpaceA]; omega

theorem validKey_not_spaceA {c : Nat} (h : validKeyByte c = true) : isSpaceA c = false := by
  simp [validKeyByte] at h
  simp [isSpaceA]; omega

theorem ShapedField.maKey_eq (f : ShapedField) : maKey f.bytes = lowerA f.key := by
  unfold maKey trimSpaceA
  rw [f.bytes_eq, List.append_assoc, beforeColon_firstLine f.shape]
  rw [trimBy_key_ws isSpaceA f.key f.ws f.shape.key_ne
    (fun c hc => validKey_not_spaceA (f.shape.key_valid c hc))
    (fun c hc => isSpaceA_of_wsp (f.shape.ws_wsp c hc))]

theorem ShapedField.gmKey_lower (f : ShapedField) : lowerA (gmKey f.bytes) = lowerA f.key := by
  unfold gmKey
  rw [lowerA_canonKey, f.bytes_eq, List.append_assoc, gmRawKey_field f.shape]

/-- fields of the header named `κ`, as the DKIM picker counts them -/
def occ (κ : Bytes) (l : List Bytes) : Nat := l.countP (fun f => maKey f == κ)

theorem gmKey_count_eq_occ (h : List Bytes) (hwf : ∀ f ∈ h, RFCField f) (κ : Bytes) :
    (h.map gmKey).countP (fun k => lowerA k == κ) = occ κ h := by
  obtain ⟨fs, rfl⟩ := exists_shaped h hwf
  unfold occ
  induction fs with
  | nil => rfl
  | cons f fs ih =>
    have := ih (fun x hx => hwf x (by simp at hx ⊢; exact Or.inr hx))
    simp only [List.map_cons, List.countP_cons, this, f.gmKey_lower, f.maKey_eq]

/-- **C08.** In terms of the message: with `h=` built by `fieldsToSign` from the header's own keys,
a name of the over-sign list has exactly one slot more than the header has fields of that name,
a name only in the sign list exactly as many. -/
theorem C08_fieldsToSign_covers_header (ov sg : List Bytes) (h : List Bytes)
    (hwf : ∀ f ∈ h, RFCField f) (κ : Bytes) :
    slots (fieldsToSign ov sg (h.map gmKey)) κ =
      if κ ∈ ov.map lowerA then occ κ h + 1
      else if κ ∈ sg.map lowerA then occ κ h
      else 0 := by
  rw [C08_fieldsToSign_counts, gmKey_count_eq_occ h hwf κ]

/-! ## tampering changes the digest input -/

theorem pickFirst_some_prop {α} (p : α → Bool) (l : List α) (f : α) (r : List α)
    (h : pickFirst p l = some (f, r)) :
    p f = true ∧ ∃ l1 l2, l = l1 ++ f :: l2 ∧ r = l1 ++ l2 ∧ ∀ x ∈ l1, p x = false := by
  induction l generalizing r with
  | nil => simp [pickFirst] at h
  | cons x xs ih =>
    by_cases hx : p x = true
    · simp [pickFirst, hx] at h
      obtain ⟨rfl, rfl⟩ := h
      exact ⟨hx, [], xs, rfl, rfl, by simp⟩
    · simp only [Bool.not_eq_true] at hx
      simp only [pickFirst, hx] at h
      cases hp : pickFirst p xs with
      | none => simp [hp] at h
      | some q =>
        obtain ⟨y, r'⟩ := q
        simp [hp] at h
        obtain ⟨rfl, rfl⟩ := h
        obtain ⟨hf, l1, l2, e1, e2, hn⟩ := ih r' hp
        refine ⟨hf, x :: l1, l2, by simp [e1], by simp [e2], ?_⟩
        intro z hz
        simp at hz
        rcases hz with rfl | hz
        · exact hx
        · exact hn z hz

/-- a field that does not match is transparent to the picker -/
theorem pickFirst_skip {α} (p : α → Bool) (a b : List α) :
    match pickFirst p (a ++ b) with
    | none => ∀ g, p g = false → pickFirst p (a ++ g :: b) = none
    | some (f, r) => ∃ a' b', r = a' ++ b' ∧ ∀ g, p g = false → pickFirst p (a ++ g :: b) = some (f, a' ++ g :: b') := by
  induction a with
  | nil =>
    simp only [List.nil_append]
    cases hp : pickFirst p b with
    | none => intro g hg; simp [pickFirst, hg, hp]
    | some q =>
      obtain ⟨f, r⟩ := q
      exact ⟨[], r, rfl, fun g hg => by simp [pickFirst, hg, hp]⟩
  | cons x xs ih =>
    by_cases hx : p x = true
    · simp only [List.cons_append, pickFirst, hx, if_true]
      exact ⟨xs, b, rfl, fun g _ => rfl⟩
    · simp only [Bool.not_eq_true] at hx
      simp only [List.cons_append, pickFirst, hx]
      cases hp : pickFirst p (xs ++ b) with
      | none =>
        rw [hp] at ih
        intro g hg
        simp [ih g hg]
      | some q =>
        obtain ⟨f, r⟩ := q
        rw [hp] at ih
        obtain ⟨a', b', e, hh⟩ := ih
        refine ⟨x :: a', b', by simp [e], fun g hg => ?_⟩
        simp [hh g hg]

/-- a matching field is picked unless an earlier one matches -/
theorem pickFirst_hit {α} (p : α → Bool) (a b : List α) :
    match pickFirst p a with
    | some (f, a') => ∀ g, pickFirst p (a ++ g :: b) = some (f, a' ++ g :: b) ∧ pickFirst p (a ++ b) = some (f, a' ++ b)
    | none => (∀ g, p g = true → pickFirst p (a ++ g :: b) = some (g, a ++ b)) ∧
        pickFirst p (a ++ b) = (pickFirst p b).map (fun q => (q.1, a ++ q.2)) := by
  induction a with
  | nil =>
    simp only [pickFirst, List.nil_append]
    refine ⟨fun g hg => by simp [hg], ?_⟩
    cases pickFirst p b <;> simp
  | cons x xs ih =>
    by_cases hx : p x = true
    · simp only [pickFirst, hx, if_true, List.cons_append]
      intro g; simp
    · simp only [Bool.not_eq_true] at hx
      simp only [pickFirst, hx, List.cons_append]
      cases hp : pickFirst p xs with
      | some q =>
        obtain ⟨f, a'⟩ := q
        rw [hp] at ih
        intro g
        obtain ⟨h1, h2⟩ := ih g
        simp [h1, h2]
      | none =>
        rw [hp] at ih
        obtain ⟨h1, h2⟩ := ih
        refine ⟨fun g hg => by simp [h1 g hg], ?_⟩
        rw [h2]
        cases pickFirst p b <;> simp

theorem occ_append (κ : Bytes) (a b : List Bytes) : occ κ (a ++ b) = occ κ a + occ κ b := by
  simp [occ]

theorem occ_cons (κ : Bytes) (f : Bytes) (a : List Bytes) :
    occ κ (f :: a) = occ κ a + (if maKey f = κ then 1 else 0) := by
  simp [occ, List.countP_cons]

theorem slots_cons (k : Bytes) (ks : List Bytes) (κ : Bytes) :
    slots (k :: ks) κ = slots ks κ + (if lowerA k = κ then 1 else 0) := by
  simp [slots, List.countP_cons]

/-- total of a measure over the selected fields -/
def selSum (μ : Bytes → Nat) (ks rem : List Bytes) : Nat := ((select ks rem).map μ).sum

/-- **Adding** a field named `κ` while `h=` still has a free slot for `κ` adds exactly that
field to the selection (as a multiset; stated for every additive measure). -/
theorem select_insert_sum (μ : Bytes → Nat) (ks : List Bytes) (κ : Bytes) :
    ∀ (g : Bytes) (a b : List Bytes), maKey g = κ → slots ks κ > occ κ (a ++ b) →
      selSum μ ks (a ++ g :: b) = selSum μ ks (a ++ b) + μ g := by
  induction ks with
  | nil => intro g a b _ hcap; simp [slots] at hcap
  | cons k ks ih =>
    intro g a b hg hcap
    by_cases hk : lowerA k = κ
    · -- the slot is for κ: g matches
      have hpg : (fun f => maKey f == lowerA k) g = true := by simp [hg, hk]
      have hit := pickFirst_hit (fun f => maKey f == lowerA k) a b
      rw [slots_cons, if_pos hk] at hcap
      cases hp : pickFirst (fun f => maKey f == lowerA k) a with
      | some q =>
        obtain ⟨f, a'⟩ := q
        rw [hp] at hit
        obtain ⟨h1, h2⟩ := hit g
        obtain ⟨hf, l1, l2, e1, e2, _⟩ := pickFirst_some_prop _ _ _ _ hp
        have hfκ : maKey f = κ := by simpa [hk] using hf
        have hcap' : slots ks κ > occ κ (a' ++ b) := by
          have : occ κ (a ++ b) = occ κ (a' ++ b) + 1 := by
            rw [e1, e2]; simp [occ_append, occ_cons, hfκ]; omega
          omega
        have := ih g a' b hg hcap'
        simp only [selSum, select, h1, h2, List.map_cons, List.sum_cons] at this ⊢
        omega
      | none =>
        rw [hp] at hit
        obtain ⟨h1, h2⟩ := hit
        have h1' := h1 g hpg
        cases hpb : pickFirst (fun f => maKey f == lowerA k) b with
        | none =>
          simp only [selSum, select, h1', h2, hpb, Option.map_none, List.map_cons, List.sum_cons]
          omega
        | some q =>
          obtain ⟨f, b'⟩ := q
          obtain ⟨hf, l1, l2, e1, e2, _⟩ := pickFirst_some_prop _ _ _ _ hpb
          have hfκ : maKey f = κ := by simpa [hk] using hf
          have hcap' : slots ks κ > occ κ ((a ++ l1) ++ l2) := by
            have : occ κ (a ++ b) = occ κ ((a ++ l1) ++ l2) + 1 := by
              rw [e1]; simp [occ_append, occ_cons, hfκ]; omega
            omega
          have := ih f (a ++ l1) l2 hfκ hcap'
          have eb : a ++ b = (a ++ l1) ++ f :: l2 := by simp [e1]
          have eb' : a ++ b' = (a ++ l1) ++ l2 := by simp [e2]
          simp only [selSum, select, h1', h2, hpb, Option.map_some, List.map_cons, List.sum_cons]
          rw [eb']
          rw [eb]
          simp only [selSum] at this
          omega
    · -- a slot for another name: g is transparent
      have hpg : (fun f => maKey f == lowerA k) g = false := by
        simp [hg]; exact fun e => hk e.symm
      rw [slots_cons, if_neg hk, Nat.add_zero] at hcap
      have skip := pickFirst_skip (fun f => maKey f == lowerA k) a b
      cases hp : pickFirst (fun f => maKey f == lowerA k) (a ++ b) with
      | none =>
        rw [hp] at skip
        have := ih g a b hg hcap
        simp only [selSum, select, skip g hpg, hp] at this ⊢
        exact this
      | some q =>
        obtain ⟨f, r⟩ := q
        rw [hp] at skip
        obtain ⟨a', b', e, hh⟩ := skip
        obtain ⟨hf, l1, l2, e1, e2, _⟩ := pickFirst_some_prop _ _ _ _ hp
        have hfκ : maKey f ≠ κ := by
          have : maKey f = lowerA k := by simpa using hf
          rw [this]; exact hk
        have hcap' : slots ks κ > occ κ (a' ++ b') := by
          have : occ κ (a ++ b) = occ κ (a' ++ b') := by
            rw [← e, e1, e2]; simp [occ_append, occ_cons, hfκ]
          omega
        have := ih g a' b' hg hcap'
        simp only [selSum, select, hh g hpg, hp, List.map_cons, List.sum_cons, e] at this ⊢
        omega

/-- **Replacing** a selected field by another of the same name replaces it in place. -/
theorem select_replace (ks : List Bytes) (κ : Bytes) (g g' : Bytes) (hg : maKey g = κ) (hg' : maKey g' = κ) :
    ∀ (a b : List Bytes), slots ks κ > occ κ (a ++ b) →
      ∃ A B, select ks (a ++ g :: b) = A ++ g :: B ∧ select ks (a ++ g' :: b) = A ++ g' :: B := by
  induction ks with
  | nil => intro a b hcap; simp [slots] at hcap
  | cons k ks ih =>
    intro a b hcap
    by_cases hk : lowerA k = κ
    · have hpg : (fun f => maKey f == lowerA k) g = true := by simp [hg, hk]
      have hpg' : (fun f => maKey f == lowerA k) g' = true := by simp [hg', hk]
      have hit := pickFirst_hit (fun f => maKey f == lowerA k) a b
      rw [slots_cons, if_pos hk] at hcap
      cases hp : pickFirst (fun f => maKey f == lowerA k) a with
      | some q =>
        obtain ⟨f, a'⟩ := q
        rw [hp] at hit
        obtain ⟨hf, l1, l2, e1, e2, _⟩ := pickFirst_some_prop _ _ _ _ hp
        have hfκ : maKey f = κ := by simpa [hk] using hf
        have hcap' : slots ks κ > occ κ (a' ++ b) := by
          have : occ κ (a ++ b) = occ κ (a' ++ b) + 1 := by
            rw [e1, e2]; simp [occ_append, occ_cons, hfκ]; omega
          omega
        obtain ⟨A, B, hA, hB⟩ := ih a' b hcap'
        refine ⟨f :: A, B, ?_, ?_⟩
        · simp only [select, (hit g).1]; simp [hA]
        · simp only [select, (hit g').1]; simp [hB]
      | none =>
        rw [hp] at hit
        refine ⟨[], select ks (a ++ b), ?_, ?_⟩
        · simp only [select, hit.1 g hpg]; rfl
        · simp only [select, hit.1 g' hpg']; rfl
    · have hpg : (fun f => maKey f == lowerA k) g = false := by
        simp [hg]; exact fun e => hk e.symm
      have hpg' : (fun f => maKey f == lowerA k) g' = false := by
        simp [hg']; exact fun e => hk e.symm
      rw [slots_cons, if_neg hk, Nat.add_zero] at hcap
      have skip := pickFirst_skip (fun f => maKey f == lowerA k) a b
      cases hp : pickFirst (fun f => maKey f == lowerA k) (a ++ b) with
      | none =>
        rw [hp] at skip
        obtain ⟨A, B, hA, hB⟩ := ih a b hcap
        exact ⟨A, B, by simp only [select, skip g hpg]; exact hA, by simp only [select, skip g' hpg']; exact hB⟩
      | some q =>
        obtain ⟨f, r⟩ := q
        rw [hp] at skip
        obtain ⟨a', b', e, hh⟩ := skip
        obtain ⟨hf, l1, l2, e1, e2, _⟩ := pickFirst_some_prop _ _ _ _ hp
        have hfκ : maKey f ≠ κ := by
          have : maKey f = lowerA k := by simpa using hf
          rw [this]; exact hk
        have hcap' : slots ks κ > occ κ (a' ++ b') := by
          have : occ κ (a ++ b) = occ κ (a' ++ b') := by
            rw [← e, e1, e2]; simp [occ_append, occ_cons, hfκ]
          omega
        obtain ⟨A, B, hA, hB⟩ := ih a' b' hcap'
        refine ⟨f :: A, B, ?_, ?_⟩
        · simp only [select, hh g hpg]; simp [hA]
        · simp only [select, hh g' hpg']; simp [hB]

theorem canonHeader_ne_nil (hc : Canon) (g : Bytes) (hg : g ≠ []) : canonHeader hc g ≠ [] := by
  cases hc with
  | simple => simpa [canonHeader] using hg
  | relaxed =>
    simp only [canonHeader]
    cases afterColon g <;> simp [crlf]

theorem length_flatten_map (f : Bytes → Bytes) (l : List Bytes) :
    ((l.map f).flatten).length = (l.map (fun x => (f x).length)).sum := by
  induction l with
  | nil => rfl
  | cons x xs ih => simp [ih]

theorem digestInput_length (hc : Canon) (ks hdr : List Bytes) (sig : Bytes) :
    (digestInput hc ks hdr sig).length =
      selSum (fun f => (canonHeader hc f).length) ks hdr.reverse
        + (trimRightCRLF (canonHeader hc (removeSig sig))).length := by
  simp only [digestInput, selSum, List.length_append, length_flatten_map]

/-- **C08 (tamper: add).** Adding, anywhere in the header, a field whose name still has a free slot
in `h=` (an over-signed name) changes the digest input. -/
theorem C08_tamper_add_changes_digest (hc : Canon) (ks : List Bytes) (sig g : Bytes) (a b : List Bytes)
    (hg : g ≠ []) (hcap : slots ks (maKey g) > occ (maKey g) (a ++ b)) :
    digestInput hc ks (a ++ g :: b) sig ≠ digestInput hc ks (a ++ b) sig := by
  intro h
  have hl := congrArg List.length h
  rw [digestInput_length, digestInput_length] at hl
  have hcap' : slots ks (maKey g) > occ (maKey g) (b.reverse ++ a.reverse) := by
    simpa [occ_append, occ, Nat.add_comm] using hcap
  have := select_insert_sum (fun f => (canonHeader hc f).length) ks (maKey g) g b.reverse a.reverse rfl hcap'
  have hpos : (canonHeader hc g).length > 0 := List.length_pos_iff.mpr (canonHeader_ne_nil hc g hg)
  simp only [List.reverse_append, List.reverse_cons, List.append_assoc, List.singleton_append] at hl
  omega

/-- **C08 (tamper: remove).** Removing a header field all of whose namesakes have slots in `h=`
(every occurrence of a listed name is signed) changes the digest input. -/
theorem C08_tamper_remove_changes_digest (hc : Canon) (ks : List Bytes) (sig g : Bytes) (a b : List Bytes)
    (hg : g ≠ []) (hcap : slots ks (maKey g) ≥ occ (maKey g) (a ++ g :: b)) :
    digestInput hc ks (a ++ b) sig ≠ digestInput hc ks (a ++ g :: b) sig := by
  have : slots ks (maKey g) > occ (maKey g) (a ++ b) := by
    simp [occ_append, occ_cons] at hcap ⊢; omega
  exact fun h => C08_tamper_add_changes_digest hc ks sig g a b hg this h.symm

/-- **C08 (tamper: alter).** Replacing a signed field by one of the same name with a different
canonical form changes the digest input. -/
theorem C08_tamper_alter_changes_digest (hc : Canon) (ks : List Bytes) (sig g g' : Bytes) (a b : List Bytes)
    (hname : maKey g' = maKey g) (hdiff : canonHeader hc g' ≠ canonHeader hc g)
    (hcap : slots ks (maKey g) ≥ occ (maKey g) (a ++ g :: b)) :
    digestInput hc ks (a ++ g' :: b) sig ≠ digestInput hc ks (a ++ g :: b) sig := by
  have hcap' : slots ks (maKey g) > occ (maKey g) (b.reverse ++ a.reverse) := by
    simp [occ] at hcap ⊢; omega
  obtain ⟨A, B, hA, hB⟩ := select_replace ks (maKey g) g g' rfl hname b.reverse a.reverse hcap'
  intro h
  simp only [digestInput, List.reverse_append, List.reverse_cons, List.append_assoc,
    List.singleton_append, hA, hB, List.map_append, List.map_cons, List.flatten_append,
    List.flatten_cons] at h
  have h1 := List.append_cancel_left h
  have h2 := List.append_cancel_right (by simpa [List.append_assoc] using h1 :
    canonHeader hc g' ++ ((B.map (canonHeader hc)).flatten ++ trimRightCRLF (canonHeader hc (removeSig sig)))
      = canonHeader hc g ++ ((B.map (canonHeader hc)).flatten ++ trimRightCRLF (canonHeader hc (removeSig sig))))
  exact hdiff h2

/-- Verification with an ideal hash and signature scheme succeeds only on the signed digest input. -/
theorem verify_fails_of_digest_ne {D S} [DecidableEq D] (C : Crypto D S)
    (hinj : ∀ x y, C.hash x = C.hash y → x = y)
    (hsound : ∀ d d', C.vrfy d' (C.sign d) = true → d' = d)
    (hc bc : Canon) (ks hdr' hs : List Bytes) (sig tmpl body bs : Bytes)
    (hne : digestInput hc ks hdr' sig ≠ signerDigestInput hc ks hs tmpl) :
    verifyMsg C hc bc ks hdr' sig body (signMsg C hc bc ks hs tmpl bs) = false := by
  cases hv : verifyMsg C hc bc ks hdr' sig body (signMsg C hc bc ks hs tmpl bs) with
  | false => rfl
  | true =>
    simp only [verifyMsg, signMsg, Bool.and_eq_true] at hv
    exact absurd (hinj _ _ (hsound _ _ hv.2)) hne

/-- **C08.** Tampering at the next hop is detected.  `hdr` is the header as it arrived (its digest
input is the one that was signed — `C08_signed_message_verifies_at_next_hop`); `hdr'` is `hdr`
with a signed field removed, altered, or a field of an over-signed name added.  With a
collision-free hash and an unforgeable signature scheme verification fails. -/
theorem C08_tamper_detected {D S} [DecidableEq D] (C : Crypto D S)
    (hinj : ∀ x y, C.hash x = C.hash y → x = y)
    (hsound : ∀ d d', C.vrfy d' (C.sign d) = true → d' = d)
    (hc bc : Canon) (ks hs : List Bytes) (sig tmpl body bs g : Bytes) (a b : List Bytes)
    (hg : g ≠ []) :
    -- removed: every occurrence of g's name had a slot
    (slots ks (maKey g) ≥ occ (maKey g) (a ++ g :: b) →
      digestInput hc ks (a ++ g :: b) sig = signerDigestInput hc ks hs tmpl →
      verifyMsg C hc bc ks (a ++ b) sig body (signMsg C hc bc ks hs tmpl bs) = false) ∧
    -- altered: same name, different canonical form
    (∀ g', maKey g' = maKey g → canonHeader hc g' ≠ canonHeader hc g →
      slots ks (maKey g) ≥ occ (maKey g) (a ++ g :: b) →
      digestInput hc ks (a ++ g :: b) sig = signerDigestInput hc ks hs tmpl →
      verifyMsg C hc bc ks (a ++ g' :: b) sig body (signMsg C hc bc ks hs tmpl bs) = false) ∧
    -- added: g's name is over-signed (one slot more than fields)
    (slots ks (maKey g) > occ (maKey g) (a ++ b) →
      digestInput hc ks (a ++ b) sig = signerDigestInput hc ks hs tmpl →
      verifyMsg C hc bc ks (a ++ g :: b) sig body (signMsg C hc bc ks hs tmpl bs) = false) := by
  refine ⟨fun hcap hgood => ?_, fun g' hn hd hcap hgood => ?_, fun hcap hgood => ?_⟩
  · exact verify_fails_of_digest_ne C hinj hsound hc bc ks _ hs sig tmpl body bs
      (hgood ▸ C08_tamper_remove_changes_digest hc ks sig g a b hg hcap)
  · exact verify_fails_of_digest_ne C hinj hsound hc bc ks _ hs sig tmpl body bs
      (hgood ▸ C08_tamper_alter_changes_digest hc ks sig g g' a b hn hd hcap)
  · exact verify_fails_of_digest_ne C hinj hsound hc bc ks _ hs sig tmpl body bs
      (hgood ▸ C08_tamper_add_changes_digest hc ks sig g a b hg hcap)

/-! ## maddy's own `h=` list makes its signatures tamper-evident -/

theorem occ_sig_cons (κ sig : Bytes) (h₀ : List Bytes) (hs : maKey sig ≠ κ) :
    occ κ (sig :: h₀) = occ κ h₀ := by
  simp [occ_cons, hs]

/-- **C08.** With the `h=` list `fieldsToSign` computes from the header being signed, at the next
hop (header = signature on top of the signed header `h₀`):
* a field of an over-signed name added anywhere changes the digest input;
* a field of `h₀` whose name is in either configured list cannot be removed, or replaced by a
  namesake with another canonical form, without changing the digest input. -/
theorem C08_fieldsToSign_makes_tamper_evident (hc : Canon) (ov sg : List Bytes) (h₀ : List Bytes)
    (sig : Bytes) (hwf : ∀ f ∈ h₀, RFCField f) (g : Bytes) (hg : g ≠ [])
    (hsig : maKey sig ≠ maKey g) (a b : List Bytes) :
    let ks := fieldsToSign ov sg (h₀.map gmKey)
    (maKey g ∈ ov.map lowerA → a ++ b = sig :: h₀ →
      digestInput hc ks (a ++ g :: b) sig ≠ digestInput hc ks (a ++ b) sig) ∧
    (maKey g ∈ ov.map lowerA ∨ maKey g ∈ sg.map lowerA → a ++ g :: b = sig :: h₀ →
      digestInput hc ks (a ++ b) sig ≠ digestInput hc ks (a ++ g :: b) sig ∧
      ∀ g', maKey g' = maKey g → canonHeader hc g' ≠ canonHeader hc g →
        digestInput hc ks (a ++ g' :: b) sig ≠ digestInput hc ks (a ++ g :: b) sig) := by
  intro ks
  have hslots := C08_fieldsToSign_covers_header ov sg h₀ hwf (maKey g)
  constructor
  · intro hov hab
    apply C08_tamper_add_changes_digest hc ks sig g a b hg
    rw [hab, occ_sig_cons _ _ _ hsig]
    show slots (fieldsToSign ov sg (h₀.map gmKey)) (maKey g) > _
    rw [hslots, if_pos hov]; omega
  · intro hl hab
    have hcap : slots ks (maKey g) ≥ occ (maKey g) (a ++ g :: b) := by
      rw [hab, occ_sig_cons _ _ _ hsig]
      show slots (fieldsToSign ov sg (h₀.map gmKey)) (maKey g) ≥ _
      rw [hslots]
      rcases hl with hl | hl
      · rw [if_pos hl]; omega
      · by_cases hov : maKey g ∈ ov.map lowerA
        · rw [if_pos hov]; omega
        · rw [if_neg hov, if_pos hl]; omega
    exact ⟨C08_tamper_remove_changes_digest hc ks sig g a b hg hcap,
      fun g' hn hd => C08_tamper_alter_changes_digest hc ks sig g g' a b hn hd hcap⟩

/-! ## the headline statements (partial: see the note) -/

/-- First half of C08 over the model: a message signed by the modifier verifies at the next hop
after spooling (first attempt, retry or restart) and SMTP — for every hash and every correct
signature scheme (key type), both canonicalisations, every RFC 5322-shaped header and every body
of CRLF-terminated lines, every `h=` list that does not name the signature field itself.

Partial, because (a) hash/signature are symbolic parameters; (b) the byte behaviour of go-message,
go-msgauth, net/textproto and go-smtp is the hand-written model, validated by differential runs;
(c) `hb` — removing the `b=` value from the final signature field gives the canonical text the
signer hashed for the field with the empty `b=` — is a hypothesis about go-msgauth's formatting of
the field (instance: the `example` below; checked on every differential case through the `hh=`
digest). -/
def C08_verifies_stmt : Prop :=
  ∀ (D S : Type) [DecidableEq D] (C : Crypto D S), (∀ d, C.vrfy d (C.sign d) = true) →
  ∀ (viaDisk : Bool) (hc bc : Canon) (ks h₀ bl : List Bytes) (tmpl sig : Bytes),
    (∀ f ∈ h₀, RFCField f) → RFCField sig → (∀ l ∈ bl, CleanLine l) →
    (∀ k ∈ ks, maKey sig ≠ lowerA k) →
    trimRightCRLF (canonHeader hc (removeSig sig)) = trimRightCRLF (canonHeader hc tmpl) →
    ∃ p hdr body' hs bs,
      maReadHeader (writeHeader h₀ ++ linesBytes bl) = some (hs, bs) ∧
      nextHop viaDisk (sig :: h₀) (linesBytes bl) = some p ∧
      maReadHeader p = some (hdr, body') ∧
      verifyMsg C hc bc ks hdr sig body' (signMsg C hc bc ks hs tmpl bs) = true

theorem C08_verifies_partial : C08_verifies_stmt := by
  intro D S _ C hcorrect viaDisk hc bc ks h₀ bl tmpl sig hwf hsig hbl hnot hb
  exact C08_signed_message_verifies_at_next_hop C hcorrect viaDisk hc bc ks h₀ bl tmpl sig hwf hsig hbl hnot hb

/-! ## non-vacuity -/

/-- the identity "hash" with the identity "signature" is collision-free, correct and unforgeable -/
def idCrypto : Crypto Bytes Bytes := { hash := id, sign := id, vrfy := fun d s => d == s }

example : (∀ d, idCrypto.vrfy d (idCrypto.sign d) = true) ∧
    (∀ x y, idCrypto.hash x = idCrypto.hash y → x = y) ∧
    (∀ d d', idCrypto.vrfy d' (idCrypto.sign d) = true → d' = d) := by
  refine ⟨fun d => by simp [idCrypto], fun x y h => h, fun d d' h => by simpa [idCrypto] using h⟩

/-- "Subject : hi" CRLF SP "there" CRLF is an RFC 5322-shaped field (obsolete white space before
the colon, one folded line) -/
example : RFCField ([83, 117, 98, 106, 101, 99, 116, 32, 58, 32, 104, 105] ++ crlf ++
    [32, 116, 104, 101, 114, 101] ++ crlf) := by
  refine ⟨[83, 117, 98, 106, 101, 99, 116], [32], [32, 104, 105], [[32, 116, 104, 101, 114, 101]], ?_, ?_⟩
  · constructor
    · simp
    · decide
    · decide
    · constructor <;> decide
    · intro l hl; simp at hl; subst hl; constructor <;> decide
    · intro l hl; simp at hl; subst hl; decide
  · simp [mkField, linesBytes, crlf]

/-- body lines with a leading dot, trailing white space and an empty line are clean lines -/
example : ∀ l ∈ [[46], [46, 46, 97], [97, 32, 9], ([] : Bytes)], CleanLine l := by
  intro l hl
  simp at hl
  rcases hl with rfl | rfl | rfl | rfl <;> constructor <;> decide

/-- the signature field with an empty `b=` that the signer hashes, and the final field: removing
the value of the final field gives the same canonical text — hypothesis `hb`, both algorithms.
(`DKIM-Signature: a=x; bh=Yb=;` CRLF ` b=QUJD` CRLF ` RA==` CRLF  vs  … ` b=` CRLF) -/
def exTmpl : Bytes := [68, 75, 73, 77, 45, 83, 105, 103, 110, 97, 116, 117, 114, 101, 58, 32, 97, 61, 120, 59, 32,
  98, 104, 61, 89, 98, 61, 59, 13, 10, 32, 98, 61, 13, 10]
def exSig : Bytes := [68, 75, 73, 77, 45, 83, 105, 103, 110, 97, 116, 117, 114, 101, 58, 32, 97, 61, 120, 59, 32,
  98, 104, 61, 89, 98, 61, 59, 13, 10, 32, 98, 61, 81, 85, 74, 68, 13, 10, 32, 82, 65, 61, 61, 13, 10]

example : trimRightCRLF (canonHeader .simple (removeSig exSig)) = trimRightCRLF (canonHeader .simple exTmpl) := by
  decide
example : trimRightCRLF (canonHeader .relaxed (removeSig exSig)) = trimRightCRLF (canonHeader .relaxed exTmpl) := by
  decide

/-- a concrete message through the whole model: header `From: a` / `Subject: s`, over-signed From,
body ".x" CRLF CRLF; reload from the spool; arrives unchanged; capacity hypotheses of the tamper
theorems hold for the `h=` list maddy builds -/
def exFrom : Bytes := [70, 114, 111, 109, 58, 32, 97, 13, 10]
def exSubj : Bytes := [115, 117, 98, 106, 101, 99, 116, 58, 32, 115, 13, 10]
def exBody : Bytes := [46, 120, 13, 10, 13, 10]

example : nextHop true [exSig, exFrom, exSubj] exBody = some (writeHeader [exSig, exFrom, exSubj] ++ exBody) := by
  decide

example :
    let ks := fieldsToSign [[70, 114, 111, 109]] [[83, 117, 98, 106, 101, 99, 116]] ([exFrom, exSubj].map gmKey)
    ks = [[70, 114, 111, 109], [70, 114, 111, 109], [83, 117, 98, 106, 101, 99, 116]] ∧
    slots ks (maKey exFrom) > occ (maKey exFrom) [exSig, exFrom, exSubj] - 1 ∧
    slots ks (maKey exSubj) ≥ occ (maKey exSubj) [exSig, exFrom, exSubj] ∧
    (∀ k ∈ ks, maKey exSig ≠ lowerA k) := by
  decide

/-! ## facts regenerated from the current tree (T1) -/

/-- The code's `fieldsToSign` / `fieldCount` still have the shape the model was written from. -/
theorem C08_fieldsToSign_skeleton_as_modelled :
    Generated.DkimLists.loops = Expect.DkimLists.loops ∧
    Generated.DkimLists.fieldCountCmp = Expect.DkimLists.fieldCountCmp := by decide

/-- The default lists of the current tree: From is over-signed (go-msgauth refuses to sign
otherwise); no name occurs twice or in both lists, whatever the case; every name is a token (so it
can be written in an `h=` tag); the signature field itself is not listed. -/
theorem C08_default_lists_wellformed :
    [102, 114, 111, 109] ∈ Generated.DkimLists.oversignDefault.map lowerA ∧
    ((Generated.DkimLists.oversignDefault ++ Generated.DkimLists.signDefault).map lowerA).Nodup ∧
    (∀ k ∈ Generated.DkimLists.oversignDefault ++ Generated.DkimLists.signDefault,
      k ≠ [] ∧ k.all isTokenByte = true ∧ lowerA k ≠ dkimSigKey) := by decide

theorem ftsLoop_mem (hk : List Bytes) (e : Nat) (ks seen : List Bytes) (k : Bytes)
    (h : k ∈ (ftsLoop hk e ks seen).1) : k ∈ ks := by
  induction ks generalizing seen with
  | nil => simp [ftsLoop] at h
  | cons x xs ih =>
    unfold ftsLoop at h
    split at h
    · exact List.mem_cons_of_mem _ (ih _ h)
    · simp only [List.mem_append, List.mem_replicate] at h
      rcases h with ⟨_, rfl⟩ | h
      · simp
      · exact List.mem_cons_of_mem _ (ih _ h)

theorem mem_fieldsToSign (ov sg hk : List Bytes) (k : Bytes) (h : k ∈ fieldsToSign ov sg hk) :
    k ∈ ov ∨ k ∈ sg := by
  unfold fieldsToSign at h
  simp only [List.mem_append] at h
  rcases h with h | h
  · exact Or.inl (ftsLoop_mem _ _ _ _ _ h)
  · exact Or.inr (ftsLoop_mem _ _ _ _ _ h)

/-- **C08, default configuration of the current tree.** The `h=` list never names the signature
field, so the headline theorem applies to every message signed with the default lists. -/
theorem C08_default_config_verifies_at_next_hop {D S} [DecidableEq D] (C : Crypto D S)
    (hcorrect : ∀ d, C.vrfy d (C.sign d) = true)
    (viaDisk : Bool) (hc bc : Canon) (h₀ : List Bytes) (bl : List Bytes) (tmpl sig : Bytes)
    (hwf : ∀ f ∈ h₀, RFCField f) (hsig : RFCField sig) (hname : maKey sig = dkimSigKey)
    (hbl : ∀ l ∈ bl, CleanLine l)
    (hb : trimRightCRLF (canonHeader hc (removeSig sig)) = trimRightCRLF (canonHeader hc tmpl)) :
    let ks := fieldsToSign Generated.DkimLists.oversignDefault Generated.DkimLists.signDefault (h₀.map gmKey)
    ∃ p hdr body' hs bs,
      maReadHeader (writeHeader h₀ ++ linesBytes bl) = some (hs, bs) ∧
      nextHop viaDisk (sig :: h₀) (linesBytes bl) = some p ∧
      maReadHeader p = some (hdr, body') ∧
      verifyMsg C hc bc ks hdr sig body' (signMsg C hc bc ks hs tmpl bs) = true := by
  intro ks
  apply C08_signed_message_verifies_at_next_hop C hcorrect viaDisk hc bc ks h₀ bl tmpl sig hwf hsig hbl _ hb
  intro k hk
  rw [hname]
  have hmem := mem_fieldsToSign _ _ _ k hk
  have := C08_default_lists_wellformed.2.2 k (by simpa using hmem)
  exact fun e => this.2.2 e.symm

/-! ## putting it together: what maddy signs is tamper-evident at the next hop -/

/-- At the next hop the verifier's digest input for the untouched header is exactly what the
signer hashed. -/
theorem C08_next_hop_digest_is_signed_digest (hc : Canon) (ks h₀ : List Bytes) (sig tmpl : Bytes)
    (hnot : ∀ k ∈ ks, maKey sig ≠ lowerA k)
    (hb : trimRightCRLF (canonHeader hc (removeSig sig)) = trimRightCRLF (canonHeader hc tmpl)) :
    digestInput hc ks (sig :: h₀) sig = signerDigestInput hc ks h₀ tmpl := by
  have hsel : select ks (h₀.reverse ++ [sig]) = select ks h₀.reverse :=
    select_append_unmatched ks _ sig hnot
  simp [digestInput, signerDigestInput, hsel, hb]

theorem mem_fieldsToSign_lower (ov sg hk : List Bytes) (k : Bytes) (h : k ∈ fieldsToSign ov sg hk) :
    lowerA k ∈ (ov ++ sg).map lowerA := by
  rcases mem_fieldsToSign ov sg hk k h with h | h
  · exact List.mem_map.mpr ⟨k, by simp [h], rfl⟩
  · exact List.mem_map.mpr ⟨k, by simp [h], rfl⟩

/-- **C08, second half.** Let the modifier sign the RFC 5322-shaped header `h₀` with the lists
`ov` (over-sign) and `sg` (sign), neither naming the signature field, and let `sig :: h₀` arrive at
the next hop.  With a collision-free hash and an unforgeable signature scheme, verification FAILS
for the header obtained by
* adding, anywhere, a field `g` whose name is in `ov`;
* removing a field `g` whose name is in `ov` or `sg`;
* replacing such a field by a namesake `g'` with a different canonical form. -/
theorem C08_maddy_signature_tamper_detected {D S} [DecidableEq D] (C : Crypto D S)
    (hinj : ∀ x y, C.hash x = C.hash y → x = y)
    (hsound : ∀ d d', C.vrfy d' (C.sign d) = true → d' = d)
    (hc bc : Canon) (ov sg h₀ : List Bytes) (sig tmpl body bs : Bytes)
    (hwf : ∀ f ∈ h₀, RFCField f)
    (hcfg : maKey sig ∉ (ov ++ sg).map lowerA)
    (hb : trimRightCRLF (canonHeader hc (removeSig sig)) = trimRightCRLF (canonHeader hc tmpl))
    (g : Bytes) (hg : g ≠ []) (a b : List Bytes) :
    let ks := fieldsToSign ov sg (h₀.map gmKey)
    let signed := signMsg C hc bc ks h₀ tmpl bs
    (maKey g ∈ ov.map lowerA → a ++ b = sig :: h₀ →
      verifyMsg C hc bc ks (a ++ g :: b) sig body signed = false) ∧
    (maKey g ∈ ov.map lowerA ∨ maKey g ∈ sg.map lowerA → a ++ g :: b = sig :: h₀ →
      verifyMsg C hc bc ks (a ++ b) sig body signed = false ∧
      ∀ g', maKey g' = maKey g → canonHeader hc g' ≠ canonHeader hc g →
        verifyMsg C hc bc ks (a ++ g' :: b) sig body signed = false) := by
  intro ks signed
  have hnot : ∀ k ∈ ks, maKey sig ≠ lowerA k := by
    intro k hk e
    exact hcfg (e ▸ mem_fieldsToSign_lower ov sg _ k hk)
  have hgood := C08_next_hop_digest_is_signed_digest hc ks h₀ sig tmpl hnot hb
  constructor
  · intro hov hab
    have hsig : maKey sig ≠ maKey g := by
      intro e; apply hcfg; rw [e]; simp only [List.map_append, List.mem_append]; exact Or.inl hov
    have := (C08_fieldsToSign_makes_tamper_evident hc ov sg h₀ sig hwf g hg hsig a b).1 hov hab
    exact verify_fails_of_digest_ne C hinj hsound hc bc ks _ h₀ sig tmpl body bs
      (by rw [← hgood, ← hab]; exact this)
  · intro hl hab
    have hsig : maKey sig ≠ maKey g := by
      intro e; apply hcfg; rw [e]; simp only [List.map_append, List.mem_append]; exact hl
    obtain ⟨h1, h2⟩ := (C08_fieldsToSign_makes_tamper_evident hc ov sg h₀ sig hwf g hg hsig a b).2 hl hab
    refine ⟨?_, fun g' hn hd => ?_⟩
    · exact verify_fails_of_digest_ne C hinj hsound hc bc ks _ h₀ sig tmpl body bs
        (by rw [← hgood, ← hab]; exact h1)
    · exact verify_fails_of_digest_ne C hinj hsound hc bc ks _ h₀ sig tmpl body bs
        (by rw [← hgood, ← hab]; exact h2 g' hn hd)


section KeyStore
open MaddyVerif.DkimKeys

/-! ## the key store: a restart finds the keys that were published -/

theorem lookup_unique {κ β} [BEq κ] [LawfulBEq κ] (l : List (κ × β)) (k : κ) (v : β)
    (hm : (k, v) ∈ l) (hu : ∀ e ∈ l, e.1 = k → e.2 = v) : l.lookup k = some v := by
  induction l with
  | nil => simp at hm
  | cons e es ih =>
    obtain ⟨k', v'⟩ := e
    by_cases hk : k = k'
    · subst hk
      have := hu (k, v') (by simp) rfl
      simp at this
      simp [this]
    · have hm' : (k, v) ∈ es := by
        simp at hm
        rcases hm with ⟨h, _⟩ | h
        · exact absurd h hk
        · exact h
      have : (k == k') = false := by simpa using hk
      rw [List.lookup_cons, this]
      exact ih hm' (fun e he => hu e (by simp [he]))

theorem dnsPath_ne_self (p : Bytes) : dnsPath p ≠ p := by
  unfold dnsPath
  split
  · rename_i h
    rw [List.isSuffixOf_iff_suffix] at h
    obtain ⟨t, rfl⟩ := h
    simp [dotKey, dotDns]
  · intro h
    have := congrArg List.length h
    simp [dotDns] at this

theorem loadOrGenerate_keeps_key {fs : FS} {n : Nat} {p : Bytes} {a : Algo} {l : Loaded}
    {q : Bytes} {f : File}
    (h : loadOrGenerate fs n p a = .ok l) (hq : fs.lookup q = some f) (hne : dnsPath p ≠ q) :
    l.fs.lookup q = some f := by
  unfold loadOrGenerate at h
  split at h
  · injection h with h; subst h; exact hq
  · cases h
  · rename_i hnone
    injection h with h; subst h
    have h1 : (q == p) = false := by
      apply beq_false_of_ne
      intro e; subst e; rw [hnone] at hq; cases hq
    have h2 : (q == dnsPath p) = false := beq_false_of_ne (fun e => hne e.symm)
    simp [List.lookup_cons, h1, h2, hq]

theorem loadOrGenerate_key_present {fs : FS} {n : Nat} {p : Bytes} {a : Algo} {l : Loaded}
    (h : loadOrGenerate fs n p a = .ok l) : l.fs.lookup p = some (.key l.id l.algo) := by
  unfold loadOrGenerate at h
  split at h
  · rename_i hk
    injection h with h; subst h; exact hk
  · cases h
  · injection h with h; subst h
    simp [List.lookup_cons]

theorem initLoop_keeps (tmpl sel : Bytes) (a : Algo) (q : Bytes) (f : File) :
    ∀ (ds : List (Bytes × Bytes)) (fs : FS) (n : Nat) (sg : Signers),
      fs.lookup q = some f → (∀ d ∈ ds, dnsPath (expand d.1 sel tmpl) ≠ q) →
      (initLoop tmpl sel a ds fs n sg).fs.lookup q = some f := by
  intro ds
  induction ds with
  | nil => intro fs n sg hq _; simpa [initLoop] using hq
  | cons d ds ih =>
    intro fs n sg hq hne
    unfold initLoop
    split
    · exact hq
    · rename_i l hl
      exact ih _ _ _ (loadOrGenerate_keeps_key hl hq (hne d (by simp)))
        (fun d' hd' => hne d' (by simp [hd']))

/-- no record file of the configuration is written where the configuration expects a key -/
def NoClash (ps : List Bytes) : Prop := ∀ p ∈ ps, ∀ q ∈ ps, dnsPath p ≠ q

theorem initLoop_all_present (tmpl sel : Bytes) (a : Algo) :
    ∀ (ds : List (Bytes × Bytes)) (fs : FS) (n : Nat) (sg : Signers),
      (∀ d ∈ ds, ∃ id a', fs.lookup (expand d.1 sel tmpl) = some (.key id a')) →
      initLoop tmpl sel a ds fs n sg = ⟨fs, n, (ds.map (entryOf tmpl sel fs)).reverse ++ sg, none⟩ := by
  intro ds
  induction ds with
  | nil => intro fs n sg _; simp [initLoop]
  | cons d ds ih =>
    intro fs n sg h
    obtain ⟨id, a', hk⟩ := h d (by simp)
    unfold initLoop
    simp only [loadOrGenerate, hk]
    rw [ih fs n _ (fun d' hd' => h d' (by simp [hd']))]
    simp [entryOf, hk]

theorem initLoop_first (tmpl sel : Bytes) (a : Algo) :
    ∀ (ds : List (Bytes × Bytes)) (fs : FS) (n : Nat) (sg : Signers),
      NoClash (ds.map (fun d => expand d.1 sel tmpl)) →
      (initLoop tmpl sel a ds fs n sg).err = none →
      (∀ d ∈ ds, ∃ id a', (initLoop tmpl sel a ds fs n sg).fs.lookup (expand d.1 sel tmpl) = some (.key id a')) ∧
      (initLoop tmpl sel a ds fs n sg).signers =
        (ds.map (entryOf tmpl sel (initLoop tmpl sel a ds fs n sg).fs)).reverse ++ sg := by
  intro ds
  induction ds with
  | nil => intro fs n sg _ _; simp [initLoop]
  | cons d ds ih =>
    intro fs n sg hnc hok
    unfold initLoop at hok ⊢
    split at hok
    · simp at hok
    · rename_i l hl
      have hnc' : NoClash (ds.map (fun d => expand d.1 sel tmpl)) :=
        fun p hp q hq => hnc p (by simp at hp ⊢; exact Or.inr hp) q (by simp at hq ⊢; exact Or.inr hq)
      obtain ⟨ih1, ih2⟩ := ih l.fs l.next ((d.2, l.id, l.algo) :: sg) hnc' hok
      have hkeep : (initLoop tmpl sel a ds l.fs l.next ((d.2, l.id, l.algo) :: sg)).fs.lookup
          (expand d.1 sel tmpl) = some (.key l.id l.algo) := by
        apply initLoop_keeps
        · exact loadOrGenerate_key_present hl
        · intro d' hd'
          exact hnc _ (List.mem_cons_of_mem _ (List.mem_map.mpr ⟨d', hd', rfl⟩)) _ (by simp)
      refine ⟨?_, ?_⟩
      · intro d' hd'
        simp at hd'
        rcases hd' with rfl | hd'
        · exact ⟨_, _, hkeep⟩
        · exact ih1 d' hd'
      · rw [ih2]
        simp [entryOf, hkeep]


/-- **C08 (key store).** A modifier started again on the directory an earlier start left behind —
same domains, selector and `key_path`, ANY `newkey_algo` — creates no file and signs with exactly
the key pairs of the earlier start. -/
theorem C08_restart_finds_the_same_keys (c : Cfg) (fs : FS) (n : Nat)
    (hnc : NoClash (keyPaths c)) (hok : (init c fs n).err = none) (a' : Algo) :
    init { c with algo := a' } (init c fs n).fs (init c fs n).next =
      ⟨(init c fs n).fs, (init c fs n).next, (init c fs n).signers, none⟩ := by
  obtain ⟨h1, h2⟩ := initLoop_first c.tmpl c.sel c.algo c.domains fs n [] hnc hok
  unfold init at *
  rw [initLoop_all_present c.tmpl c.sel a' c.domains _ _ [] h1, h2]

/-- … and so after any number of restarts. -/
theorem C08_any_number_of_restarts (c : Cfg) (fs : FS) (n : Nat)
    (hnc : NoClash (keyPaths c)) (hok : (init c fs n).err = none) (as : List Algo) :
    restarts c as (init c fs n) = ⟨(init c fs n).fs, (init c fs n).next, (init c fs n).signers, none⟩ := by
  have hr := C08_restart_finds_the_same_keys c fs n hnc hok
  generalize init c fs n = r at hr hok
  have key : ∀ (as : List Algo) (r' : InitRes), r' = ⟨r.fs, r.next, r.signers, none⟩ →
      restarts c as r' = ⟨r.fs, r.next, r.signers, none⟩ := by
    intro as
    induction as with
    | nil => intro r' h; simpa [restarts] using h
    | cons a as ih =>
      intro r' h
      subst h
      simp only [restarts]
      exact ih _ (hr a)
  apply key
  cases r
  simp at hok
  simp [hok]

/-- a key file and the record file written with it -/
def Pair (fs : FS) (p : Bytes) : Prop :=
  ∃ id a, fs.lookup p = some (.key id a) ∧ fs.lookup (dnsPath p) = some (.txt id a)

theorem loadOrGenerate_keeps_pair {fs : FS} {n : Nat} {p : Bytes} {a : Algo} {l : Loaded} {P : Bytes}
    (h : loadOrGenerate fs n p a = .ok l) (hP : Pair fs P)
    (h1 : dnsPath p ≠ P) (h2 : dnsPath p = dnsPath P → p = P) : Pair l.fs P := by
  obtain ⟨id, a', hk, hr⟩ := hP
  refine ⟨id, a', loadOrGenerate_keeps_key h hk h1, ?_⟩
  unfold loadOrGenerate at h
  split at h
  · injection h with h; subst h; exact hr
  · cases h
  · rename_i hnone
    injection h with h; subst h
    have e1 : (dnsPath P == p) = false := by
      apply beq_false_of_ne
      intro e; rw [← e, hr] at hnone; cases hnone
    have e2 : (dnsPath P == dnsPath p) = false := by
      apply beq_false_of_ne
      intro e
      have := h2 e.symm
      subst this
      rw [hk] at hnone; cases hnone
    simp [List.lookup_cons, e1, e2, hr]

theorem loadOrGenerate_new_pair {fs : FS} {n : Nat} {p : Bytes} {a : Algo} {l : Loaded}
    (h : loadOrGenerate fs n p a = .ok l) (hnone : fs.lookup p = none) : Pair l.fs p := by
  unfold loadOrGenerate at h
  rw [hnone] at h
  injection h with h; subst h
  have : (dnsPath p == p) = false := beq_false_of_ne (dnsPath_ne_self p)
  exact ⟨n, a, by simp [List.lookup_cons], by simp [List.lookup_cons, this]⟩

/-- two key paths of the configuration never share a record file -/
def RecInj (ps : List Bytes) : Prop := ∀ p ∈ ps, ∀ q ∈ ps, dnsPath p = dnsPath q → p = q

theorem initLoop_pairs (tmpl sel : Bytes) (a : Algo) :
    ∀ (ds : List (Bytes × Bytes)) (fs : FS) (n : Nat) (sg : Signers) (P : Bytes),
      (∀ d ∈ ds, dnsPath (expand d.1 sel tmpl) ≠ P) →
      (∀ d ∈ ds, dnsPath (expand d.1 sel tmpl) = dnsPath P → expand d.1 sel tmpl = P) →
      Pair fs P → Pair (initLoop tmpl sel a ds fs n sg).fs P := by
  intro ds
  induction ds with
  | nil => intro fs n sg P _ _ h; simpa [initLoop] using h
  | cons d ds ih =>
    intro fs n sg P h1 h2 hP
    unfold initLoop
    split
    · exact hP
    · rename_i l hl
      exact ih _ _ _ P (fun d' hd' => h1 d' (by simp [hd'])) (fun d' hd' => h2 d' (by simp [hd']))
        (loadOrGenerate_keeps_pair hl hP (h1 d (by simp)) (h2 d (by simp)))

theorem initLoop_generated_pairs (tmpl sel : Bytes) (a : Algo) :
    ∀ (ds : List (Bytes × Bytes)) (fs : FS) (n : Nat) (sg : Signers),
      NoClash (ds.map (fun d => expand d.1 sel tmpl)) →
      RecInj (ds.map (fun d => expand d.1 sel tmpl)) →
      (initLoop tmpl sel a ds fs n sg).err = none →
      ∀ d ∈ ds, (fs.lookup (expand d.1 sel tmpl) = none ∨ Pair fs (expand d.1 sel tmpl)) →
        Pair (initLoop tmpl sel a ds fs n sg).fs (expand d.1 sel tmpl) := by
  intro ds
  induction ds with
  | nil => intro fs n sg _ _ _ d hd; simp at hd
  | cons d₀ ds ih =>
    intro fs n sg hnc hinj hok d hd hcond
    have hmem : ∀ d' ∈ ds, expand d'.1 sel tmpl ∈ (d₀ :: ds).map (fun d => expand d.1 sel tmpl) :=
      fun d' hd' => List.mem_cons_of_mem _ (List.mem_map.mpr ⟨d', hd', rfl⟩)
    have hmem₀ : expand d₀.1 sel tmpl ∈ (d₀ :: ds).map (fun d => expand d.1 sel tmpl) := by simp
    have hnc' : NoClash (ds.map (fun d => expand d.1 sel tmpl)) :=
      fun p hp q hq => hnc p (List.mem_cons_of_mem _ hp) q (List.mem_cons_of_mem _ hq)
    have hinj' : RecInj (ds.map (fun d => expand d.1 sel tmpl)) :=
      fun p hp q hq => hinj p (List.mem_cons_of_mem _ hp) q (List.mem_cons_of_mem _ hq)
    unfold initLoop at hok ⊢
    split at hok
    · simp at hok
    · rename_i l hl
      -- after the step for d₀, the condition still holds for every domain of the tail, and d₀ has its pair
      have hstep : ∀ d' ∈ d₀ :: ds,
          (fs.lookup (expand d'.1 sel tmpl) = none ∨ Pair fs (expand d'.1 sel tmpl)) →
          (d' ∈ ds → (l.fs.lookup (expand d'.1 sel tmpl) = none ∨ Pair l.fs (expand d'.1 sel tmpl))) ∧
          (expand d'.1 sel tmpl = expand d₀.1 sel tmpl → Pair l.fs (expand d₀.1 sel tmpl)) := by
        intro d' hd' hc
        have hm' : expand d'.1 sel tmpl ∈ (d₀ :: ds).map (fun d => expand d.1 sel tmpl) :=
          List.mem_map.mpr ⟨d', hd', rfl⟩
        rcases hc with hnone | hpair
        · refine ⟨fun _ => ?_, fun e => ?_⟩
          · by_cases e : expand d'.1 sel tmpl = expand d₀.1 sel tmpl
            · right; rw [e]; rw [e] at hnone; exact loadOrGenerate_new_pair hl hnone
            · left
              unfold loadOrGenerate at hl
              split at hl
              · injection hl with hl; subst hl; exact hnone
              · cases hl
              · injection hl with hl; subst hl
                have e1 : (expand d'.1 sel tmpl == expand d₀.1 sel tmpl) = false := beq_false_of_ne e
                have e2 : (expand d'.1 sel tmpl == dnsPath (expand d₀.1 sel tmpl)) = false :=
                  beq_false_of_ne (fun h => hnc _ hmem₀ _ hm' h.symm)
                simp [List.lookup_cons, e1, e2, hnone]
          · rw [e] at hnone; exact loadOrGenerate_new_pair hl hnone
        · have hp' : Pair l.fs (expand d'.1 sel tmpl) :=
            loadOrGenerate_keeps_pair hl hpair (hnc _ hmem₀ _ hm') (hinj _ hmem₀ _ hm')
          exact ⟨fun _ => Or.inr hp', fun e => e ▸ hp'⟩
      simp at hd
      rcases hd with rfl | hd
      · apply initLoop_pairs
        · intro d' hd'; exact hnc _ (hmem d' hd') _ hmem₀
        · intro d' hd'; exact hinj _ (hmem d' hd') _ hmem₀
        · exact (hstep d (by simp) hcond).2 rfl
      · exact ih l.fs l.next _ hnc' hinj' hok d hd ((hstep d (by simp [hd]) hcond).1 hd)

/-- **C08 (key store).** Every key the first start generated has its record file ("the published
key") in the directory the start leaves behind — and hence, by `C08_any_number_of_restarts`,
after every later restart. -/
theorem C08_generated_key_has_its_record (c : Cfg) (fs : FS) (n : Nat)
    (hnc : NoClash (keyPaths c)) (hinj : RecInj (keyPaths c)) (hok : (init c fs n).err = none)
    (d : Bytes × Bytes) (hd : d ∈ c.domains) (hnew : fs.lookup (expand d.1 c.sel c.tmpl) = none) :
    Pair (init c fs n).fs (expand d.1 c.sel c.tmpl) :=
  initLoop_generated_pairs c.tmpl c.sel c.algo c.domains fs n [] hnc hinj hok d hd (Or.inl hnew)

/-- **C08 (key store).** After any number of restarts (each with any `newkey_algo`) the key that
signs for a domain is the one whose record was written when the key was first generated: the
record in the directory ("published") and the signer of the restarted instance carry the same
key pair and the same key type. -/
theorem C08_signer_after_restarts_matches_first_record (c : Cfg) (fs : FS) (n : Nat)
    (hnc : NoClash (keyPaths c)) (hinj : RecInj (keyPaths c)) (hok : (init c fs n).err = none)
    (d : Bytes × Bytes) (hd : d ∈ c.domains) (hnew : fs.lookup (expand d.1 c.sel c.tmpl) = none)
    (huniq : ∀ d' ∈ c.domains, d'.2 = d.2 → expand d'.1 c.sel c.tmpl = expand d.1 c.sel c.tmpl)
    (as : List Algo) :
    ∃ id a, (init c fs n).fs.lookup (dnsPath (expand d.1 c.sel c.tmpl)) = some (.txt id a) ∧
      (restarts c as (init c fs n)).fs = (init c fs n).fs ∧
      (restarts c as (init c fs n)).signers.lookup d.2 = some (id, a) := by
  obtain ⟨id, a, hk, hr⟩ := C08_generated_key_has_its_record c fs n hnc hinj hok d hd hnew
  refine ⟨id, a, hr, ?_, ?_⟩
  · rw [C08_any_number_of_restarts c fs n hnc hok as]
  · rw [C08_any_number_of_restarts c fs n hnc hok as]
    obtain ⟨_, h2⟩ := initLoop_first c.tmpl c.sel c.algo c.domains fs n [] hnc hok
    show (init c fs n).signers.lookup d.2 = some (id, a)
    unfold init at hk ⊢
    rw [h2]
    apply lookup_unique
    · simp
      exact ⟨d.1, d.2, hd, by simp [entryOf, hk]⟩
    · intro e he hk'
      simp at he
      obtain ⟨x, y, hxy, rfl⟩ := he
      have hy : y = d.2 := by simpa [entryOf] using (by
        revert hk'; unfold entryOf; split <;> simp)
      have hp := huniq (x, y) hxy hy
      simp at hp
      simp [entryOf, hp, hk]


theorem dnsPath_dotKey (t : Bytes) : dnsPath (t ++ dotKey) = t ++ dotDns := by
  have : dotKey.isSuffixOf (t ++ dotKey) = true := by
    rw [List.isSuffixOf_iff_suffix]; exact ⟨t, rfl⟩
  simp [dnsPath, this, dotKey]

/-- key paths ending in `.key` (the default template, and the usual custom ones) satisfy both
side conditions: record files end in `.dns` -/
theorem noClash_recInj_of_dotKey (ps : List Bytes) (h : ∀ p ∈ ps, dotKey <:+ p) :
    NoClash ps ∧ RecInj ps := by
  have hd : ∀ p ∈ ps, ∃ t, p = t ++ dotKey ∧ dnsPath p = t ++ dotDns := by
    intro p hp
    obtain ⟨t, rfl⟩ := h p hp
    exact ⟨t, rfl, dnsPath_dotKey t⟩
  constructor
  · intro p hp q hq e
    obtain ⟨t, _, ht⟩ := hd p hp
    obtain ⟨u, hu, _⟩ := hd q hq
    rw [ht, hu] at e
    have := List.append_inj' e (by simp [dotKey, dotDns])
    simp [dotKey, dotDns] at this
  · intro p hp q hq e
    obtain ⟨t, hpt, ht⟩ := hd p hp
    obtain ⟨u, hqu, hu⟩ := hd q hq
    rw [ht, hu] at e
    have := (List.append_inj' e rfl).1
    rw [hpt, hqu, this]

/-- `{domain}_{selector}.key`, the default of `key_path` -/
def defaultKeyTemplate : Bytes := phDomain ++ [95] ++ phSelector ++ dotKey

/-- **C08 (key store).** With the default `key_path` the key of a domain is looked for under the
domain and the selector AS WRITTEN in the configuration (U-labels stay U-labels, A-labels stay
A-labels, no case folding), for every domain and selector. -/
theorem C08_default_key_path_uses_names_as_written (d s : Bytes) :
    expand d s defaultKeyTemplate = d ++ [95] ++ s ++ dotKey ∧
    dnsPath (expand d s defaultKeyTemplate) = d ++ [95] ++ s ++ dotDns := by
  have h1 : expand d s defaultKeyTemplate = d ++ [95] ++ s ++ dotKey := by
    simp [expand, expandGo, defaultKeyTemplate, phDomain, phSelector, dotKey, List.isPrefixOf]
  refine ⟨h1, ?_⟩
  rw [h1]
  exact dnsPath_dotKey (d ++ [95] ++ s)

/-- a signature scheme with named key pairs: `sign k` uses the private key of pair `k`,
`vrfy k` the public key of pair `k` (what the record file of pair `k` publishes) -/
structure KeyedScheme (D S : Type) where
  hash : Bytes → D
  sign : Nat → D → S
  vrfy : Nat → D → S → Bool

/-- signing with the private key of pair `i`, verifying with the record of pair `j` -/
def KeyedScheme.crypto {D S} (K : KeyedScheme D S) (i j : Nat) : Crypto D S :=
  ⟨K.hash, K.sign i, K.vrfy j⟩

/-- **C08, with the key store.** The first start generates the key of a domain and writes its
record (which the administrator publishes).  After ANY number of restarts on that directory
(whatever `newkey_algo` says by then) a message signed with the key the running instance holds for
the domain verifies, at the next hop, against the record written at the first start — for every
correct signature scheme, both canonicalisations, every `h=` list, RFC header and line body, both
spool paths. -/
theorem C08_signed_after_restarts_verifies_against_published_key {D S} [DecidableEq D]
    (K : KeyedScheme D S) (hcorrect : ∀ k d, K.vrfy k d (K.sign k d) = true)
    (c : Cfg) (fs : FS) (n : Nat)
    (hnc : NoClash (keyPaths c)) (hinj : RecInj (keyPaths c)) (hok : (init c fs n).err = none)
    (d : Bytes × Bytes) (hd : d ∈ c.domains) (hnew : fs.lookup (expand d.1 c.sel c.tmpl) = none)
    (huniq : ∀ d' ∈ c.domains, d'.2 = d.2 → expand d'.1 c.sel c.tmpl = expand d.1 c.sel c.tmpl)
    (as : List Algo)
    (viaDisk : Bool) (hc bc : Canon) (ks : List Bytes) (h₀ : List Bytes) (bl : List Bytes)
    (tmpl sig : Bytes)
    (hwf : ∀ f ∈ h₀, RFCField f) (hsig : RFCField sig) (hbl : ∀ l ∈ bl, CleanLine l)
    (hnot : ∀ k ∈ ks, maKey sig ≠ lowerA k)
    (hb : trimRightCRLF (canonHeader hc (removeSig sig)) = trimRightCRLF (canonHeader hc tmpl)) :
    ∃ pub a signer,
      -- the record written when the key was generated, still there after the restarts
      (restarts c as (init c fs n)).fs.lookup (dnsPath (expand d.1 c.sel c.tmpl)) = some (.txt pub a) ∧
      -- the key the restarted instance signs with for this domain: same type, …
      (restarts c as (init c fs n)).signers.lookup d.2 = some (signer, a) ∧
      -- … and what it signs verifies against the published record at the next hop
      ∃ p hdr body' hs bs,
        maReadHeader (writeHeader h₀ ++ linesBytes bl) = some (hs, bs) ∧
        nextHop viaDisk (sig :: h₀) (linesBytes bl) = some p ∧
        maReadHeader p = some (hdr, body') ∧
        verifyMsg (K.crypto signer pub) hc bc ks hdr sig body'
          (signMsg (K.crypto signer pub) hc bc ks hs tmpl bs) = true := by
  obtain ⟨id, a, hr, hfs, hs⟩ :=
    C08_signer_after_restarts_matches_first_record c fs n hnc hinj hok d hd hnew huniq as
  refine ⟨id, a, id, by rw [hfs]; exact hr, hs, ?_⟩
  exact C08_signed_message_verifies_at_next_hop (K.crypto id id) (fun x => hcorrect id x)
    viaDisk hc bc ks h₀ bl tmpl sig hwf hsig hbl hnot hb

/-! ### non-vacuity: an IDN domain in U-labels and an ASCII one, default template -/

/-- `bücher.example` (UTF-8), normal form the same; `EXAMPLE.org`, normal form `example.org` -/
def exCfg : Cfg :=
  { tmpl := defaultKeyTemplate, sel := [115, 49], algo := .ed25519,
    domains := [([98, 195, 188, 99, 104, 101, 114, 46, 101, 120], [98, 195, 188, 99, 104, 101, 114, 46, 101, 120]),
                ([69, 88, 46, 111, 114, 103], [101, 120, 46, 111, 114, 103])] }

example : NoClash (keyPaths exCfg) ∧ RecInj (keyPaths exCfg) :=
  noClash_recInj_of_dotKey _ (by decide)

example : (init exCfg [] 0).err = none ∧ (init exCfg [] 0).next = 2 ∧
    (init exCfg [] 0).fs.length = 4 ∧
    -- the key of the IDN domain is under its U-label name
    (init exCfg [] 0).fs.lookup ([98, 195, 188, 99, 104, 101, 114, 46, 101, 120] ++ [95, 115, 49] ++ dotKey)
      = some (.key 0 .ed25519) ∧
    -- a restart with newkey_algo rsa2048 creates nothing and keeps the Ed25519 keys
    (init { exCfg with algo := .rsa } (init exCfg [] 0).fs 2).fs.length = 4 ∧
    (init { exCfg with algo := .rsa } (init exCfg [] 0).fs 2).signers = (init exCfg [] 0).signers ∧
    (∀ d ∈ exCfg.domains, ([] : FS).lookup (expand d.1 exCfg.sel exCfg.tmpl) = none) ∧
    (∀ d ∈ exCfg.domains, ∀ d' ∈ exCfg.domains, d'.2 = d.2 →
      expand d'.1 exCfg.sel exCfg.tmpl = expand d.1 exCfg.sel exCfg.tmpl) := by decide

/-- what the seeded change C08-5 does (`{domain}` expanded to the A-label form): the restarted
instance does not find the published key and generates a second one — here the directory was
left by the documented expansion and is read with a DIFFERENT name for the same domain -/
example :
    let fs₁ := (init exCfg [] 0).fs
    let aLabel : Cfg := { exCfg with domains :=
      [([120, 110, 45, 45, 98, 99, 104, 101, 114, 45, 107, 118, 97, 46, 101, 120], [98, 195, 188, 99, 104, 101, 114, 46, 101, 120])] }
    (init aLabel fs₁ 2).fs.length = 6 ∧
    (init aLabel fs₁ 2).signers.lookup [98, 195, 188, 99, 104, 101, 114, 46, 101, 120] = some (2, .ed25519) ∧
    (init exCfg [] 0).signers.lookup [98, 195, 188, 99, 104, 101, 114, 46, 101, 120] = some (0, .ed25519) := by decide

/-! ## round 6 (a): keys that exist without their record file; every record names the type of its key -/

/-- number of the key pair a file belongs to -/
def fileId : File → Nat
  | .key i _ => i
  | .txt i _ => i

/-- the numbers of the key pairs in the directory are below the counter -/
def Fresh (fs : FS) (n : Nat) : Prop := ∀ e ∈ fs, fileId e.2 < n

/-- every record file (`k=` tag `a`) of a key pair names the type of the private key(s) of that
pair — wherever the two files are -/
def RecordsAgree (fs : FS) : Prop :=
  ∀ q i a, (q, File.txt i a) ∈ fs → ∀ p a', (p, File.key i a') ∈ fs → a' = a

theorem mem_of_lookup {κ β} [BEq κ] [LawfulBEq κ] {fs : List (κ × β)} {p : κ} {f : β}
    (h : fs.lookup p = some f) : (p, f) ∈ fs := by
  induction fs with
  | nil => simp at h
  | cons e es ih =>
    obtain ⟨k, v⟩ := e
    rw [List.lookup_cons] at h
    split at h
    · rename_i hk
      have : p = k := by simpa using hk
      injection h with h
      subst this; subst h; simp
    · exact List.mem_cons_of_mem _ (ih h)

/-- **C08 (key store).** A key that is where the configuration expects it is loaded and used as it
is — whatever `newkey_algo` says, with or without a record file next to it; nothing is written. -/
theorem C08_existing_key_is_loaded_nothing_written (fs : FS) (n : Nat) (p : Bytes) (a a' : Algo) (id : Nat)
    (h : fs.lookup p = some (.key id a')) :
    loadOrGenerate fs n p a = .ok ⟨fs, n, id, a', false⟩ := by
  simp [loadOrGenerate, h]

/-- … and so for a whole start: when every configured domain has its key (imported without a
record, or the record deleted since), `Init` leaves the directory exactly as it found it. -/
theorem C08_start_on_keys_without_records_writes_nothing (c : Cfg) (fs : FS) (n : Nat)
    (h : ∀ d ∈ c.domains, ∃ id a', fs.lookup (expand d.1 c.sel c.tmpl) = some (.key id a')) :
    init c fs n = ⟨fs, n, (c.domains.map (entryOf c.tmpl c.sel fs)).reverse, none⟩ := by
  unfold init
  rw [initLoop_all_present c.tmpl c.sel c.algo c.domains fs n [] h]
  simp

theorem loadOrGenerate_inv {fs : FS} {n : Nat} {p : Bytes} {a : Algo} {l : Loaded}
    (h : loadOrGenerate fs n p a = .ok l) (hf : Fresh fs n) (hr : RecordsAgree fs) :
    Fresh l.fs l.next ∧ RecordsAgree l.fs ∧ (∀ e ∈ fs, e ∈ l.fs) ∧
      (p, File.key l.id l.algo) ∈ l.fs := by
  have hkey := mem_of_lookup (loadOrGenerate_key_present h)
  unfold loadOrGenerate at h
  split at h
  · injection h with h; subst h
    exact ⟨hf, hr, fun e he => he, hkey⟩
  · cases h
  · injection h with h; subst h
    refine ⟨?_, ?_, ?_, hkey⟩
    · intro e he
      simp at he
      rcases he with rfl | rfl | he
      · simp [fileId]
      · simp [fileId]
      · exact Nat.lt_succ_of_lt (hf e he)
    · intro q i a₁ hq p' a' hp'
      simp at hq hp'
      rcases hq with ⟨_, rfl, rfl⟩ | hq
      · rcases hp' with ⟨_, _, rfl⟩ | hp'
        · rfl
        · have := hf _ hp'
          simp [fileId] at this
      · rcases hp' with ⟨_, rfl, rfl⟩ | hp'
        · have := hf _ hq
          simp [fileId] at this
        · exact hr q i a₁ hq p' a' hp'
    · intro e he
      simp [he]

theorem initLoop_inv (tmpl sel : Bytes) (a : Algo) :
    ∀ (ds : List (Bytes × Bytes)) (fs : FS) (n : Nat) (sg : Signers),
      Fresh fs n → RecordsAgree fs →
      (∀ e ∈ sg, ∃ p, (p, File.key e.2.1 e.2.2) ∈ fs) →
      Fresh (initLoop tmpl sel a ds fs n sg).fs (initLoop tmpl sel a ds fs n sg).next ∧
      RecordsAgree (initLoop tmpl sel a ds fs n sg).fs ∧
      (∀ e ∈ (initLoop tmpl sel a ds fs n sg).signers,
        ∃ p, (p, File.key e.2.1 e.2.2) ∈ (initLoop tmpl sel a ds fs n sg).fs) := by
  intro ds
  induction ds with
  | nil => intro fs n sg hf hr hs; simp only [initLoop]; exact ⟨hf, hr, hs⟩
  | cons d ds ih =>
    intro fs n sg hf hr hs
    unfold initLoop
    split
    · exact ⟨hf, hr, hs⟩
    · rename_i l hl
      obtain ⟨hf', hr', hsub, hk⟩ := loadOrGenerate_inv hl hf hr
      apply ih l.fs l.next _ hf' hr'
      intro e he
      simp at he
      rcases he with rfl | he
      · exact ⟨_, hk⟩
      · obtain ⟨p, hp⟩ := hs e he
        exact ⟨p, hsub _ hp⟩

/-- the invariant of a key directory -/
def DirInv (s : FS × Nat) : Prop := Fresh s.1 s.2 ∧ RecordsAgree s.1

theorem step_inv (s : FS × Nat) (e : Event) (h : DirInv s) : DirInv (step s e) := by
  obtain ⟨hf, hr⟩ := h
  cases e with
  | start c =>
    obtain ⟨h1, h2, _⟩ := initLoop_inv c.tmpl c.sel c.algo c.domains s.1 s.2 [] hf hr (by simp)
    exact ⟨h1, h2⟩
  | imp p a =>
    simp only [step, importKey]
    split
    · refine ⟨?_, ?_⟩
      · intro e he
        simp at he
        rcases he with rfl | he
        · simp [fileId]
        · exact Nat.lt_succ_of_lt (hf e he)
      · intro q i a₁ hq p' a' hp'
        simp at hq hp'
        rcases hp' with ⟨_, rfl, rfl⟩ | hp'
        · have := hf _ hq
          simp [fileId] at this
        · exact hr q i a₁ hq p' a' hp'
    · exact ⟨hf, hr⟩
  | del q =>
    refine ⟨?_, ?_⟩
    · intro e he
      exact hf e (List.mem_filter.mp he).1
    · intro q' i a₁ hq p' a' hp'
      exact hr q' i a₁ (List.mem_filter.mp hq).1 p' a' (List.mem_filter.mp hp').1

theorem history_inv (es : List Event) : ∀ (s : FS × Nat), DirInv s → DirInv (history es s) := by
  induction es with
  | nil => intro s h; simpa [history] using h
  | cons e es ih =>
    intro s h
    simp only [history, List.foldl_cons]
    exact ih _ (step_inv s e h)

/-- **C08 (key store).** Whatever happened to the key directory — starts of instances with any
configuration and any `newkey_algo`, keys imported without records, files deleted, in any order and
number —, every record file in it carries the `k=` of the private key of its pair: maddy never
writes, and never leaves behind, a record whose key type disagrees with the key. -/
theorem C08_every_record_names_the_type_of_its_key (es : List Event) :
    RecordsAgree (history es ([], 0)).1 :=
  (history_inv es ([], 0) ⟨by intro e he; simp at he, by intro q i a hq; simp at hq⟩).2

/-- a signature scheme with named key pairs AND key types: a record of the wrong type does not
verify anything ("inappropriate key algorithm", "invalid public key size"); correctness is assumed
for matching types only -/
structure TypedScheme (D S : Type) where
  hash : Bytes → D
  sign : Nat → Algo → D → S
  vrfy : Nat → Algo → D → S → Bool

def TypedScheme.crypto {D S} (K : TypedScheme D S) (i : Nat) (a : Algo) (j : Nat) (b : Algo) : Crypto D S :=
  ⟨K.hash, K.sign i a, K.vrfy j b⟩

/-- **C08, with imported keys and deleted records.** An instance started on ANY directory a history
of starts, imports and deletions left signs, for each of its domains, with a key such that EVERY
record file of that key pair in the directory after the start (written now, earlier, or left
there) has its type; a message signed with it therefore verifies at the next hop against that
record, for every scheme that is correct for matching types. -/
theorem C08_signed_verifies_against_every_record_of_its_key {D S} [DecidableEq D]
    (K : TypedScheme D S) (hcorrect : ∀ k a d, K.vrfy k a d (K.sign k a d) = true)
    (es : List Event) (c : Cfg) (dn : Bytes) (id : Nat) (a : Algo)
    (hsigner : (init c (history es ([], 0)).1 (history es ([], 0)).2).signers.lookup dn = some (id, a))
    (q : Bytes) (a₂ : Algo)
    (hrec : (q, File.txt id a₂) ∈ (init c (history es ([], 0)).1 (history es ([], 0)).2).fs)
    (viaDisk : Bool) (hc bc : Canon) (ks : List Bytes) (h₀ : List Bytes) (bl : List Bytes)
    (tmpl sig : Bytes)
    (hwf : ∀ f ∈ h₀, RFCField f) (hsig : RFCField sig) (hbl : ∀ l ∈ bl, CleanLine l)
    (hnot : ∀ k ∈ ks, maKey sig ≠ lowerA k)
    (hb : trimRightCRLF (canonHeader hc (removeSig sig)) = trimRightCRLF (canonHeader hc tmpl)) :
    a₂ = a ∧
    ∃ p hdr body' hs bs,
      maReadHeader (writeHeader h₀ ++ linesBytes bl) = some (hs, bs) ∧
      nextHop viaDisk (sig :: h₀) (linesBytes bl) = some p ∧
      maReadHeader p = some (hdr, body') ∧
      verifyMsg (K.crypto id a id a₂) hc bc ks hdr sig body'
        (signMsg (K.crypto id a id a₂) hc bc ks hs tmpl bs) = true := by
  obtain ⟨hf, hr⟩ := history_inv es ([], 0) ⟨by intro e he; simp at he, by intro q i a hq; simp at hq⟩
  obtain ⟨_, hr', hs'⟩ := initLoop_inv c.tmpl c.sel c.algo c.domains _ _ [] hf hr (by simp)
  have hmem := mem_of_lookup hsigner
  obtain ⟨p, hp⟩ := hs' (dn, id, a) hmem
  have hEq : a = a₂ := hr' q id a₂ hrec p a hp
  subst hEq
  refine ⟨rfl, ?_⟩
  exact C08_signed_message_verifies_at_next_hop (K.crypto id a id a) (fun x => hcorrect id a x)
    viaDisk hc bc ks h₀ bl tmpl sig hwf hsig hbl hnot hb

/-- what the seeded change C08-8 does: for a key found without its record the record is written
with the `k=` of `newkey_algo` -/
def loadOrGenerateC088 (fs : FS) (next : Nat) (p : Bytes) (a : Algo) : Except InitErr Loaded :=
  match fs.lookup p with
  | some (.key id a') =>
    if (fs.lookup (dnsPath p)).isNone then .ok ⟨(dnsPath p, .txt id a) :: fs, next, id, a', false⟩
    else .ok ⟨fs, next, id, a', false⟩
  | some (.txt _ _) => .error (.notPEM p)
  | none => .ok ⟨(p, .key next a) :: (dnsPath p, .txt next a) :: fs, next + 1, next, a, true⟩

/-- non-vacuity / the counterexample the theorem excludes: an imported Ed25519 key under
`newkey_algo rsa2048` — the unchanged code leaves the directory alone (and the invariant holds),
the changed code leaves a record that disagrees with the key -/
example :
    let s := importKey [] 0 [107] .ed25519
    (loadOrGenerate s.1 s.2 [107] .rsa).toOption.map (·.fs) = some [([107], .key 0 .ed25519)] ∧
    (loadOrGenerateC088 s.1 s.2 [107] .rsa).toOption.map (·.fs) =
      some [([107, 46, 100, 110, 115], .txt 0 .rsa), ([107], .key 0 .ed25519)] := by decide

example : ¬ RecordsAgree [([107, 46, 100, 110, 115], .txt 0 .rsa), ([107], .key 0 .ed25519)] := by
  intro h
  have := h [107, 46, 100, 110, 115] 0 .rsa (by simp) [107] .ed25519 (by simp)
  cases this

/-- a history with an import, a start under the other `newkey_algo`, a deletion and a restart:
the signer of the last start is the imported Ed25519 key -/
example :
    let c : Cfg := { exCfg with algo := .rsa }
    let p := expand [69, 88, 46, 111, 114, 103] exCfg.sel exCfg.tmpl
    let s := history [.imp p .ed25519, .start c, .del (dnsPath p), .start c] ([], 0)
    (init c s.1 s.2).signers.lookup [101, 120, 46, 111, 114, 103] = some (0, .ed25519) ∧
    (init c s.1 s.2).fs.length = 3 := by decide

/-! ## round 9: which key signs, in whose name (`sign_subdomains` included) -/

/-- the oracle law the theorems need: the A-label form of a name has the normal form of the name
(`dns.ForLookup ∘ idna.ToASCII = dns.ForLookup`; checked on every name of every differential case) -/
def AsciiKeepsNorm (O : Oracle) : Prop := ∀ x a, O.ascii x = some a → O.norm a = O.norm x

theorem finish_signed {O : Oracle} (hlaw : AsciiKeepsNorm O) {sg : Signers} {sel : Bytes} {utf8 : Bool}
    {domain d s : Bytes} {id : Nat} {a : Algo}
    (h : finish O sg sel utf8 domain = .signed d s id a) :
    ∃ nd, O.norm domain = some nd ∧ O.norm d = some nd ∧ sg.lookup nd = some (id, a) := by
  unfold finish at h
  split at h
  · cases h
  · rename_i nd hn
    split at h
    · cases h
    · rename_i id' a' hl
      split at h
      · injection h with h1 h2 h3 h4
        subst h1 h3 h4
        exact ⟨nd, hn, hn, hl⟩
      · split at h
        · cases h
        · rename_i ad had
          split at h
          · cases h
          · injection h with h1 h2 h3 h4
            subst h1 h3 h4
            exact ⟨nd, hn, by rw [hlaw _ _ had]; exact hn, hl⟩

/-- **C08 (key selection).** Whatever the configuration (any domains in any spelling,
`sign_subdomains` on or off), the envelope sender (any spelling, null, `postmaster`) and the kind of
message (EAI or not): when a signature is added, the domain it names (`d=`) has a normal form under
which the instance holds a key, and that key — the one whose record was published for that normal
form — is the key that signed.  A message the configuration does not cover is never signed in a
name for which no key is published. -/
theorem C08_signed_domain_has_published_key (O : Oracle) (hlaw : AsciiKeepsNorm O)
    (doms : List Bytes) (sub : Bool) (sg : Signers) (sel : Bytes) (utf8 : Bool) (f : From)
    (d s : Bytes) (id : Nat) (a : Algo)
    (h : selectKey O doms sub sg sel utf8 f = .signed d s id a) :
    ∃ nd, O.norm d = some nd ∧ sg.lookup nd = some (id, a) := by
  unfold selectKey at h
  split at h
  · cases h
  · split at h
    · cases h
    · split at h
      · cases h
      · obtain ⟨nd, _, h2, h3⟩ := finish_signed hlaw h
        exact ⟨nd, h2, h3⟩
  · split at h
    · cases h
    · obtain ⟨nd, _, h2, h3⟩ := finish_signed hlaw h
      exact ⟨nd, h2, h3⟩

/-- every entry of `signers` comes from a configured domain (its normal form) -/
theorem initLoop_signers_from_domains (tmpl sel : Bytes) (a : Algo) :
    ∀ (ds : List (Bytes × Bytes)) (fs : FS) (n : Nat) (sg : Signers),
      ∀ e ∈ (initLoop tmpl sel a ds fs n sg).signers, e ∈ sg ∨ ∃ d ∈ ds, d.2 = e.1 := by
  intro ds
  induction ds with
  | nil => intro fs n sg e he; simp [initLoop] at he; exact Or.inl he
  | cons d ds ih =>
    intro fs n sg e he
    unfold initLoop at he
    split at he
    · exact Or.inl he
    · rename_i l hl
      rcases ih _ _ _ e he with h | ⟨d', hd', h⟩
      · simp at h
        rcases h with rfl | h
        · exact Or.inr ⟨d, by simp, rfl⟩
        · exact Or.inl h
      · exact Or.inr ⟨d', by simp [hd'], h⟩

/-- **C08 (key selection, with the key store).** A signature added by an instance started with
configuration `c` names a domain whose normal form is the normal form of a CONFIGURED domain. -/
theorem C08_signed_domain_is_a_configured_domain (O : Oracle) (hlaw : AsciiKeepsNorm O)
    (c : Cfg) (fs : FS) (n : Nat) (sub : Bool) (utf8 : Bool) (f : From)
    (d s : Bytes) (id : Nat) (a : Algo)
    (h : selectKey O (c.domains.map (·.1)) sub (init c fs n).signers c.sel utf8 f = .signed d s id a) :
    ∃ cd ∈ c.domains, O.norm d = some cd.2 ∧ (init c fs n).signers.lookup cd.2 = some (id, a) := by
  obtain ⟨nd, h1, h2⟩ := C08_signed_domain_has_published_key O hlaw _ sub _ _ utf8 f d s id a h
  have hm := mem_of_lookup h2
  rcases initLoop_signers_from_domains c.tmpl c.sel c.algo c.domains fs n [] _ hm with h | ⟨cd, hcd, he⟩
  · simp at h
  · simp at he
    exact ⟨cd, hcd, by rw [h1, he], by rw [he]; exact h2⟩

/-- **C08 (key selection).** `sign_subdomains`: a sender in a subdomain of the configured domain,
spelled as configured, is signed in the name of the configured domain with its key (EAI message;
for a non-EAI message `d=` is its A-label form). -/
theorem C08_subdomain_signed_as_configured_domain (O : Oracle) (top : Bytes) (rest : List Bytes)
    (sg : Signers) (sel domain nt : Bytes) (id : Nat) (a : Algo)
    (hsuf : (46 :: top) <:+ domain) (hn : O.norm top = some nt) (hk : sg.lookup nt = some (id, a)) :
    selectKey O (top :: rest) true sg sel true (.dom domain) = .signed top sel id a := by
  have : (46 :: top).isSuffixOf domain = true := by simpa using hsuf
  simp [selectKey, subRule, this, finish, hn, hk]

/-- **C08 (key selection) + headline.** The published records are the records of the key pairs in
`signers`, under the normal forms; the next hop finds the record under the normal form of `d=`.
What the instance signs verifies against that record. -/
theorem C08_selected_key_signature_verifies {D S} [DecidableEq D]
    (K : KeyedScheme D S) (hcorrect : ∀ k d, K.vrfy k d (K.sign k d) = true)
    (O : Oracle) (hlaw : AsciiKeepsNorm O)
    (doms : List Bytes) (sub : Bool) (sg : Signers) (sel : Bytes) (utf8 : Bool) (f : From)
    (d s : Bytes) (id : Nat) (a : Algo)
    (h : selectKey O doms sub sg sel utf8 f = .signed d s id a)
    (viaDisk : Bool) (hc bc : Canon) (ks : List Bytes) (h₀ : List Bytes) (bl : List Bytes)
    (tmpl sig : Bytes)
    (hwf : ∀ f ∈ h₀, RFCField f) (hsig : RFCField sig) (hbl : ∀ l ∈ bl, CleanLine l)
    (hnot : ∀ k ∈ ks, maKey sig ≠ lowerA k)
    (hb : trimRightCRLF (canonHeader hc (removeSig sig)) = trimRightCRLF (canonHeader hc tmpl)) :
    ∃ nd pub, O.norm d = some nd ∧ sg.lookup nd = some (pub, a) ∧
      ∃ p hdr body' hs bs,
        maReadHeader (writeHeader h₀ ++ linesBytes bl) = some (hs, bs) ∧
        nextHop viaDisk (sig :: h₀) (linesBytes bl) = some p ∧
        maReadHeader p = some (hdr, body') ∧
        verifyMsg (K.crypto id pub) hc bc ks hdr sig body'
          (signMsg (K.crypto id pub) hc bc ks hs tmpl bs) = true := by
  obtain ⟨nd, h1, h2⟩ := C08_signed_domain_has_published_key O hlaw doms sub sg sel utf8 f d s id a h
  refine ⟨nd, id, h1, h2, ?_⟩
  exact C08_signed_message_verifies_at_next_hop (K.crypto id id) (fun x => hcorrect id x)
    viaDisk hc bc ks h₀ bl tmpl sig hwf hsig hbl hnot hb

/-! ### non-vacuity, and the counterexample the theorem excludes -/

/-- a small oracle: ASCII lower-casing as the normal form, every name is its own A-label form -/
def exOracle : Oracle := ⟨fun x => some (lowerA x), fun x => some x⟩

example : AsciiKeepsNorm exOracle := by
  intro x a h
  simp [exOracle] at h
  subst h
  rfl

/-- `ex.org` configured with `sign_subdomains`; senders `m.ex.org` (covered: signed as `ex.org`),
`EX.org` (the domain itself in another spelling: signed, `d=EX.org`, found under `ex.org`),
`m.EX.org` (parent spelled differently: NOT covered, left unsigned), `x.net` (unrelated). -/
example :
    let sg : Signers := [([101, 120, 46, 111, 114, 103], 0, .ed25519)]
    let doms : List Bytes := [[101, 120, 46, 111, 114, 103]]
    selectKey exOracle doms true sg [115] true (.dom [109, 46, 101, 120, 46, 111, 114, 103])
      = .signed [101, 120, 46, 111, 114, 103] [115] 0 .ed25519 ∧
    selectKey exOracle doms true sg [115] false (.dom [69, 88, 46, 111, 114, 103])
      = .signed [69, 88, 46, 111, 114, 103] [115] 0 .ed25519 ∧
    selectKey exOracle doms true sg [115] true (.dom [109, 46, 69, 88, 46, 111, 114, 103])
      = .unsigned .noKey ∧
    selectKey exOracle doms false sg [115] true (.dom [109, 46, 101, 120, 46, 111, 114, 103])
      = .unsigned .noKey ∧
    selectKey exOracle doms true sg [115] true (.dom [120, 46, 110, 101, 116]) = .unsigned .noKey ∧
    selectKey exOracle doms true sg [115] true .none = .signed [101, 120, 46, 111, 114, 103] [115] 0 .ed25519 ∧
    selectKey exOracle [] true sg [115] true (.dom [120]) = .panic := by decide

/-- C08-14: the sender `m.EX.org` is signed with the key of `ex.org` in the name `m.EX.org`, under
whose normal form no key is held (none is published) — what `C08_signed_domain_has_published_key`
rules out for the unchanged code -/
example :
    let sg : Signers := [([101, 120, 46, 111, 114, 103], 0, .ed25519)]
    finishC0814 exOracle true sg [115] true [109, 46, 69, 88, 46, 111, 114, 103]
      = .signed [109, 46, 69, 88, 46, 111, 114, 103] [115] 0 .ed25519 ∧
    sg.lookup (lowerA [109, 46, 69, 88, 46, 111, 114, 103]) = none := by decide

end KeyStore

section SigTime
open MaddyVerif.DkimTime

/-! ## round 6 (b): time as an input — `t=` and `x=` are functions of the SIGNING instant -/

/-- **C08 (time).** Two lives of a modifier that sign at the same instant — whenever they were
started and whenever the message entered the pipeline — put the same `t=` and `x=` on the
signature, for every `sig_expiry`. -/
theorem C08_signature_times_are_functions_of_the_signing_instant (l l' : Life) (e : Nat)
    (h : l.signAt = l'.signAt) : tagT l = tagT l' ∧ tagX l e = tagX l' e := by
  simp [tagT, tagX, h]

/-- **C08 (time).** A signature is not expired at any instant up to `sig_expiry` less one second
(the second DKIM's whole-second time stamps cannot express) after its SIGNING — whatever the uptime
of the modifier, whatever the instant of start-up. -/
theorem C08_not_expired_within_sig_expiry (l : Life) (e d : Nat) (hd : d + 1000 ≤ e) :
    expired (l.signAt + d) (tagX l e) = false := by
  unfold tagX
  split
  · simp [expired]
  · show decide ((l.signAt + e) / 1000 * 1000 < l.signAt + d) = false
    exact decide_eq_false (by omega)

/-- `sig_expiry 0`: no `x=`, the signature never expires -/
theorem C08_no_expiry_never_expires (l : Life) (now : Nat) : expired now (tagX l 0) = false := by
  simp [tagX, expired]

/-- … and it IS expired at every instant later than `sig_expiry` after the signing (not part of
C08; it makes the differential comparison of the verdicts meaningful). -/
theorem C08_expired_after_sig_expiry (l : Life) (e d : Nat) (he : e ≠ 0) (hd : e < d) :
    expired (l.signAt + d) (tagX l e) = true := by
  unfold tagX
  rw [if_neg he]
  show decide ((l.signAt + e) / 1000 * 1000 < l.signAt + d) = true
  exact decide_eq_true (by omega)

/-- the lifetime written into the signature is `sig_expiry` (in whole seconds, rounded up at most) -/
theorem C08_lifetime_is_sig_expiry (l : Life) (e x : Nat) (h : tagX l e = some x) :
    tagT l + e / 1000 ≤ x ∧ x ≤ tagT l + e / 1000 + 1 := by
  unfold tagX at h
  split at h
  · cases h
  · injection h with h
    subst h
    show l.signAt / 1000 + e / 1000 ≤ (l.signAt + e) / 1000 ∧ (l.signAt + e) / 1000 ≤ l.signAt / 1000 + e / 1000 + 1
    omega

/-- what the seeded change C08-7 does (expiration fixed at start-up): once the modifier has been up
for `sig_expiry` and a second, every signature is born expired -/
theorem C08_expiry_fixed_at_startup_is_born_expired (l : Life) (e : Nat) (he : e ≠ 0)
    (hup : l.initAt + e + 1000 ≤ l.signAt) : expired l.signAt (tagXFromInit l e) = true := by
  unfold tagXFromInit
  rw [if_neg he]
  show decide ((l.initAt + e) / 1000 * 1000 < l.signAt) = true
  exact decide_eq_true (by omega)

/-- the verifier at the instant `now`: go-msgauth checks the expiration first, then the signature -/
def verifyMsgAt {D S} [DecidableEq D] (C : Crypto D S) (now : Nat) (x : Option Nat) (hc bc : Canon)
    (ks : List Bytes) (hdr : List Bytes) (sigField : Bytes) (body : Bytes) (v : SigValue D S) : Bool :=
  !expired now x && verifyMsg C hc bc ks hdr sigField body v

/-- **C08, with time.** A message signed by a modifier that has been up for ANY time verifies at the
next hop at every instant within `sig_expiry` (less a second) of its signing, after any transit
through the spool and SMTP. -/
theorem C08_signed_message_verifies_within_sig_expiry {D S} [DecidableEq D] (C : Crypto D S)
    (hcorrect : ∀ d, C.vrfy d (C.sign d) = true)
    (l : Life) (e delay : Nat) (hdelay : e = 0 ∨ delay + 1000 ≤ e)
    (viaDisk : Bool) (hc bc : Canon) (ks : List Bytes) (h₀ : List Bytes) (bl : List Bytes)
    (tmpl sig : Bytes)
    (hwf : ∀ f ∈ h₀, RFCField f) (hsig : RFCField sig) (hbl : ∀ l ∈ bl, CleanLine l)
    (hnot : ∀ k ∈ ks, maKey sig ≠ lowerA k)
    (hb : trimRightCRLF (canonHeader hc (removeSig sig)) = trimRightCRLF (canonHeader hc tmpl)) :
    ∃ p hdr body' hs bs,
      maReadHeader (writeHeader h₀ ++ linesBytes bl) = some (hs, bs) ∧
      nextHop viaDisk (sig :: h₀) (linesBytes bl) = some p ∧
      maReadHeader p = some (hdr, body') ∧
      verifyMsgAt C (l.signAt + delay) (tagX l e) hc bc ks hdr sig body'
        (signMsg C hc bc ks hs tmpl bs) = true := by
  obtain ⟨p, hdr, body', hs, bs, h1, h2, h3, h4⟩ :=
    C08_signed_message_verifies_at_next_hop C hcorrect viaDisk hc bc ks h₀ bl tmpl sig hwf hsig hbl hnot hb
  refine ⟨p, hdr, body', hs, bs, h1, h2, h3, ?_⟩
  have hx : expired (l.signAt + delay) (tagX l e) = false := by
    rcases hdelay with rfl | hd
    · exact C08_no_expiry_never_expires l _
    · exact C08_not_expired_within_sig_expiry l e delay hd
  simp [verifyMsgAt, hx, h4]

/-- non-vacuity: started 2024-01-01, signing 400 days later, default `sig_expiry`; verified 4 days
23 h 59 min 59 s later: not expired; C08-7's `x=` would have expired 395 days before the signing -/
example :
    let l : Life := ⟨1704067200000, 1738627200000, 1738627200250⟩
    tagT l = 1738627200 ∧ tagX l defaultExpiry = some 1739059200 ∧
    expired (l.signAt + (defaultExpiry - 1000)) (tagX l defaultExpiry) = false ∧
    expired (l.signAt + (defaultExpiry + 1000)) (tagX l defaultExpiry) = true ∧
    tagXFromInit l defaultExpiry = some 1704499200 ∧
    expired l.signAt (tagXFromInit l defaultExpiry) = true := by decide

end SigTime

end MaddyVerif.C08
