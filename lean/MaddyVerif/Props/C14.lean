import MaddyVerif.Model.Auth
/-!
# C14 — password authentication succeeds only with the current password of the account

Quantifier: histories of ANY length over create / set-password / delete / PLAIN / LOGIN (and direct table
authentication), all user names and passwords, every hash scheme, every configuration `c : Cfg` — i.e.
every key normalisation `norm`, every `auth_map_normalize` function and every user-name map (identity,
static, regexp, idempotent or not), LOGIN enabled or not.  No hypothesis is put on `norm`, `anorm`, `amap`.

The hash functions are symbolic (`pwEq`, see Model/Auth.lean); bcrypt's key rule is explicit.
-/
namespace MaddyVerif.C14
open MaddyVerif.Auth

/-! ## the abstract reading: "the password most recently set for an account"

`current c h k` reads the history `h` **most recent operation first** and answers which password (and
scheme) is the one most recently set for account `k`, if the account exists:
a deletion of `k` ends the search with "no account"; a password change of `k` that could be hashed answers
with that password; a creation of `k` answers with its password if it was effective, i.e. the algorithm is
known, the password could be hashed and `k` did not exist before it; every other operation (operations on
other accounts, refused ones, authentications) is skipped. -/
def current (c : Cfg) : List Op → Name → Option (Scheme × Pw)
  | [], _ => none
  | .delete u :: older, k => if c.norm u = some k then none else current c older k
  | .setPw u p :: older, k =>
    if c.norm u = some k ∧ hashable .bcrypt p = true then some (.bcrypt, p) else current c older k
  | .create u p (some s) :: older, k =>
    if c.norm u = some k ∧ hashable s p = true ∧ current c older k = none then some (s, p)
    else current c older k
  | .create _ _ none :: older, k => current c older k
  | .plain _ _ _ :: older, k => current c older k
  | .login _ _ :: older, k => current c older k
  | .direct _ _ :: older, k => current c older k

/-- the account a user name supplied over SASL stands for: `auth_map_normalize`, then `auth_map`
(once), then the key form of the credentials table. -/
def resolve (c : Cfg) (u : Name) : Option Name := (usernameForAuth c u).bind c.norm

/-- a management operation that names account `k` (whatever its outcome). -/
def touches (c : Cfg) (k : Name) : Op → Bool
  | .create u _ _ => c.norm u == some k
  | .setPw u _ => c.norm u == some k
  | .delete u => c.norm u == some k
  | _ => false

/-- induction over a list from its end (histories grow at the end). -/
theorem snoc_induction {α : Type} {motive : List α → Prop} (nil : motive [])
    (append_singleton : ∀ l a, motive l → motive (l ++ [a])) (l : List α) : motive l := by
  have : ∀ r : List α, motive r.reverse := by
    intro r
    induction r with
    | nil => exact nil
    | cons a r ih => rw [List.reverse_cons]; exact append_singleton _ _ ih
  have h := this l.reverse
  rwa [List.reverse_reverse] at h

/-! ## one step on the table, pointwise -/

theorem step_delete (c : Cfg) (t : Tbl) (u k : Name) :
    (step c t (.delete u)).1 k = if c.norm u = some k then none else t k := by
  simp only [step, deleteUser]
  cases hn : c.norm u with
  | none => simp
  | some k' =>
    simp only [Tbl.del, Option.some.injEq]
    by_cases hk : k = k'
    · subst hk; simp
    · have : ¬ k' = k := fun e => hk e.symm
      simp [hk, this]

theorem step_setPw (c : Cfg) (t : Tbl) (u : Name) (p : Pw) (k : Name) :
    (step c t (.setPw u p)).1 k =
      if c.norm u = some k ∧ hashable .bcrypt p = true then some (.bcrypt, p) else t k := by
  simp only [step, setUserPassword]
  cases hn : c.norm u with
  | none => simp
  | some k' =>
    by_cases hh : hashable .bcrypt p = true
    · simp only [hh, if_true, Tbl.set, Option.some.injEq, and_true]
      by_cases hk : k = k'
      · subst hk; simp
      · have : ¬ k' = k := fun e => hk e.symm
        simp [hk, this]
    · simp [hh]

theorem step_create (c : Cfg) (t : Tbl) (u : Name) (p : Pw) (s : Scheme) (k : Name) :
    (step c t (.create u p (some s))).1 k =
      if c.norm u = some k ∧ hashable s p = true ∧ t k = none then some (s, p) else t k := by
  simp only [step, createUserHash]
  cases hn : c.norm u with
  | none => simp
  | some k' =>
    simp only [Option.some.injEq]
    cases ht : t k' with
    | some v =>
      by_cases hk : k' = k
      · subst hk; simp [ht]
      · simp [hk]
    | none =>
      by_cases hh : hashable s p = true
      · simp only [hh, if_true, Tbl.set, true_and]
        by_cases hk : k = k'
        · subst hk; simp [ht]
        · have : ¬ k' = k := fun e => hk e.symm
          simp [hk, this]
      · simp [hh]

theorem step_create_none (c : Cfg) (t : Tbl) (u : Name) (p : Pw) :
    (step c t (.create u p none)).1 = t := by
  simp [step, createUserHash]

theorem tableAfter_snoc (c : Cfg) (h : List Op) (op : Op) :
    tableAfter c (h ++ [op]) = (step c (tableAfter c h) op).1 := by
  simp [tableAfter, List.foldl_append]

/-! ## refinement: the table after a history is the abstract map -/

theorem tableAfter_reverse_eq_current (c : Cfg) (l : List Op) (k : Name) :
    tableAfter c l.reverse k = current c l k := by
  induction l generalizing k with
  | nil => simp [tableAfter, current, Tbl.empty]
  | cons op older ih =>
    rw [List.reverse_cons, tableAfter_snoc]
    cases op with
    | create u p s =>
      cases s with
      | none => rw [step_create_none]; simp [current, ih]
      | some s => rw [step_create]; simp [current, ih]
    | setPw u p => rw [step_setPw]; simp [current, ih]
    | delete u => rw [step_delete]; simp [current, ih]
    | plain a u p => simp [step, current, ih]
    | login u p => simp [step, current, ih]
    | direct u p => simp [step, current, ih]

/-- **Refinement.** After any history the credentials table holds, for every account, exactly the password
most recently set for it. -/
theorem C14_table_is_last_password_set (c : Cfg) (h : List Op) (k : Name) :
    tableAfter c h k = current c h.reverse k := by
  have := tableAfter_reverse_eq_current c h.reverse k
  rwa [List.reverse_reverse] at this

/-- The outcomes the model reports for a history are those of each operation run on the table left by the
operations before it (this is what ties `run`, which the differential harness compares with the real code,
to `tableAfter`). -/
theorem run_append_single (c : Cfg) (t : Tbl) (h : List Op) (op : Op) :
    run c t (h ++ [op]) = run c t h ++ [(step c (h.foldl (fun t op => (step c t op).1) t) op).2] := by
  induction h generalizing t with
  | nil => simp [run]
  | cons o r ih => simp [run, ih]

theorem C14_run_last (c : Cfg) (h : List Op) (op : Op) :
    run c Tbl.empty (h ++ [op]) = run c Tbl.empty h ++ [(step c (tableAfter c h) op).2] :=
  run_append_single c Tbl.empty h op

/-- what the model prints for an authentication at the end of a history is the mechanism run on the table the
history leaves (so the theorems below speak about the very outputs the differential harness compares). -/
theorem C14_run_auth_last (c : Cfg) (h : List Op) (a u : Name) (p : Pw) :
    run c Tbl.empty (h ++ [.plain a u p]) = run c Tbl.empty h ++ [.auth (plain c (tableAfter c h) a u p)] ∧
    run c Tbl.empty (h ++ [.login u p]) = run c Tbl.empty h ++ [.auth (login c (tableAfter c h) u p)] ∧
    run c Tbl.empty (h ++ [.direct u p]) = run c Tbl.empty h ++ [.direct (tableAuthPlain c (tableAfter c h) u p)] := by
  simp [C14_run_last, step]

/-! ## the symbolic hash -/

theorem pwEq_refl (s : Scheme) (p : Pw) : pwEq s p p = true := by
  cases s <;> simp [pwEq]

theorem pwEq_argon2 (p q : Pw) : pwEq .argon2 p q = true ↔ p = q := by simp [pwEq]
theorem pwEq_sha256 (p q : Pw) : pwEq .sha256 p q = true ↔ p = q := by simp [pwEq]

theorem bcryptKey_get (p : Pw) (i : Nat) (hi : i < 72) :
    (bcryptKey p)[i]? = some ((p ++ [0]).getD (i % (p.length + 1)) 0) := by
  simp [bcryptKey, cyclic, hi]

theorem bcryptKey_eq_iff (p q : Pw) :
    bcryptKey p = bcryptKey q ↔
      ∀ i, i < 72 → (p ++ [0]).getD (i % (p.length + 1)) 0 = (q ++ [0]).getD (i % (q.length + 1)) 0 := by
  constructor
  · intro h i hi
    have h1 := bcryptKey_get p i hi
    have h2 := bcryptKey_get q i hi
    rw [h] at h1
    rw [h1] at h2
    exact Option.some.inj h2
  · intro h
    apply List.ext_getElem?
    intro i
    by_cases hi : i < 72
    · rw [bcryptKey_get p i hi, bcryptKey_get q i hi, h i hi]
    · simp [bcryptKey, cyclic, hi]

theorem getD_append_zero_lt (p : Pw) (i : Nat) (hi : i < p.length) :
    (p ++ [0]).getD i 0 = p[i] := by
  simp [List.getD, List.getElem?_append_left hi, List.getElem?_eq_getElem hi]

theorem getD_append_zero_len (p : Pw) : (p ++ [0]).getD p.length 0 = 0 := by
  simp [List.getD]

/-- key material of a NUL-free password: the password itself in front, then a NUL if it is shorter than 72. -/
theorem key_at_of_lt (p : Pw) (i : Nat) (hi : i < p.length) :
    (p ++ [0]).getD (i % (p.length + 1)) 0 = p[i] := by
  rw [Nat.mod_eq_of_lt (by omega)]
  exact getD_append_zero_lt p i hi

theorem key_at_len (p : Pw) : (p ++ [0]).getD (p.length % (p.length + 1)) 0 = 0 := by
  rw [Nat.mod_eq_of_lt (by omega)]
  exact getD_append_zero_len p

/-- **bcrypt's rule, made explicit.**  For passwords without NUL bytes, against a stored password of at
most 72 bytes (longer ones cannot be stored), bcrypt accepts `p` exactly when its first 72 bytes are the
stored password. -/
theorem C14_bcrypt_rule (p q : Pw) (hp : ∀ b ∈ p, b ≠ 0) (hq : ∀ b ∈ q, b ≠ 0) (hlen : q.length ≤ 72) :
    pwEq .bcrypt p q = true ↔ p.take 72 = q := by
  simp only [pwEq, beq_iff_eq, bcryptKey_eq_iff]
  constructor
  · intro h
    -- q is not longer than p.take 72
    have hqp : q.length ≤ p.length := by
      apply Nat.le_of_not_lt
      intro hlt
      have h1 := h p.length (by omega)
      rw [key_at_len, key_at_of_lt q p.length hlt] at h1
      exact hq _ (List.getElem_mem _) h1.symm
    have hmin : (p.take 72).length = q.length := by
      rw [List.length_take]
      by_cases h72 : q.length = 72
      · omega
      · have hq72 : q.length < 72 := by omega
        -- position q.length carries the NUL of q's key, so p must end there too
        have h1 := h q.length hq72
        rw [key_at_len] at h1
        by_cases hlt : q.length < p.length
        · rw [key_at_of_lt p q.length hlt] at h1
          exact absurd h1 (hp _ (List.getElem_mem _))
        · omega
    apply List.ext_getElem hmin
    intro i h1 h2
    have hi72 : i < 72 := by rw [List.length_take] at h1; omega
    have hip : i < p.length := by rw [List.length_take] at h1; omega
    have := h i hi72
    rw [key_at_of_lt p i hip, key_at_of_lt q i h2] at this
    simp [this]
  · intro h i hi
    subst h
    by_cases hl : p.length ≤ 72
    · rw [List.take_of_length_le hl]
    · have hlen' : (p.take 72).length = 72 := by rw [List.length_take]; omega
      have hip : i < p.length := by omega
      rw [key_at_of_lt p i hip, key_at_of_lt (p.take 72) i (by omega)]
      simp

/-! ## the property, part 1: authentication succeeds exactly with the current password -/

/-- **C14 (credentials table).** After any history, `pass_table` accepts `(u, p)` exactly when `u` normalises
to an account whose most recently set password is `p` (modulo the scheme's notion of equality). -/
theorem C14_table_auth_iff_current_password (c : Cfg) (h : List Op) (u : Name) (p : Pw) :
    tableAuthPlain c (tableAfter c h) u p = true ↔
      ∃ k s q, c.norm u = some k ∧ current c h.reverse k = some (s, q) ∧ pwEq s p q = true := by
  unfold tableAuthPlain
  cases hn : c.norm u with
  | none => simp
  | some k =>
    simp only [Option.some.injEq]
    rw [C14_table_is_last_password_set]
    cases hc : current c h.reverse k with
    | none =>
      constructor
      · intro h; exact absurd h (by simp)
      · rintro ⟨k', s, q, rfl, h2, _⟩; rw [hc] at h2; exact absurd h2 (by simp)
    | some v =>
      obtain ⟨s, q⟩ := v
      constructor
      · intro hp; exact ⟨k, s, q, rfl, hc, hp⟩
      · rintro ⟨k', s', q', rfl, h2, h3⟩
        rw [hc] at h2
        cases h2
        exact h3

/-- **C14 (SASL layer).** After any history, `SASLAuth.AuthPlain` accepts `(u, p)` exactly when `p` is the
password most recently set for the account that `u` resolves to — with any `auth_map_normalize` and any
user-name map. -/
theorem C14_succeeds_iff_current_password (c : Cfg) (h : List Op) (u : Name) (p : Pw) :
    saslAuthPlain c (tableAfter c h) u p = true ↔
      ∃ k s q, resolve c u = some k ∧ current c h.reverse k = some (s, q) ∧ pwEq s p q = true := by
  unfold saslAuthPlain resolve
  cases hu : usernameForAuth c u with
  | none => simp
  | some m =>
    simp only [Option.bind_some]
    exact C14_table_auth_iff_current_password c h m p

/-- PLAIN after any history: success, and then with the supplied name as identity, exactly when the
authorization identity is absent or equal to the user name and the password is the current one. -/
theorem C14_plain_ok_iff (c : Cfg) (h : List Op) (a u i : Name) (p : Pw) :
    plain c (tableAfter c h) a u p = .ok i ↔
      (a = [] ∨ a = u) ∧ i = u ∧
      ∃ k s q, resolve c u = some k ∧ current c h.reverse k = some (s, q) ∧ pwEq s p q = true := by
  rw [← C14_succeeds_iff_current_password]
  unfold plain
  by_cases ha : a = []
  · subst ha
    cases hs : saslAuthPlain c (tableAfter c h) u p <;> simp [eq_comm]
  · by_cases hau : a = u
    · subst hau
      cases hs : saslAuthPlain c (tableAfter c h) a p <;> simp [ha, eq_comm]
    · simp [ha, hau]

/-- LOGIN after any history. -/
theorem C14_login_ok_iff (c : Cfg) (h : List Op) (u i : Name) (p : Pw) :
    login c (tableAfter c h) u p = .ok i ↔
      c.loginEnabled = true ∧ i = u ∧
      ∃ k s q, resolve c u = some k ∧ current c h.reverse k = some (s, q) ∧ pwEq s p q = true := by
  rw [← C14_succeeds_iff_current_password]
  unfold login
  cases hl : c.loginEnabled
  · simp
  · cases hs : saslAuthPlain c (tableAfter c h) u p <;> simp [eq_comm]

/-! ### the LOGIN server hands the client's responses over unchanged -/

/-- Whatever bytes the client sends as user name and password — white space, control characters, line ends included —
are what the authenticator is called with, with and without an initial response. -/
theorem C14_login_server_hands_over_the_responses (u : Name) (p : Pw) :
    loginExchange [some u, some p] = some (u, p) ∧ loginExchange [none, some u, some p] = some (u, p) := by
  simp [loginExchange, loginExchangeFrom, LoginSrv.next]

/-- LOGIN driven through the server is the LOGIN closure applied to the supplied name and password. -/
theorem C14_login_via_server (c : Cfg) (t : Tbl) (ir : Bool) (u : Name) (p : Pw) :
    loginVia c t ir u p = login c t u p := by
  have h := C14_login_server_hands_over_the_responses u p
  unfold loginVia login
  cases ir <;> simp [h.1, h.2]

/-- Hence over the wire: LOGIN succeeds exactly when the password is the current one of the account that the user
name AS SENT resolves to, and the identity is the name as sent; a name that resolves to no account (PRECIS refuses a
name with white space or control characters) never succeeds — and PLAIN gives the same verdict. -/
theorem C14_login_wire_ok_iff (c : Cfg) (h : List Op) (ir : Bool) (u i : Name) (p : Pw) :
    loginVia c (tableAfter c h) ir u p = .ok i ↔
      c.loginEnabled = true ∧ i = u ∧
      ∃ k s q, resolve c u = some k ∧ current c h.reverse k = some (s, q) ∧ pwEq s p q = true := by
  rw [C14_login_via_server, C14_login_ok_iff]

theorem C14_login_wire_unresolved_name_refused (c : Cfg) (h : List Op) (ir : Bool) (u i : Name) (p : Pw)
    (hu : resolve c u = none) : loginVia c (tableAfter c h) ir u p ≠ .ok i := by
  intro hok
  obtain ⟨_, _, k, s, q, hk, _⟩ := (C14_login_wire_ok_iff c h ir u i p).mp hok
  simp [hu] at hk

/-! ### "most recently" without recursion: frame and last-writer theorems -/

theorem current_skip (c : Cfg) (k : Name) (op : Op) (older : List Op) (h : touches c k op = false) :
    current c (op :: older) k = current c older k := by
  cases op with
  | create u p s =>
    cases s with
    | none => simp [current]
    | some s =>
      have : c.norm u ≠ some k := by simpa [touches] using h
      simp [current, this]
  | setPw u p =>
    have : c.norm u ≠ some k := by simpa [touches] using h
    simp [current, this]
  | delete u =>
    have : c.norm u ≠ some k := by simpa [touches] using h
    simp [current, this]
  | plain a u p => simp [current]
  | login u p => simp [current]
  | direct u p => simp [current]

/-- Operations that do not name account `k` (management of other accounts, refused or not, and all
authentications) do not change what is stored for `k`. -/
theorem C14_frame (c : Cfg) (k : Name) (h h' : List Op) (hf : ∀ op ∈ h', touches c k op = false) :
    tableAfter c (h ++ h') k = tableAfter c h k := by
  rw [C14_table_is_last_password_set, C14_table_is_last_password_set, List.reverse_append]
  induction h' using snoc_induction with
  | nil => simp
  | append_singleton r op ih =>
    rw [List.reverse_append, List.reverse_singleton, List.singleton_append, List.cons_append,
      current_skip c k op _ (hf op (by simp))]
    exact ih (fun o ho => hf o (by simp [ho]))

/-- **Last password change wins.** If the last operation naming account `k` is a password change to `q`
(`q` at most 72 bytes, else the change is refused), then SASL authentication with a user name resolving to
`k` succeeds exactly with `q` (bcrypt equality), whatever was set before. -/
theorem C14_last_set_wins (c : Cfg) (h h' : List Op) (u u' k : Name) (q p : Pw)
    (hk : c.norm u = some k) (hq : q.length ≤ 72)
    (hf : ∀ op ∈ h', touches c k op = false) (hr : resolve c u' = some k) :
    saslAuthPlain c (tableAfter c (h ++ .setPw u q :: h')) u' p = pwEq .bcrypt p q := by
  have e : h ++ .setPw u q :: h' = (h ++ [.setPw u q]) ++ h' := by simp
  have ht : tableAfter c (h ++ .setPw u q :: h') k = some (.bcrypt, q) := by
    rw [e, C14_frame c k _ _ hf, tableAfter_snoc, step_setPw]
    simp [hk, hashable, hq]
  unfold resolve at hr
  unfold saslAuthPlain tableAuthPlain
  cases hu : usernameForAuth c u' with
  | none => simp [hu] at hr
  | some m =>
    simp only [hu, Option.bind_some] at hr
    simp [hr, ht]

/-- **A deleted account cannot authenticate**, until it is named by a management operation again. -/
theorem C14_deleted_account_refused (c : Cfg) (h h' : List Op) (u u' k : Name) (p : Pw)
    (hk : c.norm u = some k)
    (hf : ∀ op ∈ h', touches c k op = false) (hr : resolve c u' = some k) :
    saslAuthPlain c (tableAfter c (h ++ .delete u :: h')) u' p = false := by
  have e : h ++ .delete u :: h' = (h ++ [.delete u]) ++ h' := by simp
  have ht : tableAfter c (h ++ .delete u :: h') k = none := by
    rw [e, C14_frame c k _ _ hf, tableAfter_snoc, step_delete]
    simp [hk]
  unfold resolve at hr
  unfold saslAuthPlain tableAuthPlain
  cases hu : usernameForAuth c u' with
  | none => simp [hu] at hr
  | some m =>
    simp only [hu, Option.bind_some] at hr
    simp [hr, ht]

/-- **Creation sets the password of a new account** (and only of a new one). -/
theorem C14_created_account (c : Cfg) (h h' : List Op) (u u' k : Name) (s : Scheme) (q p : Pw)
    (hk : c.norm u = some k) (hq : hashable s q = true) (hnew : tableAfter c h k = none)
    (hf : ∀ op ∈ h', touches c k op = false) (hr : resolve c u' = some k) :
    saslAuthPlain c (tableAfter c (h ++ .create u q (some s) :: h')) u' p = pwEq s p q := by
  have e : h ++ .create u q (some s) :: h' = (h ++ [.create u q (some s)]) ++ h' := by simp
  have ht : tableAfter c (h ++ .create u q (some s) :: h') k = some (s, q) := by
    rw [e, C14_frame c k _ _ hf, tableAfter_snoc, step_create]
    simp [hk, hq, hnew]
  unfold resolve at hr
  unfold saslAuthPlain tableAuthPlain
  cases hu : usernameForAuth c u' with
  | none => simp [hu] at hr
  | some m =>
    simp only [hu, Option.bind_some] at hr
    simp [hr, ht]

/-- Creating an account that exists changes nothing: the old password stays the current one. -/
theorem C14_create_existing_keeps_password (c : Cfg) (h : List Op) (u k : Name) (s : Option Scheme) (q : Pw)
    (v : Scheme × Pw) (hk : c.norm u = some k) (hex : tableAfter c h k = some v) (k' : Name) :
    tableAfter c (h ++ [.create u q s]) k' = tableAfter c h k' := by
  rw [tableAfter_snoc]
  cases s with
  | none => rw [step_create_none]
  | some s =>
    rw [step_create]
    by_cases hkk : c.norm u = some k'
    · have : k = k' := by rw [hk] at hkk; exact Option.some.inj hkk
      subst this
      simp [hex]
    · simp [hkk]

/-- An account never named by a management operation cannot authenticate. -/
theorem C14_never_created_refused (c : Cfg) (h : List Op) (u k : Name) (p : Pw)
    (hf : ∀ op ∈ h, touches c k op = false) (hr : resolve c u = some k) :
    saslAuthPlain c (tableAfter c h) u p = false := by
  have ht : tableAfter c h k = none := by
    have := C14_frame c k [] h hf
    simpa [tableAfter, Tbl.empty] using this
  unfold resolve at hr
  unfold saslAuthPlain tableAuthPlain
  cases hu : usernameForAuth c u with
  | none => simp [hu] at hr
  | some m =>
    simp only [hu, Option.bind_some] at hr
    simp [hr, ht]

/-- Every bcrypt row that a history can produce was computed from a password of at most 72 bytes; together
with `C14_bcrypt_rule`: for NUL-free passwords bcrypt rows accept exactly the passwords whose first 72 bytes
are the stored one. -/
theorem C14_stored_bcrypt_fits (c : Cfg) (l : List Op) (k : Name) (q : Pw)
    (h : current c l k = some (.bcrypt, q)) : q.length ≤ 72 := by
  induction l with
  | nil => simp [current] at h
  | cons op older ih =>
    cases op with
    | create u p s =>
      cases s with
      | none => exact ih (by simpa [current] using h)
      | some s =>
        simp only [current] at h
        split at h
        · rename_i hc
          cases h
          simpa [hashable] using hc.2.1
        · exact ih h
    | setPw u p =>
      simp only [current] at h
      split at h
      · rename_i hc
        cases h
        simpa [hashable] using hc.2
      · exact ih h
    | delete u =>
      simp only [current] at h
      split at h
      · cases h
      · exact ih h
    | plain a u p => exact ih (by simpa [current] using h)
    | login u p => exact ih (by simpa [current] using h)
    | direct u p => exact ih (by simpa [current] using h)

/-- Authentication never changes the credentials table. -/
theorem C14_auth_leaves_table (c : Cfg) (t : Tbl) (a u : Name) (p : Pw) :
    (step c t (.plain a u p)).1 = t ∧ (step c t (.login u p)).1 = t ∧ (step c t (.direct u p)).1 = t := by
  simp [step]

/-! ## the property, part 2: PLAIN and LOGIN agree; authorization identity -/

/-- **C14.** With LOGIN enabled, PLAIN (without authorization identity, or with the user name as
authorization identity) and LOGIN give the same decision and the same identity for the same credentials —
on every table, with every normalisation function and every user-name map, idempotent or not. -/
theorem C14_plain_login_agree (c : Cfg) (t : Tbl) (u : Name) (p : Pw) (hl : c.loginEnabled = true) :
    login c t u p = plain c t [] u p ∧ login c t u p = plain c t u u p := by
  unfold login plain
  cases hs : saslAuthPlain c t u p <;> simp [hl]

/-- …also over the wire: the LOGIN server adds nothing and removes nothing. -/
theorem C14_login_wire_agrees_with_plain (c : Cfg) (t : Tbl) (ir : Bool) (u : Name) (p : Pw)
    (hl : c.loginEnabled = true) : loginVia c t ir u p = plain c t [] u p := by
  rw [C14_login_via_server]
  exact (C14_plain_login_agree c t u p hl).1

/-- **C14.** An authorization identity that differs from the authenticated user name is refused. -/
theorem C14_authzid_mismatch_refused (c : Cfg) (t : Tbl) (a u : Name) (p : Pw)
    (h1 : a ≠ []) (h2 : a ≠ u) : plain c t a u p = .fail := by
  simp [plain, h1, h2]

/-- The identity reported on success is the user name the client supplied (both mechanisms). -/
theorem C14_identity_is_supplied_name (c : Cfg) (t : Tbl) (a u i : Name) (p : Pw) :
    (plain c t a u p = .ok i → i = u) ∧ (login c t u p = .ok i → i = u) := by
  constructor
  · unfold plain
    by_cases ha : a = []
    · subst ha
      cases saslAuthPlain c t u p <;> simp [eq_comm]
    · by_cases hau : a = u
      · subst hau
        cases saslAuthPlain c t a p <;> simp [ha, eq_comm]
      · simp [ha, hau]
  · unfold login
    cases c.loginEnabled
    · simp
    · cases saslAuthPlain c t u p <;> simp [eq_comm]

/-- With LOGIN disabled the mechanism is refused whatever the credentials. -/
theorem C14_login_disabled (c : Cfg) (t : Tbl) (u : Name) (p : Pw) (hl : c.loginEnabled = false) :
    login c t u p = .unsupported := by
  simp [login, hl]

/-! ## the property, part 3: no mail transaction before a successful authentication -/

def isTxCmd : Cmd → Bool
  | .mail => true | .rcpt => true | .data => true
  | _ => false

/-- a command of `pre` was an AUTH whose exchange succeeded and that was answered 235 -/
def authSucceededIn (required : Bool) (pre : List Cmd) : Prop :=
  ∃ a i b, pre = a ++ Cmd.auth (.ok i) :: b ∧ (connStep required (connAfter required a) (.auth (.ok i))).2 = 235

theorem connAfter_snoc (required : Bool) (pre : List Cmd) (x : Cmd) :
    connAfter required (pre ++ [x]) = (connStep required (connAfter required pre) x).1 := by
  simp [connAfter, List.foldl_append]

theorem authSucceededIn_mono (required : Bool) (pre : List Cmd) (x : Cmd)
    (h : authSucceededIn required pre) : authSucceededIn required (pre ++ [x]) := by
  obtain ⟨a, i, b, rfl, h2⟩ := h
  exact ⟨a, i, b ++ [x], by simp, h2⟩

/-- invariant of the connection: the go-smtp flag `didAuth`, an open transaction and a non-empty
`AuthUser` of the current session all imply an earlier successful AUTH. -/
theorem gate_invariant (pre : List Cmd) :
    let s := connAfter true pre
    (s.didAuth = true → authSucceededIn true pre) ∧
    (s.fromReceived = true → s.didAuth = true) ∧
    (s.authUser ≠ [] → s.didAuth = true) := by
  induction pre using snoc_induction with
  | nil => simp [connAfter]
  | append_singleton r x ih =>
    simp only [connAfter_snoc]
    obtain ⟨ih1, ih2, ih3⟩ := ih
    have mono := authSucceededIn_mono true r x
    cases x with
    | ehlo v =>
      simp only [connStep]
      by_cases hh : (connAfter true r).helo = true
      · simp only [hh]
        exact ⟨fun h => mono (ih1 h), ih2, ih3⟩
      · cases v with
        | none =>
          simp only [hh]
          exact ⟨fun h => mono (ih1 (by simpa using h)), by simpa using ih2, by simpa using ih3⟩
        | some code =>
          simp only [hh]
          exact ⟨fun h => mono (ih1 h), ih2, ih3⟩
    | noop => exact ⟨fun h => mono (ih1 h), ih2, ih3⟩
    | rset => exact ⟨fun h => mono (ih1 h), by simp [connStep], ih3⟩
    | mail =>
      simp only [connStep]
      by_cases hh : (connAfter true r).helo = true
      · by_cases hu : (connAfter true r).authUser = []
        · simp only [hh, hu]
          exact ⟨fun h => mono (ih1 (by simpa using h)), by simpa using ih2, fun h => absurd hu (by simpa using h)⟩
        · by_cases hr : (connAfter true r).rcpts > 0
          · simp only [hh, hu, hr]
            exact ⟨fun h => mono (ih1 (by simpa using h)), by simpa using ih2, by simpa using ih3⟩
          · simp only [hh, hu, hr]
            refine ⟨fun h => mono (ih1 (by simpa using h)), fun _ => ?_, fun _ => ?_⟩
            · simpa using ih3 hu
            · simpa using ih3 hu
      · simp only [hh]
        exact ⟨fun h => mono (ih1 (by simpa using h)), by simpa using ih2, by simpa using ih3⟩
    | rcpt =>
      simp only [connStep]
      by_cases hf : (connAfter true r).fromReceived = true
      · simp only [hf]
        exact ⟨fun h => mono (ih1 (by simpa using h)), fun _ => by simpa using ih2 hf, by simpa using ih3⟩
      · simp only [hf]
        exact ⟨fun h => mono (ih1 (by simpa using h)), by simpa using ih2, by simpa using ih3⟩
    | data =>
      simp only [connStep]
      by_cases hf : (!(connAfter true r).fromReceived || (connAfter true r).rcpts == 0) = true
      · simp only [hf]
        exact ⟨fun h => mono (ih1 (by simpa using h)), by simpa using ih2, by simpa using ih3⟩
      · simp only [hf]
        exact ⟨fun h => mono (ih1 (by simpa using h)), by simp, by simpa using ih3⟩
    | auth res =>
      simp only [connStep]
      by_cases hh : (connAfter true r).helo = true
      · by_cases hd : (connAfter true r).didAuth = true
        · simp only [hh, hd]
          exact ⟨fun _ => mono (ih1 hd), fun _ => hd, fun _ => hd⟩
        · cases res with
          | ok i =>
            simp only [hh, hd]
            refine ⟨fun _ => ⟨r, i, [], rfl, ?_⟩, fun _ => rfl, fun _ => rfl⟩
            simp [connStep, hh, hd]
          | fail =>
            simp only [hh, hd]
            exact ⟨fun h => mono (ih1 (by simpa using h)), by simpa using ih2, by simpa using ih3⟩
          | unsupported =>
            simp only [hh, hd]
            exact ⟨fun h => mono (ih1 (by simpa using h)), by simpa using ih2, by simpa using ih3⟩
      · simp only [hh]
        exact ⟨fun h => mono (ih1 (by simpa using h)), by simpa using ih2, by simpa using ih3⟩

/-- **C14.** On an endpoint that requires authentication (submission), for every command sequence of any
length: if MAIL, RCPT or DATA is accepted (reply below 400), then an AUTH command earlier on the connection
completed its exchange successfully and was answered 235. -/
theorem C14_no_mail_before_auth (pre : List Cmd) (x : Cmd) (hx : isTxCmd x = true)
    (hacc : (connStep true (connAfter true pre) x).2 < 400) : authSucceededIn true pre := by
  obtain ⟨i1, i2, i3⟩ := gate_invariant pre
  cases x with
  | mail =>
    simp only [connStep] at hacc
    by_cases hh : (connAfter true pre).helo = true
    · by_cases hu : (connAfter true pre).authUser = []
      · simp [hh, hu] at hacc
      · exact i1 (i3 hu)
    · simp [hh] at hacc
  | rcpt =>
    simp only [connStep] at hacc
    by_cases hf : (connAfter true pre).fromReceived = true
    · exact i1 (i2 hf)
    · simp [hf] at hacc
  | data =>
    simp only [connStep] at hacc
    by_cases hf : (connAfter true pre).fromReceived = true
    · exact i1 (i2 hf)
    · simp [hf] at hacc
  | ehlo v => simp [isTxCmd] at hx
  | noop => simp [isTxCmd] at hx
  | rset => simp [isTxCmd] at hx
  | auth r => simp [isTxCmd] at hx

/-- the replies the model prints are those of each command on the state left by the commands before it -/
theorem connRun_append_single (required : Bool) (s : Conn) (pre : List Cmd) (x : Cmd) :
    connRun required s (pre ++ [x]) =
      connRun required s pre ++ [(connStep required (pre.foldl (fun s c => (connStep required s c).1) s) x).2] := by
  induction pre generalizing s with
  | nil => simp [connRun]
  | cons o r ih => simp [connRun, ih]

theorem C14_connRun_last (required : Bool) (pre : List Cmd) (x : Cmd) :
    connRun required {} (pre ++ [x]) =
      connRun required {} pre ++ [(connStep required (connAfter required pre) x).2] :=
  connRun_append_single required {} pre x

/-- Conversely (the gate is not vacuous): right after EHLO and a successful AUTH with a non-empty identity,
MAIL is accepted; and on an endpoint that does not require authentication MAIL is accepted after EHLO. -/
theorem C14_mail_after_auth_accepted (i : Name) (hi : i ≠ []) :
    (connStep true (connAfter true [.ehlo none, .auth (.ok i)]) .mail).2 = 250 := by
  simp [connAfter, connStep, hi]

/-- An AUTH command that is not answered 235 — whatever the reason: wrong credentials, unsupported mechanism, no
greeting, already authenticated — leaves the connection exactly as it was: no identity is recorded for the session,
`didAuth` stays as it was.  (`Session.Auth`'s success callback is the only place that sets `AuthUser`, it runs only
when the exchange has succeeded and nothing after it can fail.) -/
theorem C14_unsuccessful_auth_changes_nothing (required : Bool) (s : Conn) (r : AuthRes)
    (h : (connStep required s (.auth r)).2 ≠ 235) : (connStep required s (.auth r)).1 = s := by
  simp only [connStep] at h ⊢
  by_cases hh : s.helo = true
  · by_cases hd : s.didAuth = true
    · simp [hh, hd]
    · cases r <;> simp_all
  · simp [hh]

/-- …so every command after it is answered exactly as if that AUTH had not been sent: in particular MAIL after a
failed AUTH on a submission endpoint is answered as before it (for any command sequence before and after). -/
theorem C14_unsuccessful_auth_is_invisible (required : Bool) (s : Conn) (r : AuthRes) (rest : List Cmd)
    (h : (connStep required s (.auth r)).2 ≠ 235) :
    connRun required s (.auth r :: rest) = (connStep required s (.auth r)).2 :: connRun required s rest := by
  simp [connRun, C14_unsuccessful_auth_changes_nothing required s r h]

/-- The early checks are consulted by the greeting that gives the connection its session and by nothing else: a
greeting they refuse is answered with their code and leaves the connection without session (AUTH and MAIL are then
answered 502), and once the connection has its session no later verdict changes any reply. -/
theorem C14_refused_greeting_opens_nothing (required : Bool) (s : Conn) (code : Nat) (hs : s.helo = false) :
    connStep required s (.ehlo (some code)) = (s, code) ∧
    (∀ r, (connStep required s (.auth r)).2 = 502) ∧ (connStep required s .mail).2 = 502 := by
  simp [connStep, hs]

theorem C14_early_verdict_only_at_first_greeting (required : Bool) (s : Conn) (v w : EarlyVerdict) (hs : s.helo = true) :
    connStep required s (.ehlo v) = connStep required s (.ehlo w) := by
  simp [connStep, hs]

/-! ## `auth_map_normalize`: a user name stands for the account management addresses by that name

`authz.NormalizeFuncs` is mirrored by `normalizeFunc` over the library primitives `P : NormPrims`; the credentials
table is keyed by `P.ucm` (`Cfg.ofConfig`).  With `auto` (the default of every endpoint) on a name that is not an
e-mail address, and with `precis_casefold`, the function applied to the supplied user name IS the key function of
the table — so, `ucm` being idempotent at that name, the login is decided by the row that `create u` /
`set-password u` / `delete u` address.  Two names with different keys (`straße` / `strasse`, `οδος` / `οδοσ`:
RFC 8265 lower-cases, it does not case-fold) are different accounts for login exactly as for management. -/

theorem C14_auto_name_is_management_account (P : NormPrims) (m : Option (Name → Option Name)) (l : Bool) (u : Name)
    (hm : m = none) (hv : P.validEmail u = false) (hid : ∀ k, P.ucm u = some k → P.ucm k = some k) :
    resolve (Cfg.ofConfig P (some .auto) m l) u = P.ucm u := by
  subst hm
  simp only [resolve, usernameForAuth, Cfg.ofConfig, normalizeFunc, normalizeAuto, hv, Option.map_some]
  cases h : P.ucm u with
  | none => simp
  | some k => simp [hid k h]

theorem C14_casefold_name_is_management_account (P : NormPrims) (l : Bool) (u : Name)
    (hid : ∀ k, P.ucm u = some k → P.ucm k = some k) :
    resolve (Cfg.ofConfig P (some .precisCasefold) none l) u = P.ucm u := by
  simp only [resolve, usernameForAuth, Cfg.ofConfig, normalizeFunc, Option.map_some]
  cases h : P.ucm u with
  | none => simp
  | some k => simp [hid k h]

/-- **C14 (default normalisation).** `auth_map_normalize auto`, no map, LOGIN enabled, a user name that is not an
e-mail address: after ANY history, LOGIN (hence PLAIN, `C14_plain_login_agree`) with `(u, p)` succeeds exactly when
`p` is the password most recently set for the account `P.ucm u` — the account the management operations naming `u`
address. -/
theorem C14_auto_login_iff_management_password (P : NormPrims) (h : List Op) (u i : Name) (p : Pw)
    (hv : P.validEmail u = false) (hid : ∀ k, P.ucm u = some k → P.ucm k = some k) :
    login (Cfg.ofConfig P (some .auto) none true) (tableAfter (Cfg.ofConfig P (some .auto) none true) h) u p = .ok i ↔
      i = u ∧ ∃ k s q, P.ucm u = some k ∧
        current (Cfg.ofConfig P (some .auto) none true) h.reverse k = some (s, q) ∧ pwEq s p q = true := by
  rw [C14_login_ok_iff, C14_auto_name_is_management_account P none true u rfl hv hid]
  simp [Cfg.ofConfig]

/-- Names with different keys are different accounts: whatever is done to the account of `u'` after the last
operation naming the account of `u` does not change the verdict of a login as `u` (default normalisation). -/
theorem C14_auto_distinct_keys_distinct_accounts (P : NormPrims) (h h' : List Op) (u k : Name) (p : Pw)
    (hv : P.validEmail u = false) (hk : P.ucm u = some k) (hid : P.ucm k = some k)
    (hf : ∀ op ∈ h', touches (Cfg.ofConfig P (some .auto) none true) k op = false) :
    login (Cfg.ofConfig P (some .auto) none true) (tableAfter (Cfg.ofConfig P (some .auto) none true) (h ++ h')) u p =
    login (Cfg.ofConfig P (some .auto) none true) (tableAfter (Cfg.ofConfig P (some .auto) none true) h) u p := by
  have hfr := C14_frame (Cfg.ofConfig P (some .auto) none true) k h h' hf
  simp only [login, saslAuthPlain, usernameForAuth, tableAuthPlain, Cfg.ofConfig, normalizeFunc, normalizeAuto, hv,
    Option.map_some] at hfr ⊢
  simp [hk, hid, hfr]

/-! ## overlapping logins (schedules of `fetch` / `finish` events interleaved with management)

A login's verdict is the sequential verdict on the table as it was when the login read its row — a point inside
the login's interval — whatever other logins (for the same or other accounts, with whatever passwords) are in
flight and however the events interleave. -/

theorem stateAfterEv_snoc (c : Cfg) (s : ConcState) (evs : List Ev) (e : Ev) :
    stateAfterEv c s (evs ++ [e]) = (evStep c (stateAfterEv c s evs) e).1 := by
  simp [stateAfterEv, List.foldl_append]

theorem stateAfterEv_append (c : Cfg) (s : ConcState) (a b : List Ev) :
    stateAfterEv c s (a ++ b) = stateAfterEv c (stateAfterEv c s a) b := by
  simp [stateAfterEv, List.foldl_append]

theorem mgmtOf_append (a b : List Ev) : mgmtOf (a ++ b) = mgmtOf a ++ mgmtOf b := by
  induction a with
  | nil => simp [mgmtOf]
  | cons e r ih => cases e <;> simp [mgmtOf, ih]

/-- The table after a schedule is the table after its atomic operations: logins in flight never write it. -/
theorem C14_overlap_table (c : Cfg) (evs : List Ev) (t : Tbl) (pend : List (Nat × Out)) :
    (stateAfterEv c ⟨t, pend⟩ evs).tbl = (mgmtOf evs).foldl (fun t op => (step c t op).1) t := by
  induction evs generalizing t pend with
  | nil => simp [stateAfterEv, mgmtOf]
  | cons e r ih =>
    have hcons : stateAfterEv c ⟨t, pend⟩ (e :: r) = stateAfterEv c (evStep c ⟨t, pend⟩ e).1 r := by
      simp [stateAfterEv]
    rw [hcons]
    cases e with
    | op o => simpa [evStep, mgmtOf] using ih (step c t o).1 pend
    | fetch i o => simpa [evStep, mgmtOf] using ih t ((i, (step c t o).2) :: pend)
    | finish i =>
      cases hg : pendGet i pend with
      | some r' => simpa [evStep, mgmtOf, hg] using ih t (pendDrop i pend)
      | none => simpa [evStep, mgmtOf, hg] using ih t pend
    | yield => simpa [evStep, mgmtOf] using ih t pend

/-- an event of login `i` -/
def ofLogin (i : Nat) : Ev → Bool
  | .fetch j _ => j == i
  | .finish j => j == i
  | _ => false

theorem pendGet_drop_ne (i j : Nat) (l : List (Nat × Out)) (h : j ≠ i) :
    pendGet i (pendDrop j l) = pendGet i l := by
  induction l with
  | nil => simp [pendDrop, pendGet]
  | cons e r ih =>
    obtain ⟨k, v⟩ := e
    by_cases hk : k = j
    · subst hk
      simp [pendDrop, pendGet, h, ih]
    · by_cases hki : k = i
      · subst hki
        have hkj : ¬ j = k := fun e => hk e.symm
        simp [pendDrop, hk, pendGet]
      · simp [pendDrop, hk, pendGet, hki, ih]

/-- events of other logins and management leave login `i`'s pending verdict alone. -/
theorem pending_kept (c : Cfg) (i : Nat) (r : Out) (mid : List Ev) (s : ConcState)
    (hp : pendGet i s.pending = some r) (hm : ∀ e ∈ mid, ofLogin i e = false) :
    pendGet i (stateAfterEv c s mid).pending = some r := by
  induction mid generalizing s with
  | nil => simpa [stateAfterEv] using hp
  | cons e rest ih =>
    have hcons : stateAfterEv c s (e :: rest) = stateAfterEv c (evStep c s e).1 rest := by simp [stateAfterEv]
    rw [hcons]
    apply ih
    · have he := hm e (by simp)
      cases e with
      | op o => simpa [evStep] using hp
      | fetch j o =>
        have hj : j ≠ i := by simpa [ofLogin] using he
        simp [evStep, pendGet, hj, hp]
      | finish j =>
        have hj : j ≠ i := by simpa [ofLogin] using he
        cases hg : pendGet j s.pending with
        | some r' => simp [evStep, hg, pendGet_drop_ne i j _ hj, hp]
        | none => simpa [evStep, hg] using hp
      | yield => simpa [evStep] using hp
    · intro e' he'; exact hm e' (by simp [he'])

theorem runEv_append_single (c : Cfg) (s : ConcState) (evs : List Ev) (e : Ev) :
    runEv c s (evs ++ [e]) = runEv c s evs ++ [(evStep c (stateAfterEv c s evs) e).2] := by
  induction evs generalizing s with
  | nil => simp [runEv, stateAfterEv]
  | cons x r ih => simp [runEv, stateAfterEv, ih]

/-- **C14 (overlapping logins).** In ANY schedule — any number of other logins in flight, for the same or other
accounts, management operations before, between and after — the verdict reported when login `i` finishes is the
sequential outcome of its request `o` on the table produced by the management operations that precede the point
where it read its row: it depends only on the login's own credentials and on a table state inside its interval. -/
theorem C14_overlap_verdict_at_fetch (c : Cfg) (pre mid : List Ev) (i : Nat) (o : Op)
    (hm : ∀ e ∈ mid, ofLogin i e = false) :
    (runEv c ⟨Tbl.empty, []⟩ (pre ++ .fetch i o :: mid ++ [.finish i])).getLast? =
      some (.out (step c (tableAfter c (mgmtOf pre)) o).2) := by
  have e1 : pre ++ .fetch i o :: mid ++ [.finish i] = (pre ++ .fetch i o :: mid) ++ [.finish i] := by simp
  rw [e1, runEv_append_single]
  simp only [List.getLast?_append, List.getLast?_singleton, Option.some_or]
  have e2 : pre ++ .fetch i o :: mid = (pre ++ [.fetch i o]) ++ mid := by simp
  have hp : pendGet i (stateAfterEv c ⟨Tbl.empty, []⟩ (pre ++ .fetch i o :: mid)).pending =
      some (step c (tableAfter c (mgmtOf pre)) o).2 := by
    rw [e2, stateAfterEv_append]
    apply pending_kept c i _ mid _ _ hm
    rw [stateAfterEv_snoc]
    have ht := C14_overlap_table c pre Tbl.empty []
    simp only [evStep, pendGet, if_true]
    rw [ht]; rfl
  simp [evStep, hp]

/-- The verdict does not depend on the other logins of the schedule at all: two schedules whose management
operations before the login's read agree give the login the same verdict. -/
theorem C14_overlap_independent_of_other_logins (c : Cfg) (pre pre' mid mid' : List Ev) (i : Nat) (o : Op)
    (hm : ∀ e ∈ mid, ofLogin i e = false) (hm' : ∀ e ∈ mid', ofLogin i e = false) (hpre : mgmtOf pre = mgmtOf pre') :
    (runEv c ⟨Tbl.empty, []⟩ (pre ++ .fetch i o :: mid ++ [.finish i])).getLast? =
    (runEv c ⟨Tbl.empty, []⟩ (pre' ++ .fetch i o :: mid' ++ [.finish i])).getLast? := by
  rw [C14_overlap_verdict_at_fetch c pre mid i o hm, C14_overlap_verdict_at_fetch c pre' mid' i o hm', hpre]

/-- **C14 (overlapping logins, the property).** An overlapping LOGIN succeeds exactly when the supplied password
is the one most recently set — by the management operations preceding the login's read of its row, a point inside
its interval — for the account the user name resolves to.  (PLAIN: the same with `C14_plain_ok_iff`.) -/
theorem C14_overlap_login_iff_current_password (c : Cfg) (pre mid : List Ev) (i : Nat) (u j : Name) (p : Pw)
    (hm : ∀ e ∈ mid, ofLogin i e = false) :
    (runEv c ⟨Tbl.empty, []⟩ (pre ++ .fetch i (.login u p) :: mid ++ [.finish i])).getLast? =
        some (.out (.auth (.ok j))) ↔
      c.loginEnabled = true ∧ j = u ∧
      ∃ k s q, resolve c u = some k ∧ current c (mgmtOf pre).reverse k = some (s, q) ∧ pwEq s p q = true := by
  rw [C14_overlap_verdict_at_fetch c pre mid i (.login u p) hm, ← C14_login_ok_iff]
  simp [step]

theorem C14_overlap_plain_iff_current_password (c : Cfg) (pre mid : List Ev) (i : Nat) (a u j : Name) (p : Pw)
    (hm : ∀ e ∈ mid, ofLogin i e = false) :
    (runEv c ⟨Tbl.empty, []⟩ (pre ++ .fetch i (.plain a u p) :: mid ++ [.finish i])).getLast? =
        some (.out (.auth (.ok j))) ↔
      (a = [] ∨ a = u) ∧ j = u ∧
      ∃ k s q, resolve c u = some k ∧ current c (mgmtOf pre).reverse k = some (s, q) ∧ pwEq s p q = true := by
  rw [C14_overlap_verdict_at_fetch c pre mid i (.plain a u p) hm, ← C14_plain_ok_iff]
  simp [step]

/-- A schedule without overlap is the sequential run: the driver prints `runEv`, the theorems above the line speak
about `run` / `tableAfter`. -/
theorem C14_runEv_atomic (c : Cfg) (t : Tbl) (pend : List (Nat × Out)) (ops : List Op) :
    runEv c ⟨t, pend⟩ (ops.map .op) = (run c t ops).map .out := by
  induction ops generalizing t with
  | nil => simp [runEv, run]
  | cons o r ih => simp [runEv, run, evStep, ih]

/-- a login that overlaps nothing (`fetch` immediately followed by `finish`) is the atomic operation. -/
theorem C14_fetch_finish_is_atomic (c : Cfg) (s : ConcState) (i : Nat) (o : Op) :
    runEv c s [.fetch i o, .finish i] = [.begun, .out (step c s.tbl o).2] := by
  simp [runEv, evStep, pendGet]


/-! ## stored hashes carry their parameters; verification reads all of them from the row

`hashVerify procs p st` derives the key again from `p` with the parameters and the salt of the row; the stored key is the
derivation from the password the row was made of.  So: verification succeeds iff the password AND the parameters as stored
reproduce the stored key — whatever the options or the environment (`procs`) of the verifying process are — and a
verifier that derived with any other parameter value would refuse the current password of the account. -/

theorem C14_verify_iff_reproduces_stored_key (procs : Nat) (p : Pw) (st : Stored) :
    hashVerify procs p st = true ↔ sameKey st.scheme ⟨st.params, st.salt, p⟩ st.keyOf = true := by
  simp [hashVerify]

theorem C14_verify_ignores_environment (procs procs' : Nat) (p : Pw) (st : Stored) :
    hashVerify procs p st = hashVerify procs' p st := rfl

theorem C14_verify_iff_password (procs : Nat) (p : Pw) (st : Stored) :
    hashVerify procs p st = pwEq st.scheme p st.pw := by
  simp [hashVerify, sameKey, Stored.keyOf]

/-- same password, same salt, another value of ANY parameter (e.g. the lane count capped at the number of CPUs): another key. -/
theorem C14_other_parameters_other_key (s : Scheme) (P P' : Params) (salt : List Nat) (p q : Pw) (h : P ≠ P') :
    sameKey s ⟨P, salt, p⟩ ⟨P', salt, q⟩ = false := by
  simp [sameKey, h]

theorem C14_same_parameters_key_iff_password (s : Scheme) (P : Params) (salt : List Nat) (p q : Pw) :
    sameKey s ⟨P, salt, p⟩ ⟨P, salt, q⟩ = pwEq s p q := by
  simp [sameKey]

/-- what `HashCompute` stores: scheme, password and salt of the call. -/
theorem hashCompute_ok (s : Scheme) (o : HashOpts) (salt : List Nat) (q : Pw) (st : Stored)
    (h : hashCompute s o salt q = .ok st) : st.scheme = s ∧ st.pw = q ∧ st.salt = salt := by
  cases s <;> simp only [hashCompute] at h
  · split at h
    · cases h
    · split at h
      · cases h
      · cases h; exact ⟨rfl, rfl, rfl⟩
  · split at h
    · cases h
    · cases h; exact ⟨rfl, rfl, rfl⟩
  · cases h; exact ⟨rfl, rfl, rfl⟩

/-- … and the parameters of the call's options (argon2: time, memory, lanes — all three). -/
theorem C14_argon2_parameters_stored (o : HashOpts) (salt : List Nat) (q : Pw) (st : Stored)
    (h : hashCompute .argon2 o salt q = .ok st) : st.params = [o.argonTime, o.argonMemory, o.argonThreads] := by
  simp only [hashCompute] at h
  split at h
  · cases h
  · cases h; rfl

theorem hashCompute_ok_hashable (s : Scheme) (o : HashOpts) (salt : List Nat) (q : Pw) (st : Stored)
    (h : hashCompute s o salt q = .ok st) : hashable s q = true := by
  cases s <;> simp only [hashCompute] at h <;> simp only [hashable]
  · split at h
    · cases h
    · simp; omega

/-- a row made by `HashCompute` with ANY accepted options (cost, time, memory, lanes) and any salt is verified, in a process
with any number of CPUs, exactly by the passwords equal (bcrypt: key-equal) to the one it was made of. -/
theorem C14_verify_computed_row (s : Scheme) (o : HashOpts) (salt : List Nat) (q p : Pw) (st : Stored) (procs : Nat)
    (h : hashCompute s o salt q = .ok st) : hashVerify procs p st = pwEq s p q := by
  obtain ⟨h1, h2, _⟩ := hashCompute_ok s o salt q st h
  rw [C14_verify_iff_password, h1, h2]

/-! ### the table with full rows refines the table of (scheme, password) rows -/

theorem CTbl.abs_set (t : CTbl) (k : Name) (st : Stored) : (t.set k st).abs = t.abs.set k st.abs := by
  funext k'; simp only [CTbl.abs, CTbl.set, Tbl.set]; split <;> simp

theorem CTbl.abs_del (t : CTbl) (k : Name) : (t.del k).abs = t.abs.del k := by
  funext k'; simp only [CTbl.abs, CTbl.del, Tbl.del]; split <;> simp

theorem ctableAuthPlain_abs (c : Cfg) (procs : Nat) (t : CTbl) (u : Name) (p : Pw) :
    ctableAuthPlain c procs t u p = tableAuthPlain c t.abs u p := by
  simp only [ctableAuthPlain, tableAuthPlain, CTbl.abs]
  cases c.norm u with
  | none => rfl
  | some k =>
    dsimp only
    cases t k with
    | none => rfl
    | some st => simp [C14_verify_iff_password, Stored.abs]

theorem csaslAuthPlain_abs (c : Cfg) (procs : Nat) (t : CTbl) (u : Name) (p : Pw) :
    csaslAuthPlain c procs t u p = saslAuthPlain c t.abs u p := by
  simp only [csaslAuthPlain, saslAuthPlain]
  cases usernameForAuth c u with
  | none => rfl
  | some m => exact ctableAuthPlain_abs c procs t m p

theorem cplain_abs (c : Cfg) (procs : Nat) (t : CTbl) (a u : Name) (p : Pw) :
    cplain c procs t a u p = plain c t.abs a u p := by
  simp only [cplain, plain, csaslAuthPlain_abs]

theorem clogin_abs (c : Cfg) (procs : Nat) (t : CTbl) (u : Name) (p : Pw) :
    clogin c procs t u p = login c t.abs u p := by
  simp only [clogin, login, csaslAuthPlain_abs]

/-- table after the abstract operations `ops`, from `t`. -/
def tableFrom (c : Cfg) (t : Tbl) (ops : List Op) : Tbl := ops.foldl (fun t op => (step c t op).1) t

theorem tableFrom_append (c : Cfg) (t : Tbl) (a b : List Op) :
    tableFrom c t (a ++ b) = tableFrom c (tableFrom c t a) b := by
  simp [tableFrom, List.foldl_append]

/-- ONE operation on full rows, any options / salt / number of CPUs: the abstraction of the new table is the abstract
table after the operations it stands for. -/
theorem C14_cstep_table (c : Cfg) (procs : Nat) (t : CTbl) (op : COp) :
    (cstep c procs t op).1.abs = tableFrom c t.abs op.forget := by
  have habs : ∀ k, t.abs k = (t k).map Stored.abs := fun _ => rfl
  cases op with
  | create u p s o salt =>
    cases s with
    | none => simp [cstep, COp.forget, tableFrom, step, createUserHash]
    | some s =>
      simp only [cstep, COp.forget]
      cases hc : hashCompute s o salt p with
      | ok st =>
        obtain ⟨h1, h2, _⟩ := hashCompute_ok s o salt p st hc
        have hh := hashCompute_ok_hashable s o salt p st hc
        simp only [tableFrom, List.foldl, step, createUserHash]
        cases hn : c.norm u with
        | none => rfl
        | some k =>
          cases hk : t k with
          | some v => simp [habs, hk]
          | none => simp [habs, hk, hh, CTbl.abs_set, Stored.abs, h1, h2]
      | err =>
        cases hn : c.norm u with
        | none => rfl
        | some k => dsimp only; cases hk : t k <;> rfl
      | panic =>
        cases hn : c.norm u with
        | none => rfl
        | some k => dsimp only; cases hk : t k <;> rfl
  | setPw u p salt =>
    simp only [cstep, COp.forget, tableFrom, List.foldl, step, setUserPassword]
    cases hn : c.norm u with
    | none => rfl
    | some k =>
      by_cases hl : p.length > 72
      · have : hashable .bcrypt p = false := by simp [hashable]; omega
        simp [hashCompute, hl, this]
      · have : hashable .bcrypt p = true := by simp [hashable]; omega
        simp [hashCompute, hl, this, bcryptEffCost, CTbl.abs_set, Stored.abs]
  | put u p s o salt =>
    simp only [cstep, COp.forget]
    cases hc : hashCompute s o salt p with
    | ok st =>
      obtain ⟨h1, h2, _⟩ := hashCompute_ok s o salt p st hc
      have hh := hashCompute_ok_hashable s o salt p st hc
      simp only [tableFrom, List.foldl, step, deleteUser, createUserHash]
      cases hn : c.norm u with
      | none => rfl
      | some k =>
        simp only [Tbl.del, hh, CTbl.abs_set, Stored.abs, h1, h2, if_true]
        funext k'
        simp only [Tbl.set]
        split
        · rfl
        · simp_all [Tbl.del, CTbl.abs]
    | err => rfl
    | panic => rfl
  | delete u =>
    simp only [cstep, COp.forget, tableFrom, List.foldl, step, deleteUser]
    cases hn : c.norm u with
    | none => rfl
    | some k => simp [CTbl.abs_del]
  | plain a u p => rfl
  | login u p => rfl
  | direct u p => rfl

/-- histories of ANY length on full rows: the credentials table, read as (scheme, password) rows, is the abstract table
after the operations the history stands for — so every theorem above about `tableAfter` holds for accounts created and
re-hashed with any parameters, verified with any number of CPUs. -/
theorem C14_params_refine (c : Cfg) (procs : Nat) (h : List COp) :
    (ctableAfter c procs h).abs = tableAfter c (h.flatMap COp.forget) := by
  have key : ∀ (h : List COp) (t : CTbl),
      (h.foldl (fun t op => (cstep c procs t op).1) t).abs = tableFrom c t.abs (h.flatMap COp.forget) := by
    intro h
    induction h with
    | nil => intro t; rfl
    | cons op rest ih =>
      intro t
      rw [List.foldl_cons, ih, C14_cstep_table, List.flatMap_cons, tableFrom_append]
  exact key h CTbl.empty

/-- the verdicts on full rows are the abstract verdicts on the abstraction of the table. -/
theorem C14_cstep_login_verdicts (c : Cfg) (procs : Nat) (t : CTbl) (a u : Name) (p : Pw) :
    (cstep c procs t (.plain a u p)).2 = .out (step c t.abs (.plain a u p)).2 ∧
    (cstep c procs t (.login u p)).2 = .out (step c t.abs (.login u p)).2 ∧
    (cstep c procs t (.direct u p)).2 = .out (step c t.abs (.direct u p)).2 := by
  simp [cstep, step, cplain_abs, clogin_abs, ctableAuthPlain_abs]

/-- any history on full rows (any options, salts, CPUs), then a login: it succeeds iff the supplied password is the one most
recently set for the account the name resolves to. -/
theorem C14_params_login_iff_current_password (c : Cfg) (procs : Nat) (h : List COp) (u : Name) (p : Pw)
    (hl : c.loginEnabled = true) :
    clogin c procs (ctableAfter c procs h) u p = .ok u ↔
      ∃ k s q, resolve c u = some k ∧ current c (h.flatMap COp.forget).reverse k = some (s, q) ∧ pwEq s p q = true := by
  rw [clogin_abs, C14_params_refine, C14_login_ok_iff]
  simp [hl]

/-- the environment of the verifying process is irrelevant for whole runs. -/
theorem C14_run_ignores_environment (c : Cfg) (procs procs' : Nat) (t : CTbl) (h : List COp) :
    crun c procs t h = crun c procs' t h := by
  induction h generalizing t with
  | nil => rfl
  | cons op rest ih =>
    have : ∀ t, cstep c procs t op = cstep c procs' t op := by
      intro t; cases op <;> rfl
    simp only [crun, this, ih]

/-- overlapping logins on full rows: an event's effect is `cstep` on the table at that moment (ties `crunEv`, which the
driver prints, to `cstep`). -/
theorem C14_cevStep_op (c : Cfg) (procs : Nat) (s : CConcState) (o : COp) :
    (cevStep c procs s (.op o)).2 = .out (cstep c procs s.tbl o).2 ∧
    (cevStep c procs s (.op o)).1.tbl = (cstep c procs s.tbl o).1 ∧
    (cevStep c procs s (.fetch i o)).1.tbl = s.tbl ∧
    crunEv c procs s [.fetch i o, .finish i] = [.begun, .out (cstep c procs s.tbl o).2] := by
  simp [cevStep, crunEv, cpendGet]

/-! ## non-vacuity -/

section Examples

/-- a configuration with a NON-idempotent static map: alice ↦ acct1 and nothing else; names are compared
verbatim. `[1]` = "alice", `[2]` = "acct1". -/
def exCfg : Cfg :=
  { norm := some, anorm := none, amap := some (fun n => if n = [1] then some [2] else none), loginEnabled := true }

def exHist : List Op := [.create [2] [7] (some .sha256), .setPw [2] [8, 8], .create [2] [9] (some .argon2)]

-- the history leaves account [2] with the password of the LAST effective change (the set-password),
-- the later create is refused
example : run exCfg Tbl.empty exHist = [.mgmt .ok, .mgmt .ok, .mgmt .errExists] := by decide
example : current exCfg exHist.reverse [2] = some (.bcrypt, [8, 8]) := by decide
-- PLAIN and LOGIN through the map: both succeed with the current password, with the supplied name as identity
example : plain exCfg (tableAfter exCfg exHist) [] [1] [8, 8] = .ok [1] := by decide
example : login exCfg (tableAfter exCfg exHist) [1] [8, 8] = .ok [1] := by decide
-- and both fail with the password that was replaced
example : plain exCfg (tableAfter exCfg exHist) [] [1] [7] = .fail := by decide
example : login exCfg (tableAfter exCfg exHist) [1] [7] = .fail := by decide
-- hypotheses of C14_last_set_wins / C14_deleted_account_refused / C14_created_account are satisfiable
example : exCfg.norm [2] = some [2] ∧ resolve exCfg [1] = some [2] ∧
    (∀ op ∈ [Op.plain [] [1] [7], Op.create [3] [1] none], touches exCfg [2] op = false) := by decide
example : tableAfter exCfg [] [2] = none ∧ hashable .sha256 [7] = true := by decide
-- hypotheses of C14_authzid_mismatch_refused
example : ([5] : Name) ≠ [] ∧ ([5] : Name) ≠ [1] := by decide
-- C14_bcrypt_rule: hypotheses satisfiable, and the rule really truncates: 72 bytes + tail is accepted
example : pwEq .bcrypt (List.replicate 72 1 ++ [2, 3]) (List.replicate 72 1) = true := by decide
example : pwEq .bcrypt (List.replicate 71 1 ++ [2, 3]) (List.replicate 71 1) = false := by decide
-- without the NUL-freeness hypothesis the rule fails (bcrypt's NUL terminator and cyclic key): "ab\0ab" ≡ "ab"
example : pwEq .bcrypt [97, 98, 0, 97, 98] [97, 98] = true := by decide
-- the empty password is an ordinary password
example : pwEq .bcrypt [] [] = true ∧ pwEq .bcrypt [1] [] = false ∧ hashable .bcrypt [] = true := by decide
-- a password of 73 bytes cannot be stored with bcrypt
example : hashable .bcrypt (List.replicate 73 1) = false := by decide
-- the LOGIN server: "alice " (trailing space) is handed over as it is, with and without initial response; a third
-- response after the exchange is an error, not a second authentication
example : loginExchange [none, some [97, 108, 105, 99, 101, 32], some [112, 13, 10]] = some ([97, 108, 105, 99, 101, 32], [112, 13, 10]) ∧
    loginExchange [some [9, 97], some []] = some ([9, 97], []) ∧ loginExchange [none, some [97]] = none := by decide
example : ((({} : LoginSrv).next (some [97])).1.next (some [112])).1.next (some [112]) =
    ({ state := .finished, username := [97] }, .unexpected) := by decide
-- gate: MAIL before AUTH is refused, after AUTH accepted; hypotheses of C14_no_mail_before_auth satisfiable
example : connRun true {} [.ehlo none, .mail, .auth .fail, .mail, .auth (.ok [1]), .mail, .rcpt, .data] =
    [250, 502, 454, 502, 235, 250, 250, 250] := by decide
example : isTxCmd .mail = true ∧ (connStep true (connAfter true [.ehlo none, .auth (.ok [1])]) .mail).2 < 400 := by decide
-- a second EHLO keeps the session (fix e064dc2): the identity stays, a second AUTH is refused;
-- MAIL inside an open transaction (a recipient was accepted) is refused (fix 621600d)
example : connRun true {} [.ehlo none, .auth (.ok [1]), .ehlo none, .mail, .auth (.ok [1]), .rcpt, .mail, .rset, .mail] =
    [250, 235, 250, 250, 503, 250, 503, 250, 250] := by decide
-- early checks: a refused greeting gives no session (AUTH, MAIL: 502), the next greeting asks again; a verdict that turns
-- bad after the session exists changes nothing; MAIL after a failed AUTH is refused like MAIL before it
example : connRun true {} [.ehlo (some 550), .auth (.ok [1]), .mail, .ehlo (some 451), .ehlo none, .ehlo (some 550), .auth .fail, .mail,
      .auth (.ok [1]), .mail] = [550, 502, 502, 451, 250, 250, 454, 502, 235, 250] := by decide
example : (connStep true (connAfter true [.ehlo none]) (.auth .fail)).2 ≠ 235 := by decide

-- auth_map_normalize auto: 'straße' [115,116,114,97,223,101] and 'strasse' are different accounts (ucm lower-cases, it
-- does not case-fold); [9,9] plays the e-mail address.  Hypotheses of C14_auto_* are satisfiable and the verdicts differ.
def exPrims : NormPrims :=
  { ucm := fun u => some (u.map (fun ch => if ch = 83 then 115 else ch)),   -- 'S' ↦ 's', ß stays
    ucp := some, emailFold := fun u => some (u ++ [64]), emailPres := some, lower := id,
    validEmail := fun u => u == [9, 9] }
def exAuto : Cfg := Cfg.ofConfig exPrims (some .auto) none true
def exPairHist : List Op := [.create [115, 223] [1] (some .sha256), .create [115, 115, 115] [2] (some .sha256)]
example : exPrims.validEmail [115, 223] = false ∧ (∀ k, exPrims.ucm [115, 223] = some k → exPrims.ucm k = some k) := by
  decide
example : login exAuto (tableAfter exAuto exPairHist) [115, 223] [1] = .ok [115, 223] ∧
    login exAuto (tableAfter exAuto exPairHist) [115, 223] [2] = .fail ∧
    login exAuto (tableAfter exAuto exPairHist) [83, 115, 115] [2] = .ok [83, 115, 115] := by decide
example : ∀ op ∈ [Op.setPw [115, 115, 115] [3]], touches exAuto [115, 223] op = false := by decide
-- overlapping logins: login 1 (old password) reads its row, the password is changed, login 2 (old password) and
-- login 3 (new password) start, login 4 uses a wrong password throughout; they finish in another order.
example : runEv exCfg ⟨Tbl.empty, []⟩
    [.op (.create [2] [7] (some .sha256)), .fetch 1 (.login [1] [7]), .fetch 4 (.login [1] [5]), .op (.setPw [2] [8]),
     .fetch 2 (.login [1] [7]), .fetch 3 (.plain [] [1] [8]), .yield, .finish 3, .finish 4, .finish 2, .finish 1, .finish 1] =
    [.out (.mgmt .ok), .begun, .begun, .out (.mgmt .ok), .begun, .begun, .begun,
     .out (.auth (.ok [1])), .out (.auth .fail), .out (.auth .fail), .out (.auth (.ok [1])), .noLogin] := by decide
example : ∀ e ∈ [Ev.fetch 4 (.login [1] [5]), .op (.setPw [2] [8]), .finish 4], ofLogin 1 e = false := by decide

-- stored hashes with parameters: an account created with argon2 (time 2, 64 KiB, 17 lanes), re-hashed elsewhere with 255 lanes,
-- verified in a process with 1 CPU / 16 CPUs: the current password is accepted, another one refused; the row says the lanes asked for
def exOpts : HashOpts := { argonTime := 2, argonMemory := 64, argonThreads := 17 }
def exCHist : List COp :=
  [.create [2] [7] (some .argon2) exOpts [0], .put [2] [7] .argon2 { exOpts with argonThreads := 255 } [1], .create [2] [9] (some .bcrypt) {} [2]]
example : (ctableAfter exCfg 1 exCHist [2]).map (·.params) = some [2, 64, 255] := by decide
example : crun exCfg 1 (ctableAfter exCfg 1 exCHist) [.login [1] [7], .login [1] [9], .direct [2] [7]] =
    [.out (.auth (.ok [1])), .out (.auth .fail), .out (.direct true)] := by decide
example : crun exCfg 16 (ctableAfter exCfg 16 exCHist) [.login [1] [7]] = crun exCfg 1 (ctableAfter exCfg 1 exCHist) [.login [1] [7]] := by
  decide
example : exCHist.flatMap COp.forget =
    [.create [2] [7] (some .argon2), .delete [2], .create [2] [7] (some .argon2), .create [2] [9] (some .bcrypt)] := by rfl
-- a verifier that derived with the lane count capped at 1 CPU would not reproduce the stored key
example : sameKey .argon2 ⟨[2, 64, 1], [0], [7]⟩ ⟨[2, 64, 17], [0], [7]⟩ = false := by decide
-- the hypotheses of C14_verify_computed_row / C14_argon2_parameters_stored are satisfiable; refused and panicking options
example : hashCompute .argon2 exOpts [0] [7] = .ok ⟨.argon2, [2, 64, 17], [0], [7]⟩ := by decide
example : hashCompute .argon2 { exOpts with argonThreads := 0 } [0] [7] = .panic ∧ hashCompute .bcrypt { bcryptCost := 32 } [0] [7] = .err ∧
    hashCompute .bcrypt { bcryptCost := 3 } [0] [7] = .ok ⟨.bcrypt, [10], [0], [7]⟩ := by decide
example : (cstep exCfg 4 CTbl.empty (.create [2] [7] (some .argon2) { exOpts with argonTime := 0 } [0])).2 = .panic := by decide

end Examples

end MaddyVerif.C14
