import MaddyVerif.Model.TimeWheel
import MaddyVerif.Generated.TimeWheelSync
import MaddyVerif.Expect.TimeWheelSync
/-!
# C12 — the time-wheel scheduler and `Queue.Close`

All theorems quantify over every schedule (`List Who` of any length), every producer list and every
semaphore capacity; `R := run v (init cap prods withClose) sched` is "the state after `sched`".

* safety: `C12_no_panic`, `C12_no_broken_mark_on_shutdown` (fixed variant); `C12_not_before_time`,
  `C12_dispatch_at_most_once`, `C12_no_entry_lost`, `C12_one_owner_per_message`,
  `C12_removed_at_most_once`, `C12_no_dispatch_after_close` (both variants);
* structure of reachable states: `C12_mutex_thr`, `C12_mutex_tick`, `C12_mutex_exclusive`,
  `C12_handshake`, `C12_producer_pcs`, `C12_counts`, `C12_waitEmpty_bound`, `C12_tick_cur_in`;
* termination: `C12_steps_decrease`, `C12_effective_steps_bounded`, `C12_close_never_blocked`,
  `C12_close_terminates`, `C12_close_pending_steps_lt`, `C12_close_waits_for_attempts`,
  `C12_close_returned_when_stuck`, `C12_all_dispatched_when_quiescent`, `C12_timer_fires`;
* whatever `openMessage` answers for a dispatched entry (`Who.tickBad`, `Pc.acquireBad`) the dispatch
  ends with `deliveryWg.Done()`: `C12_dispatch_wg_accounting`, `C12_open_failure_step`,
  `C12_release_step`, `C12_wg_zero_when_stuck` (and all of the above, which quantify over these
  schedules too);
* a delivery attempt that panics (`Who.thrPanic`; panic recovery active): `C12_target_panic_step`,
  `C12_panic_release_step` (same release as a normal end), `C12_quarantine_step`,
  `C12_target_panic_quarantined_when_stuck`, `C12_quarantine_may_follow_close`; the safety theorems
  say "only a panicking delivery …" (`C12_no_panic`, `C12_no_broken_mark_on_shutdown`) with the
  original statements as corollaries for schedules without one (`…_without_target_panic`);
* timeliness: `C12_timer_for_earliest` (once every wake-up has been received the timer the wheel
  waits for is the one of the earliest pending entry);
* concrete runs: `C12_unfixed_counterexample`, `C12_fixed_race_example`, `C12_two_producers_example`,
  `C12_open_failure_example`.

Method: `step_elim` lists the 36 shapes an enabled step can have; each invariant is proved by
`…_init` and `…_step` and transported along `run` by `run_inv`; numbers of goroutines with a
property are sums of 0/1 weights (`sum_set_eq`, `le_sum_map`).
-/
namespace MaddyVerif.C12
open MaddyVerif.TimeWheel
set_option linter.unusedSimpArgs false
set_option linter.unusedVariables false

/-- The schedule the property text describes, on one message that needs a retry. -/
def raceSched : List Who :=
  [ .thr 0 0, .thr 0 0, .thr 0 0,              -- producer: check, lock, push
    .tick, .tick, .tick, .tick,                -- tick: now, lock, scan, newtimer
    .tickUpd 0,                                -- producer's notification received
    .tickTimer, .tick, .tick, .tick,           -- timer: lock, remove, dispatch (goroutine 1)
    .thr 1 0, .thr 1 6,                        -- attempt: semaphore, temporary failure → retry in 5
    .thr 1 0,                                  -- Add: stopped check passed
    .closer,                                   -- Close: stopped := 1
    .tick, .tick, .tick,                       -- tick: now, lock, scan (empty)
    .tickStop, .tick,                          -- stop handshake
    .closer,                                   -- close(updateNotify)
    .thr 1 0, .thr 1 0, .thr 1 0,              -- Add: lock, push, send on closed channel
    .thr 1 0, .closer, .thr 1 0 ]              -- deferred release; Close returns; discardBroken

theorem C12_unfixed_counterexample :
    let s := run .unfixed (init 1 [(0, 1)] true) raceSched
    s.broken = [0] ∧ s.closer = some .done ∧ s.removed = [] := by decide

/-! ## generic list lemmas (sums of weights) -/

theorem sum_map_set {α : Type} (w : α → Nat) (b : α) :
    ∀ (l : List α) (i : Nat) (a : α), l[i]? = some a →
      ((l.set i b).map w).sum + w a = (l.map w).sum + w b := by
  intro l
  induction l with
  | nil => intro i a h; simp at h
  | cons x xs ih =>
    intro i a h
    cases i with
    | zero => simp at h; subst h; simp; omega
    | succ n =>
      simp at h
      have := ih n a h
      simp only [List.set_cons_succ, List.map_cons, List.sum_cons]; omega

theorem le_sum_map {α : Type} (w : α → Nat) :
    ∀ (l : List α) (i : Nat) (a : α), l[i]? = some a → w a ≤ (l.map w).sum := by
  intro l
  induction l with
  | nil => intro i a h; simp at h
  | cons x xs ih =>
    intro i a h
    cases i with
    | zero => simp at h; subst h; simp
    | succ n =>
      simp at h
      have := ih n a h
      simp; omega

theorem exists_of_sum_pos {α : Type} (w : α → Nat) :
    ∀ (l : List α), 0 < (l.map w).sum → ∃ (i : Nat) (a : α), l[i]? = some a ∧ 0 < w a := by
  intro l
  induction l with
  | nil => intro h; simp at h
  | cons x xs ih =>
    intro h
    by_cases hx : 0 < w x
    · exact ⟨0, x, by simp, hx⟩
    · have : 0 < (xs.map w).sum := by simp at h; omega
      obtain ⟨i, a, h1, h2⟩ := ih this
      exact ⟨i + 1, a, by simpa using h1, h2⟩

theorem sum_map_eq_zero {α : Type} (w : α → Nat) (l : List α) :
    (l.map w).sum = 0 ↔ ∀ a ∈ l, w a = 0 := by
  induction l with
  | nil => simp
  | cons x xs ih => simp [← ih]

theorem sum_map_erase {α : Type} [DecidableEq α] (w : α → Nat) (a : α) :
    ∀ (l : List α), a ∈ l → ((l.erase a).map w).sum + w a = (l.map w).sum := by
  intro l
  induction l with
  | nil => intro h; simp at h
  | cons x xs ih =>
    intro h
    by_cases hx : x = a
    · subst hx; simp; omega
    · have hm : a ∈ xs := by
        cases h with
        | head => exact absurd rfl hx
        | tail _ h => exact h
      have := ih hm
      rw [List.erase_cons_tail (by simpa using hx)]
      simp; omega

theorem mem_set_cases {α : Type} {l : List α} {i : Nat} {a b : α} (h : a ∈ l.set i b) :
    a = b ∨ a ∈ l := (List.mem_or_eq_of_mem_set h).symm

theorem closest_mem : ∀ (l : List Slot) (c : Slot), closest l = some c → c ∈ l := by
  intro l
  induction l with
  | nil => intro c h; simp [closest] at h
  | cons x xs ih =>
    intro c h
    simp only [closest] at h
    split at h
    · cases h; simp
    · rename_i y hy
      split at h
      · cases h; exact List.mem_cons_of_mem _ (ih _ hy)
      · cases h; simp

theorem closest_none : ∀ (l : List Slot), closest l = none → l = [] := by
  intro l h
  cases l with
  | nil => rfl
  | cons x xs =>
    simp only [closest] at h
    split at h
    · cases h
    · split at h <;> cases h

/-! ## case analysis of one step -/

/-- Every enabled step is one of these 36 shapes (one per synchronisation operation and outcome). -/
theorem step_elim {v : Variant} {s s' : St} {w : Who} (h : step v s w = some s')
    {motive : Who → St → Prop}
    (acquire : ∀ (i c : Nat) (t : Thread), s.thr[i]? = some t → t.pc = .acquire → s.semHeld < s.semCap →
      motive (.thr i c) { s with semHeld := s.semHeld + 1, thr := s.thr.set i { t with pc := .deliver } })
    (acquireBad : ∀ (i c : Nat) (t : Thread), s.thr[i]? = some t → t.pc = .acquireBad → s.semHeld < s.semCap →
      motive (.thr i c) { s with semHeld := s.semHeld + 1, thr := s.thr.set i { t with pc := .release } })
    (deliverDone : ∀ (i c : Nat) (t : Thread), s.thr[i]? = some t → t.pc = .deliver →
      motive (.thr i c) { s with removed := t.slot.msg :: s.removed, thr := s.thr.set i { t with pc := .release } })
    (deliverRetry : ∀ (i d : Nat) (t : Thread), s.thr[i]? = some t → t.pc = .deliver → 0 < t.slot.budget →
      motive (.thr i (d + 1)) { s with nextReq := s.nextReq + 1, thr := s.thr.set i { t with slot := { req := s.nextReq, msg := t.slot.msg, time := s.now + d, budget := t.slot.budget - 1, mem := false }, pc := .check } })
    (checkStopped : ∀ (i c : Nat) (t : Thread), s.thr[i]? = some t → t.pc = .check → s.stopped = true →
      motive (.thr i c) { s with thr := s.thr.set i { t with pc := afterAdd t.kind } })
    (checkGo : ∀ (i c : Nat) (t : Thread), s.thr[i]? = some t → t.pc = .check → s.stopped = false →
      motive (.thr i c) { s with thr := s.thr.set i { t with pc := .lock } })
    (lock : ∀ (i c : Nat) (t : Thread), s.thr[i]? = some t → t.pc = .lock → s.mutex = none →
      motive (.thr i c) { s with mutex := some (.thr i), thr := s.thr.set i { t with pc := .push } })
    (push : ∀ (i c : Nat) (t : Thread), s.thr[i]? = some t → t.pc = .push →
      motive (.thr i c) { s with mutex := none, slots := s.slots ++ [t.slot], pushed := s.pushed ++ [t.slot], thr := s.thr.set i { t with pc := .send } })
    (sendClosedUnfixed : ∀ (i c : Nat) (t : Thread), s.thr[i]? = some t → t.pc = .send → s.chanClosed = true → v = .unfixed →
      motive (.thr i c) { s with thr := s.thr.set i { t with pc := afterPanic t.kind } })
    (sendClosedFixed : ∀ (i c : Nat) (t : Thread), s.thr[i]? = some t → t.pc = .send → s.chanClosed = true → v = .fixed →
      motive (.thr i c) { s with thr := s.thr.set i { t with pc := afterAdd t.kind } })
    (releaseCrash : ∀ (i c : Nat) (t : Thread), s.thr[i]? = some t → t.pc = .release → s.semHeld ≠ 0 → s.wg = 0 →
      motive (.thr i c) { s with crashed := true, semHeld := s.semHeld - 1, thr := s.thr.set i { t with pc := .panicked } })
    (panicReleaseCrash : ∀ (i c : Nat) (t : Thread), s.thr[i]? = some t → t.pc = .panicRelease → s.semHeld ≠ 0 → s.wg = 0 →
      motive (.thr i c) { s with crashed := true, semHeld := s.semHeld - 1, thr := s.thr.set i { t with pc := .panicked } })
    (release : ∀ (i c : Nat) (t : Thread), s.thr[i]? = some t → t.pc = .release → s.semHeld ≠ 0 → s.wg ≠ 0 →
      motive (.thr i c) { s with semHeld := s.semHeld - 1, wg := s.wg - 1, thr := s.thr.set i { t with pc := .done } })
    (panicRelease : ∀ (i c : Nat) (t : Thread), s.thr[i]? = some t → t.pc = .panicRelease → s.semHeld ≠ 0 → s.wg ≠ 0 →
      motive (.thr i c) { s with semHeld := s.semHeld - 1, wg := s.wg - 1, thr := s.thr.set i { t with pc := .discard } })
    (discard : ∀ (i c : Nat) (t : Thread), s.thr[i]? = some t → t.pc = .discard →
      motive (.thr i c) { s with broken := t.slot.msg :: s.broken, thr := s.thr.set i { t with pc := .done } })
    (deliverPanic : ∀ (i : Nat) (t : Thread), s.thr[i]? = some t → t.pc = .deliver →
      motive (.thrPanic i) { s with tpanic := t.slot.msg :: s.tpanic, thr := s.thr.set i { t with pc := .panicRelease } })
    (top : s.tick = .top → motive .tick { s with tickNow := s.now, tick := .scanLock })
    (scanLock : s.tick = .scanLock → s.mutex = none → motive .tick { s with mutex := some .tick, tick := .scan })
    (scanEmpty : s.tick = .scan → closest s.slots = none → motive .tick { s with mutex := none, tick := .waitEmpty })
    (scanSome : ∀ cur, s.tick = .scan → closest s.slots = some cur →
      motive .tick { s with mutex := none, tick := .mkTimer cur })
    (mkTimer : ∀ cur, s.tick = .mkTimer cur →
      motive .tick { s with tick := .waitTimer cur (s.now + (cur.time - s.tickNow)) })
    (rmLock : ∀ cur, s.tick = .rmLock cur → s.mutex = none →
      motive .tick { s with mutex := some .tick, tick := .rm cur })
    (rm : ∀ cur, s.tick = .rm cur →
      motive .tick { s with mutex := none, slots := s.slots.erase cur, tick := .dispatch cur })
    (dispatch : ∀ cur, s.tick = .dispatch cur →
      motive .tick { s with wg := s.wg + 1, thr := s.thr ++ [{ kind := .attempt, slot := cur, pc := .acquire }], dispatched := s.dispatched ++ [(cur, s.now)], tick := .top })
    (dispatchBad : ∀ cur, s.tick = .dispatch cur → cur.mem = false →
      motive .tickBad { s with wg := s.wg + 1, thr := s.thr ++ [{ kind := .attempt, slot := cur, pc := .acquireBad }], dispatched := s.dispatched ++ [(cur, s.now)], tick := .top })
    (ack : s.tick = .ack → s.closer = some .recvAck →
      motive .tick { s with tick := .exited, closer := some .closeChan })
    (timer : ∀ cur dl, s.tick = .waitTimer cur dl → dl ≤ s.now →
      motive .tickTimer { s with tick := .rmLock cur })
    (updEmpty : ∀ (i : Nat) (t : Thread), s.thr[i]? = some t → t.pc = .send → s.tick = .waitEmpty →
      motive (.tickUpd i) { s with tick := .top, thr := s.thr.set i { t with pc := afterAdd t.kind } })
    (updKeep : ∀ (i : Nat) (t : Thread), s.thr[i]? = some t → t.pc = .send → ∀ (cur : Slot) (dl : Nat), s.tick = .waitTimer cur dl → cur.time ≤ t.slot.time →
      motive (.tickUpd i) { s with thr := s.thr.set i { t with pc := afterAdd t.kind } })
    (updReset : ∀ (i : Nat) (t : Thread), s.thr[i]? = some t → t.pc = .send → ∀ (cur : Slot) (dl : Nat), s.tick = .waitTimer cur dl → ¬ cur.time ≤ t.slot.time →
      motive (.tickUpd i) { s with tick := .top, thr := s.thr.set i { t with pc := afterAdd t.kind } })
    (stopEmpty : s.closer = some .sendStop → s.tick = .waitEmpty →
      motive .tickStop { s with tick := .ack, closer := some .recvAck })
    (stopTimer : ∀ cur dl, s.closer = some .sendStop → s.tick = .waitTimer cur dl →
      motive .tickStop { s with tick := .ack, closer := some .recvAck })
    (setStopped : s.closer = some .setStopped →
      motive .closer { s with stopped := true, closer := some .sendStop })
    (closeChan : s.closer = some .closeChan →
      motive .closer { s with chanClosed := true, closer := some .wgWait })
    (wgWait : s.closer = some .wgWait → s.wg = 0 →
      motive .closer { s with closer := some .done })
    (clock : ∀ d, motive (.clock d) { s with now := s.now + d }) :
    motive w s' := by
  cases w with
  | thr i c =>
    simp only [step, stepThr] at h
    split at h
    · cases h
    · rename_i t hget
      split at h
      · rename_i hpc
        split at h
        · cases h; exact acquire i c t hget hpc (by assumption)
        · cases h
      · rename_i hpc
        split at h
        · cases h; exact acquireBad i c t hget hpc (by assumption)
        · cases h
      · rename_i hpc
        split at h
        · cases h; exact deliverDone i 0 t hget hpc
        · split at h
          · cases h; exact deliverRetry i _ t hget hpc (by assumption)
          · cases h; exact deliverDone i _ t hget hpc
      · rename_i hpc
        split at h
        · cases h; exact checkStopped i c t hget hpc (by assumption)
        · cases h; exact checkGo i c t hget hpc (by rename_i hns; simpa using hns)
      · rename_i hpc
        split at h
        · cases h; exact lock i c t hget hpc (by assumption)
        · cases h
      · rename_i hpc
        cases h; exact push i c t hget hpc
      · rename_i hpc
        split at h
        · split at h
          · cases h; exact sendClosedUnfixed i c t hget hpc (by assumption) rfl
          · cases h; exact sendClosedFixed i c t hget hpc (by assumption) rfl
        · cases h
      · rename_i hpc
        split at h
        · cases h
        · split at h
          · cases h; exact releaseCrash i c t hget hpc (by assumption) (by assumption)
          · cases h; exact release i c t hget hpc (by assumption) (by assumption)
      · rename_i hpc
        split at h
        · cases h
        · split at h
          · cases h; exact panicReleaseCrash i c t hget hpc (by assumption) (by assumption)
          · cases h; exact panicRelease i c t hget hpc (by assumption) (by assumption)
      · rename_i hpc
        cases h; exact discard i c t hget hpc
      · cases h
      · cases h
  | thrPanic i =>
    simp only [step, stepThrPanic] at h
    split at h
    · cases h
    · rename_i t hget
      split at h
      · rename_i hpc
        cases h; exact deliverPanic i t hget hpc
      · cases h
  | closer =>
    simp only [step, stepCloser] at h
    split at h
    · cases h; exact setStopped (by assumption)
    · cases h; exact closeChan (by assumption)
    · split at h
      · cases h; exact wgWait (by assumption) (by assumption)
      · cases h
    · cases h
  | tick =>
    simp only [step, stepTick] at h
    split at h
    · cases h; exact top (by assumption)
    · split at h
      · cases h; exact scanLock (by assumption) (by assumption)
      · cases h
    · split at h
      · cases h; exact scanEmpty (by assumption) (by assumption)
      · cases h; exact scanSome _ (by assumption) (by assumption)
    · cases h; exact mkTimer _ (by assumption)
    · cases h
    · cases h
    · split at h
      · cases h; exact rmLock _ (by assumption) (by assumption)
      · cases h
    · cases h; exact rm _ (by assumption)
    · cases h; exact dispatch _ (by assumption)
    · split at h
      · cases h; exact ack (by assumption) (by assumption)
      · cases h
    · cases h
  | tickBad =>
    simp only [step, stepTickBad] at h
    split at h
    · split at h
      · cases h
      · cases h; exact dispatchBad _ (by assumption) (by rename_i hm; simpa using hm)
    · cases h
  | tickTimer =>
    simp only [step, stepTickTimer] at h
    split at h
    · split at h
      · cases h; exact timer _ _ (by assumption) (by assumption)
      · cases h
    · cases h
  | tickUpd i =>
    simp only [step, stepTickUpd] at h
    split at h
    · cases h
    · rename_i t hget
      split at h
      · rename_i hpc
        split at h
        · cases h; exact updEmpty i t hget hpc (by assumption)
        · split at h
          · cases h; exact updKeep i t hget hpc _ _ (by assumption) (by assumption)
          · cases h; exact updReset i t hget hpc _ _ (by assumption) (by assumption)
        · cases h
      · cases h
  | tickStop =>
    simp only [step, stepTickStop] at h
    split at h
    · split at h
      · cases h; exact stopEmpty (by assumption) (by assumption)
      · cases h; exact stopTimer _ _ (by assumption) (by assumption)
      · cases h
    · cases h
  | clock d =>
    simp only [step] at h
    cases h; exact clock d

/-! ## invariants along `run` -/

/-- A property that holds initially and is preserved by every enabled step holds after every
schedule (`run` skips disabled choices). -/
theorem run_inv {v : Variant} (P : St → Prop)
    (hstep : ∀ s w s', P s → step v s w = some s' → P s') :
    ∀ (sched : List Who) (s : St), P s → P (run v s sched) := by
  intro sched
  induction sched with
  | nil => intro s h; exact h
  | cons w ws ih =>
    intro s h
    simp only [run]
    cases hs : step v s w with
    | none => exact ih s h
    | some s' => exact ih s' (hstep s w s' h hs)

/-! ## 3. time -/

/-- What the tick goroutine knows about the entry it is working on. -/
def tickTimeOk (now : Nat) : TickPc → Prop
  | .waitTimer cur dl => cur.time ≤ dl
  | .rmLock cur => cur.time ≤ now
  | .rm cur => cur.time ≤ now
  | .dispatch cur => cur.time ≤ now
  | _ => True

def TimeInv (s : St) : Prop :=
  s.tickNow ≤ s.now ∧ tickTimeOk s.now s.tick ∧ ∀ d ∈ s.dispatched, d.1.time ≤ d.2

theorem timeInv_init (cap : Nat) (prods : List (Nat × Nat)) (wc : Bool) : TimeInv (init cap prods wc) := by
  simp [TimeInv, init, tickTimeOk]

theorem timeInv_step {v : Variant} {s s' : St} {w : Who} (hI : TimeInv s) (h : step v s w = some s') :
    TimeInv s' := by
  obtain ⟨h1, h2, h3⟩ := hI
  apply step_elim h (motive := fun _ s' => TimeInv s')
  case dispatch =>
    intro cur hc
    rw [hc] at h2
    refine ⟨h1, trivial, ?_⟩
    intro d hd
    simp only [List.mem_append, List.mem_singleton] at hd
    rcases hd with hd | rfl
    · exact h3 d hd
    · exact h2
  case dispatchBad =>
    intro cur hc _hmem
    rw [hc] at h2
    refine ⟨h1, trivial, ?_⟩
    intro d hd
    simp only [List.mem_append, List.mem_singleton] at hd
    rcases hd with hd | rfl
    · exact h3 d hd
    · exact h2
  case clock =>
    intro d
    refine ⟨Nat.le_trans h1 (Nat.le_add_right _ _), ?_, h3⟩
    cases hs : s.tick <;> simp_all [tickTimeOk] <;> omega
  all_goals intros
  all_goals simp_all [TimeInv, tickTimeOk]
  all_goals omega

theorem sum_set_eq {α : Type} {l : List α} {i : Nat} {a : α} (h : l[i]? = some a) (w : α → Nat) (b : α) :
    ((l.set i b).map w).sum = (l.map w).sum - w a + w b := by
  have h1 := sum_map_set w b l i a h
  have h2 := le_sum_map w l i a h
  omega

/-! ## 4. entries: the tick goroutine's current entry is in the wheel -/

/-- The entry the tick goroutine has selected but not yet removed. -/
def tickCur : TickPc → Option Slot
  | .mkTimer c => some c
  | .waitTimer c _ => some c
  | .rmLock c => some c
  | .rm c => some c
  | _ => none

def TickCurIn (s : St) : Prop := ∀ c, tickCur s.tick = some c → c ∈ s.slots

theorem tickCurIn_init (cap : Nat) (prods : List (Nat × Nat)) (wc : Bool) : TickCurIn (init cap prods wc) := by
  simp [TickCurIn, init, tickCur]

theorem tickCurIn_step {v : Variant} {s s' : St} {w : Who} (hI : TickCurIn s) (h : step v s w = some s') :
    TickCurIn s' := by
  apply step_elim h (motive := fun _ s' => TickCurIn s')
  case scanSome =>
    intro cur _ hc c hcc
    simp [tickCur] at hcc; subst hcc
    exact closest_mem _ _ hc
  all_goals intros
  all_goals simp_all [TickCurIn, tickCur]

/-! ## 4. entries: request ids are unique -/

def inAdd : Pc → Bool
  | .check => true
  | .lock => true
  | .push => true
  | _ => false

def reqW (r : Nat) (t : Thread) : Nat := if inAdd t.pc = true ∧ t.slot.req = r then 1 else 0
def reqS (r : Nat) (x : Slot) : Nat := if x.req = r then 1 else 0

/-- Every request id below `nextReq` belongs to at most one `Add` in progress or pushed entry,
ids from `nextReq` on are unused. -/
def ReqInv (s : St) : Prop :=
  ∀ r, (s.thr.map (reqW r)).sum + (s.pushed.map (reqS r)).sum ≤ if r < s.nextReq then 1 else 0

theorem reqW_mkProducers (r : Nat) : ∀ (l : List (Nat × Nat)) (k : Nat),
    ((mkProducers k l).map (reqW r)).sum = if k ≤ r ∧ r < k + l.length then 1 else 0 := by
  intro l
  induction l with
  | nil => intro k; simp [mkProducers]
  | cons x xs ih =>
    intro k
    obtain ⟨a, b⟩ := x
    simp only [mkProducers, List.map_cons, List.sum_cons, ih, reqW, inAdd, List.length_cons]
    grind

theorem reqInv_init (cap : Nat) (prods : List (Nat × Nat)) (wc : Bool) : ReqInv (init cap prods wc) := by
  intro r
  simp only [init, reqW_mkProducers, List.map_nil, List.sum_nil]
  grind

theorem reqInv_step {v : Variant} {s s' : St} {w : Who} (hI : ReqInv s) (h : step v s w = some s') :
    ReqInv s' := by
  apply step_elim h (motive := fun _ s' => ReqInv s')
  case acquire | acquireBad | deliverDone | deliverRetry | checkStopped | checkGo | lock | push | sendClosedUnfixed
      | sendClosedFixed | releaseCrash | panicReleaseCrash | release | panicRelease | discard =>
    intro i c t hget hpc
    intros
    intro r
    have := hI r
    have := le_sum_map (reqW r) _ _ _ hget
    simp only [sum_set_eq hget]
    cases hk : t.kind <;> simp_all [reqW, inAdd, reqS, afterAdd, afterPanic] <;> grind
  case updEmpty | updKeep | updReset | deliverPanic =>
    intro i t hget hpc
    intros
    intro r
    have := hI r
    have := le_sum_map (reqW r) _ _ _ hget
    simp only [sum_set_eq hget]
    cases hk : t.kind <;> simp_all [reqW, inAdd, reqS, afterAdd, afterPanic] <;> grind
  case dispatch =>
    intro cur _ r
    have := hI r
    simp_all [reqW, inAdd]
  case dispatchBad =>
    intro cur _ _hmem r
    have := hI r
    simp_all [reqW, inAdd]
  all_goals intros
  all_goals exact hI

/-! ## 4. entries: conservation -/

/-- Every entry put into the wheel is still pending, or being handed over, or dispatched. -/
def ConsInv (s : St) : Prop :=
  ∀ x, s.pushed.count x =
    s.slots.count x + (if s.tick = .dispatch x then 1 else 0) + (s.dispatched.map (·.1)).count x

theorem consInv_init (cap : Nat) (prods : List (Nat × Nat)) (wc : Bool) : ConsInv (init cap prods wc) := by
  simp [ConsInv, init]

theorem consInv_step {v : Variant} {s s' : St} {w : Who} (hT : TickCurIn s) (hI : ConsInv s)
    (h : step v s w = some s') : ConsInv s' := by
  apply step_elim h (motive := fun _ s' => ConsInv s')
  case rm =>
    intro cur hc x
    have hx := hI x
    have hmem : cur ∈ s.slots := hT cur (by simp [hc, tickCur])
    have hpos : 0 < s.slots.count cur := List.count_pos_iff.mpr hmem
    simp only [hc] at hx
    by_cases hxc : x = cur
    · subst hxc; simp_all
    · have : cur ≠ x := fun h => hxc h.symm
      simp_all [List.count_erase_of_ne hxc]
  case dispatch =>
    intro cur hc x
    have hx := hI x
    simp only [hc] at hx
    simp_all [List.count_append, List.count_singleton]
    grind
  case dispatchBad =>
    intro cur hc _hmem x
    have hx := hI x
    simp only [hc] at hx
    simp_all [List.count_append, List.count_singleton]
    grind
  all_goals intros
  all_goals intro x
  all_goals have hx := hI x
  all_goals simp_all [List.count_append]
  all_goals grind

/-! ## 5. one owner per message -/

/-- The goroutine is responsible for its message: `Add` in progress, or an attempt that has not yet
decided (terminal outcome / retry scheduled). -/
def owning : Pc → Bool
  | .acquire => true
  | .acquireBad => true
  | .deliver => true
  | .check => true
  | .lock => true
  | .push => true
  | _ => false

/-- The entry the tick goroutine has removed from the wheel and is handing over. -/
def tickHolds : TickPc → Option Slot
  | .dispatch c => some c
  | _ => none

def ownW (m : Nat) (t : Thread) : Nat := if owning t.pc = true ∧ t.slot.msg = m then 1 else 0
def msgS (m : Nat) (x : Slot) : Nat := if x.msg = m then 1 else 0
def tickOwn (m : Nat) (tk : TickPc) : Nat := ((tickHolds tk).map (msgS m)).getD 0

/-- Number of owners of message `m`: goroutines in `Add` or in an undecided attempt, pending wheel
entries, the entry being handed over by the tick goroutine, terminal outcomes. -/
def ownCount (m : Nat) (s : St) : Nat :=
  (s.thr.map (ownW m)).sum + (s.slots.map (msgS m)).sum + tickOwn m s.tick + s.removed.count m

def OwnInv (s : St) : Prop := ∀ m, ownCount m s ≤ 1

theorem ownW_mkProducers (m : Nat) : ∀ (l : List (Nat × Nat)) (k : Nat),
    ((mkProducers k l).map (ownW m)).sum = if k ≤ m ∧ m < k + l.length then 1 else 0 := by
  intro l
  induction l with
  | nil => intro k; simp [mkProducers]
  | cons x xs ih =>
    intro k
    obtain ⟨a, b⟩ := x
    simp only [mkProducers, List.map_cons, List.sum_cons, ih, ownW, owning, List.length_cons]
    grind

theorem ownInv_init (cap : Nat) (prods : List (Nat × Nat)) (wc : Bool) : OwnInv (init cap prods wc) := by
  intro m
  simp only [ownCount, init, ownW_mkProducers, List.map_nil, List.sum_nil, tickOwn, tickHolds]
  simp
  grind

theorem ownInv_step {v : Variant} {s s' : St} {w : Who} (hT : TickCurIn s) (hI : OwnInv s)
    (h : step v s w = some s') : OwnInv s' := by
  apply step_elim h (motive := fun _ s' => OwnInv s')
  case acquire | acquireBad | deliverDone | deliverRetry | checkStopped | checkGo | lock | push | sendClosedUnfixed
      | sendClosedFixed | releaseCrash | panicReleaseCrash | release | panicRelease | discard =>
    intro i c t hget hpc
    intros
    intro m
    have := hI m
    have := le_sum_map (ownW m) _ _ _ hget
    simp only [ownCount, sum_set_eq hget] at *
    cases hk : t.kind <;> simp_all [ownW, owning, msgS, afterAdd, afterPanic, tickOwn, tickHolds, List.count_cons] <;> grind
  case updEmpty | updKeep | updReset | deliverPanic =>
    intro i t hget hpc
    intros
    intro m
    have := hI m
    have := le_sum_map (ownW m) _ _ _ hget
    simp only [ownCount, sum_set_eq hget] at *
    cases hk : t.kind <;> simp_all [ownW, owning, msgS, afterAdd, afterPanic, tickOwn, tickHolds, List.count_cons] <;> grind
  case rm =>
    intro cur hc m
    have hm := hI m
    have hmem : cur ∈ s.slots := hT cur (by simp [hc, tickCur])
    have := sum_map_erase (msgS m) cur s.slots hmem
    simp only [ownCount] at *
    simp_all [tickOwn, tickHolds]
    omega
  case dispatch =>
    intro cur hc m
    have hm := hI m
    simp only [ownCount] at *
    simp_all [tickOwn, tickHolds, ownW, owning, msgS]
    omega
  case dispatchBad =>
    intro cur hc _hmem m
    have hm := hI m
    simp only [ownCount] at *
    simp_all [tickOwn, tickHolds, ownW, owning, msgS]
    omega
  all_goals intros
  all_goals intro m
  all_goals have hm := hI m
  all_goals simp only [ownCount] at *
  all_goals simp_all [tickOwn, tickHolds]
  all_goals grind

/-! ## structural invariants: kinds -/

/-- Program counters a producer (a caller of `Add` that is not an attempt goroutine) can have. -/
def prodPc : Pc → Bool
  | .check => true
  | .lock => true
  | .push => true
  | .send => true
  | .done => true
  | .panicked => true
  | _ => false

def KindInv (s : St) : Prop := ∀ t ∈ s.thr, t.kind = .producer → prodPc t.pc = true

theorem mem_mkProducers : ∀ (l : List (Nat × Nat)) (k : Nat) (t : Thread),
    t ∈ mkProducers k l → t.kind = .producer ∧ t.pc = .check := by
  intro l
  induction l with
  | nil => intro k t h; simp [mkProducers] at h
  | cons x xs ih =>
    intro k t h
    obtain ⟨a, b⟩ := x
    simp only [mkProducers, List.mem_cons] at h
    rcases h with rfl | h
    · simp
    · exact ih _ _ h

theorem kindInv_init (cap : Nat) (prods : List (Nat × Nat)) (wc : Bool) : KindInv (init cap prods wc) := by
  intro t ht _
  simp only [init] at ht
  simp [(mem_mkProducers _ _ _ ht).2, prodPc]

theorem kindInv_step {v : Variant} {s s' : St} {w : Who} (hI : KindInv s)
    (h : step v s w = some s') : KindInv s' := by
  apply step_elim h (motive := fun _ s' => KindInv s')
  case acquire | acquireBad | deliverDone | deliverRetry | checkStopped | checkGo | lock | push | sendClosedUnfixed
      | sendClosedFixed | releaseCrash | panicReleaseCrash | release | panicRelease | discard =>
    intro i c t hget hpc
    intros
    intro t' ht' hk'
    have ht := hI t (List.mem_of_getElem? hget)
    rcases mem_set_cases ht' with rfl | hm
    · simp_all [prodPc, afterAdd, afterPanic]
    · exact hI t' hm hk'
  case updEmpty | updKeep | updReset | deliverPanic =>
    intro i t hget hpc
    intros
    intro t' ht' hk'
    have ht := hI t (List.mem_of_getElem? hget)
    rcases mem_set_cases ht' with rfl | hm
    · simp_all [prodPc, afterAdd, afterPanic]
    · exact hI t' hm hk'
  case dispatch =>
    intro cur hc t' ht' hk'
    simp only [List.mem_append, List.mem_singleton] at ht'
    rcases ht' with hm | rfl
    · exact hI t' hm hk'
    · simp at hk'
  case dispatchBad =>
    intro cur hc _hmem t' ht' hk'
    simp only [List.mem_append, List.mem_singleton] at ht'
    rcases ht' with hm | rfl
    · exact hI t' hm hk'
    · simp at hk'
  all_goals intros
  all_goals exact hI

/-! ## structural invariants: WaitGroup and semaphore counters -/

/-- Attempt goroutine between `deliveryWg.Add(1)` and `deliveryWg.Done()`. -/
def wgPc : Pc → Bool
  | .acquire => true
  | .acquireBad => true
  | .deliver => true
  | .check => true
  | .lock => true
  | .push => true
  | .send => true
  | .release => true
  | .panicRelease => true
  | _ => false

/-- Attempt goroutine holding a semaphore token. -/
def semPc : Pc → Bool
  | .deliver => true
  | .check => true
  | .lock => true
  | .push => true
  | .send => true
  | .release => true
  | .panicRelease => true
  | _ => false

def wgW (t : Thread) : Nat := if t.kind = .attempt ∧ wgPc t.pc = true then 1 else 0
def semW (t : Thread) : Nat := if t.kind = .attempt ∧ semPc t.pc = true then 1 else 0

def CntInv (cap : Nat) (s : St) : Prop :=
  s.wg = (s.thr.map wgW).sum ∧ s.semHeld = (s.thr.map semW).sum ∧ s.semHeld ≤ s.semCap ∧ s.semCap = cap

theorem wgW_mkProducers : ∀ (l : List (Nat × Nat)) (k : Nat), ((mkProducers k l).map wgW).sum = 0 := by
  intro l k
  rw [sum_map_eq_zero]
  intro t ht
  simp [wgW, (mem_mkProducers _ _ _ ht).1]

theorem semW_mkProducers : ∀ (l : List (Nat × Nat)) (k : Nat), ((mkProducers k l).map semW).sum = 0 := by
  intro l k
  rw [sum_map_eq_zero]
  intro t ht
  simp [semW, (mem_mkProducers _ _ _ ht).1]

theorem cntInv_init (cap : Nat) (prods : List (Nat × Nat)) (wc : Bool) : CntInv cap (init cap prods wc) := by
  simp [CntInv, init, wgW_mkProducers, semW_mkProducers]

theorem cntInv_step {v : Variant} {cap : Nat} {s s' : St} {w : Who} (hK : KindInv s) (hI : CntInv cap s)
    (h : step v s w = some s') : CntInv cap s' := by
  obtain ⟨h1, h2, h3, h4⟩ := hI
  apply step_elim h (motive := fun _ s' => CntInv cap s')
  case acquire | acquireBad | deliverDone | deliverRetry | checkStopped | checkGo | lock | push | sendClosedUnfixed
      | sendClosedFixed | releaseCrash | panicReleaseCrash | release | panicRelease | discard =>
    intro i c t hget hpc
    intros
    have ht := hK t (List.mem_of_getElem? hget)
    have := le_sum_map wgW _ _ _ hget
    have := le_sum_map semW _ _ _ hget
    simp only [CntInv, sum_set_eq hget]
    cases hk : t.kind <;> simp_all [wgW, semW, wgPc, semPc, prodPc, afterAdd, afterPanic] <;> omega
  case updEmpty | updKeep | updReset | deliverPanic =>
    intro i t hget hpc
    intros
    have ht := hK t (List.mem_of_getElem? hget)
    have := le_sum_map wgW _ _ _ hget
    have := le_sum_map semW _ _ _ hget
    simp only [CntInv, sum_set_eq hget]
    cases hk : t.kind <;> simp_all [wgW, semW, wgPc, semPc, prodPc, afterAdd, afterPanic] <;> omega
  case dispatch =>
    intro cur hc
    simp_all [CntInv, wgW, semW, wgPc, semPc]
  case dispatchBad =>
    intro cur hc _hmem
    simp_all [CntInv, wgW, semW, wgPc, semPc]
  all_goals intros
  all_goals exact ⟨h1, h2, h3, h4⟩

/-! ## 1./2. no panic, nothing quarantined -/

def calm : Pc → Bool
  | .panicked => false
  | .panicRelease => false
  | .discard => false
  | _ => true

/-- The process did not crash, no producer panicked; the only goroutines unwinding a panic are
attempts whose delivery panicked (`Who.thrPanic`: a fault of the code the queue calls), and only
their messages were renamed to `.meta_broken`. -/
def CalmInv (s : St) : Prop :=
  s.crashed = false ∧ (∀ m ∈ s.broken, m ∈ s.tpanic) ∧
  ∀ t ∈ s.thr, calm t.pc = true ∨ (t.pc ≠ .panicked ∧ t.slot.msg ∈ s.tpanic)

theorem calmInv_init (cap : Nat) (prods : List (Nat × Nat)) (wc : Bool) : CalmInv (init cap prods wc) := by
  refine ⟨rfl, ?_, ?_⟩
  · intro m hm
    simp [init] at hm
  · intro t ht
    simp only [init] at ht
    simp [(mem_mkProducers _ _ _ ht).2, calm]

/-- Preserved by every step of the fixed variant, and by every step of either variant as long as
the channel `Close` closes is still open. -/
theorem calmInv_step {v : Variant} {cap : Nat} {s s' : St} {w : Who} (hK : KindInv s) (hC : CntInv cap s)
    (hv : v = .fixed ∨ s.chanClosed = false) (hI : CalmInv s)
    (h : step v s w = some s') : CalmInv s' := by
  obtain ⟨h1, h2, h3⟩ := hI
  obtain ⟨c1, c2, c3, c4⟩ := hC
  apply step_elim h (motive := fun _ s' => CalmInv s')
  case releaseCrash | panicReleaseCrash =>
    intro i c t hget hpc _ hwg
    exfalso
    have hk := hK t (List.mem_of_getElem? hget)
    have := le_sum_map wgW _ _ _ hget
    cases hkk : t.kind <;> simp_all [wgW, wgPc, prodPc] <;> omega
  case sendClosedUnfixed =>
    intro i c t hget hpc hcl hu
    exfalso
    rcases hv with hv | hv
    · rw [hv] at hu; cases hu
    · rw [hv] at hcl; cases hcl
  case acquire | acquireBad | deliverDone | deliverRetry | checkStopped | checkGo | lock | push
      | sendClosedFixed | release =>
    intro i c t hget hpc
    intros
    refine ⟨h1, h2, ?_⟩
    intro t' ht'
    rcases mem_set_cases ht' with rfl | hm
    · left
      cases hkk : t.kind <;> simp [calm, afterAdd, hkk]
    · exact h3 t' hm
  case panicRelease =>
    intro i c t hget hpc _ _
    have ht := h3 t (List.mem_of_getElem? hget)
    refine ⟨h1, h2, ?_⟩
    intro t' ht'
    rcases mem_set_cases ht' with rfl | hm
    · right
      rcases ht with ht | ht
      · simp [hpc, calm] at ht
      · exact ⟨by simp, ht.2⟩
    · exact h3 t' hm
  case discard =>
    intro i c t hget hpc
    have ht := h3 t (List.mem_of_getElem? hget)
    refine ⟨h1, ?_, ?_⟩
    · intro m hm
      simp only [List.mem_cons] at hm
      rcases hm with rfl | hm
      · rcases ht with ht | ht
        · simp [hpc, calm] at ht
        · exact ht.2
      · exact h2 m hm
    · intro t' ht'
      rcases mem_set_cases ht' with rfl | hm
      · left; rfl
      · exact h3 t' hm
  case deliverPanic =>
    intro i t hget hpc
    refine ⟨h1, ?_, ?_⟩
    · intro m hm
      exact List.mem_cons_of_mem _ (h2 m hm)
    · intro t' ht'
      rcases mem_set_cases ht' with rfl | hm
      · right
        exact ⟨by simp, List.mem_cons_self⟩
      · rcases h3 t' hm with h | h
        · left; exact h
        · right; exact ⟨h.1, List.mem_cons_of_mem _ h.2⟩
  case updEmpty | updKeep | updReset =>
    intro i t hget hpc
    intros
    refine ⟨h1, h2, ?_⟩
    intro t' ht'
    rcases mem_set_cases ht' with rfl | hm
    · left
      cases hkk : t.kind <;> simp [calm, afterAdd, hkk]
    · exact h3 t' hm
  case dispatch =>
    intro cur hc
    refine ⟨h1, h2, ?_⟩
    intro t' ht'
    simp only [List.mem_append, List.mem_singleton] at ht'
    rcases ht' with hm | rfl
    · exact h3 t' hm
    · left; rfl
  case dispatchBad =>
    intro cur hc _hmem
    refine ⟨h1, h2, ?_⟩
    intro t' ht'
    simp only [List.mem_append, List.mem_singleton] at ht'
    rcases ht' with hm | rfl
    · exact h3 t' hm
    · left; rfl
  all_goals intros
  all_goals exact ⟨h1, h2, h3⟩

/-! ## structural invariants: mutex and shutdown handshake -/

def tickHasMutex : TickPc → Bool
  | .scan => true
  | .rm _ => true
  | _ => false

/-- `Close` has received the tick goroutine's acknowledgement. -/
def closerAfterAck : Option ClosePc → Bool
  | some .closeChan => true
  | some .wgWait => true
  | some .done => true
  | _ => false

def closerClosed : Option ClosePc → Bool
  | some .wgWait => true
  | some .done => true
  | _ => false

def closerStopped : Option ClosePc → Bool
  | none => false
  | some .setStopped => false
  | _ => true

def CtlInv (s : St) : Prop :=
  (∀ (j : Nat) (t : Thread), s.thr[j]? = some t → (t.pc = .push ↔ s.mutex = some (.thr j)))
  ∧ (∀ j, s.mutex = some (.thr j) → j < s.thr.length)
  ∧ (s.mutex = some .tick ↔ tickHasMutex s.tick = true)
  ∧ (s.closer = some .recvAck ↔ s.tick = .ack)
  ∧ (s.tick = .exited ↔ closerAfterAck s.closer = true)
  ∧ s.chanClosed = closerClosed s.closer
  ∧ s.stopped = closerStopped s.closer

theorem ctlInv_init (cap : Nat) (prods : List (Nat × Nat)) (wc : Bool) : CtlInv (init cap prods wc) := by
  refine ⟨?_, ?_, ?_, ?_, ?_, ?_, ?_⟩
  · intro j t hj
    simp only [init] at hj
    simp [init, (mem_mkProducers _ _ _ (List.mem_of_getElem? hj)).2]
  all_goals cases wc <;> simp [init, tickHasMutex, closerAfterAck, closerClosed, closerStopped]

theorem ctlInv_step {v : Variant} {s s' : St} {w : Who} (hI : CtlInv s)
    (h : step v s w = some s') : CtlInv s' := by
  obtain ⟨m1, m2, m3, k1, k2, k3, k4⟩ := hI
  apply step_elim h (motive := fun _ s' => CtlInv s')
  case acquire | acquireBad | deliverDone | deliverRetry | checkStopped | checkGo | lock | push | sendClosedUnfixed
      | sendClosedFixed | releaseCrash | panicReleaseCrash | release | panicRelease | discard =>
    intro i c t hget hpc
    intros
    have hi := m1 i t hget
    have hil : i < s.thr.length := (List.getElem?_eq_some_iff.mp hget).1
    refine ⟨?_, ?_, ?_, ?_, ?_, ?_, ?_⟩
    · intro j u hj
      rw [List.getElem?_set] at hj
      by_cases hij : i = j
      · subst hij
        simp [hil] at hj
        subst hj
        cases hkk : t.kind <;> simp_all [afterAdd, afterPanic]
      · simp [hij] at hj
        have hj' := m1 j u hj
        simp_all
    all_goals simp_all
  case updEmpty | updKeep | updReset | deliverPanic =>
    intro i t hget hpc
    intros
    have hi := m1 i t hget
    have hil : i < s.thr.length := (List.getElem?_eq_some_iff.mp hget).1
    refine ⟨?_, ?_, ?_, ?_, ?_, ?_, ?_⟩
    · intro j u hj
      rw [List.getElem?_set] at hj
      by_cases hij : i = j
      · subst hij
        simp [hil] at hj
        subst hj
        cases hkk : t.kind <;> simp_all [afterAdd, afterPanic]
      · simp [hij] at hj
        have hj' := m1 j u hj
        simp_all
    all_goals simp_all [tickHasMutex, closerAfterAck]
  case dispatch =>
    intro cur hc
    refine ⟨?_, ?_, ?_, ?_, ?_, ?_, ?_⟩
    · intro j u hj
      rw [List.getElem?_append] at hj
      split at hj
      · exact m1 j u hj
      · rename_i hlt
        have hne : s.mutex ≠ some (Owner.thr j) := fun hm => hlt (m2 j hm)
        by_cases hj0 : j - s.thr.length = 0
        · simp [hj0] at hj; subst hj; simp [hne]
        · have : ∃ n, j - s.thr.length = n + 1 := ⟨j - s.thr.length - 1, by omega⟩
          obtain ⟨n, hn⟩ := this
          simp [hn] at hj
    · intro j hj
      have := m2 j hj
      simp; omega
    all_goals simp_all [tickHasMutex]
  case dispatchBad =>
    intro cur hc _hmem
    refine ⟨?_, ?_, ?_, ?_, ?_, ?_, ?_⟩
    · intro j u hj
      rw [List.getElem?_append] at hj
      split at hj
      · exact m1 j u hj
      · rename_i hlt
        have hne : s.mutex ≠ some (Owner.thr j) := fun hm => hlt (m2 j hm)
        by_cases hj0 : j - s.thr.length = 0
        · simp [hj0] at hj; subst hj; simp [hne]
        · have : ∃ n, j - s.thr.length = n + 1 := ⟨j - s.thr.length - 1, by omega⟩
          obtain ⟨n, hn⟩ := this
          simp [hn] at hj
    · intro j hj
      have := m2 j hj
      simp; omega
    all_goals simp_all [tickHasMutex]
  case top | scanLock | scanEmpty | scanSome | mkTimer | rmLock | rm | timer | clock =>
    intros
    refine ⟨?_, ?_, ?_, ?_, ?_, ?_, ?_⟩
    · intro j u hj; have := m1 j u hj; simp_all [tickHasMutex]
    · intro j hj; have := m2 j; simp_all
    all_goals simp_all [tickHasMutex]
  case ack | stopEmpty | stopTimer | setStopped | closeChan | wgWait =>
    intros
    refine ⟨?_, ?_, ?_, ?_, ?_, ?_, ?_⟩
    · intro j u hj; have := m1 j u hj; simp_all
    · intro j hj; have := m2 j; simp_all
    all_goals simp_all [tickHasMutex, closerAfterAck, closerClosed, closerStopped]

theorem closerClosed_afterAck (c : Option ClosePc) (h : closerClosed c = true) : closerAfterAck c = true := by
  cases c with
  | none => simp [closerClosed] at h
  | some c => cases c <;> simp_all [closerClosed, closerAfterAck]

/-! ## structural invariants: an idle tick goroutine has a pending notification for every entry -/

def sendW (t : Thread) : Nat := if t.pc = .send then 1 else 0

def WaitInv (s : St) : Prop := s.tick = .waitEmpty → s.slots.length ≤ (s.thr.map sendW).sum

theorem waitInv_init (cap : Nat) (prods : List (Nat × Nat)) (wc : Bool) : WaitInv (init cap prods wc) := by
  simp [WaitInv, init]

theorem waitInv_step {v : Variant} {s s' : St} {w : Who} (hC : CtlInv s) (hI : WaitInv s)
    (h : step v s w = some s') : WaitInv s' := by
  obtain ⟨m1, m2, m3, k1, k2, k3, k4⟩ := hC
  apply step_elim h (motive := fun _ s' => WaitInv s')
  case sendClosedUnfixed | sendClosedFixed =>
    intro i c t hget hpc hcl _ htk
    exfalso
    rw [k3] at hcl
    have := k2.mpr (closerClosed_afterAck _ hcl)
    simp only [] at htk
    rw [this] at htk
    cases htk
  case acquire | acquireBad | deliverDone | deliverRetry | checkStopped | checkGo | lock | push
      | releaseCrash | panicReleaseCrash | release | panicRelease | discard =>
    intro i c t hget hpc
    intros
    intro htk
    have := hI htk
    have := le_sum_map sendW _ _ _ hget
    simp only [sum_set_eq hget]
    cases hk : t.kind <;> simp_all [sendW, afterAdd] <;> omega
  case deliverPanic =>
    intro i t hget hpc htk
    have := hI htk
    have := le_sum_map sendW _ _ _ hget
    simp only [sum_set_eq hget]
    simp_all [sendW]
  case scanEmpty =>
    intro _ hc _
    simp [closest_none _ hc]
  case dispatch =>
    intro cur hc htk
    simp at htk
  case dispatchBad =>
    intro cur hc _hmem htk
    simp at htk
  case updKeep =>
    intro i t hget hpc cur dl hw _ htk
    simp only [] at htk
    rw [hw] at htk
    cases htk
  all_goals intros
  all_goals first | exact hI | (intro htk; simp at htk) | (intro htk; simp_all)

/-! ## all invariants of reachable states -/

/-- The invariants that hold in every reachable state of either variant. -/
structure Inv (cap : Nat) (s : St) : Prop where
  time : TimeInv s
  cur : TickCurIn s
  req : ReqInv s
  cons : ConsInv s
  own : OwnInv s
  kind : KindInv s
  cnt : CntInv cap s
  ctl : CtlInv s
  wait : WaitInv s

theorem inv_init (cap : Nat) (prods : List (Nat × Nat)) (wc : Bool) : Inv cap (init cap prods wc) :=
  ⟨timeInv_init cap prods wc, tickCurIn_init cap prods wc, reqInv_init cap prods wc, consInv_init cap prods wc,
   ownInv_init cap prods wc, kindInv_init cap prods wc, cntInv_init cap prods wc, ctlInv_init cap prods wc,
   waitInv_init cap prods wc⟩

theorem inv_step {v : Variant} {cap : Nat} {s s' : St} {w : Who} (hI : Inv cap s)
    (h : step v s w = some s') : Inv cap s' :=
  ⟨timeInv_step hI.time h, tickCurIn_step hI.cur h, reqInv_step hI.req h, consInv_step hI.cur hI.cons h,
   ownInv_step hI.cur hI.own h, kindInv_step hI.kind h, cntInv_step hI.kind hI.cnt h, ctlInv_step hI.ctl h,
   waitInv_step hI.ctl hI.wait h⟩

theorem inv_run {v : Variant} {cap : Nat} (sched : List Who) (s : St) (hI : Inv cap s) :
    Inv cap (run v s sched) :=
  run_inv (Inv cap) (fun _ _ _ hI h => inv_step hI h) sched s hI

theorem inv_reach (v : Variant) (cap : Nat) (prods : List (Nat × Nat)) (wc : Bool) (sched : List Who) :
    Inv cap (run v (init cap prods wc) sched) :=
  inv_run sched _ (inv_init cap prods wc)

/-- Fixed variant: additionally nobody panics. -/
theorem calm_reach (cap : Nat) (prods : List (Nat × Nat)) (wc : Bool) (sched : List Who) :
    CalmInv (run .fixed (init cap prods wc) sched) := by
  have := run_inv (v := .fixed) (fun s => Inv cap s ∧ CalmInv s)
    (fun s w s' hI h => ⟨inv_step hI.1 h, calmInv_step hI.1.kind hI.1.cnt (Or.inl rfl) hI.2 h⟩)
    sched _ ⟨inv_init cap prods wc, calmInv_init cap prods wc⟩
  exact this.2

/-! ## the safety theorems -/

/-- No entry of the schedule makes a delivery attempt panic. -/
def noTargetPanic : List Who → Bool
  | [] => true
  | .thrPanic _ :: _ => false
  | _ :: ws => noTargetPanic ws

theorem tpanic_step {v : Variant} {s s' : St} {w : Who} (hw : ∀ i, w ≠ .thrPanic i)
    (h : step v s w = some s') : s'.tpanic = s.tpanic := by
  revert hw
  apply step_elim h (motive := fun w s' => (∀ i, w ≠ .thrPanic i) → s'.tpanic = s.tpanic)
  case deliverPanic =>
    intro i t _ _ hw
    exact absurd rfl (hw i)
  all_goals intros
  all_goals rfl

theorem tpanic_run {v : Variant} : ∀ (sched : List Who) (s : St), noTargetPanic sched = true →
    (run v s sched).tpanic = s.tpanic := by
  intro sched
  induction sched with
  | nil => intros; rfl
  | cons w ws ih =>
    intro s hn
    have hw : ∀ i, w ≠ .thrPanic i := by
      intro i hi; subst hi; simp [noTargetPanic] at hn
    have hn' : noTargetPanic ws = true := by
      cases w <;> simp_all [noTargetPanic]
    simp only [run]
    cases hs : step v s w with
    | none => exact ih s hn'
    | some s' =>
      simp only [Option.getD_some]
      rw [ih s' hn', tpanic_step hw hs]

/-- **No panic of the queue's own making (fixed variant).**  Under every schedule, with or without a
concurrent `Close`, for any number of producers and any semaphore capacity, and whatever panics the
delivery targets throw (`Who.thrPanic`): the process never crashes with a negative WaitGroup counter,
no goroutine ever panics in `Add` (no send on a closed channel), and a goroutine that is unwinding a
panic or is about to quarantine its message is the attempt of a message whose delivery panicked. -/
theorem C12_no_panic (cap : Nat) (prods : List (Nat × Nat)) (wc : Bool) (sched : List Who) :
    (run .fixed (init cap prods wc) sched).crashed = false ∧
    ∀ t ∈ (run .fixed (init cap prods wc) sched).thr,
      t.pc ≠ .panicked ∧
      ((t.pc = .panicRelease ∨ t.pc = .discard) → t.slot.msg ∈ (run .fixed (init cap prods wc) sched).tpanic) := by
  obtain ⟨h1, _, h3⟩ := calm_reach cap prods wc sched
  refine ⟨h1, ?_⟩
  intro t ht
  have := h3 t ht
  cases hp : t.pc <;> simp_all [calm]

/-- The same when no delivery panics: nobody ever unwinds a panic (the statement of the property). -/
theorem C12_no_panic_without_target_panic (cap : Nat) (prods : List (Nat × Nat)) (wc : Bool) (sched : List Who)
    (hn : noTargetPanic sched = true) :
    (run .fixed (init cap prods wc) sched).crashed = false ∧
    ∀ t ∈ (run .fixed (init cap prods wc) sched).thr,
      t.pc ≠ .panicked ∧ t.pc ≠ .panicRelease ∧ t.pc ≠ .discard := by
  obtain ⟨h1, h2⟩ := C12_no_panic cap prods wc sched
  have htp : (run .fixed (init cap prods wc) sched).tpanic = [] := by
    rw [tpanic_run sched _ hn]; rfl
  refine ⟨h1, ?_⟩
  intro t ht
  obtain ⟨ha, hb⟩ := h2 t ht
  rw [htp] at hb
  refine ⟨ha, ?_, ?_⟩
  · intro hp; exact absurd (hb (Or.inl hp)) (by simp)
  · intro hp; exact absurd (hb (Or.inr hp)) (by simp)

/-- **Only a panicking delivery quarantines a message (fixed variant).**  Under every schedule a
message renamed to `.meta_broken` is one whose delivery attempt panicked; shutdown, enqueues and
retries in any interleaving never quarantine anything. -/
theorem C12_no_broken_mark_on_shutdown (cap : Nat) (prods : List (Nat × Nat)) (wc : Bool)
    (sched : List Who) :
    ∀ m ∈ (run .fixed (init cap prods wc) sched).broken, m ∈ (run .fixed (init cap prods wc) sched).tpanic :=
  (calm_reach cap prods wc sched).2.1

/-- Without a panicking delivery no message is renamed to `.meta_broken`. -/
theorem C12_no_broken_mark_without_target_panic (cap : Nat) (prods : List (Nat × Nat)) (wc : Bool)
    (sched : List Who) (hn : noTargetPanic sched = true) :
    (run .fixed (init cap prods wc) sched).broken = [] := by
  have h := C12_no_broken_mark_on_shutdown cap prods wc sched
  have htp : (run .fixed (init cap prods wc) sched).tpanic = [] := by
    rw [tpanic_run sched _ hn]; rfl
  rw [htp] at h
  cases hb : (run .fixed (init cap prods wc) sched).broken with
  | nil => rfl
  | cons m ms => rw [hb] at h; exact absurd (h m (List.mem_cons_self)) (by simp)

/-- **Never before its time (both variants).**  Every dispatch callback happens at a clock value
that is at least the time the entry was scheduled for. -/
theorem C12_not_before_time (v : Variant) (cap : Nat) (prods : List (Nat × Nat)) (wc : Bool)
    (sched : List Who) : ∀ d ∈ (run v (init cap prods wc) sched).dispatched, d.1.time ≤ d.2 :=
  (inv_reach v cap prods wc sched).time.2.2

theorem count_le_sum_reqS (x : Slot) (l : List Slot) : l.count x ≤ (l.map (reqS x.req)).sum := by
  induction l with
  | nil => simp
  | cons y ys ih =>
    simp only [List.count_cons, List.map_cons, List.sum_cons, reqS]
    by_cases h : y = x
    · subst h; simp; omega
    · simp [h]; omega

theorem pushed_count_le_one {cap : Nat} {s : St} (hI : Inv cap s) (x : Slot) : s.pushed.count x ≤ 1 := by
  have h1 := hI.req x.req
  have h2 := count_le_sum_reqS x s.pushed
  split at h1 <;> omega

/-- **At most one dispatch per entry (both variants).**  The dispatch log never contains the same
wheel entry twice. -/
theorem C12_dispatch_at_most_once (v : Variant) (cap : Nat) (prods : List (Nat × Nat)) (wc : Bool)
    (sched : List Who) : ((run v (init cap prods wc) sched).dispatched.map (·.1)).Nodup := by
  have hI := inv_reach v cap prods wc sched
  rw [List.nodup_iff_count]
  intro x
  have h1 := hI.cons x
  have h2 := pushed_count_le_one hI x
  omega

/-- **No entry is lost or duplicated (both variants).**  Entries are put into the wheel at most
once, and every entry ever put into the wheel is, at every later moment, either still pending in
the wheel, or being handed over by the tick goroutine, or has been dispatched — exactly one of
these (the three counts add up to its count in `pushed`, which is ≤ 1). -/
theorem C12_no_entry_lost (v : Variant) (cap : Nat) (prods : List (Nat × Nat)) (wc : Bool)
    (sched : List Who) :
    (run v (init cap prods wc) sched).pushed.Nodup ∧
    ∀ x, (run v (init cap prods wc) sched).pushed.count x =
      (run v (init cap prods wc) sched).slots.count x
      + (if (run v (init cap prods wc) sched).tick = .dispatch x then 1 else 0)
      + ((run v (init cap prods wc) sched).dispatched.map (·.1)).count x := by
  have hI := inv_reach v cap prods wc sched
  refine ⟨?_, hI.cons⟩
  rw [List.nodup_iff_count]
  exact pushed_count_le_one hI

/-- **One owner per message (both variants).**  For every message id, at every reachable state, the
number of goroutines that are adding an entry for it or running a not yet decided attempt on it,
plus its pending wheel entries, plus the entry being handed over by the tick goroutine, plus its
terminal outcomes, is at most one (see `ownCount`).  Hence never two concurrent attempts of one
message and never a dispatch after the terminal outcome. -/
theorem C12_one_owner_per_message (v : Variant) (cap : Nat) (prods : List (Nat × Nat)) (wc : Bool)
    (sched : List Who) (m : Nat) : ownCount m (run v (init cap prods wc) sched) ≤ 1 :=
  (inv_reach v cap prods wc sched).own m

/-- `ownCount` spelled out with `List.countP` / `List.count`. -/
theorem ownCount_eq (m : Nat) (s : St) :
    ownCount m s =
      s.thr.countP (fun t => owning t.pc && decide (t.slot.msg = m))
      + s.slots.countP (fun x => decide (x.msg = m))
      + ((tickHolds s.tick).map (fun c => if c.msg = m then 1 else 0)).getD 0
      + s.removed.count m := by
  have hA : ∀ l : List Thread, (l.map (ownW m)).sum = l.countP (fun t => owning t.pc && decide (t.slot.msg = m)) := by
    intro l
    induction l with
    | nil => rfl
    | cons a as ih =>
      simp only [List.map_cons, List.sum_cons, List.countP_cons, ih, ownW]
      by_cases h1 : owning a.pc = true <;> by_cases h2 : a.slot.msg = m <;> simp [h1, h2] <;> omega
  have hB : ∀ l : List Slot, (l.map (msgS m)).sum = l.countP (fun x => decide (x.msg = m)) := by
    intro l
    induction l with
    | nil => rfl
    | cons a as ih =>
      simp only [List.map_cons, List.sum_cons, List.countP_cons, ih, msgS]
      by_cases h2 : a.msg = m <;> simp [h2] <;> omega
  simp only [ownCount, hA, hB, tickOwn]
  rfl

/-- **Terminal outcome at most once (both variants).** -/
theorem C12_removed_at_most_once (v : Variant) (cap : Nat) (prods : List (Nat × Nat)) (wc : Bool)
    (sched : List Who) : (run v (init cap prods wc) sched).removed.Nodup := by
  rw [List.nodup_iff_count]
  intro m
  have := C12_one_owner_per_message v cap prods wc sched m
  simp only [ownCount] at this
  omega

/-! ## 6. nothing is dispatched after `Close` returned -/

theorem frozen_step {v : Variant} {s s' : St} {w : Who} (hc : s.closer = some .done) (ht : s.tick = .exited)
    (h : step v s w = some s') :
    s'.closer = some .done ∧ s'.tick = .exited ∧ s'.dispatched = s.dispatched := by
  apply step_elim h (motive := fun _ s' => s'.closer = some .done ∧ s'.tick = .exited ∧ s'.dispatched = s.dispatched)
  all_goals intros
  all_goals simp_all

theorem frozen_run {v : Variant} : ∀ (sched : List Who) (s : St), s.closer = some .done → s.tick = .exited →
    (run v s sched).dispatched = s.dispatched := by
  intro sched
  induction sched with
  | nil => intros; rfl
  | cons w ws ih =>
    intro s hc ht
    simp only [run]
    cases hs : step v s w with
    | none => exact ih s hc ht
    | some s' =>
      obtain ⟨h1, h2, h3⟩ := frozen_step hc ht hs
      simp only [Option.getD_some]
      rw [ih s' h1 h2, h3]

/-- **No dispatch after `Close` (both variants).**  Once `Queue.Close` has returned, the dispatch
log is frozen: whatever is scheduled afterwards, no further dispatch callback runs. -/
theorem C12_no_dispatch_after_close (v : Variant) (cap : Nat) (prods : List (Nat × Nat)) (wc : Bool)
    (sched sched' : List Who) :
    (run v (init cap prods wc) sched).closer = some .done →
    (run v (run v (init cap prods wc) sched) sched').dispatched = (run v (init cap prods wc) sched).dispatched := by
  intro hc
  have hI := (inv_reach v cap prods wc sched).ctl
  obtain ⟨_, _, _, _, k2, _, _⟩ := hI
  exact frozen_run sched' _ hc (k2.mpr (by simp [hc, closerAfterAck]))

/-! ## 7. a measure that every non-clock step decreases -/

def pcW (b : Nat) : Pc → Nat
  | .done => 0
  | .panicked => 0
  | .discard => 1
  | .release => 2
  | .panicRelease => 2
  | .send => 8
  | .push => 21 + 21 * b
  | .lock => 22 + 21 * b
  | .check => 23 + 21 * b
  | .deliver => 3 + 21 * b
  | .acquire => 4 + 21 * b
  | .acquireBad => 4 + 21 * b

def thrW (t : Thread) : Nat := pcW t.slot.budget t.pc
def slotW (x : Slot) : Nat := 12 + 21 * x.budget

def tickW : TickPc → Nat
  | .top => 8
  | .scanLock => 7
  | .scan => 6
  | .mkTimer _ => 5
  | .waitEmpty => 4
  | .waitTimer _ _ => 4
  | .rmLock _ => 3
  | .rm _ => 2
  | .dispatch cur => 1 + slotW cur
  | .ack => 1
  | .exited => 0

def closerW : Option ClosePc → Nat
  | none => 0
  | some .setStopped => 5
  | some .sendStop => 4
  | some .recvAck => 3
  | some .closeChan => 2
  | some .wgWait => 1
  | some .done => 0

/-- The remaining work: every goroutine's distance to its end (a retry budget of `b` is worth `21 b`),
plus the pending entries, plus the tick goroutine's position in its loop, plus `Close`'s. -/
def mu (s : St) : Nat :=
  (s.thr.map thrW).sum + (s.slots.map slotW).sum + tickW s.tick + closerW s.closer

/-- **Every step consumes budget (both variants).**  In a state where the tick goroutine's current
entry is in the wheel (true of all reachable states, `TickCurIn`), every enabled step other than
the passing of time strictly decreases `mu`. -/
theorem C12_steps_decrease {v : Variant} {s s' : St} {w : Who} (hT : TickCurIn s)
    (hw : ∀ d, w ≠ .clock d) (h : step v s w = some s') : mu s' < mu s := by
  revert hw
  apply step_elim h (motive := fun w s' => (∀ d, w ≠ .clock d) → mu s' < mu s)
  case acquire | acquireBad | deliverDone | deliverRetry | checkStopped | checkGo | lock | push | sendClosedUnfixed
      | sendClosedFixed | releaseCrash | panicReleaseCrash | release | panicRelease | discard =>
    intro i c t hget hpc
    intros
    have := le_sum_map thrW _ _ _ hget
    simp only [mu, sum_set_eq hget]
    cases hk : t.kind <;> simp_all [thrW, pcW, slotW, afterAdd, afterPanic] <;> omega
  case updEmpty | updKeep | updReset | deliverPanic =>
    intro i t hget hpc
    intros
    have := le_sum_map thrW _ _ _ hget
    simp only [mu, sum_set_eq hget]
    cases hk : t.kind <;> simp_all [thrW, pcW, slotW, tickW, afterAdd, afterPanic] <;> omega
  case rm =>
    intro cur hc _
    have hmem : cur ∈ s.slots := hT cur (by simp [hc, tickCur])
    have := sum_map_erase slotW cur s.slots hmem
    simp only [mu]
    simp_all [tickW]
    omega
  case clock =>
    intro d hd
    exact absurd rfl (hd d)
  all_goals intros
  all_goals simp only [mu]
  all_goals simp_all [tickW, closerW, thrW, pcW, slotW]
  all_goals omega

/-- The hypothesis `TickCurIn` of `C12_steps_decrease` cannot be dropped: in an (unreachable) state
where the tick goroutine removes an entry that is not in the wheel, `mu` goes up. -/
example : ∃ s s', step .fixed s .tick = some s' ∧ ¬ mu s' < mu s :=
  ⟨{ init 1 [] false with tick := .rm { req := 0, msg := 0, time := 0, budget := 0, mem := true } }, _, rfl, by decide⟩

theorem mu_clock (s : St) (d : Nat) : mu { s with now := s.now + d } = mu s := rfl

def isClock : Who → Bool
  | .clock _ => true
  | _ => false

/-- Number of entries of the schedule that were enabled steps other than the passing of time. -/
def effSteps (v : Variant) (s : St) : List Who → Nat
  | [] => 0
  | w :: ws =>
    match step v s w with
    | none => effSteps v s ws
    | some s' => (if isClock w then 0 else 1) + effSteps v s' ws

theorem effSteps_add_mu {v : Variant} : ∀ (sched : List Who) (s : St), TickCurIn s →
    effSteps v s sched + mu (run v s sched) ≤ mu s := by
  intro sched
  induction sched with
  | nil => intro s _; simp [effSteps, run]
  | cons w ws ih =>
    intro s hT
    simp only [effSteps, run]
    cases hs : step v s w with
    | none => exact ih s hT
    | some s' =>
      have hT' := tickCurIn_step hT hs
      have := ih s' hT'
      simp only [Option.getD_some]
      cases w with
      | clock d =>
        simp only [step] at hs
        cases hs
        simp only [isClock, ↓reduceIte]
        rw [mu_clock] at this
        omega
      | _ =>
        have := C12_steps_decrease hT (by intro d hd; cases hd) hs
        simp only [isClock]
        simp
        omega

/-- **Finitely many steps (both variants).**  Under every schedule the number of executed steps
(other than the passing of time) is at most the initial budget. -/
theorem C12_effective_steps_bounded (v : Variant) (cap : Nat) (prods : List (Nat × Nat)) (wc : Bool)
    (sched : List Who) : effSteps v (init cap prods wc) sched ≤ mu (init cap prods wc) := by
  have := effSteps_add_mu (v := v) sched _ (tickCurIn_init cap prods wc)
  omega

/-! ## 8. progress -/

/-- Some step other than the passing of time is enabled. -/
def Enabled (v : Variant) (s : St) : Prop := ∃ w, (∀ d, w ≠ .clock d) ∧ (step v s w).isSome

theorem enabled_thr {v : Variant} {s : St} (i c : Nat) (h : (step v s (.thr i c)).isSome = true) : Enabled v s :=
  ⟨.thr i c, ⟨(by intro d hd; cases hd), h⟩⟩

theorem enabled_tick {v : Variant} {s : St} (h : (step v s .tick).isSome = true) : Enabled v s :=
  ⟨.tick, ⟨(by intro d hd; cases hd), h⟩⟩

theorem enabled_closer {v : Variant} {s : St} (h : (step v s .closer).isSome = true) : Enabled v s :=
  ⟨.closer, ⟨(by intro d hd; cases hd), h⟩⟩

/-- The holder of the mutex, if it is an `Add`, can always finish its critical section. -/
theorem push_enabled {v : Variant} {s : St} {i : Nat} {t : Thread} (hget : s.thr[i]? = some t)
    (hpc : t.pc = .push) : Enabled v s :=
  enabled_thr i 0 (by simp [step, stepThr, hget, hpc])

theorem mutex_thr_enabled {v : Variant} {s : St} (hC : CtlInv s) {j : Nat} (hm : s.mutex = some (.thr j)) :
    Enabled v s := by
  obtain ⟨m1, m2, _⟩ := hC
  have hj := m2 j hm
  have hget : s.thr[j]? = some s.thr[j] := List.getElem?_eq_getElem hj
  exact push_enabled hget ((m1 j _ hget).mpr hm)

/-- Unless it waits in its `select` or has finished, the tick goroutine can move, or the goroutine
holding the mutex it waits for can. -/
theorem tick_progress {v : Variant} {s : St} (hC : CtlInv s)
    (h1 : s.tick ≠ .waitEmpty) (h2 : ∀ cur dl, s.tick ≠ .waitTimer cur dl)
    (h3 : s.tick ≠ .ack) (h4 : s.tick ≠ .exited) : Enabled v s := by
  have hC' := hC
  obtain ⟨m1, m2, m3, _⟩ := hC
  cases ht : s.tick with
  | top => exact enabled_tick (by simp [step, stepTick, ht])
  | scanLock =>
    cases hm : s.mutex with
    | none => exact enabled_tick (by simp [step, stepTick, ht, hm])
    | some o =>
      cases o with
      | tick => simp [hm, ht, tickHasMutex] at m3
      | thr j => exact mutex_thr_enabled hC' hm
  | scan =>
    refine enabled_tick ?_
    simp only [step, stepTick, ht]
    cases closest s.slots <;> simp
  | mkTimer cur => exact enabled_tick (by simp [step, stepTick, ht])
  | waitEmpty => exact absurd ht h1
  | waitTimer cur dl => exact absurd ht (h2 cur dl)
  | rmLock cur =>
    cases hm : s.mutex with
    | none => exact enabled_tick (by simp [step, stepTick, ht, hm])
    | some o =>
      cases o with
      | tick => simp [hm, ht, tickHasMutex] at m3
      | thr j => exact mutex_thr_enabled hC' hm
  | rm cur => exact enabled_tick (by simp [step, stepTick, ht])
  | dispatch cur => exact enabled_tick (by simp [step, stepTick, ht])
  | ack => exact absurd ht h3
  | exited => exact absurd ht h4

/-- A goroutine that holds a semaphore token (or a producer inside `Add`, or one that is in its
deferred function) can move, or the holder of the mutex it waits for can — provided the tick
goroutine does not hold the mutex and a blocked send has a partner. -/
theorem thread_progress {v : Variant} {cap : Nat} {s : St} (hI : Inv cap s)
    (htk : tickHasMutex s.tick = false)
    (hsend : s.chanClosed = true ∨ s.tick = .waitEmpty ∨ ∃ cur dl, s.tick = .waitTimer cur dl)
    {i : Nat} {t : Thread} (hget : s.thr[i]? = some t)
    (hpc : t.pc ≠ .done ∧ t.pc ≠ .panicked ∧ t.pc ≠ .acquire ∧ t.pc ≠ .acquireBad) : Enabled v s := by
  have hC := hI.ctl
  obtain ⟨m1, m2, m3, _⟩ := hI.ctl
  obtain ⟨c1, c2, c3, c4⟩ := hI.cnt
  have hk := hI.kind t (List.mem_of_getElem? hget)
  have hsem := le_sum_map semW _ _ _ hget
  cases hp : t.pc with
  | acquire => simp [hp] at hpc
  | acquireBad => simp [hp] at hpc
  | done => simp [hp] at hpc
  | panicked => simp [hp] at hpc
  | deliver => exact enabled_thr i 0 (by simp [step, stepThr, hget, hp])
  | check =>
    refine enabled_thr i 0 ?_
    simp only [step, stepThr, hget, hp]
    cases s.stopped <;> simp
  | lock =>
    cases hm : s.mutex with
    | none => exact enabled_thr i 0 (by simp [step, stepThr, hget, hp, hm])
    | some o =>
      cases o with
      | tick => simp [hm, htk] at m3
      | thr j => exact mutex_thr_enabled hC hm
  | push => exact push_enabled hget hp
  | send =>
    rcases hsend with hcl | hw | ⟨cur, dl, hw⟩
    · refine enabled_thr i 0 ?_
      simp only [step, stepThr, hget, hp, hcl]
      cases v <;> simp
    · exact ⟨.tickUpd i, ⟨(by intro d hd; cases hd), by simp [step, stepTickUpd, hget, hp, hw]⟩⟩
    · refine ⟨.tickUpd i, ⟨(by intro d hd; cases hd), ?_⟩⟩
      simp only [step, stepTickUpd, hget, hp, hw]
      split <;> rfl
  | release =>
    have : s.semHeld ≠ 0 := by
      cases hkk : t.kind <;> simp_all [semW, semPc, prodPc] <;> omega
    refine enabled_thr i 0 ?_
    simp only [step, stepThr, hget, hp]
    rw [if_neg this]
    split <;> rfl
  | panicRelease =>
    have : s.semHeld ≠ 0 := by
      cases hkk : t.kind <;> simp_all [semW, semPc, prodPc] <;> omega
    refine enabled_thr i 0 ?_
    simp only [step, stepThr, hget, hp]
    rw [if_neg this]
    split <;> rfl
  | discard => exact enabled_thr i 0 (by simp [step, stepThr, hget, hp])

/-- The same for a goroutine waiting for a semaphore token: if the semaphore is full one of the
holders can move. -/
theorem live_progress {v : Variant} {cap : Nat} {s : St} (hI : Inv cap s) (hcap : 0 < cap)
    (htk : tickHasMutex s.tick = false)
    (hsend : s.chanClosed = true ∨ s.tick = .waitEmpty ∨ ∃ cur dl, s.tick = .waitTimer cur dl)
    {i : Nat} {t : Thread} (hget : s.thr[i]? = some t)
    (hpc : t.pc ≠ .done ∧ t.pc ≠ .panicked) : Enabled v s := by
  by_cases ha : t.pc = .acquire ∨ t.pc = .acquireBad
  · obtain ⟨c1, c2, c3, c4⟩ := hI.cnt
    by_cases hfull : s.semHeld < s.semCap
    · rcases ha with ha | ha
      · exact enabled_thr i 0 (by simp [step, stepThr, hget, ha, hfull])
      · exact enabled_thr i 0 (by simp [step, stepThr, hget, ha, hfull])
    · have hpos : 0 < (s.thr.map semW).sum := by omega
      obtain ⟨j, u, hj, hu⟩ := exists_of_sum_pos semW _ hpos
      refine thread_progress hI htk hsend hj ?_
      cases hup : u.pc <;> simp_all [semW, semPc]
  · exact thread_progress hI htk hsend hget ⟨hpc.1, hpc.2, fun h => ha (Or.inl h), fun h => ha (Or.inr h)⟩

theorem closerSome_step {v : Variant} {s s' : St} {w : Who} (hI : s.closer ≠ none)
    (h : step v s w = some s') : s'.closer ≠ none := by
  apply step_elim h (motive := fun _ s' => s'.closer ≠ none)
  all_goals intros
  all_goals first | exact hI | simp

theorem closerSome_reach (v : Variant) (cap : Nat) (prods : List (Nat × Nat)) (sched : List Who) :
    (run v (init cap prods true) sched).closer ≠ none :=
  run_inv (fun s => s.closer ≠ none) (fun _ _ _ hI h => closerSome_step hI h) sched _ (by simp [init])

/-- In a state satisfying the invariants, with a `Close` call that has not returned yet and a
semaphore of positive capacity, some goroutine can move. -/
theorem close_progress {v : Variant} {cap : Nat} {s : St} (hI : Inv cap s) (hcap : 0 < cap)
    (hsome : s.closer ≠ none) (hnd : s.closer ≠ some .done) : Enabled v s := by
  have hC := hI.ctl
  obtain ⟨m1, m2, m3, k1, k2, k3, k4⟩ := hI.ctl
  cases hc : s.closer with
  | none => exact absurd hc hsome
  | some c =>
    cases c with
    | setStopped => exact enabled_closer (by simp [step, stepCloser, hc])
    | closeChan => exact enabled_closer (by simp [step, stepCloser, hc])
    | done => exact absurd hc hnd
    | recvAck =>
      have ht := k1.mp hc
      exact enabled_tick (by simp [step, stepTick, ht, hc])
    | sendStop =>
      by_cases h1 : s.tick = .waitEmpty
      · exact ⟨.tickStop, ⟨(by intro d hd; cases hd), by simp [step, stepTickStop, hc, h1]⟩⟩
      by_cases h2 : ∃ cur dl, s.tick = .waitTimer cur dl
      · obtain ⟨cur, dl, h2⟩ := h2
        exact ⟨.tickStop, ⟨(by intro d hd; cases hd), by simp [step, stepTickStop, hc, h2]⟩⟩
      by_cases h3 : s.tick = .ack
      · have := k1.mpr h3
        rw [hc] at this
        cases this
      by_cases h4 : s.tick = .exited
      · have := k2.mp h4
        simp [hc, closerAfterAck] at this
      exact tick_progress hC h1 (fun cur dl h => h2 ⟨cur, dl, h⟩) h3 h4
    | wgWait =>
      by_cases hwg : s.wg = 0
      · exact enabled_closer (by simp [step, stepCloser, hc, hwg])
      · obtain ⟨c1, c2, c3, c4⟩ := hI.cnt
        have hpos : 0 < (s.thr.map wgW).sum := by omega
        obtain ⟨j, u, hj, hu⟩ := exists_of_sum_pos wgW _ hpos
        have ht : s.tick = .exited := k2.mpr (by simp [hc, closerAfterAck])
        have hcl : s.chanClosed = true := by rw [k3, hc]; rfl
        refine live_progress hI hcap (by simp [ht, tickHasMutex]) (Or.inl hcl) hj ?_
        cases hup : u.pc <;> simp_all [wgW, wgPc]

/-- **`Close` is never blocked (both variants).**  With a semaphore of positive capacity, in every
reachable state in which `Queue.Close` has been called and has not yet returned, some goroutine
(other than the clock) can take a step: there is no deadlock during shutdown. -/
theorem C12_close_never_blocked (v : Variant) (cap : Nat) (prods : List (Nat × Nat)) (sched : List Who)
    (hcap : 0 < cap) (hnd : (run v (init cap prods true) sched).closer ≠ some .done) :
    ∃ w, (∀ d, w ≠ .clock d) ∧ (step v (run v (init cap prods true) sched) w).isSome = true :=
  close_progress (inv_reach v cap prods true sched) hcap (closerSome_reach v cap prods sched) hnd

/-- **`Close` terminates (both variants).**  Whatever the scheduler did so far, either `Close` has
returned, or some goroutine can move and every such move consumes the finite budget `mu`; and the
moves made so far plus the remaining budget never exceed the initial budget.  So `Close` returns
after at most `mu (init …)` scheduled steps under any scheduler that keeps running runnable
goroutines. -/
theorem C12_close_terminates (v : Variant) (cap : Nat) (prods : List (Nat × Nat)) (sched : List Who)
    (hcap : 0 < cap) (hnd : (run v (init cap prods true) sched).closer ≠ some .done) :
    (∃ w, (∀ d, w ≠ .clock d) ∧ ∃ s', step v (run v (init cap prods true) sched) w = some s' ∧
        mu s' < mu (run v (init cap prods true) sched)) ∧
    effSteps v (init cap prods true) sched + mu (run v (init cap prods true) sched)
      ≤ mu (init cap prods true) := by
  refine ⟨?_, effSteps_add_mu sched _ (tickCurIn_init cap prods true)⟩
  obtain ⟨w, hw, hs⟩ := C12_close_never_blocked v cap prods sched hcap hnd
  cases hstep : step v (run v (init cap prods true) sched) w with
  | none => rw [hstep] at hs; cases hs
  | some s' =>
    exact ⟨w, hw, s', hstep, C12_steps_decrease (inv_reach v cap prods true sched).cur hw hstep⟩

/-- **`Close` returns within the budget (both variants).**  As long as `Close` has not returned,
strictly fewer than `mu (init …)` steps (other than the passing of time) have been executed: no
scheduler can keep `Close` pending for `mu (init …)` steps or more. -/
theorem C12_close_pending_steps_lt (v : Variant) (cap : Nat) (prods : List (Nat × Nat))
    (sched : List Who) (hcap : 0 < cap)
    (hnd : (run v (init cap prods true) sched).closer ≠ some .done) :
    effSteps v (init cap prods true) sched < mu (init cap prods true) := by
  obtain ⟨⟨w, _, s', _, hlt⟩, hle⟩ := C12_close_terminates v cap prods sched hcap hnd
  omega

/-- **A stuck system has completed `Close` (both variants).**  If in a reachable state (with a
`Close` call, positive semaphore capacity) no goroutine can move, then `Close` has returned. -/
theorem C12_close_returned_when_stuck (v : Variant) (cap : Nat) (prods : List (Nat × Nat))
    (sched : List Who) (hcap : 0 < cap)
    (hq : ∀ w, (∀ d, w ≠ .clock d) → step v (run v (init cap prods true) sched) w = none) :
    (run v (init cap prods true) sched).closer = some .done := by
  apply Classical.byContradiction
  intro hnd
  obtain ⟨w, hw, hs⟩ := C12_close_never_blocked v cap prods sched hcap hnd
  rw [hq w hw] at hs
  cases hs

/-! ## 10. without shutdown everything is dispatched -/

theorem closerNone_step {v : Variant} {s s' : St} {w : Who} (hI : s.closer = none)
    (h : step v s w = some s') : s'.closer = none := by
  apply step_elim h (motive := fun _ s' => s'.closer = none)
  all_goals intros
  all_goals first | exact hI | simp_all

/-- Without a `Close` call: all invariants, nobody panics (either variant), no closer. -/
theorem quiet_reach (v : Variant) (cap : Nat) (prods : List (Nat × Nat)) (sched : List Who) :
    Inv cap (run v (init cap prods false) sched) ∧ CalmInv (run v (init cap prods false) sched) ∧
    (run v (init cap prods false) sched).closer = none := by
  refine run_inv (v := v) (fun s => Inv cap s ∧ CalmInv s ∧ s.closer = none) ?_ sched _
    ⟨inv_init cap prods false, calmInv_init cap prods false, rfl⟩
  intro s w s' hI h
  obtain ⟨h1, h2, h3⟩ := hI
  have hcl : s.chanClosed = false := by
    obtain ⟨_, _, _, _, _, k3, _⟩ := h1.ctl
    rw [k3, h3]; rfl
  exact ⟨inv_step h1 h, calmInv_step h1.kind h1.cnt (Or.inr hcl) h2 h, closerNone_step h3 h⟩

/-- **Without shutdown every entry is dispatched exactly once (both variants).**  No `Close` in
the scenario, positive semaphore capacity.  If in a reachable state no goroutine can move and the
tick goroutine is not waiting for a timer, then the tick goroutine is idle on an empty wheel, every
goroutine has finished normally, and every entry that was ever put into the wheel has been
dispatched exactly once. -/
theorem C12_all_dispatched_when_quiescent (v : Variant) (cap : Nat) (prods : List (Nat × Nat))
    (sched : List Who) (hcap : 0 < cap)
    (hq : ∀ w, (∀ d, w ≠ .clock d) → step v (run v (init cap prods false) sched) w = none)
    (ht : ∀ cur dl, (run v (init cap prods false) sched).tick ≠ .waitTimer cur dl) :
    (run v (init cap prods false) sched).tick = .waitEmpty ∧
    (run v (init cap prods false) sched).slots = [] ∧
    (∀ t ∈ (run v (init cap prods false) sched).thr, t.pc = .done) ∧
    ∀ x ∈ (run v (init cap prods false) sched).pushed,
      ((run v (init cap prods false) sched).dispatched.map (·.1)).count x = 1 := by
  obtain ⟨hI, hCalm, hnone⟩ := quiet_reach v cap prods sched
  generalize run v (init cap prods false) sched = s at *
  have hne : ¬ Enabled v s := by
    intro ⟨w, hw, hs⟩
    rw [hq w hw] at hs
    cases hs
  obtain ⟨m1, m2, m3, k1, k2, k3, k4⟩ := hI.ctl
  have htick : s.tick = .waitEmpty := by
    apply Classical.byContradiction
    intro h1
    refine hne (tick_progress hI.ctl h1 ht ?_ ?_)
    · intro h3
      have := k1.mpr h3
      rw [hnone] at this; cases this
    · intro h4
      have := k2.mp h4
      simp [hnone, closerAfterAck] at this
  have hdone : ∀ t ∈ s.thr, t.pc = .done := by
    intro t hmem
    obtain ⟨i, hget⟩ := List.mem_iff_getElem?.mp hmem
    apply Classical.byContradiction
    intro hnd
    have hcalm := hCalm.2.2 t hmem
    refine hne (live_progress hI hcap (by simp [htick, tickHasMutex]) (Or.inr (Or.inl htick)) hget ⟨hnd, ?_⟩)
    intro hp
    simp [hp, calm] at hcalm
  have hslots : s.slots = [] := by
    have h1 := hI.wait htick
    have h2 : (s.thr.map sendW).sum = 0 := by
      rw [sum_map_eq_zero]
      intro t hmem
      simp [sendW, hdone t hmem]
    have : s.slots.length = 0 := by omega
    exact List.eq_nil_of_length_eq_zero this
  refine ⟨htick, hslots, hdone, ?_⟩
  intro x hx
  have h1 := hI.cons x
  have h2 := pushed_count_le_one hI x
  have h3 : 0 < s.pushed.count x := List.count_pos_iff.mpr hx
  simp only [hslots, htick, List.count_nil] at h1
  simp at h1
  omega

/-- **A pending timer fires once the clock has advanced to its deadline.** -/
theorem C12_timer_fires (v : Variant) (s : St) (cur : Slot) (dl : Nat) (h : s.tick = .waitTimer cur dl) :
    (step v { s with now := s.now + (dl - s.now) } .tickTimer).isSome = true := by
  have : dl ≤ s.now + (dl - s.now) := by omega
  simp [step, stepTickTimer, h, this]

/-! ## the structural invariants in readable form (reachable states, both variants) -/

/-- The mutex is held by goroutine `i` exactly when goroutine `i` is in `Add`'s critical section. -/
theorem C12_mutex_thr (v : Variant) (cap : Nat) (prods : List (Nat × Nat)) (wc : Bool) (sched : List Who)
    (i : Nat) :
    (run v (init cap prods wc) sched).mutex = some (.thr i) ↔
      ∃ t, (run v (init cap prods wc) sched).thr[i]? = some t ∧ t.pc = .push := by
  obtain ⟨m1, m2, _⟩ := (inv_reach v cap prods wc sched).ctl
  constructor
  · intro hm
    have hj := m2 i hm
    exact ⟨_, List.getElem?_eq_getElem hj, (m1 i _ (List.getElem?_eq_getElem hj)).mpr hm⟩
  · intro ⟨t, hget, hpc⟩
    exact (m1 i t hget).mp hpc

/-- The mutex is held by the tick goroutine exactly in its two critical sections. -/
theorem C12_mutex_tick (v : Variant) (cap : Nat) (prods : List (Nat × Nat)) (wc : Bool) (sched : List Who) :
    (run v (init cap prods wc) sched).mutex = some .tick ↔
      ((run v (init cap prods wc) sched).tick = .scan ∨ ∃ c, (run v (init cap prods wc) sched).tick = .rm c) := by
  obtain ⟨_, _, m3, _⟩ := (inv_reach v cap prods wc sched).ctl
  rw [m3]
  cases (run v (init cap prods wc) sched).tick <;> simp [tickHasMutex]

/-- Mutual exclusion: at most one goroutine is in `Add`'s critical section. -/
theorem C12_mutex_exclusive (v : Variant) (cap : Nat) (prods : List (Nat × Nat)) (wc : Bool) (sched : List Who)
    (i j : Nat) (t u : Thread)
    (hi : (run v (init cap prods wc) sched).thr[i]? = some t) (hti : t.pc = .push)
    (hj : (run v (init cap prods wc) sched).thr[j]? = some u) (huj : u.pc = .push) : i = j := by
  obtain ⟨m1, _⟩ := (inv_reach v cap prods wc sched).ctl
  have h1 := (m1 i t hi).mp hti
  have h2 := (m1 j u hj).mp huj
  rw [h1] at h2
  cases h2
  rfl

/-- The shutdown handshake: `Close` waits for the acknowledgement exactly while the tick goroutine
is about to send it; the tick goroutine has exited exactly when `Close` got the acknowledgement;
the channel is closed exactly from `close(…)` on; `stopped` is set exactly from the store on. -/
theorem C12_handshake (v : Variant) (cap : Nat) (prods : List (Nat × Nat)) (wc : Bool) (sched : List Who) :
    ((run v (init cap prods wc) sched).closer = some .recvAck ↔ (run v (init cap prods wc) sched).tick = .ack) ∧
    ((run v (init cap prods wc) sched).tick = .exited ↔
      ((run v (init cap prods wc) sched).closer = some .closeChan ∨
       (run v (init cap prods wc) sched).closer = some .wgWait ∨
       (run v (init cap prods wc) sched).closer = some .done)) ∧
    ((run v (init cap prods wc) sched).chanClosed = true ↔
      ((run v (init cap prods wc) sched).closer = some .wgWait ∨
       (run v (init cap prods wc) sched).closer = some .done)) ∧
    ((run v (init cap prods wc) sched).stopped = true ↔
      ((run v (init cap prods wc) sched).closer ≠ none ∧
       (run v (init cap prods wc) sched).closer ≠ some .setStopped)) := by
  obtain ⟨_, _, _, k1, k2, k3, k4⟩ := (inv_reach v cap prods wc sched).ctl
  refine ⟨k1, ?_, ?_, ?_⟩
  · rw [k2]
    cases hc : (run v (init cap prods wc) sched).closer with
    | none => simp [closerAfterAck]
    | some c => cases c <;> simp [closerAfterAck]
  · rw [k3]
    cases hc : (run v (init cap prods wc) sched).closer with
    | none => simp [closerClosed]
    | some c => cases c <;> simp [closerClosed]
  · rw [k4]
    cases hc : (run v (init cap prods wc) sched).closer with
    | none => simp [closerStopped]
    | some c => cases c <;> simp [closerStopped]

/-- Producers (callers of `Add` that are not attempt goroutines) are only ever inside `Add`,
finished, or — unfixed variant — killed by the panic. -/
theorem C12_producer_pcs (v : Variant) (cap : Nat) (prods : List (Nat × Nat)) (wc : Bool) (sched : List Who) :
    ∀ t ∈ (run v (init cap prods wc) sched).thr, t.kind = .producer →
      t.pc = .check ∨ t.pc = .lock ∨ t.pc = .push ∨ t.pc = .send ∨ t.pc = .done ∨ t.pc = .panicked := by
  intro t ht hk
  have := (inv_reach v cap prods wc sched).kind t ht hk
  cases hp : t.pc <;> simp_all [prodPc]

/-- The WaitGroup counter is the number of live attempt goroutines, the semaphore length the number
of attempt goroutines past `acquire`; the semaphore never exceeds its (constant) capacity. -/
theorem C12_counts (v : Variant) (cap : Nat) (prods : List (Nat × Nat)) (wc : Bool) (sched : List Who) :
    (run v (init cap prods wc) sched).wg = ((run v (init cap prods wc) sched).thr.map wgW).sum ∧
    (run v (init cap prods wc) sched).semHeld = ((run v (init cap prods wc) sched).thr.map semW).sum ∧
    (run v (init cap prods wc) sched).semHeld ≤ (run v (init cap prods wc) sched).semCap ∧
    (run v (init cap prods wc) sched).semCap = cap :=
  (inv_reach v cap prods wc sched).cnt

/-- While the tick goroutine idles on what it saw as an empty wheel, every entry in the wheel has
its `Add` still blocked in the notification send. -/
theorem C12_waitEmpty_bound (v : Variant) (cap : Nat) (prods : List (Nat × Nat)) (wc : Bool) (sched : List Who) :
    (run v (init cap prods wc) sched).tick = .waitEmpty →
    (run v (init cap prods wc) sched).slots.length ≤ ((run v (init cap prods wc) sched).thr.map sendW).sum :=
  (inv_reach v cap prods wc sched).wait

/-- The entry the tick goroutine is working on is in the wheel. -/
theorem C12_tick_cur_in (v : Variant) (cap : Nat) (prods : List (Nat × Nat)) (wc : Bool) (sched : List Who) :
    TickCurIn (run v (init cap prods wc) sched) :=
  (inv_reach v cap prods wc sched).cur

/-! ## 11. non-vacuity: concrete runs, and witnesses that the hypotheses above are satisfiable -/

/-- The fixed variant on the race schedule: `Close` returns, nothing is quarantined, nothing
crashed, the message was dispatched once and its retry stays pending in the (stopped) wheel. -/
theorem C12_fixed_race_example :
    (run .fixed (init 1 [(0, 1)] true) raceSched).closer = some .done ∧
    (run .fixed (init 1 [(0, 1)] true) raceSched).broken = [] ∧
    (run .fixed (init 1 [(0, 1)] true) raceSched).crashed = false ∧
    (run .fixed (init 1 [(0, 1)] true) raceSched).dispatched.length = 1 ∧
    (run .fixed (init 1 [(0, 1)] true) raceSched).slots.length = 1 ∧
    (run .fixed (init 1 [(0, 1)] true) raceSched).removed = [] := by decide

/-- Two producers, no `Close`: entry for time 5 is added first, entry for time 3 second; both are
dispatched, in time order, each at its time; then both attempts end with a terminal outcome. -/
def twoSched : List Who :=
  [ .thr 0 0, .thr 0 0, .thr 0 0, .thr 1 0, .thr 1 0, .thr 1 0,     -- both producers: check, lock, push
    .tick, .tick, .tick, .tick, .tickUpd 0, .tickUpd 1,              -- tick selects the time-3 entry, timer; both notifications
    .clock 3, .tickTimer, .tick, .tick, .tick,                      -- timer fires: lock, remove, dispatch (goroutine 2)
    .thr 2 0, .thr 2 0, .thr 2 0,                                   -- attempt: semaphore, delivered, release
    .tick, .tick, .tick, .tick, .clock 2, .tickTimer, .tick, .tick, .tick,   -- same for the time-5 entry (goroutine 3)
    .thr 3 0, .thr 3 0, .thr 3 0,
    .tick, .tick, .tick ]                                           -- wheel empty: idle

theorem C12_two_producers_example :
    (run .fixed (init 1 [(5, 0), (3, 0)] false) twoSched).dispatched.map (fun d => (d.1.msg, d.1.time, d.2))
      = [(1, 3, 3), (0, 5, 5)] ∧
    (run .fixed (init 1 [(5, 0), (3, 0)] false) twoSched).tick = .waitEmpty ∧
    (run .fixed (init 1 [(5, 0), (3, 0)] false) twoSched).slots = [] ∧
    (run .fixed (init 1 [(5, 0), (3, 0)] false) twoSched).removed = [0, 1] ∧
    effSteps .fixed (init 1 [(5, 0), (3, 0)] false) twoSched = 33 ∧
    mu (init 1 [(5, 0), (3, 0)] false) = 54 := by decide

/-- A state in which every goroutine is finished, the tick goroutine idles or has exited and there
is no pending `Close` is stuck.  (Used to show the quiescence hypotheses are satisfiable.) -/
theorem stuck_of_done {v : Variant} {s : St} (hd : ∀ t ∈ s.thr, t.pc = .done)
    (ht : s.tick = .waitEmpty ∨ s.tick = .exited) (hc : s.closer = none ∨ s.closer = some .done) :
    ∀ w, (∀ d, w ≠ .clock d) → step v s w = none := by
  intro w hw
  cases w with
  | thr i c =>
    simp only [step, stepThr]
    cases hget : s.thr[i]? with
    | none => rfl
    | some t => simp [hd t (List.mem_of_getElem? hget)]
  | thrPanic i =>
    simp only [step, stepThrPanic]
    cases hget : s.thr[i]? with
    | none => rfl
    | some t => simp [hd t (List.mem_of_getElem? hget)]
  | closer => rcases hc with hc | hc <;> simp [step, stepCloser, hc]
  | tick => rcases ht with ht | ht <;> simp [step, stepTick, ht]
  | tickBad => rcases ht with ht | ht <;> simp [step, stepTickBad, ht]
  | tickTimer => rcases ht with ht | ht <;> simp [step, stepTickTimer, ht]
  | tickUpd i =>
    simp only [step, stepTickUpd]
    cases hget : s.thr[i]? with
    | none => rfl
    | some t => simp [hd t (List.mem_of_getElem? hget)]
  | tickStop => rcases hc with hc | hc <;> simp [step, stepTickStop, hc]
  | clock d => exact absurd rfl (hw d)

/-- Hypotheses of `C12_all_dispatched_when_quiescent` hold at the end of `twoSched`. -/
example :
    0 < 1 ∧
    (∀ w, (∀ d, w ≠ .clock d) → step .fixed (run .fixed (init 1 [(5, 0), (3, 0)] false) twoSched) w = none) ∧
    (∀ cur dl, (run .fixed (init 1 [(5, 0), (3, 0)] false) twoSched).tick ≠ .waitTimer cur dl) := by
  refine ⟨by decide, stuck_of_done (by decide) (Or.inl (by decide)) (Or.inl (by decide)), ?_⟩
  intro cur dl h
  have : (run .fixed (init 1 [(5, 0), (3, 0)] false) twoSched).tick = .waitEmpty := by decide
  rw [this] at h
  cases h

/-- Hypotheses of `C12_close_never_blocked`, `C12_close_terminates`, `C12_close_pending_steps_lt`:
in the middle of the race schedule `Close` is pending. -/
example : 0 < 1 ∧ (run .fixed (init 1 [(0, 1)] true) (raceSched.take 20)).closer ≠ some .done := by decide

/-- Hypothesis of `C12_no_dispatch_after_close`, and of `C12_close_returned_when_stuck`: at the end
of the race schedule `Close` has returned and nothing can move. -/
example :
    (run .fixed (init 1 [(0, 1)] true) raceSched).closer = some .done ∧
    (∀ w, (∀ d, w ≠ .clock d) → step .fixed (run .fixed (init 1 [(0, 1)] true) raceSched) w = none) :=
  ⟨by decide, stuck_of_done (by decide) (Or.inr (by decide)) (Or.inr (by decide))⟩

/-- Hypotheses of `C12_steps_decrease`. -/
example : TickCurIn (init 1 [(0, 1)] true) ∧ (∀ d, Who.tick ≠ .clock d) ∧
    ∃ s', step .fixed (init 1 [(0, 1)] true) .tick = some s' :=
  ⟨tickCurIn_init _ _ _, (by intro d h; cases h), _, rfl⟩

/-- Hypothesis of `C12_timer_fires` and of `C12_waitEmpty_bound`. -/
example :
    (run .fixed (init 1 [(5, 0), (3, 0)] false) (twoSched.take 10)).tick
      = .waitTimer { req := 1, msg := 1, time := 3, budget := 0, mem := false } 3 ∧
    (run .fixed (init 1 [(5, 0), (3, 0)] false) twoSched).tick = .waitEmpty := by decide

/-- Hypotheses of `C12_mutex_exclusive`: after check and lock, goroutine 0 is in the critical section. -/
example : ((run .fixed (init 1 [(5, 0), (3, 0)] false) (twoSched.take 2)).thr[0]?.map (·.pc)) = some .push := by
  decide


/-! ## `Close` waits for the in-flight attempts -/

/-- After `Close` returned the WaitGroup counter stays zero. -/
def DoneInv (s : St) : Prop := s.closer = some .done → s.wg = 0

theorem doneInv_step {v : Variant} {s s' : St} {w : Who} (hC : CtlInv s) (hI : DoneInv s)
    (h : step v s w = some s') : DoneInv s' := by
  obtain ⟨_, _, _, k1, k2, _, _⟩ := hC
  apply step_elim h (motive := fun _ s' => DoneInv s')
  case dispatch =>
    intro cur hc hd
    simp only [] at hd
    have := k2.mpr (by simp [hd, closerAfterAck])
    rw [hc] at this; cases this
  case dispatchBad =>
    intro cur hc _hmem hd
    simp only [] at hd
    have := k2.mpr (by simp [hd, closerAfterAck])
    rw [hc] at this; cases this
  case release | panicRelease =>
    intro i c t _ _ _ hwg hd
    exact absurd (hI hd) hwg
  case wgWait =>
    intro _ hwg _
    exact hwg
  all_goals intros
  all_goals first | exact hI | (intro hd; simp_all [DoneInv]) | (intro hd; cases hd)

theorem done_reach (v : Variant) (cap : Nat) (prods : List (Nat × Nat)) (wc : Bool) (sched : List Who) :
    Inv cap (run v (init cap prods wc) sched) ∧ DoneInv (run v (init cap prods wc) sched) := by
  refine run_inv (v := v) (fun s => Inv cap s ∧ DoneInv s) ?_ sched _ ⟨inv_init cap prods wc, ?_⟩
  · intro s w s' hI h
    exact ⟨inv_step hI.1 h, doneInv_step hI.1.ctl hI.2 h⟩
  · intro hd
    simp only [init] at hd
    split at hd <;> cases hd

/-- **`Close` returns only after every in-flight attempt has finished (both variants).**  In every
reachable state in which `Queue.Close` has returned, no goroutine started by `Queue.dispatch` is
between `deliveryWg.Add(1)` and `deliveryWg.Done()`: none is waiting for the semaphore, delivering,
scheduling a retry or about to release.  So nothing of the old process touches the spool entry of a
message once the restart may begin. -/
theorem C12_close_waits_for_attempts (v : Variant) (cap : Nat) (prods : List (Nat × Nat)) (wc : Bool)
    (sched : List Who) (hd : (run v (init cap prods wc) sched).closer = some .done) :
    (run v (init cap prods wc) sched).wg = 0 ∧
    ∀ t ∈ (run v (init cap prods wc) sched).thr, t.kind = .attempt → wgPc t.pc = false := by
  obtain ⟨hI, hD⟩ := done_reach v cap prods wc sched
  have hwg := hD hd
  refine ⟨hwg, ?_⟩
  intro t ht hk
  have h0 : ((run v (init cap prods wc) sched).thr.map wgW).sum = 0 := by
    rw [← hI.cnt.1]; exact hwg
  have := (sum_map_eq_zero wgW _).mp h0 t ht
  cases hp : wgPc t.pc with
  | false => rfl
  | true => simp [wgW, hk, hp] at this

/-- Fixed variant: after `Close` returned every attempt goroutine has finished — or it is the attempt
of a message whose delivery panicked and only the quarantine rename is left (`discardBroken` runs
after `deliveryWg.Done()` in the deferred function; see `C12_quarantine_may_follow_close`). -/
theorem C12_close_waits_for_attempts_fixed (cap : Nat) (prods : List (Nat × Nat)) (wc : Bool)
    (sched : List Who) (hd : (run .fixed (init cap prods wc) sched).closer = some .done) :
    ∀ t ∈ (run .fixed (init cap prods wc) sched).thr, t.kind = .attempt →
      t.pc = .done ∨ (t.pc = .discard ∧ t.slot.msg ∈ (run .fixed (init cap prods wc) sched).tpanic) := by
  intro t ht hk
  have h1 := (C12_close_waits_for_attempts .fixed cap prods wc sched hd).2 t ht hk
  have h2 := (C12_no_panic cap prods wc sched).2 t ht
  cases hp : t.pc <;> simp_all [wgPc]

/-- Without a panicking delivery: after `Close` returned every attempt goroutine has finished. -/
theorem C12_close_waits_for_attempts_no_target_panic (cap : Nat) (prods : List (Nat × Nat)) (wc : Bool)
    (sched : List Who) (hn : noTargetPanic sched = true)
    (hd : (run .fixed (init cap prods wc) sched).closer = some .done) :
    ∀ t ∈ (run .fixed (init cap prods wc) sched).thr, t.kind = .attempt → t.pc = .done := by
  intro t ht hk
  have h1 := (C12_close_waits_for_attempts .fixed cap prods wc sched hd).2 t ht hk
  have h2 := (C12_no_panic_without_target_panic cap prods wc sched hn).2 t ht
  cases hp : t.pc <;> simp_all [wgPc]

/-- non-vacuity: in the race schedule `Close` has returned and one attempt goroutine exists -/
example : (run .fixed (init 1 [(0, 1)] true) raceSched).closer = some .done ∧
    ((run .fixed (init 1 [(0, 1)] true) raceSched).thr.filter (fun t => t.kind == .attempt)).length = 1 := by
  decide

/-! ## the timer the tick goroutine waits for is the one of the earliest entry -/

/-- The entry the tick goroutine has selected and is (about to be) waiting for. -/
def tickSel : TickPc → Option Slot
  | .mkTimer c => some c
  | .waitTimer c _ => some c
  | _ => none

/-- Every pending entry that is earlier than the selected one still has its wake-up to deliver
(its `Add` is blocked in the notification send). -/
def EarlyInv (s : St) : Prop :=
  ∀ cur, tickSel s.tick = some cur → ∀ x ∈ s.slots, x.time < cur.time →
    ∃ t ∈ s.thr, t.pc = .send ∧ t.slot = x

theorem closest_min : ∀ (l : List Slot) (c : Slot), closest l = some c → ∀ x ∈ l, c.time ≤ x.time := by
  intro l
  induction l with
  | nil => intro c h; simp [closest] at h
  | cons y ys ih =>
    intro c h x hx
    simp only [closest] at h
    split at h
    · rename_i hn
      cases h
      have := closest_none _ hn
      subst this
      simp at hx; subst hx; exact Nat.le_refl _
    · rename_i z hz
      split at h
      · rename_i hlt
        cases h
        rcases List.mem_cons.mp hx with rfl | hx'
        · omega
        · exact ih _ hz x hx'
      · rename_i hnlt
        cases h
        rcases List.mem_cons.mp hx with rfl | hx'
        · exact Nat.le_refl _
        · have := ih _ hz x hx'
          omega

theorem mem_set_of_ne {α : Type} {l : List α} {i : Nat} {a b t : α} (hm : a ∈ l) (hget : l[i]? = some t)
    (hne : a ≠ t) : a ∈ l.set i b := by
  obtain ⟨j, hj⟩ := List.mem_iff_getElem?.mp hm
  have hij : i ≠ j := by
    intro h; subst h; rw [hget] at hj; cases hj; exact hne rfl
  exact List.mem_iff_getElem?.mpr ⟨j, by rw [List.getElem?_set_ne hij]; exact hj⟩

theorem earlyInv_init (cap : Nat) (prods : List (Nat × Nat)) (wc : Bool) : EarlyInv (init cap prods wc) := by
  intro cur h
  simp [init, tickSel] at h

theorem earlyInv_step {v : Variant} {s s' : St} {w : Who} (hC : CtlInv s) (hI : EarlyInv s)
    (h : step v s w = some s') : EarlyInv s' := by
  obtain ⟨m1, m2, m3, k1, k2, k3, k4⟩ := hC
  apply step_elim h (motive := fun _ s' => EarlyInv s')
  case acquire | acquireBad | deliverDone | deliverRetry | checkStopped | checkGo | lock
      | releaseCrash | panicReleaseCrash | release | panicRelease | discard =>
    intro i c t hget hpc
    intros
    intro cur hcur x hx hlt
    obtain ⟨t', ht', hp', hs'⟩ := hI cur hcur x hx hlt
    refine ⟨t', mem_set_of_ne ht' hget ?_, hp', hs'⟩
    intro h; subst h; rw [hpc] at hp'; cases hp'
  case deliverPanic =>
    intro i t hget hpc cur hcur x hx hlt
    obtain ⟨t', ht', hp', hs'⟩ := hI cur hcur x hx hlt
    refine ⟨t', mem_set_of_ne ht' hget ?_, hp', hs'⟩
    intro h; subst h; rw [hpc] at hp'; cases hp'
  case push =>
    intro i c t hget hpc cur hcur x hx hlt
    have hil : i < s.thr.length := (List.getElem?_eq_some_iff.mp hget).1
    simp only [List.mem_append, List.mem_singleton] at hx
    rcases hx with hx | rfl
    · obtain ⟨t', ht', hp', hs'⟩ := hI cur hcur x hx hlt
      refine ⟨t', mem_set_of_ne ht' hget ?_, hp', hs'⟩
      intro h; subst h; rw [hpc] at hp'; cases hp'
    · exact ⟨{ t with pc := .send }, List.mem_iff_getElem?.mpr ⟨i, by simp [List.getElem?_set, hil]⟩, rfl, rfl⟩
  case sendClosedUnfixed | sendClosedFixed =>
    intro i c t hget hpc hcl _ cur hcur
    exfalso
    rw [k3] at hcl
    have := k2.mpr (closerClosed_afterAck _ hcl)
    simp only [] at hcur
    rw [this] at hcur
    simp [tickSel] at hcur
  case updKeep =>
    intro i t hget hpc cur' dl hw hle cur hcur x hx hlt
    simp only [] at hcur
    rw [hw] at hcur
    simp only [tickSel, Option.some.injEq] at hcur
    subst hcur
    obtain ⟨t', ht', hp', hs'⟩ := hI cur' (by rw [hw]; rfl) x hx hlt
    refine ⟨t', mem_set_of_ne ht' hget ?_, hp', hs'⟩
    intro h; subst h; rw [hs'] at hle; omega
  case scanSome =>
    intro cur' _ hc cur hcur x hx hlt
    simp only [tickSel, Option.some.injEq] at hcur
    subst hcur
    have := closest_min _ _ hc x hx
    omega
  case mkTimer =>
    intro cur' hc cur hcur x hx hlt
    simp only [tickSel, Option.some.injEq] at hcur
    subst hcur
    exact hI cur' (by rw [hc]; rfl) x hx hlt
  case dispatch =>
    intro cur' hc cur hcur
    simp [tickSel] at hcur
  case dispatchBad =>
    intro cur' hc _ cur hcur
    simp [tickSel] at hcur
  case rm =>
    intro cur' hc cur hcur
    simp [tickSel] at hcur
  case setStopped | closeChan | wgWait | clock =>
    intros
    exact hI
  all_goals intros
  all_goals intro cur hcur
  all_goals simp [tickSel] at hcur

theorem early_reach (v : Variant) (cap : Nat) (prods : List (Nat × Nat)) (wc : Bool) (sched : List Who) :
    EarlyInv (run v (init cap prods wc) sched) := by
  have := run_inv (v := v) (fun s => Inv cap s ∧ EarlyInv s)
    (fun s w s' hI h => ⟨inv_step hI.1 h, earlyInv_step hI.1.ctl hI.2 h⟩)
    sched _ ⟨inv_init cap prods wc, earlyInv_init cap prods wc⟩
  exact this.2

/-- **The wheel sleeps for the earliest entry (both variants).**  In every reachable state in which
the tick goroutine waits for the timer of entry `cur` and no `Add` is still waiting to deliver its
wake-up, `cur` is in the wheel and no pending entry is earlier than `cur`: once every wake-up has
been received no entry is left to be dispatched late, behind an unrelated timer. -/
theorem C12_timer_for_earliest (v : Variant) (cap : Nat) (prods : List (Nat × Nat)) (wc : Bool)
    (sched : List Who) (cur : Slot) (dl : Nat)
    (ht : (run v (init cap prods wc) sched).tick = .waitTimer cur dl)
    (hs : ∀ t ∈ (run v (init cap prods wc) sched).thr, t.pc ≠ .send) :
    cur ∈ (run v (init cap prods wc) sched).slots ∧
    ∀ x ∈ (run v (init cap prods wc) sched).slots, cur.time ≤ x.time := by
  refine ⟨(inv_reach v cap prods wc sched).cur cur (by rw [ht]; rfl), ?_⟩
  intro x hx
  apply Classical.byContradiction
  intro hlt
  obtain ⟨t, htm, hp, _⟩ := early_reach v cap prods wc sched cur (by rw [ht]; rfl) x hx (by omega)
  exact hs t htm hp

/-- hypotheses of `C12_timer_for_earliest`: after both notifications (`twoSched.take 12`) the tick
goroutine waits for the time-3 entry and nobody is at `send`. -/
example :
    (run .fixed (init 1 [(5, 0), (3, 0)] false) (twoSched.take 12)).tick
      = .waitTimer { req := 1, msg := 1, time := 3, budget := 0, mem := false } 3 ∧
    ((run .fixed (init 1 [(5, 0), (3, 0)] false) (twoSched.take 12)).thr.map (·.pc)) = [.done, .done] := by decide

/-! ## every dispatch ends with `deliveryWg.Done()`, whatever `openMessage` answers -/

/-- Goroutines started by `Queue.dispatch`. -/
def attW (t : Thread) : Nat := if t.kind = .attempt then 1 else 0
/-- … that are past `deliveryWg.Done()`. -/
def finW (t : Thread) : Nat := if t.kind = .attempt ∧ wgPc t.pc = false then 1 else 0

/-- One goroutine per dispatch callback. -/
def AttInv (s : St) : Prop := (s.thr.map attW).sum = s.dispatched.length

theorem attW_mkProducers : ∀ (l : List (Nat × Nat)) (k : Nat), ((mkProducers k l).map attW).sum = 0 := by
  intro l k
  rw [sum_map_eq_zero]
  intro t ht
  simp [attW, (mem_mkProducers _ _ _ ht).1]

theorem attInv_init (cap : Nat) (prods : List (Nat × Nat)) (wc : Bool) : AttInv (init cap prods wc) := by
  simp [AttInv, init, attW_mkProducers]

theorem attInv_step {v : Variant} {s s' : St} {w : Who} (hI : AttInv s)
    (h : step v s w = some s') : AttInv s' := by
  apply step_elim h (motive := fun _ s' => AttInv s')
  case acquire | acquireBad | deliverDone | deliverRetry | checkStopped | checkGo | lock | push | sendClosedUnfixed
      | sendClosedFixed | releaseCrash | panicReleaseCrash | release | panicRelease | discard =>
    intro i c t hget hpc
    intros
    have := le_sum_map attW _ _ _ hget
    simp only [AttInv, sum_set_eq hget]
    simp only [AttInv] at hI
    simp_all [attW]
  case updEmpty | updKeep | updReset | deliverPanic =>
    intro i t hget hpc
    intros
    have := le_sum_map attW _ _ _ hget
    simp only [AttInv, sum_set_eq hget]
    simp only [AttInv] at hI
    simp_all [attW]
  case dispatch =>
    intro cur hc
    simp_all [AttInv, attW]
  case dispatchBad =>
    intro cur hc _
    simp_all [AttInv, attW]
  all_goals intros
  all_goals exact hI

theorem att_reach (v : Variant) (cap : Nat) (prods : List (Nat × Nat)) (wc : Bool) (sched : List Who) :
    AttInv (run v (init cap prods wc) sched) :=
  run_inv AttInv (fun _ _ _ hI h => attInv_step hI h) sched _ (attInv_init cap prods wc)

theorem attW_eq (t : Thread) : attW t = wgW t + finW t := by
  simp only [attW, wgW, finW]
  cases t.kind <;> cases wgPc t.pc <;> simp

theorem sum_attW_eq : ∀ l : List Thread, (l.map attW).sum = (l.map wgW).sum + (l.map finW).sum := by
  intro l
  induction l with
  | nil => rfl
  | cons a as ih => simp only [List.map_cons, List.sum_cons, ih, attW_eq a]; omega

/-- **Every dispatch is matched by a `deliveryWg.Done()` or still counted (both variants).**  At every
moment, under every schedule and whatever `openMessage` answered for each dispatched entry
(`Who.tickBad`), the number of dispatch callbacks so far equals the WaitGroup counter plus the
number of dispatch goroutines that are past their `deliveryWg.Done()`: no dispatch leaves the
counter incremented without a live goroutine that is still going to decrement it. -/
theorem C12_dispatch_wg_accounting (v : Variant) (cap : Nat) (prods : List (Nat × Nat)) (wc : Bool)
    (sched : List Who) :
    (run v (init cap prods wc) sched).dispatched.length =
      (run v (init cap prods wc) sched).wg + ((run v (init cap prods wc) sched).thr.map finW).sum := by
  have h1 := att_reach v cap prods wc sched
  have h2 := (inv_reach v cap prods wc sched).cnt.1
  simp only [AttInv] at h1
  rw [← h1, h2, sum_attW_eq]

/-- **An attempt whose message cannot be opened goes straight to the deferred function.**  Once the
semaphore has room, the goroutine takes it and is at `release` (semaphore release +
`deliveryWg.Done()`), still counted by the WaitGroup; the spool entry is neither removed nor
re-scheduled. -/
theorem C12_open_failure_step (v : Variant) (s : St) (i c : Nat) (t : Thread) (hget : s.thr[i]? = some t)
    (hpc : t.pc = .acquireBad) (hsem : s.semHeld < s.semCap) :
    step v s (.thr i c) =
      some { s with semHeld := s.semHeld + 1, thr := s.thr.set i { t with pc := .release } } := by
  simp [step, stepThr, hget, hpc, hsem]

/-- The deferred function: semaphore released, WaitGroup decremented, goroutine finished (in a
reachable state the counter is positive, `C12_counts`). -/
theorem C12_release_step (v : Variant) (s : St) (i c : Nat) (t : Thread) (hget : s.thr[i]? = some t)
    (hpc : t.pc = .release) (hsem : s.semHeld ≠ 0) (hwg : s.wg ≠ 0) :
    step v s (.thr i c) =
      some { s with semHeld := s.semHeld - 1, wg := s.wg - 1, thr := s.thr.set i { t with pc := .done } } := by
  simp [step, stepThr, hget, hpc, hsem, hwg]

/-- **When nothing can move any more the WaitGroup counter is zero (both variants, with or without
shutdown, whatever `openMessage` answered).**  Positive semaphore capacity; a reachable state in which
no goroutine can take a step and — without a `Close` call — the tick goroutine is not waiting for a
timer: every goroutine started by `Queue.dispatch` is past `deliveryWg.Done()` and the counter is 0,
so a `Queue.Close` called now or later does not block in `deliveryWg.Wait()`. -/
theorem C12_wg_zero_when_stuck (v : Variant) (cap : Nat) (prods : List (Nat × Nat)) (wc : Bool)
    (sched : List Who) (hcap : 0 < cap)
    (hq : ∀ w, (∀ d, w ≠ .clock d) → step v (run v (init cap prods wc) sched) w = none)
    (ht : wc = false → ∀ cur dl, (run v (init cap prods wc) sched).tick ≠ .waitTimer cur dl) :
    (run v (init cap prods wc) sched).wg = 0 ∧
    ∀ t ∈ (run v (init cap prods wc) sched).thr, t.kind = .attempt → wgPc t.pc = false := by
  cases wc with
  | true =>
    exact C12_close_waits_for_attempts v cap prods true sched
      (C12_close_returned_when_stuck v cap prods sched hcap hq)
  | false =>
    obtain ⟨_, _, hdone, _⟩ := C12_all_dispatched_when_quiescent v cap prods sched hcap hq (ht rfl)
    have hI := inv_reach v cap prods false sched
    refine ⟨?_, ?_⟩
    · rw [hI.cnt.1, sum_map_eq_zero]
      intro t hmem
      simp [wgW, hdone t hmem, wgPc]
    · intro t hmem _
      simp [hdone t hmem, wgPc]

/-- A restart-style entry (time 3, message on disk) is dispatched while its meta-data cannot be
read; `Close` is called meanwhile. -/
def badOpenSched : List Who :=
  [ .thr 0 0, .thr 0 0, .thr 0 0,                   -- producer: check, lock, push
    .tick, .tick, .tick, .tick, .tickUpd 0,         -- tick: now, lock, scan, newtimer; notification
    .clock 3, .tickTimer, .tick, .tick,             -- timer fires: lock, remove
    .tickBad,                                       -- dispatch; openMessage is going to fail
    .closer, .tick, .tick, .tick, .tickStop, .tick, .closer,   -- Close: stop handshake, close(done)
    .closer,                                        -- deliveryWg.Wait(): blocked, the attempt is counted
    .thr 1 0,                                       -- attempt: semaphore, openMessage fails, return
    .closer,                                        -- still blocked
    .thr 1 0,                                       -- deferred: semaphore released, deliveryWg.Done()
    .closer ]                                       -- Close returns

/-- non-vacuity of the open-failure path: the failed attempt is counted until its deferred function
ran (`Close` waits for it, then returns); the message is neither removed nor quarantined nor
re-scheduled. -/
theorem C12_open_failure_example :
    (run .fixed (init 1 [(3, 0)] true) (badOpenSched.take 23)).wg = 1 ∧
    (run .fixed (init 1 [(3, 0)] true) (badOpenSched.take 23)).closer = some .wgWait ∧
    ((run .fixed (init 1 [(3, 0)] true) (badOpenSched.take 23)).thr.map (·.pc)) = [.done, .release] ∧
    (run .fixed (init 1 [(3, 0)] true) badOpenSched).closer = some .done ∧
    (run .fixed (init 1 [(3, 0)] true) badOpenSched).wg = 0 ∧
    (run .fixed (init 1 [(3, 0)] true) badOpenSched).semHeld = 0 ∧
    ((run .fixed (init 1 [(3, 0)] true) badOpenSched).thr.map (·.pc)) = [.done, .done] ∧
    (run .fixed (init 1 [(3, 0)] true) badOpenSched).dispatched.length = 1 ∧
    (run .fixed (init 1 [(3, 0)] true) badOpenSched).removed = [] ∧
    (run .fixed (init 1 [(3, 0)] true) badOpenSched).broken = [] ∧
    (run .fixed (init 1 [(3, 0)] true) badOpenSched).slots = [] := by decide

/-- `tickBad` is not a possible environment for an entry that carries its message in memory
(`queueDelivery.Commit`): `Queue.dispatch` does not open anything then. -/
example : step .fixed { init 1 [] false with tick := .dispatch { req := 0, msg := 0, time := 0, budget := 0, mem := true } } .tickBad = none := rfl

/-- hypotheses of `C12_open_failure_step` / `C12_release_step` / `C12_wg_zero_when_stuck` hold on the run above -/
example :
    ((run .fixed (init 1 [(3, 0)] true) (badOpenSched.take 21)).thr[1]?.map (·.pc)) = some .acquireBad ∧
    (run .fixed (init 1 [(3, 0)] true) (badOpenSched.take 21)).semHeld < (run .fixed (init 1 [(3, 0)] true) (badOpenSched.take 21)).semCap ∧
    ((run .fixed (init 1 [(3, 0)] true) (badOpenSched.take 23)).thr[1]?.map (·.pc)) = some .release ∧
    (run .fixed (init 1 [(3, 0)] true) (badOpenSched.take 23)).semHeld ≠ 0 ∧
    (run .fixed (init 1 [(3, 0)] true) (badOpenSched.take 23)).wg ≠ 0 := by decide

example :
    0 < 1 ∧ (∀ w, (∀ d, w ≠ .clock d) → step .fixed (run .fixed (init 1 [(3, 0)] true) badOpenSched) w = none) :=
  ⟨by decide, stuck_of_done (by decide) (Or.inr (by decide)) (Or.inr (by decide))⟩

/-! ## a delivery attempt that panics (`Who.thrPanic`, panic recovery active) -/

/-- **A panicking delivery enters the deferred function.**  Whatever the stage of the dialogue, the
attempt decided nothing (no retry, nothing removed) and is at `panicRelease`, still holding its
semaphore token and still counted by the WaitGroup. -/
theorem C12_target_panic_step (v : Variant) (s : St) (i : Nat) (t : Thread) (hget : s.thr[i]? = some t)
    (hpc : t.pc = .deliver) :
    step v s (.thrPanic i) =
      some { s with tpanic := t.slot.msg :: s.tpanic, thr := s.thr.set i { t with pc := .panicRelease } } := by
  simp [step, stepThrPanic, hget, hpc]

/-- **The deferred function entered by a panic releases exactly what a normal end releases**
(`C12_release_step`): one semaphore token and one unit of the WaitGroup; what differs is only what
the goroutine does afterwards (`discard`: `recover()` → `discardBroken`). -/
theorem C12_panic_release_step (v : Variant) (s : St) (i c : Nat) (t : Thread) (hget : s.thr[i]? = some t)
    (hpc : t.pc = .panicRelease) (hsem : s.semHeld ≠ 0) (hwg : s.wg ≠ 0) :
    step v s (.thr i c) =
      some { s with semHeld := s.semHeld - 1, wg := s.wg - 1, thr := s.thr.set i { t with pc := .discard } } := by
  simp [step, stepThr, hget, hpc, hsem, hwg]

/-- The containment step: the message of the panicked attempt is renamed to `.meta_broken`. -/
theorem C12_quarantine_step (v : Variant) (s : St) (i c : Nat) (t : Thread) (hget : s.thr[i]? = some t)
    (hpc : t.pc = .discard) :
    step v s (.thr i c) =
      some { s with broken := t.slot.msg :: s.broken, thr := s.thr.set i { t with pc := .done } } := by
  simp [step, stepThr, hget, hpc]

/-- Every message whose delivery panicked is quarantined, or the goroutine that is going to
quarantine it is still on its way (in the deferred function). -/
def QuarInv (s : St) : Prop :=
  ∀ m ∈ s.tpanic, m ∈ s.broken ∨ ∃ t ∈ s.thr, (t.pc = .panicRelease ∨ t.pc = .discard) ∧ t.slot.msg = m

theorem quarInv_step {v : Variant} {cap : Nat} {s s' : St} {w : Who} (hK : KindInv s) (hC : CntInv cap s)
    (hI : QuarInv s) (h : step v s w = some s') : QuarInv s' := by
  obtain ⟨c1, c2, c3, c4⟩ := hC
  have keep : ∀ (i : Nat) (t : Thread) (pc : Pc) (sl : Slot), s.thr[i]? = some t →
      t.pc ≠ .panicRelease → t.pc ≠ .discard →
      ∀ m ∈ s.tpanic, m ∈ s.broken ∨ ∃ u ∈ s.thr.set i { t with slot := sl, pc := pc },
        (u.pc = .panicRelease ∨ u.pc = .discard) ∧ u.slot.msg = m := by
    intro i t pc sl hget hp1 hp2 m hm
    rcases hI m hm with hb | ⟨u, hu, hpu, hmu⟩
    · exact Or.inl hb
    · refine Or.inr ⟨u, mem_set_of_ne hu hget ?_, hpu, hmu⟩
      intro hut; subst hut
      rcases hpu with hpu | hpu
      · exact hp1 hpu
      · exact hp2 hpu
  apply step_elim h (motive := fun _ s' => QuarInv s')
  case releaseCrash | panicReleaseCrash =>
    intro i c t hget hpc _ hwg
    exfalso
    have hk := hK t (List.mem_of_getElem? hget)
    have := le_sum_map wgW _ _ _ hget
    cases hkk : t.kind <;> simp_all [wgW, wgPc, prodPc] <;> omega
  case acquire | acquireBad | deliverDone | checkStopped | checkGo | lock | push | sendClosedFixed | release =>
    intro i c t hget hpc
    intros
    exact keep i t _ t.slot hget (by rw [hpc]; simp) (by rw [hpc]; simp)
  case deliverRetry =>
    intro i d t hget hpc _
    exact keep i t _ _ hget (by rw [hpc]; simp) (by rw [hpc]; simp)
  case updEmpty | updKeep | updReset =>
    intro i t hget hpc
    intros
    exact keep i t _ t.slot hget (by rw [hpc]; simp) (by rw [hpc]; simp)
  case sendClosedUnfixed =>
    intro i c t hget hpc _ _ m hm
    have hil : i < s.thr.length := (List.getElem?_eq_some_iff.mp hget).1
    rcases hI m hm with hb | ⟨u, hu, hpu, hmu⟩
    · exact Or.inl hb
    · refine Or.inr ⟨u, mem_set_of_ne hu hget ?_, hpu, hmu⟩
      intro hut; subst hut
      rw [hpc] at hpu
      rcases hpu with hpu | hpu <;> cases hpu
  case panicRelease =>
    intro i c t hget hpc _ _ m hm
    have hil : i < s.thr.length := (List.getElem?_eq_some_iff.mp hget).1
    rcases hI m hm with hb | ⟨u, hu, hpu, hmu⟩
    · exact Or.inl hb
    · by_cases hut : u = t
      · subst hut
        exact Or.inr ⟨{ u with pc := .discard }, List.mem_iff_getElem?.mpr ⟨i, by simp [List.getElem?_set, hil]⟩, Or.inr rfl, hmu⟩
      · exact Or.inr ⟨u, mem_set_of_ne hu hget hut, hpu, hmu⟩
  case discard =>
    intro i c t hget hpc m hm
    rcases hI m hm with hb | ⟨u, hu, hpu, hmu⟩
    · exact Or.inl (List.mem_cons_of_mem _ hb)
    · by_cases hut : u = t
      · subst hut
        left; rw [← hmu]; exact List.mem_cons_self
      · exact Or.inr ⟨u, mem_set_of_ne hu hget hut, hpu, hmu⟩
  case deliverPanic =>
    intro i t hget hpc m hm
    have hil : i < s.thr.length := (List.getElem?_eq_some_iff.mp hget).1
    simp only [List.mem_cons] at hm
    rcases hm with rfl | hm
    · exact Or.inr ⟨{ t with pc := .panicRelease }, List.mem_iff_getElem?.mpr ⟨i, by simp [List.getElem?_set, hil]⟩, Or.inl rfl, rfl⟩
    · rcases hI m hm with hb | ⟨u, hu, hpu, hmu⟩
      · exact Or.inl hb
      · refine Or.inr ⟨u, mem_set_of_ne hu hget ?_, hpu, hmu⟩
        intro hut; subst hut
        rw [hpc] at hpu
        rcases hpu with hpu | hpu <;> cases hpu
  case dispatch =>
    intro cur hc m hm
    rcases hI m hm with hb | ⟨u, hu, hpu, hmu⟩
    · exact Or.inl hb
    · exact Or.inr ⟨u, List.mem_append_left _ hu, hpu, hmu⟩
  case dispatchBad =>
    intro cur hc _ m hm
    rcases hI m hm with hb | ⟨u, hu, hpu, hmu⟩
    · exact Or.inl hb
    · exact Or.inr ⟨u, List.mem_append_left _ hu, hpu, hmu⟩
  all_goals intros
  all_goals exact hI

theorem quar_reach (v : Variant) (cap : Nat) (prods : List (Nat × Nat)) (wc : Bool) (sched : List Who) :
    QuarInv (run v (init cap prods wc) sched) := by
  have := run_inv (v := v) (fun s => Inv cap s ∧ QuarInv s)
    (fun s w s' hI h => ⟨inv_step hI.1 h, quarInv_step hI.1.kind hI.1.cnt hI.2 h⟩)
    sched _ ⟨inv_init cap prods wc, by intro m hm; simp [init] at hm⟩
  exact this.2

/-- **The panic is contained: the offending message ends up quarantined (both variants).**  In a
reachable state in which no goroutine can take a step, every message whose delivery panicked has been
renamed to `.meta_broken` (the goroutine in the deferred function is never blocked:
`C12_panic_release_step`, `C12_quarantine_step`, `C12_counts`).  Together with `C12_close_terminates`,
`C12_wg_zero_when_stuck` and `C12_all_dispatched_when_quiescent`, which quantify over schedules with
panicking deliveries too: shutdown still terminates and every other entry is still dispatched once. -/
theorem C12_target_panic_quarantined_when_stuck (v : Variant) (cap : Nat) (prods : List (Nat × Nat)) (wc : Bool)
    (sched : List Who)
    (hq : ∀ w, (∀ d, w ≠ .clock d) → step v (run v (init cap prods wc) sched) w = none) :
    ∀ m ∈ (run v (init cap prods wc) sched).tpanic, m ∈ (run v (init cap prods wc) sched).broken := by
  intro m hm
  have hI := inv_reach v cap prods wc sched
  rcases quar_reach v cap prods wc sched m hm with hb | ⟨u, hu, hpu, hmu⟩
  · exact hb
  · exfalso
    obtain ⟨i, hget⟩ := List.mem_iff_getElem?.mp hu
    have hstuck := hq (.thr i 0) (by intro d hd; cases hd)
    obtain ⟨c1, c2, c3, c4⟩ := hI.cnt
    have hk := hI.kind u hu
    have hsem := le_sum_map semW _ _ _ hget
    have hwg := le_sum_map wgW _ _ _ hget
    rcases hpu with hpu | hpu
    · have h1 : (run v (init cap prods wc) sched).semHeld ≠ 0 := by
        cases hkk : u.kind <;> simp_all [semW, semPc, prodPc] <;> omega
      have h2 : (run v (init cap prods wc) sched).wg ≠ 0 := by
        cases hkk : u.kind <;> simp_all [wgW, wgPc, prodPc] <;> omega
      rw [C12_panic_release_step v _ i 0 u hget hpu h1 h2] at hstuck
      cases hstuck
    · rw [C12_quarantine_step v _ i 0 u hget hpu] at hstuck
      cases hstuck

/-- One message due at once (`Commit`), one restart-style entry due at 2; the delivery of the first
panics while `Close` is waiting in `deliveryWg.Wait()`. -/
def panicSched : List Who :=
  [ .thr 0 0, .thr 0 0, .thr 0 0,                   -- producer 0: check, lock, push
    .tick, .tick, .tick, .tick, .tickUpd 0,         -- tick: now, lock, scan, newtimer; notification
    .tickTimer, .tick, .tick, .tick,                -- timer: lock, remove, dispatch (goroutine 2)
    .thr 2 0,                                       -- attempt: semaphore
    .closer, .tick, .tick, .tick, .tickStop, .tick, .closer,   -- Close: stop handshake, close(done)
    .closer,                                        -- deliveryWg.Wait(): blocked
    .thrPanic 2,                                    -- the delivery target panics
    .closer,                                        -- still blocked
    .thr 2 0,                                       -- deferred function: semaphore released, deliveryWg.Done()
    .closer,                                        -- Close returns …
    .thr 2 0 ]                                      -- … and only then the message is quarantined

/-- non-vacuity of the panic path; and **the quarantine rename may follow the return of `Close`**
(`discardBroken` is called after `deliveryWg.Done()`): after 25 steps `Close` has returned while the
attempt goroutine is still at `discard`. -/
theorem C12_quarantine_may_follow_close :
    (run .fixed (init 1 [(0, 0), (2, 0)] true) (panicSched.take 23)).closer = some .wgWait ∧
    (run .fixed (init 1 [(0, 0), (2, 0)] true) (panicSched.take 23)).wg = 1 ∧
    (run .fixed (init 1 [(0, 0), (2, 0)] true) (panicSched.take 25)).closer = some .done ∧
    ((run .fixed (init 1 [(0, 0), (2, 0)] true) (panicSched.take 25)).thr.map (·.pc)) = [.done, .check, .discard] ∧
    (run .fixed (init 1 [(0, 0), (2, 0)] true) (panicSched.take 25)).broken = [] ∧
    (run .fixed (init 1 [(0, 0), (2, 0)] true) panicSched).broken = [0] ∧
    (run .fixed (init 1 [(0, 0), (2, 0)] true) panicSched).tpanic = [0] ∧
    (run .fixed (init 1 [(0, 0), (2, 0)] true) panicSched).removed = [] ∧
    (run .fixed (init 1 [(0, 0), (2, 0)] true) panicSched).wg = 0 ∧
    (run .fixed (init 1 [(0, 0), (2, 0)] true) panicSched).semHeld = 0 ∧
    (run .fixed (init 1 [(0, 0), (2, 0)] true) panicSched).crashed = false := by decide

/-- hypotheses of `C12_target_panic_step` / `C12_panic_release_step` / `C12_quarantine_step` hold on that run -/
example :
    ((run .fixed (init 1 [(0, 0), (2, 0)] true) (panicSched.take 21)).thr[2]?.map (·.pc)) = some .deliver ∧
    ((run .fixed (init 1 [(0, 0), (2, 0)] true) (panicSched.take 23)).thr[2]?.map (·.pc)) = some .panicRelease ∧
    (run .fixed (init 1 [(0, 0), (2, 0)] true) (panicSched.take 23)).semHeld ≠ 0 ∧
    (run .fixed (init 1 [(0, 0), (2, 0)] true) (panicSched.take 23)).wg ≠ 0 ∧
    noTargetPanic panicSched = false ∧ noTargetPanic raceSched = true := by decide

/-! ## the terminal outcome belongs to the attempt that `Close` waits for

The model's `deliver` step with a final outcome stands for everything `tryDelivery` does after the next hop has
answered: the failure report for the recipients that failed for good is handed to the bounce pipeline
(`emitDSN`, synchronously), then the message is removed from the spool — all inside the dispatch goroutine, which
is counted by `deliveryWg` until its deferred function has run.  (Harness: a bounce pipeline is configured; work an
attempt leaves behind in another goroutine is scheduled last, and what is gone from the spool when `Close` returns
must have its outcome: `C12/work-running-after-close`, `C12/outcome-lost-at-close`.) -/

/-- Every message removed from the spool was removed by an attempt goroutine that is in its deferred
function (`release`: semaphore token and WaitGroup unit still held) or has ended. -/
def OutcomeInv (s : St) : Prop :=
  ∀ m ∈ s.removed, ∃ t ∈ s.thr, t.kind = .attempt ∧ (t.pc = .release ∨ t.pc = .done ∨ t.pc = .panicked) ∧ t.slot.msg = m

theorem outcomeInv_step {v : Variant} {s s' : St} {w : Who} (hK : KindInv s)
    (hI : OutcomeInv s) (h : step v s w = some s') : OutcomeInv s' := by
  have keep : ∀ (i : Nat) (t : Thread) (pc : Pc) (sl : Slot), s.thr[i]? = some t →
      t.pc ≠ .release → t.pc ≠ .done → t.pc ≠ .panicked →
      ∀ m ∈ s.removed, ∃ u ∈ s.thr.set i { t with slot := sl, pc := pc },
        u.kind = .attempt ∧ (u.pc = .release ∨ u.pc = .done ∨ u.pc = .panicked) ∧ u.slot.msg = m := by
    intro i t pc sl hget hp1 hp2 hp3 m hm
    obtain ⟨u, hu, hku, hpu, hmu⟩ := hI m hm
    refine ⟨u, mem_set_of_ne hu hget ?_, hku, hpu, hmu⟩
    intro hut; subst hut
    rcases hpu with hpu | hpu | hpu
    · exact hp1 hpu
    · exact hp2 hpu
    · exact hp3 hpu
  have move : ∀ (i : Nat) (t : Thread) (pc : Pc), s.thr[i]? = some t →
      (pc = .release ∨ pc = .done ∨ pc = .panicked) →
      ∀ m ∈ s.removed, ∃ u ∈ s.thr.set i { t with pc := pc },
        u.kind = .attempt ∧ (u.pc = .release ∨ u.pc = .done ∨ u.pc = .panicked) ∧ u.slot.msg = m := by
    intro i t pc hget hpc m hm
    have hil : i < s.thr.length := (List.getElem?_eq_some_iff.mp hget).1
    obtain ⟨u, hu, hku, hpu, hmu⟩ := hI m hm
    by_cases hut : u = t
    · subst hut
      exact ⟨{ u with pc := pc }, List.mem_iff_getElem?.mpr ⟨i, by simp [List.getElem?_set, hil]⟩, hku, hpc, hmu⟩
    · exact ⟨u, mem_set_of_ne hu hget hut, hku, hpu, hmu⟩
  apply step_elim h (motive := fun _ s' => OutcomeInv s')
  case releaseCrash | release =>
    intro i c t hget hpc _ _
    exact move i t _ hget (by simp)
  case acquire | acquireBad | checkStopped | checkGo | lock | push | sendClosedFixed | sendClosedUnfixed | panicReleaseCrash | panicRelease | discard =>
    intro i c t hget hpc
    intros
    exact keep i t _ t.slot hget (by rw [hpc]; simp) (by rw [hpc]; simp) (by rw [hpc]; simp)
  case deliverRetry =>
    intro i d t hget hpc _
    exact keep i t _ _ hget (by rw [hpc]; simp) (by rw [hpc]; simp) (by rw [hpc]; simp)
  case updEmpty | updKeep | updReset =>
    intro i t hget hpc
    intros
    exact keep i t _ t.slot hget (by rw [hpc]; simp) (by rw [hpc]; simp) (by rw [hpc]; simp)
  case deliverPanic =>
    intro i t hget hpc
    exact keep i t _ t.slot hget (by rw [hpc]; simp) (by rw [hpc]; simp) (by rw [hpc]; simp)
  case deliverDone =>
    intro i c t hget hpc m hm
    have hil : i < s.thr.length := (List.getElem?_eq_some_iff.mp hget).1
    have hkind : t.kind = .attempt := by
      have hk := hK t (List.mem_of_getElem? hget)
      cases hkk : t.kind with
      | attempt => rfl
      | producer =>
        have := hk hkk
        rw [hpc] at this
        simp [prodPc] at this
    simp only [List.mem_cons] at hm
    rcases hm with rfl | hm
    · exact ⟨{ t with pc := .release }, List.mem_iff_getElem?.mpr ⟨i, by simp [List.getElem?_set, hil]⟩, hkind, Or.inl rfl, rfl⟩
    · exact keep i t _ t.slot hget (by rw [hpc]; simp) (by rw [hpc]; simp) (by rw [hpc]; simp) m hm
  case dispatch =>
    intro cur hc m hm
    obtain ⟨u, hu, hr⟩ := hI m hm
    exact ⟨u, List.mem_append_left _ hu, hr⟩
  case dispatchBad =>
    intro cur hc _ m hm
    obtain ⟨u, hu, hr⟩ := hI m hm
    exact ⟨u, List.mem_append_left _ hu, hr⟩
  all_goals intros
  all_goals exact hI

theorem outcome_reach (v : Variant) (cap : Nat) (prods : List (Nat × Nat)) (wc : Bool) (sched : List Who) :
    OutcomeInv (run v (init cap prods wc) sched) := by
  have := run_inv (v := v) (fun s => Inv cap s ∧ OutcomeInv s)
    (fun s w s' hI h => ⟨inv_step hI.1 h, outcomeInv_step hI.1.kind hI.2 h⟩)
    sched _ ⟨inv_init cap prods wc, by intro m hm; simp [init] at hm⟩
  exact this.2

/-- **The terminal outcome is the attempt's own step**: at `deliver`, a final answer of the next hop
(`choice = 0`: delivered, or rejected for good — then the failure report is handed to the bounce
pipeline in this very step) removes the message and leaves the goroutine at its deferred function,
semaphore token and WaitGroup unit still held. -/
theorem C12_terminal_outcome_step (v : Variant) (s : St) (i : Nat) (t : Thread) (hget : s.thr[i]? = some t)
    (hpc : t.pc = .deliver) :
    step v s (.thr i 0) =
      some { s with removed := t.slot.msg :: s.removed, thr := s.thr.set i { t with pc := .release } } := by
  simp [step, stepThr, hget, hpc]

/-- The same when a temporary failure exhausts `max_tries`. -/
theorem C12_max_tries_outcome_step (v : Variant) (s : St) (i d : Nat) (t : Thread) (hget : s.thr[i]? = some t)
    (hpc : t.pc = .deliver) (hb : t.slot.budget = 0) :
    step v s (.thr i (d + 1)) =
      some { s with removed := t.slot.msg :: s.removed, thr := s.thr.set i { t with pc := .release } } := by
  simp [step, stepThr, hget, hpc, hb]

/-- **Whatever is gone from the spool was removed by a goroutine `Close` waits for (both variants, all
schedules).**  In every reachable state each removed message has an attempt goroutine that reached the
outcome and is now in its deferred function (still counted by `deliveryWg`: `C12_counts`) or has
ended (or, pinned tree only, died in the deferred function). -/
theorem C12_removed_by_counted_attempt (v : Variant) (cap : Nat) (prods : List (Nat × Nat)) (wc : Bool)
    (sched : List Who) :
    ∀ m ∈ (run v (init cap prods wc) sched).removed, ∃ t ∈ (run v (init cap prods wc) sched).thr,
      t.kind = .attempt ∧ (t.pc = .release ∨ t.pc = .done ∨ t.pc = .panicked) ∧ t.slot.msg = m :=
  outcome_reach v cap prods wc sched

/-- **Nothing is pending for a removed message once `Close` has returned (repaired tree).**  Every
message that is gone from the spool then has an attempt goroutine that reached its terminal outcome —
failure report included — and has ENDED: no work on its behalf is left for a process that exits now. -/
theorem C12_removed_outcome_complete_after_close (cap : Nat) (prods : List (Nat × Nat)) (wc : Bool)
    (sched : List Who) (hd : (run .fixed (init cap prods wc) sched).closer = some .done) :
    ∀ m ∈ (run .fixed (init cap prods wc) sched).removed, ∃ t ∈ (run .fixed (init cap prods wc) sched).thr,
      t.kind = .attempt ∧ t.pc = .done ∧ t.slot.msg = m := by
  intro m hm
  obtain ⟨t, ht, hk, hp, hmt⟩ := outcome_reach .fixed cap prods wc sched m hm
  refine ⟨t, ht, hk, ?_, hmt⟩
  rcases C12_close_waits_for_attempts_fixed cap prods wc sched hd t ht hk with h | ⟨h, _⟩
  · exact h
  · rw [h] at hp
    rcases hp with hp | hp | hp <;> cases hp

/-- non-vacuity: `twoSched` removes both messages; the hypotheses of the theorem above are satisfiable
(`raceSched`: `Close` returns). -/
example : (run .fixed (init 1 [(5, 0), (3, 0)] false) twoSched).removed = [0, 1] ∧
    (run .fixed (init 1 [(0, 1)] true) raceSched).closer = some .done := by decide

/-! ## the pinned tree: the panic also escapes from a producer's `Commit` -/

/-- Unrepaired variant, one producer, no retry needed: `Add` passes the stopped check, `Close` stops
the tick goroutine and closes `updateNotify`, `Add` sends: the producer panics. -/
theorem C12_unfixed_producer_panic_counterexample :
    ((run .unfixed (init 1 [(0, 0)] true)
      [.thr 0 0, .closer, .tick, .tick, .tick, .tickStop, .tick, .closer, .thr 0 0, .thr 0 0, .thr 0 0]).thr.map (·.pc))
      = [.panicked] := by decide

/-! ## T1: the synchronisation skeleton of the current tree is the one the model was built from -/

/-- The ordered synchronisation operations of `TimeWheel.Add/Close/tick`, `Queue.Close`,
`Queue.dispatch` (and its goroutine and deferred function), `discardBroken` and the callers of `Add`,
regenerated from the working tree on every run, equal the hand-written expectation (finite table,
`decide`). -/
theorem C12_sync_skeleton_matches :
    MaddyVerif.Generated.TimeWheelSync.modelled = MaddyVerif.Expect.TimeWheelSync.modelled := by decide

/-- No other function of timewheel.go / queue.go acquired a synchronisation operation. -/
theorem C12_no_other_sync_points :
    MaddyVerif.Generated.TimeWheelSync.others = MaddyVerif.Expect.TimeWheelSync.others := by decide

end MaddyVerif.C12
