import MaddyVerif.Lemmas.CheckRunner
import MaddyVerif.Generated.C06Calls
import MaddyVerif.Expect.C06Calls
/-!
# C06 — check verdicts are always enforced and every check sees every stage once

Quantifier: every configuration (any number of checks, any placement over the global, source and
destination blocks — the same check may be referenced by several blocks —, any verdict of every
check at every stage and for every recipient, any routing, any targets, any DMARC outcome, the
message already flagged as quarantined or not when the pipeline gets it — `Cfg.q0`: the pipeline may
be the target of another pipeline whose checks flagged the message, any failures of the modifier
groups — `Cfg.mf`: `RewriteSender` / `RewriteRcpt` for any recipients / `RewriteBody` of the global,
source and destination-block modifiers failing in the middle of the transaction), every
envelope (any list of recipients, repeated ones included), both body paths, and every completion
order of the goroutines of every `runAndMergeResults` call (`Ord.fair`: the oracle only permutes).
Any number of messages in flight on the same pipeline object, their commands interleaved in any
order (`multi`, `C06_transactions_independent`): each of them ends exactly as `run` says for it alone,
so every theorem below holds for each of the overlapping transactions.  The envelope sender is not an
input of the model: it selects the source block (`Cfg.source`, `Cfg.block`, `Cfg.route` - routing is
C04's business) and is an argument of the checks (whose verdicts are the parameter `Cfg.v`); the null
reverse-path `<>` is a sender like any other (`mailFromReceived`, not `mailFrom != ""`, tells
`checkStates` whether MAIL was seen).

How the action of a check comes out of its configuration is part of the claim: `parseAction`
(`ParseActionDirective`) on every argument list - accepted exactly for the three documented words in
their exact spelling, the flags a function of the word (`C06_directive_*`).

The model (`Model/CheckRunner.lean`) mirrors the tree with the C06 `fix:` commits.
`Cfg.WF` (no block lists the same check twice) is needed for the each-stage-once theorems only.
-/
namespace MaddyVerif.C06
open MaddyVerif.CheckRunner

/-! ## the action table (`FailAction.Apply` + the runner's if-chain) -/

/-- The four verdicts of the property: no reason - nothing happens whatever the action is;
a reason under `ignore` - nothing; under `quarantine` / `reject` - exactly that. -/
theorem C06_action_table (a : Act) :
    (a.apply ⟨false, false, false⟩).eff = .none ∧
    (Act.ignore.apply ⟨true, false, false⟩).eff = .none ∧
    (Act.quarantine.apply ⟨true, false, false⟩).eff = .quar ∧
    (Act.reject.apply ⟨true, false, false⟩).eff = .rej := by
  cases a <;> simp [Act.apply, Res.eff]

/-- `FailAction.Apply` never produces a flag without a reason from a result that has none (the
runner would store a nil error in its `sync.Once` for such a result). -/
theorem C06_apply_wellformed (a : Act) (o : Res) (h : o.q = true ∨ o.r = true → o.reason = true) :
    (a.apply o).q = true ∨ (a.apply o).r = true → (a.apply o).reason = true := by
  unfold Act.apply
  split
  · exact h
  · rename_i hr; intro _; simpa using hr

/-! ## the action directive (`ParseActionDirective`) -/

theorem parseAction_cons_isSome (w : String) (rest : List String) :
    (parseAction (w :: rest)).isSome = true ↔
      (w = "ignore" ∨ ((w = "reject" ∨ w = "quarantine") ∧ (rest = [] ∨ (parseReject rest).isSome = true))) := by
  by_cases h1 : w = "reject" ∨ w = "quarantine"
  · have hi : w ≠ "ignore" := by rcases h1 with rfl | rfl <;> decide
    by_cases hr : rest = []
    · simp [parseAction, h1, hr]
    · simp [parseAction, h1, hr, hi]
  · by_cases h2 : w = "ignore"
    · simp [parseAction, h2]
    · simp [parseAction, h1, h2]

/-- A directive is accepted at configuration load exactly when its first argument IS one of the
three documented words (byte for byte) and, after `reject` / `quarantine`, the optional custom
reply is well-formed; what follows `ignore` is not looked at; no argument at all is refused. -/
theorem C06_directive_accepted_iff (args : List String) :
    (parseAction args).isSome = true ↔
      ∃ w rest, args = w :: rest ∧
        (w = "ignore" ∨ ((w = "reject" ∨ w = "quarantine") ∧ (rest = [] ∨ (parseReject rest).isSome = true))) := by
  constructor
  · intro h
    cases args with
    | nil => simp [parseAction] at h
    | cons w rest => exact ⟨w, rest, rfl, (parseAction_cons_isSome w rest).mp h⟩
  · rintro ⟨w, rest, rfl, h⟩
    exact (parseAction_cons_isSome w rest).mpr h

/-- Any other spelling of the word - `Reject`, `REJECT`, `reject ` … - is refused at load, whatever follows. -/
theorem C06_directive_exact_spelling (w : String) (rest : List String)
    (hr : w ≠ "reject") (hq : w ≠ "quarantine") (hi : w ≠ "ignore") :
    parseAction (w :: rest) = none := by
  simp [parseAction, hr, hq, hi]

/-- The flags of an accepted directive are a function of its word. -/
theorem C06_directive_flags {w : String} {rest : List String} {a : FailAction}
    (h : parseAction (w :: rest) = some a) :
    a.reject = (w == "reject") ∧ a.quarantine = (w == "quarantine") := by
  simp only [parseAction] at h
  split at h
  · split at h
    · cases h; simp
    · simp only [Option.map_eq_some_iff] at h
      obtain ⟨o, _, rfl⟩ := h
      simp
  · split at h
    · rename_i hi
      cases h; subst hi; decide
    · cases h

/-- An accepted directive means what its word documents: the action the runner applies is the
documented one, and `FailAction.Apply` with the parsed value is `Act.apply` of that action. -/
theorem C06_directive_means_its_word {w : String} {rest : List String} {a : FailAction}
    (h : parseAction (w :: rest) = some a) :
    documented w = some a.act ∧ ∀ o, a.apply o = a.act.apply o := by
  obtain ⟨hr, hq⟩ := C06_directive_flags h
  have hacc := (C06_directive_accepted_iff (w :: rest)).mp (by simp [h])
  obtain ⟨w', rest', heq, hw⟩ := hacc
  simp only [List.cons.injEq] at heq
  obtain ⟨rfl, rfl⟩ := heq
  have key : (w = "reject" ∧ a.reject = true ∧ a.quarantine = false) ∨
      (w = "quarantine" ∧ a.reject = false ∧ a.quarantine = true) ∨
      (w = "ignore" ∧ a.reject = false ∧ a.quarantine = false) := by
    rcases hw with rfl | ⟨rfl | rfl, _⟩
    · right; right; exact ⟨rfl, by rw [hr]; decide, by rw [hq]; decide⟩
    · left; exact ⟨rfl, by rw [hr]; decide, by rw [hq]; decide⟩
    · right; left; exact ⟨rfl, by rw [hr]; decide, by rw [hq]; decide⟩
  rcases key with ⟨rfl, h1, h2⟩ | ⟨rfl, h1, h2⟩ | ⟨rfl, h1, h2⟩
  all_goals
    refine ⟨by simp [documented, FailAction.act, h1, h2], fun o => ?_⟩
    have e1 : (Act.reject == Act.quarantine) = false := by decide
    have e2 : (Act.quarantine == Act.reject) = false := by decide
    have e3 : (Act.ignore == Act.quarantine) = false := by decide
    have e4 : (Act.ignore == Act.reject) = false := by decide
    simp [FailAction.apply, FailAction.act, Act.apply, h1, h2, e1, e2, e3, e4]

/-- Accepted ⇒ enforced as documented: a failing check (a result with a reason) whose action came
from an accepted directive makes the runner reject / quarantine / do nothing exactly as the word
says (with `C06_action_table`; the stages and the pipeline are the theorems below, which hold for
every verdict function). -/
theorem C06_directive_enforced {w : String} {rest : List String} {a : FailAction}
    (h : parseAction (w :: rest) = some a) :
    (w = "reject" → (a.apply ⟨true, false, false⟩).eff = .rej) ∧
    (w = "quarantine" → (a.apply ⟨true, false, false⟩).eff = .quar) ∧
    (w = "ignore" → (a.apply ⟨true, false, false⟩).eff = .none) := by
  obtain ⟨hd, ha⟩ := C06_directive_means_its_word h
  rw [ha]
  refine ⟨?_, ?_, ?_⟩ <;> intro hw <;> subst hw <;>
    simp [documented] at hd <;> rw [← hd] <;> simp [Act.apply, Res.eff]

/-- non-vacuity: documented spellings load (with and without a custom reply), every other spelling,
surplus or malformed arguments, no argument are refused; what follows `ignore` is not looked at -/
example : parseAction ["reject"] = some ⟨false, true, none⟩ := by decide
example : parseAction ["quarantine", "451", "4.7.0", "come back"] =
    some ⟨true, false, some ⟨451, (4, 7, 0), "come back"⟩⟩ := by decide
example : parseAction ["reject", "550"] = some ⟨false, true, some ⟨550, (5, 7, 0), defaultMsg⟩⟩ := by decide
example : parseAction ["ignore", "550", "x"] = some ⟨false, false, none⟩ := by decide
example : parseAction ["Reject"] = none ∧ parseAction ["REJECT", "550"] = none ∧
    parseAction ["Quarantine", "550", "5.7.1", "x"] = none ∧ parseAction ["reject "] = none ∧
    parseAction [] = none ∧ parseAction ["drop"] = none := by decide
example : parseAction ["reject", "250"] = none ∧ parseAction ["reject", "550", "2.0.0"] = none ∧
    parseAction ["reject", "550", "5.7"] = none ∧ parseAction ["reject", "550", "5.7.1", ""] = none ∧
    parseAction ["reject", "550", "5.7.1", "x", "y"] = none ∧ parseAction ["reject", "-550"] = none := by decide

/-! ## every completion order gives the same outcome -/

/-- The merge of one `runAndMergeResults`: whether it ends in a reject / records a quarantine is
the same for every order in which the goroutines finish. -/
theorem C06_merge_order_independent {l₁ l₂ : List (CheckId × Eff)} (h : l₁.Perm l₂) :
    (finish l₁).rErr.isSome = (finish l₂).rErr.isSome ∧ (finish l₁).qErr.isSome = (finish l₂).qErr.isSome :=
  finish_perm h

/-- **Order independence.** Whatever order the concurrently running checks of every group finish
in, the whole transaction is the same: replies to MAIL, every RCPT and DATA, the quarantine flag,
what the targets are handed, and the calls every check state sees. -/
theorem C06_outcome_order_independent (o₁ o₂ : Ord) (h₁ : o₁.fair) (h₂ : o₂.fair)
    (cfg : Cfg) (m : Mode) (rs : List Rcpt) : run o₁ cfg m rs = run o₂ cfg m rs := by
  rw [run_ord o₁ h₁, run_ord o₂ h₂]

/-- Non-vacuity: "last started finishes first" is an admissible completion order different from
"first started finishes first". -/
example : Ord.fair (fun _ l => l.reverse) := fun _ l => List.reverse_perm l
example : (fun (_ : Nat) (l : List (CheckId × Eff)) => l.reverse) 0 [(0, .rej), (1, .quar)] ≠
    idOrd 0 [(0, .rej), (1, .quar)] := by decide

/-! ## SMTP and LMTP -/

/-- **Same outcome over SMTP and LMTP.** `Body` and `BodyNonAtomic` run the same checks in the
same order and apply the results the same way: replies, quarantine flag, per-delivery answers of
the targets and the call log coincide. -/
theorem C06_smtp_lmtp_same_outcome (o : Ord) (cfg : Cfg) (rs : List Rcpt) :
    run o cfg .smtp rs = run o cfg .lmtp rs := by
  simp only [run, bodyOf, bodyLMTP_eq_bodySMTP]

/-- When no target refuses the message, the recipients served are the same over both paths
(when one does, SMTP refuses the whole message and LMTP the recipients of that target). -/
theorem C06_smtp_lmtp_same_recipients (o : Ord) (cfg : Cfg) (rs : List Rcpt)
    (ht : ∀ b, (run o cfg .smtp rs).body = some b → ∀ x ∈ b.results, x.2.2 = true) :
    delivered .smtp (run o cfg .smtp rs) = delivered .lmtp (run o cfg .lmtp rs) := by
  rw [← C06_smtp_lmtp_same_outcome]
  simp only [delivered]
  cases hb : (run o cfg .smtp rs).body with
  | none => rfl
  | some b =>
    have := ht b hb
    simp only
    split
    · rfl
    · have hall : b.results.all (fun x => x.2.2) = true := by
        rw [List.all_eq_true]; exact this
      simp only [hall, ↓reduceIte]
      symm
      rw [List.filter_eq_self]
      intro r _
      rw [List.all_eq_true]
      intro x hx
      simp [this x hx]

/-! ## 'ignore' changes nothing -/

/-- A result carrying a reason and no flag: what a check configured with `action ignore` returns. -/
def isIgnored (x : Res) : Bool := x.reason && !x.q && !x.r

/-- **Ignore changes nothing.** Replace every reason-without-action result of every check at every
stage by an empty result: the whole transaction is the same. -/
theorem C06_ignore_changes_nothing (o : Ord) (cfg : Cfg) (sc : CheckId → Stage → Res) (m : Mode) (rs : List Rcpt) :
    run o { cfg with v := fun c s => (sc c s).eff } m rs =
    run o { cfg with v := fun c s => (if isIgnored (sc c s) then Res.empty else sc c s).eff } m rs := by
  have : (fun c s => (sc c s).eff) = (fun c s => (if isIgnored (sc c s) then Res.empty else sc c s).eff) := by
    funext c s
    by_cases h : isIgnored (sc c s) = true
    · simp only [h, ↓reduceIte]
      simp only [isIgnored, Bool.and_eq_true, Bool.not_eq_eq_eq_not, Bool.not_true] at h
      simp [Res.eff, Res.empty, h.1.2, h.2]
    · simp [h]
  rw [this]

/-- … and `action ignore` makes exactly such results out of a check's findings. -/
example (reason : Bool) : isIgnored (Act.ignore.apply ⟨reason, false, false⟩) = reason := by
  cases reason <;> rfl

/-! ## a reject refuses, and nothing is delivered -/

/-- Check `c` applies to recipient `r`: it is referenced by the global block, the source block or
the destination block the recipient is routed to. -/
def applies (cfg : Cfg) (r : Rcpt) (c : CheckId) : Prop :=
  c ∈ cfg.global ∨ c ∈ cfg.source ∨ c ∈ (cfg.block (cfg.route r)).checks

theorem mustRefuseRcpt_iff (cfg : Cfg) (r : Rcpt) :
    MustRefuseRcpt cfg r ↔
      ∃ c, applies cfg r c ∧ (cfg.v c (.rcpt r) = .rej ∨ cfg.v c .conn = .rej ∨ cfg.v c .sender = .rej) := by
  simp only [MustRefuseRcpt, appGroups, applies, List.mem_cons, List.not_mem_nil, or_false]
  constructor
  · rintro ⟨g, hg, c, hc, hv⟩
    rcases hg with rfl | rfl | rfl
    · exact ⟨c, Or.inl hc, hv⟩
    · exact ⟨c, Or.inr (Or.inl hc), hv⟩
    · exact ⟨c, Or.inr (Or.inr hc), hv⟩
  · rintro ⟨c, hc | hc | hc, hv⟩
    · exact ⟨_, Or.inl rfl, c, hc, hv⟩
    · exact ⟨_, Or.inr (Or.inl rfl), c, hc, hv⟩
    · exact ⟨_, Or.inr (Or.inr rfl), c, hc, hv⟩

/-- Check `c` applies to the message: global, source, or in the destination block of an accepted
recipient.  These are the checks whose verdict on the body the property wants enforced. -/
def appliesBody (cfg : Cfg) (rcpts : List (Rcpt × Bool)) (c : CheckId) : Prop :=
  c ∈ cfg.global ∨ c ∈ cfg.source ∨ ∃ x ∈ rcpts, x.2 = false ∧ c ∈ (cfg.block (cfg.route x.1)).checks

/-- Check `c` is asked about the body: global, source, or in the destination block of a recipient
that was handled in the block's scope - it passed every check and the global / source modifiers
(`ReachesBlock`); every accepted recipient is one, and so is a recipient for which only the block's
own `RewriteRcpt` failed.  This is exactly the key set of `rcptModifiersState`. -/
def inBodyScope (cfg : Cfg) (rcpts : List (Rcpt × Bool)) (c : CheckId) : Prop :=
  c ∈ cfg.global ∨ c ∈ cfg.source ∨ ∃ x ∈ rcpts, ReachesBlock cfg x.1 ∧ c ∈ (cfg.block (cfg.route x.1)).checks

/-- Some `RewriteBody` fails: of the global or source modifiers, or of the modifiers of a
destination block that takes part in the body stage. -/
def BodyModFails (cfg : Cfg) (rcpts : List (Rcpt × Bool)) : Prop :=
  cfg.mf.bodyG = true ∨ cfg.mf.bodyS = true ∨
    ∃ x ∈ rcpts, ReachesBlock cfg x.1 ∧ cfg.mf.bodyB (cfg.route x.1) = true

theorem body_frame (cfg : Cfg) (d : Dlv) :
    (bodySMTP idOrd cfg d).1.deliveries = d.deliveries ∧ (bodySMTP idOrd cfg d).1.used = d.used := by
  rw [bodySMTP_eq]
  split
  · simp
  · split
    · simp [applyResults_frame]
    · split <;> simp [applyResults_frame]

/-! ### the transaction, projection by projection -/

theorem bodyOf_eq (m : Mode) : bodyOf m = bodySMTP := by cases m <;> rfl

/-- The RCPT phase of an accepted MAIL. -/
def rcptPhase (cfg : Cfg) (rs : List Rcpt) : Dlv × List (Rcpt × Bool) :=
  addAll idOrd cfg (start idOrd cfg).1 rs

theorem run_startRefused (cfg : Cfg) (m : Mode) (rs : List Rcpt) :
    (run idOrd cfg m rs).startRefused = (start idOrd cfg).2 := by
  simp only [run, bodyOf_eq]
  split
  · rename_i h; simp [h]
  · rename_i h; split <;> simp [h]

theorem run_rcpts (cfg : Cfg) (m : Mode) (rs : List Rcpt) :
    (run idOrd cfg m rs).rcpts = if (start idOrd cfg).2 then [] else (rcptPhase cfg rs).2 := by
  simp only [run, bodyOf_eq, rcptPhase]
  split
  · rfl
  · split <;> rfl

theorem run_body (cfg : Cfg) (m : Mode) (rs : List Rcpt) :
    (run idOrd cfg m rs).body =
      if (start idOrd cfg).2 then none
      else if (rcptPhase cfg rs).2.all (fun x => x.2) then none
      else some (bodySMTP idOrd cfg (rcptPhase cfg rs).1).2 := by
  simp only [run, bodyOf_eq, rcptPhase]
  split
  · rfl
  · split <;> rename_i h <;> simp [h]

theorem run_final (cfg : Cfg) (m : Mode) (rs : List Rcpt) :
    (run idOrd cfg m rs).final =
      if (start idOrd cfg).2 then (start idOrd cfg).1
      else if (rcptPhase cfg rs).2.all (fun x => x.2) then (rcptPhase cfg rs).1
      else (bodySMTP idOrd cfg (rcptPhase cfg rs).1).1 := by
  simp only [run, bodyOf_eq, rcptPhase]
  split
  · rfl
  · split <;> rename_i h <;> simp [h]

theorem run_final_deliveries (cfg : Cfg) (m : Mode) (rs : List Rcpt) :
    (run idOrd cfg m rs).final.deliveries =
      if (start idOrd cfg).2 then [] else (rcptPhase cfg rs).1.deliveries := by
  rw [run_final]
  split
  · exact (start_frame idOrd cfg).2.1
  · split
    · rfl
    · exact (body_frame cfg _).1

/-- State of the delivery when DATA starts, with everything the RCPT phase guarantees. -/
theorem atData (cfg : Cfg) (hok : (start idOrd cfg).2 = false) (rs : List Rcpt) :
    RInv cfg.v (rcptPhase cfg rs).1.cr ∧ QInv cfg.v (rcptPhase cfg rs).1.cr ∧
    (∀ c, c ∈ cfg.global ∨ c ∈ cfg.source → c ∈ (rcptPhase cfg rs).1.cr.states) ∧
    (∀ b, b ∈ (rcptPhase cfg rs).1.used ↔ ∃ x ∈ (rcptPhase cfg rs).2, ReachesBlock cfg x.1 ∧ cfg.route x.1 = b) ∧
    (∀ c, inBodyScope cfg (rcptPhase cfg rs).2 c → c ∈ (rcptPhase cfg rs).1.cr.states) ∧
    (rcptPhase cfg rs).1.metaQ = cfg.q0 := by
  have hs := start_frame idOrd cfg
  have ch0 := start_ok cfg hok
  have e := addAll_ext cfg rs (start idOrd cfg).1
  have hu := addAll_used cfg rs (start idOrd cfg).1 ch0.1
  have hgs : ∀ c, c ∈ cfg.global ∨ c ∈ cfg.source → c ∈ (rcptPhase cfg rs).1.cr.states :=
    fun c hc => (e.st c (ch0.2.2 c hc)).1
  have hused : ∀ b, b ∈ (rcptPhase cfg rs).1.used ↔
      ∃ x ∈ (rcptPhase cfg rs).2, ReachesBlock cfg x.1 ∧ cfg.route x.1 = b := by
    intro b
    have := hu b
    rw [hs.1] at this
    simpa [rcptPhase] using this
  refine ⟨addAll_rinv cfg rs _ ch0.1, addAll_qinv cfg rs _ ch0.2.1, hgs, hused, ?_, ?_⟩
  · rintro c (hc | hc | ⟨x, hx, hre, hc⟩)
    · exact hgs c (Or.inl hc)
    · exact hgs c (Or.inr hc)
    · exact (addAll_reached cfg rs _ ch0.1 x hx hre _ (by simp [appGroups]) c hc).1
  · show (addAll idOrd cfg (start idOrd cfg).1 rs).1.metaQ = cfg.q0
    rw [addAll_metaQ, hs.2.2]

/-- An accepted recipient was handled in its block's scope, so a check that applies to the message
is asked about the body. -/
theorem appliesBody_inScope (cfg : Cfg) (hok : (start idOrd cfg).2 = false) (rs : List Rcpt) (c : CheckId)
    (h : appliesBody cfg (rcptPhase cfg rs).2 c) : inBodyScope cfg (rcptPhase cfg rs).2 c := by
  rcases h with h | h | ⟨x, hx, hxa, hc⟩
  · exact Or.inl h
  · exact Or.inr (Or.inl h)
  · exact Or.inr (Or.inr ⟨x, hx, addAll_accepted_reaches cfg rs _ (start_ok cfg hok).1 x hx hxa, hc⟩)

theorem mem_bodyGroups (cfg : Cfg) (hok : (start idOrd cfg).2 = false) (rs : List Rcpt) (c : CheckId) :
    (∃ g ∈ bodyGroups cfg (rcptPhase cfg rs).1, c ∈ g) ↔ inBodyScope cfg (rcptPhase cfg rs).2 c := by
  have ad := atData cfg hok rs
  simp only [bodyGroups, List.mem_cons, List.mem_map, inBodyScope]
  constructor
  · rintro ⟨g, hg, hc⟩
    rcases hg with rfl | rfl | ⟨b, hb, rfl⟩
    · exact Or.inl hc
    · exact Or.inr (Or.inl hc)
    · obtain ⟨x, hx, hxa, hr⟩ := (ad.2.2.2.1 b).mp hb
      exact Or.inr (Or.inr ⟨x, hx, hxa, hr ▸ hc⟩)
  · rintro (hc | hc | ⟨x, hx, hxa, hc⟩)
    · exact ⟨_, Or.inl rfl, hc⟩
    · exact ⟨_, Or.inr (Or.inl rfl), hc⟩
    · exact ⟨_, Or.inr (Or.inr ⟨cfg.route x.1, (ad.2.2.2.1 _).mpr ⟨x, hx, hxa, rfl⟩, rfl⟩), hc⟩

/-- The body check phase refuses exactly when a check that is asked about the body rejects it. -/
theorem bodyChecks_refused_iff (cfg : Cfg) (hok : (start idOrd cfg).2 = false) (rs : List Rcpt) :
    (bodyChecks cfg (rcptPhase cfg rs).1).2 = true ↔
      ∃ c, inBodyScope cfg (rcptPhase cfg rs).2 c ∧ cfg.v c .body = .rej := by
  have ad := atData cfg hok rs
  have ch := bodyChecks_chain cfg (rcptPhase cfg rs).1
  constructor
  · intro h
    obtain ⟨g, hg, c, hc, hv⟩ := ch.reject_of_refused h
    have hap := (mem_bodyGroups cfg hok rs c).mp ⟨g, hg, hc⟩
    refine ⟨c, hap, ?_⟩
    rcases hv with hv | ⟨hs, _⟩
    · exact hv
    · exact absurd (ad.2.2.2.2.1 c hap) hs
  · rintro ⟨c, hc, hv⟩
    obtain ⟨g, hg, hcg⟩ := (mem_bodyGroups cfg hok rs c).mpr hc
    exact ch.refused_of_reject ⟨g, hg, c, hcg, hv⟩

/-- The `RewriteBody` phase fails exactly when `BodyModFails`. -/
theorem modBodyFails_iff (cfg : Cfg) (hok : (start idOrd cfg).2 = false) (rs : List Rcpt) :
    modBodyFails cfg (rcptPhase cfg rs).1 = true ↔ BodyModFails cfg (rcptPhase cfg rs).2 := by
  have ad := atData cfg hok rs
  simp only [modBodyFails, BodyModFails, Bool.or_eq_true, List.any_eq_true, or_assoc]
  constructor
  · rintro (h | h | ⟨b, hb, hf⟩)
    · exact Or.inl h
    · exact Or.inr (Or.inl h)
    · obtain ⟨x, hx, hre, rfl⟩ := (ad.2.2.2.1 b).mp hb
      exact Or.inr (Or.inr ⟨x, hx, hre, hf⟩)
  · rintro (h | h | ⟨x, hx, hre, hf⟩)
    · exact Or.inl h
    · exact Or.inr (Or.inl h)
    · exact Or.inr (Or.inr ⟨_, (ad.2.2.2.1 _).mpr ⟨x, hx, hre, rfl⟩, hf⟩)

/-! ### the theorems -/

/-- MAIL is refused exactly when a global or source check rejects the connection or the sender (or
the `RewriteSender` of the global / source modifiers fails); then the transaction is over: no RCPT,
no DATA, no target involved. -/
theorem C06_mail_refused_iff (o : Ord) (ho : o.fair) (cfg : Cfg) (m : Mode) (rs : List Rcpt) :
    ((run o cfg m rs).startRefused = true ↔
      (∃ c, (c ∈ cfg.global ∨ c ∈ cfg.source) ∧ (cfg.v c .conn = .rej ∨ cfg.v c .sender = .rej)) ∨
      cfg.mf.senderG = true ∨ cfg.mf.senderS = true) ∧
    ((run o cfg m rs).startRefused = true →
      (run o cfg m rs).rcpts = [] ∧ (run o cfg m rs).body = none ∧ (run o cfg m rs).final.deliveries = []) := by
  rw [run_ord o ho, run_startRefused, run_rcpts, run_body, run_final_deliveries]
  refine ⟨start_refused_iff cfg, ?_⟩
  intro h; simp [h]

/-- Every RCPT command is refused exactly when a check applying to its recipient rejects the
recipient, the connection or the sender - or the `RewriteRcpt` of a modifier group fails for it. -/
theorem C06_rcpt_refused_iff (o : Ord) (ho : o.fair) (cfg : Cfg) (m : Mode) (rs : List Rcpt) :
    ∀ x ∈ (run o cfg m rs).rcpts, x.2 = true ↔
      (∃ c, applies cfg x.1 c ∧ (cfg.v c (.rcpt x.1) = .rej ∨ cfg.v c .conn = .rej ∨ cfg.v c .sender = .rej)) ∨
      cfg.mf.rcptAny x.1 = true := by
  rw [run_ord o ho, run_rcpts]
  intro x hx
  by_cases hs : (start idOrd cfg).2 = true
  · simp [hs] at hx
  · have hs' : (start idOrd cfg).2 = false := by simpa using hs
    simp only [hs, Bool.false_eq_true, ↓reduceIte] at hx
    rw [← mustRefuseRcpt_iff]
    exact addAll_refused_iff cfg rs _ (start_ok cfg hs').1 x hx

/-- A recipient is handed to a target only by an accepted RCPT command for it: a refused
recipient reaches nobody. -/
theorem C06_refused_recipient_reaches_no_target (o : Ord) (ho : o.fair) (cfg : Cfg) (m : Mode) (rs : List Rcpt) :
    ∀ t ∈ (run o cfg m rs).final.deliveries, ∀ y ∈ t.2,
      ∃ x ∈ (run o cfg m rs).rcpts, x.1 = y ∧ x.2 = false := by
  rw [run_ord o ho, run_rcpts, run_final_deliveries]
  intro t ht y hy
  by_cases hs : (start idOrd cfg).2 = true
  · simp [hs] at ht
  · simp only [hs, Bool.false_eq_true, ↓reduceIte] at ht ⊢
    rcases addAll_deliveries idOrd cfg rs _ t ht y hy with h | ⟨t0, ht0, _⟩
    · exact h
    · rw [(start_frame idOrd cfg).2.1] at ht0; cases ht0

/-- Round 10: a destination block one of whose checks cannot create its state object for the message
(`MFaults.withDeadBlocks`) takes no recipient: every RCPT command routed to it is refused and no
recipient routed to it reaches a target. -/
theorem C06_dead_block_takes_no_recipient (o : Ord) (ho : o.fair) (cfg : Cfg) (mf : MFaults) (dead : Nat → Bool)
    (hm : cfg.mf = mf.withDeadBlocks cfg.route dead) (m : Mode) (rs : List Rcpt) :
    (∀ x ∈ (run o cfg m rs).rcpts, dead (cfg.route x.1) = true → x.2 = true) ∧
    (∀ t ∈ (run o cfg m rs).final.deliveries, ∀ y ∈ t.2, dead (cfg.route y) = false) := by
  have h1 : ∀ x ∈ (run o cfg m rs).rcpts, dead (cfg.route x.1) = true → x.2 = true := by
    intro x hx hd
    refine (C06_rcpt_refused_iff o ho cfg m rs x hx).mpr (Or.inr ?_)
    simp [MFaults.rcptAny, hm, MFaults.withDeadBlocks, hd]
  refine ⟨h1, ?_⟩
  intro t ht y hy
  obtain ⟨x, hx, hxy, hacc⟩ := C06_refused_recipient_reaches_no_target o ho cfg m rs t ht y hy
  cases hd : dead (cfg.route y) with
  | false => rfl
  | true =>
    have h2 := h1 x hx (by rw [hxy]; exact hd)
    rw [hacc] at h2; cases h2

theorem why_chain (b1 b2 b3 : Bool) :
    ((if b1 then some Why.check else if b2 then some Why.dmarc else if b3 then some Why.modifier else none)
        = some Why.check ↔ b1 = true) ∧
    ((if b1 then some Why.check else if b2 then some Why.dmarc else if b3 then some Why.modifier else none)
        = some Why.dmarc ↔ ¬ b1 = true ∧ b2 = true) ∧
    ((if b1 then some Why.check else if b2 then some Why.dmarc else if b3 then some Why.modifier else none)
        = some Why.modifier ↔ ¬ b1 = true ∧ ¬ b2 = true ∧ b3 = true) ∧
    ((if b1 then some Why.check else if b2 then some Why.dmarc else if b3 then some Why.modifier else none)
        = none ↔ b1 = false ∧ b2 = false ∧ b3 = false) := by
  cases b1 <;> cases b2 <;> cases b3 <;> simp

/-- The reply to DATA in terms of the three phases: checks, `applyResults`, `RewriteBody`. -/
theorem body_refused_eq (cfg : Cfg) (d : Dlv) :
    (bodySMTP idOrd cfg d).2.refused =
      (if (bodyChecks cfg d).2 then some Why.check
       else if (applyResults cfg { d with cr := (bodyChecks cfg d).1 }).2 then some Why.dmarc
       else if modBodyFails cfg d then some Why.modifier else none) ∧
    ((bodySMTP idOrd cfg d).2.refused.isSome = true → (bodySMTP idOrd cfg d).2.results = []) := by
  have hm : modBodyFails cfg (applyResults cfg { d with cr := (bodyChecks cfg d).1 }).1 = modBodyFails cfg d := by
    rw [modBodyFails_applyResults]; rfl
  rw [bodySMTP_eq, hm]
  split
  · simp
  · split
    · simp
    · split <;> simp

/-- DATA is refused by the checks exactly when a check that is asked about the body rejects it (the
checks of the global block, of the source block and of the destination block of every recipient
handled in that block's scope); by DMARC exactly when the checks pass and the policy outcome is
reject; by a modifier exactly when checks and DMARC pass and a `RewriteBody` fails; in all cases
before any target sees the body: nobody is served, nothing is handed over. -/
theorem C06_data_refused_iff (o : Ord) (ho : o.fair) (cfg : Cfg) (m : Mode) (rs : List Rcpt) :
    ∀ b, (run o cfg m rs).body = some b →
      (b.refused = some .check ↔ ∃ c, inBodyScope cfg (run o cfg m rs).rcpts c ∧ cfg.v c .body = .rej) ∧
      (b.refused = some .dmarc ↔
        (¬ ∃ c, inBodyScope cfg (run o cfg m rs).rcpts c ∧ cfg.v c .body = .rej) ∧ cfg.dmarc = .rej) ∧
      (b.refused = some .modifier ↔
        (¬ ∃ c, inBodyScope cfg (run o cfg m rs).rcpts c ∧ cfg.v c .body = .rej) ∧ ¬ cfg.dmarc = .rej ∧
          BodyModFails cfg (run o cfg m rs).rcpts) ∧
      (b.refused.isSome = true →
        b.results = [] ∧ delivered m (run o cfg m rs) = [] ∧ handedOver m (run o cfg m rs) = []) := by
  rw [run_ord o ho]
  intro b hb
  have hb0 := hb
  rw [run_body] at hb
  by_cases hs : (start idOrd cfg).2 = true
  · simp [hs] at hb
  · have hs' : (start idOrd cfg).2 = false := by simpa using hs
    simp only [hs, Bool.false_eq_true, ↓reduceIte] at hb
    split at hb
    · cases hb
    · simp only [Option.some.injEq] at hb
      have hbc := bodyChecks_refused_iff cfg hs' rs
      have hmf := modBodyFails_iff cfg hs' rs
      have ar := (applyResults_spec cfg { (rcptPhase cfg rs).1 with cr := (bodyChecks cfg (rcptPhase cfg rs).1).1 }).1
      have br := body_refused_eq cfg (rcptPhase cfg rs).1
      rw [hb] at br
      have k := why_chain (bodyChecks cfg (rcptPhase cfg rs).1).2
        (applyResults cfg { (rcptPhase cfg rs).1 with cr := (bodyChecks cfg (rcptPhase cfg rs).1).1 }).2
        (modBodyFails cfg (rcptPhase cfg rs).1)
      rw [run_rcpts]
      simp only [hs, Bool.false_eq_true, ↓reduceIte]
      have tail : b.refused.isSome = true →
          b.results = [] ∧ delivered m (run idOrd cfg m rs) = [] ∧ handedOver m (run idOrd cfg m rs) = [] := by
        intro hr
        have hres : b.results = [] := br.2 hr
        refine ⟨hres, ?_, ?_⟩
        · simp [delivered, hb0, hr]
        · cases m <;> simp [handedOver, hb0, hres]
      refine ⟨?_, ?_, ?_, tail⟩
      · rw [br.1, k.1, hbc]
      · rw [br.1, k.2.1, hbc, ar]
      · rw [br.1, k.2.2.1, hbc, ar, hmf]

/-- A check that applies to the message (global, source, or in the destination block of an ACCEPTED
recipient) is asked about the body - whatever happened to other recipients of the same block after
that recipient was accepted (a later one failing in the block's `RewriteRcpt` in particular). -/
theorem C06_applies_in_scope (o : Ord) (ho : o.fair) (cfg : Cfg) (m : Mode) (rs : List Rcpt) (c : CheckId)
    (h : appliesBody cfg (run o cfg m rs).rcpts c) : inBodyScope cfg (run o cfg m rs).rcpts c := by
  rw [run_ord o ho, run_rcpts] at h ⊢
  by_cases hs : (start idOrd cfg).2 = true
  · simp only [hs, ↓reduceIte] at h ⊢
    rcases h with h | h | ⟨x, hx, _⟩
    · exact Or.inl h
    · exact Or.inr (Or.inl h)
    · cases hx
  · have hs' : (start idOrd cfg).2 = false := by simpa using hs
    simp only [hs, Bool.false_eq_true, ↓reduceIte] at h ⊢
    exact appliesBody_inScope cfg hs' rs c h

/-- **A reject refuses and nothing is delivered.** For every transaction, whatever the completion
order: a reject by a global or source check at the connection or sender stage refuses MAIL (and
ends the transaction); a reject of a recipient by any check applying to it — or of the connection
or sender by a check of its destination block — refuses that RCPT command, and the recipient
reaches no target through it; a reject of the body by a check applying to the message, or by the
DMARC policy, refuses DATA before any target has seen the body: no recipient is served and no
target is handed anything. -/
theorem C06_reject_refuses_and_delivers_nothing (o : Ord) (ho : o.fair) (cfg : Cfg) (m : Mode) (rs : List Rcpt) :
    ((∃ c, (c ∈ cfg.global ∨ c ∈ cfg.source) ∧ (cfg.v c .conn = .rej ∨ cfg.v c .sender = .rej)) →
      (run o cfg m rs).startRefused = true ∧ (run o cfg m rs).rcpts = [] ∧ (run o cfg m rs).body = none ∧
      (run o cfg m rs).final.deliveries = []) ∧
    (∀ x ∈ (run o cfg m rs).rcpts,
      (∃ c, applies cfg x.1 c ∧ (cfg.v c (.rcpt x.1) = .rej ∨ cfg.v c .conn = .rej ∨ cfg.v c .sender = .rej)) →
        x.2 = true) ∧
    (∀ y, (∀ x ∈ (run o cfg m rs).rcpts, x.1 = y → x.2 = true) →
      ∀ t ∈ (run o cfg m rs).final.deliveries, y ∉ t.2) ∧
    (∀ b, (run o cfg m rs).body = some b →
      ((∃ c, appliesBody cfg (run o cfg m rs).rcpts c ∧ cfg.v c .body = .rej) ∨ cfg.dmarc = .rej) →
        b.refused.isSome = true ∧ b.results = [] ∧
        delivered m (run o cfg m rs) = [] ∧ handedOver m (run o cfg m rs) = []) := by
  refine ⟨?_, ?_, ?_, ?_⟩
  · intro h
    have := C06_mail_refused_iff o ho cfg m rs
    exact ⟨this.1.mpr (Or.inl h), this.2 (this.1.mpr (Or.inl h))⟩
  · intro x hx h; exact (C06_rcpt_refused_iff o ho cfg m rs x hx).mpr (Or.inl h)
  · intro y hy t ht hm
    obtain ⟨x, hx, rfl, hxa⟩ := C06_refused_recipient_reaches_no_target o ho cfg m rs t ht y hm
    have := hy x hx rfl
    rw [hxa] at this; cases this
  · intro b hb h
    have d := C06_data_refused_iff o ho cfg m rs b hb
    have hsome : b.refused.isSome = true := by
      by_cases hc : ∃ c, inBodyScope cfg (run o cfg m rs).rcpts c ∧ cfg.v c .body = .rej
      · rw [d.1.mpr hc]; rfl
      · rcases h with ⟨c, hap, hv⟩ | h
        · exact absurd ⟨c, C06_applies_in_scope o ho cfg m rs c hap, hv⟩ hc
        · rw [d.2.1.mpr ⟨hc, h⟩]; rfl
    exact ⟨hsome, d.2.2.2 hsome⟩

/-- **Nothing is refused without a cause**: the converse of the enforcement, all three stages. A
command is refused only because a check in whose scope its subject was handled rejects it, because
the DMARC policy rejects, or because a modifier group failed (an error of the modifier's own, handed
back unchanged); without modifier failures: only by a reject. -/
theorem C06_refusals_are_justified (o : Ord) (ho : o.fair) (cfg : Cfg) (m : Mode) (rs : List Rcpt) :
    ((run o cfg m rs).startRefused = true →
      (∃ c, (c ∈ cfg.global ∨ c ∈ cfg.source) ∧ (cfg.v c .conn = .rej ∨ cfg.v c .sender = .rej)) ∨
      cfg.mf.senderG = true ∨ cfg.mf.senderS = true) ∧
    (∀ x ∈ (run o cfg m rs).rcpts, x.2 = true →
      (∃ c, applies cfg x.1 c ∧ (cfg.v c (.rcpt x.1) = .rej ∨ cfg.v c .conn = .rej ∨ cfg.v c .sender = .rej)) ∨
      cfg.mf.rcptAny x.1 = true) ∧
    (∀ b, (run o cfg m rs).body = some b → b.refused.isSome = true →
      (∃ c, inBodyScope cfg (run o cfg m rs).rcpts c ∧ cfg.v c .body = .rej) ∨ cfg.dmarc = .rej ∨
      BodyModFails cfg (run o cfg m rs).rcpts) := by
  refine ⟨(C06_mail_refused_iff o ho cfg m rs).1.mp, fun x hx => (C06_rcpt_refused_iff o ho cfg m rs x hx).mp, ?_⟩
  intro b hb hr
  have d := C06_data_refused_iff o ho cfg m rs b hb
  cases hw : b.refused with
  | none => rw [hw] at hr; cases hr
  | some w =>
    cases w
    · exact Or.inl (d.1.mp hw)
    · exact Or.inr (Or.inl (d.2.1.mp hw).2)
    · exact Or.inr (Or.inr (d.2.2.1.mp hw).2.2)

/-! ## a quarantine flags every target -/

/-- Some check that applies to the delivered message quarantines: at the connection, sender or
body stage, or at the recipient stage for an accepted recipient it applies to. -/
def QuarVerdict (cfg : Cfg) (rcpts : List (Rcpt × Bool)) : Prop :=
  (∃ c, appliesBody cfg rcpts c ∧ (cfg.v c .conn = .quar ∨ cfg.v c .sender = .quar ∨ cfg.v c .body = .quar)) ∨
  (∃ x ∈ rcpts, x.2 = false ∧ ∃ c, applies cfg x.1 c ∧ cfg.v c (.rcpt x.1) = .quar)

/-- What DATA looks like when it gets past the checks, DMARC and the modifiers. -/
theorem data_passed (cfg : Cfg) (d : Dlv) (h : (bodySMTP idOrd cfg d).2.refused = none) :
    (bodyChecks cfg d).2 = false ∧ cfg.dmarc ≠ .rej ∧
    (bodySMTP idOrd cfg d).1.metaQ = (d.metaQ || (bodyChecks cfg d).1.mergedQ || (cfg.dmarc == .quar)) ∧
    (bodySMTP idOrd cfg d).1.cr = (bodyChecks cfg d).1 ∧
    (bodySMTP idOrd cfg d).2.results = deliverAll cfg (bodySMTP idOrd cfg d).1 := by
  have ar := applyResults_spec cfg { d with cr := (bodyChecks cfg d).1 }
  have af := applyResults_frame cfg { d with cr := (bodyChecks cfg d).1 }
  rw [bodySMTP_eq] at h ⊢
  by_cases h1 : (bodyChecks cfg d).2 = true
  · simp [h1] at h
  · by_cases h2 : (applyResults cfg { d with cr := (bodyChecks cfg d).1 }).2 = true
    · simp [h1, h2] at h
    · by_cases h3 : modBodyFails cfg (applyResults cfg { d with cr := (bodyChecks cfg d).1 }).1 = true
      · simp [h1, h2, h3] at h
      · have h1' : (bodyChecks cfg d).2 = false := by simpa using h1
        refine ⟨h1', fun hd => h2 (ar.1.mpr hd), ?_, ?_, ?_⟩
        · simp only [h1, h2, h3, Bool.false_eq_true, ↓reduceIte]; rw [ar.2]
        · simp only [h1, h2, h3, Bool.false_eq_true, ↓reduceIte]; exact af.2.2
        · simp only [h1, h2, h3, Bool.false_eq_true, ↓reduceIte]

/-- **A quarantine flags every target.** If a check applying to the delivered message — or the
DMARC policy — quarantines, or the message was already flagged when this pipeline got it (by a
check or the DMARC policy of the pipeline this one is a target of), then for every completion
order and over both body paths:
`MsgMetadata.Quarantine` is set before any target is given the body, every target that refuses
quarantined messages (as `target.remote` does) refuses, and every hand-over that does happen
carries the flag. -/
theorem C06_quarantine_flags_every_target (o : Ord) (ho : o.fair) (cfg : Cfg) (m : Mode) (rs : List Rcpt) :
    ∀ b, (run o cfg m rs).body = some b → b.refused = none →
      (QuarVerdict cfg (run o cfg m rs).rcpts ∨ cfg.dmarc = .quar ∨ cfg.q0 = true) →
        (run o cfg m rs).final.metaQ = true ∧
        (∀ x ∈ b.results, x.2.2 = !(cfg.tgt x.1).refuseQ) ∧
        (∀ x ∈ handedOver m (run o cfg m rs), x.2.2 = true ∧ (cfg.tgt x.1).refuseQ = false) := by
  rw [run_ord o ho]
  intro b hb hnone hq
  have hb0 := hb
  rw [run_body] at hb
  by_cases hs : (start idOrd cfg).2 = true
  · simp [hs] at hb
  · have hs' : (start idOrd cfg).2 = false := by simpa using hs
    simp only [hs, Bool.false_eq_true, ↓reduceIte] at hb
    by_cases hall : (rcptPhase cfg rs).2.all (fun x => x.2) = true
    · simp [hall] at hb
    · simp only [hall, Bool.false_eq_true, ↓reduceIte, Option.some.injEq] at hb
      have hfin : (run idOrd cfg m rs).final = (bodySMTP idOrd cfg (rcptPhase cfg rs).1).1 := by
        rw [run_final]; simp [hs, hall]
      have hrc : (run idOrd cfg m rs).rcpts = (rcptPhase cfg rs).2 := by
        rw [run_rcpts]; simp [hs]
      rw [hrc] at hq
      rw [← hb] at hnone
      have dp := data_passed cfg _ hnone
      have ad := atData cfg hs' rs
      have ch := bodyChecks_chain cfg (rcptPhase cfg rs).1
      rw [dp.1] at ch
      have hflag : (run idOrd cfg m rs).final.metaQ = true := by
        rw [hfin, dp.2.2.1]
        rcases hq with hq | hq
        · have : (bodyChecks cfg (rcptPhase cfg rs).1).1.mergedQ = true := by
            rcases hq with ⟨c, hc, hv⟩ | ⟨x, hx, hxa, c, hc, hv⟩
            · have hc := appliesBody_inScope cfg hs' rs c hc
              rcases hv with hv | hv | hv
              · exact ch.q_mono (ad.2.1 c (ad.2.2.2.2.1 c hc) (Or.inl hv))
              · exact ch.q_mono (ad.2.1 c (ad.2.2.2.2.1 c hc) (Or.inr hv))
              · obtain ⟨g, hg, hcg⟩ := (mem_bodyGroups cfg hs' rs c).mpr hc
                exact (ch.ok rfl g hg c hcg).2.2 hv
            · have hg : ∃ g ∈ appGroups cfg x.1, c ∈ g := by
                simp only [appGroups, List.mem_cons, List.not_mem_nil, or_false]
                rcases hc with hc | hc | hc
                · exact ⟨_, Or.inl rfl, hc⟩
                · exact ⟨_, Or.inr (Or.inl rfl), hc⟩
                · exact ⟨_, Or.inr (Or.inr rfl), hc⟩
              obtain ⟨g, hg, hcg⟩ := hg
              exact ch.q_mono ((addAll_accepted cfg rs _ (start_ok cfg hs').1 x hx hxa g hg c hcg).2.2 hv)
          simp [this]
        · rcases hq with hq | hq
          · simp [hq]
          · simp [ad.2.2.2.2.2, hq]
      have hres : ∀ x ∈ b.results, x.2.2 = !(cfg.tgt x.1).refuseQ := by
        intro x hx
        rw [← hb, dp.2.2.2.2] at hx
        simp only [deliverAll, List.mem_map] at hx
        obtain ⟨y, _, rfl⟩ := hx
        rw [← hfin, hflag]
        simp [targetAccepts]
      refine ⟨hflag, hres, ?_⟩
      intro x hx
      cases m
      · simp only [handedOver, hb0] at hx
        by_cases hallok : b.results.all (fun x => x.2.2) = true
        · simp only [hallok, ↓reduceIte, List.mem_map] at hx
          obtain ⟨y, hy, rfl⟩ := hx
          refine ⟨hflag, ?_⟩
          have h1 := hres y hy
          have h2 := (List.all_eq_true.mp hallok) y hy
          rw [h2] at h1
          simpa using h1.symm
        · simp [hallok] at hx
      · simp only [handedOver, hb0, List.mem_map, List.mem_filter] at hx
        obtain ⟨y, ⟨hy, hyok⟩, rfl⟩ := hx
        refine ⟨hflag, ?_⟩
        have h1 := hres y hy
        rw [hyok] at h1
        simpa using h1.symm

/-- `target.remote` is a target that refuses quarantined messages (`Tgt.refuseQ`): whenever the
flag is set when it looks — at RCPT time or at DATA time, over `Body` or `BodyNonAtomic` — nothing
is relayed. -/
theorem C06_remote_refuses_quarantined (cfg : Cfg) (t : TgtId) (h : (cfg.tgt t).refuseQ = true) (q qr qb : Bool) :
    targetAccepts cfg q t = remoteBody q ∧ ((qr = true ∨ qb = true) → (remoteTx qr qb).2.2 = false) := by
  cases q <;> cases qr <;> cases qb <;> simp [targetAccepts, h, remoteBody, remoteTx, remoteAddRcpt]

/-- … and nothing is flagged without a verdict: if the message was not flagged when the pipeline
got it, no check has a quarantine verdict at any stage and the DMARC outcome is not quarantine, the
flag is never set. -/
theorem C06_quarantine_only_by_verdict (o : Ord) (ho : o.fair) (cfg : Cfg) (m : Mode) (rs : List Rcpt)
    (h0 : cfg.q0 = false)
    (h : (run o cfg m rs).final.metaQ = true) : cfg.dmarc = .quar ∨ ∃ c s, cfg.v c s = .quar := by
  rw [run_ord o ho, run_final] at h
  have sf := start_frame idOrd cfg
  split at h
  · rw [sf.2.2, h0] at h; cases h
  · rename_i hs
    have hs' : (start idOrd cfg).2 = false := by simpa using hs
    have am : (rcptPhase cfg rs).1.metaQ = false := by rw [(atData cfg hs' rs).2.2.2.2.2, h0]
    split at h
    · rw [am] at h; cases h
    · rw [bodySMTP_eq] at h
      have src : (bodyChecks cfg (rcptPhase cfg rs).1).1.mergedQ = true → ∃ c s, cfg.v c s = .quar := by
        intro hq
        rcases (bodyChecks_chain cfg (rcptPhase cfg rs).1).q_src hq with hq | hq
        · rcases addAll_q_src cfg rs _ hq with hq | hq
          · exact start_q_src cfg hq
          · exact hq
        · exact hq
      have ar := applyResults_spec cfg { (rcptPhase cfg rs).1 with cr := (bodyChecks cfg (rcptPhase cfg rs).1).1 }
      split at h
      · simp only at h; rw [am] at h; cases h
      · have fin : (applyResults cfg { (rcptPhase cfg rs).1 with cr := (bodyChecks cfg (rcptPhase cfg rs).1).1 }).1.metaQ = true →
            cfg.dmarc = .quar ∨ ∃ c s, cfg.v c s = .quar := by
          intro h
          rw [ar.2] at h
          simp only [am, Bool.false_or, Bool.or_eq_true, beq_iff_eq] at h
          rcases h with h | h
          · exact Or.inr (src h)
          · exact Or.inl h
        split at h
        · exact fin h
        · split at h <;> exact fin h

/-! ## the flag is monotone: a flagged message stays flagged through any pipeline -/

/-- `applyResults` only ever raises `MsgMetadata.Quarantine`. -/
theorem applyResults_mono (cfg : Cfg) (d : Dlv) (h : d.metaQ = true) : (applyResults cfg d).1.metaQ = true := by
  rw [(applyResults_spec cfg d).2, h]; rfl

theorem bodySMTP_metaQ_mono (o : Ord) (cfg : Cfg) (d : Dlv) (h : d.metaQ = true) :
    (bodySMTP o cfg d).1.metaQ = true := by
  simp only [bodySMTP]
  split
  · exact h
  · split
    · exact h
    · split
      · exact h
      · split
        · exact applyResults_mono cfg _ h
        · split <;> exact applyResults_mono cfg _ h

/-- **The quarantine flag is monotone.** A message that is flagged when a pipeline gets it — the
pipeline is the target of another pipeline (`deliver_to &inner`, `reroute`) whose check or DMARC
policy quarantined, or the endpoint flagged it — is flagged at every point of the transaction and
when it ends, whatever the configuration, the verdicts of this pipeline's own checks (none of them
need quarantine), its DMARC outcome, the envelope, the body path and the completion order (no
fairness needed): no step of the pipeline lowers the flag.  Hence every target of this pipeline
that refuses quarantined messages refuses, and every hand-over carries the flag. -/
theorem C06_quarantine_flag_monotone (o : Ord) (cfg : Cfg) (m : Mode) (rs : List Rcpt) (h : cfg.q0 = true) :
    (run o cfg m rs).final.metaQ = true ∧
    (∀ b, (run o cfg m rs).body = some b → ∀ x ∈ b.results, x.2.2 = !(cfg.tgt x.1).refuseQ) ∧
    (∀ x ∈ handedOver m (run o cfg m rs), x.2.2 = true) := by
  have hs : (start o cfg).1.metaQ = true := by rw [(start_frame o cfg).2.2, h]
  have ha : (addAll o cfg (start o cfg).1 rs).1.metaQ = true := by rw [addAll_metaQ, hs]
  have hb : (bodyOf m o cfg (addAll o cfg (start o cfg).1 rs).1).1.metaQ = true := by
    cases m
    · exact bodySMTP_metaQ_mono o cfg _ ha
    · show (bodyLMTP o cfg _).1.metaQ = true
      rw [bodyLMTP_eq_bodySMTP]; exact bodySMTP_metaQ_mono o cfg _ ha
  have hfin : (run o cfg m rs).final.metaQ = true := by
    simp only [run]
    split
    · exact hs
    · split
      · exact ha
      · exact hb
  refine ⟨hfin, ?_, ?_⟩
  · intro b hbody x hx
    simp only [run] at hbody
    split at hbody
    · cases hbody
    · split at hbody
      · cases hbody
      · simp only [Option.some.injEq] at hbody
        subst hbody
        have key : ∀ d : Dlv, d.metaQ = true → ∀ x ∈ (bodySMTP o cfg d).2.results, x.2.2 = !(cfg.tgt x.1).refuseQ := by
          intro d hd x hx
          simp only [bodySMTP] at hx
          split at hx
          · cases hx
          · split at hx
            · cases hx
            · split at hx
              · cases hx
              · split at hx
                · cases hx
                · split at hx
                  · cases hx
                  · simp only [deliverAll, List.mem_map] at hx
                    obtain ⟨y, _, rfl⟩ := hx
                    have hm := applyResults_mono cfg
                      { d with cr := (checkBodyBlocks o cfg (checkBody o cfg.v (checkBody o cfg.v d.cr cfg.global).1 cfg.source).1 d.used).1 } hd
                    simp only [targetAccepts]
                    rw [hm]; simp
        cases m
        · exact key _ ha x hx
        · have hx' : x ∈ (bodySMTP o cfg (addAll o cfg (start o cfg).1 rs).1).2.results := by
            rw [← bodyLMTP_eq_bodySMTP]; exact hx
          exact key _ ha x hx'
  · intro x hx
    cases hb' : (run o cfg m rs).body with
    | none => simp [handedOver, hb'] at hx
    | some b =>
      cases m
      · simp only [handedOver, hb'] at hx
        split at hx
        · simp only [List.mem_map] at hx
          obtain ⟨y, _, rfl⟩ := hx
          exact hfin
        · cases hx
      · simp only [handedOver, hb', List.mem_map] at hx
        obtain ⟨y, _, rfl⟩ := hx
        exact hfin

/-- The message handed from pipeline to pipeline (each one a target of the previous): every
pipeline runs on the flag the previous one left behind. -/
def flagThrough (o : Ord) (m : Mode) : Bool → List (Cfg × List Rcpt) → Bool
  | q, [] => q
  | q, p :: rest => flagThrough o m (run o { p.1 with q0 := q } m p.2).final.metaQ rest

/-- … so through any chain of nested pipelines, of any depth, with any verdicts: once flagged,
flagged to the end. -/
theorem C06_quarantine_flag_monotone_chain (o : Ord) (m : Mode) (l : List (Cfg × List Rcpt)) :
    flagThrough o m true l = true := by
  induction l with
  | nil => rfl
  | cons p rest ih =>
    simp only [flagThrough]
    rw [(C06_quarantine_flag_monotone o { p.1 with q0 := true } m p.2 rfl).1]
    exact ih

/-! ## every check state sees every stage once -/

theorem body_cr (cfg : Cfg) (d : Dlv) : (bodySMTP idOrd cfg d).1.cr = (bodyChecks cfg d).1 := by
  rw [bodySMTP_eq]
  split
  · rfl
  · split
    · exact (applyResults_frame _ _).2.2
    · split <;> exact (applyResults_frame _ _).2.2

/-- The runner's bookkeeping invariant holds at the end of every transaction. -/
theorem final_inv (cfg : Cfg) (hw : cfg.WF) (m : Mode) (rs : List Rcpt) : Inv (run idOrd cfg m rs).final.cr := by
  rw [run_final]
  have i0 := start_inv cfg hw
  split
  · exact i0
  · have i1 := addAll_inv cfg hw rs _ i0
    split
    · exact i1
    · rw [body_cr]
      exact (bodyChecks_chain cfg (rcptPhase cfg rs).1).inv (bodyGroups_nodup hw _) i1

/-- **No state object is asked twice about the same stage**: the log of `CheckConnection`,
`CheckSender`, `CheckRcpt` (per recipient) and `CheckBody` calls of a whole transaction has no
repetition — for every configuration in which no block lists a check twice, also when the same
check is referenced by several blocks, a recipient is repeated, states are created late and
earlier stages replayed to them, or dropped after a refusal and created again. -/
theorem C06_each_stage_once (o : Ord) (ho : o.fair) (cfg : Cfg) (hw : cfg.WF) (m : Mode) (rs : List Rcpt) :
    (run o cfg m rs).final.cr.done.Nodup := by
  rw [run_ord o ho]; exact (final_inv cfg hw m rs).nodup

theorem start_gens_keep (cfg : Cfg) (hno : ∀ c, cfg.v c .conn ≠ .rej ∧ cfg.v c .sender ≠ .rej) :
    (start idOrd cfg).1.cr.gens = [] := by
  have ok : ∀ cr g, (checkStates idOrd cfg.v cr g).2 = false := by
    intro cr g
    cases h : (checkStates idOrd cfg.v cr g).2
    · rfl
    · obtain ⟨c, _, _, hv⟩ := (cs_snd_iff cfg.v cr g).mp h
      rcases hv with hv | hv
      · exact absurd hv (hno c).1
      · exact absurd hv (hno c).2
  have g1 : (checkStates idOrd cfg.v CR.init cfg.global).1.gens = [] := by
    rw [((cs_frame _ _ _).2.1 (ok _ _)).2]; rfl
  have g2 : (checkStates idOrd cfg.v (checkStates idOrd cfg.v CR.init cfg.global).1 cfg.source).1.gens = [] := by
    rw [((cs_frame _ _ _).2.1 (ok _ _)).2, g1]
  simp only [start]
  split
  · exact g1
  · split
    · exact g1
    · split <;> exact g2

/-- A second state object for a check is only ever created after its first one was dropped by a
refusal at the connection or sender stage: if no check rejects there, the whole transaction uses
one state object per check, so "once per state object" is "once per check and message". -/
theorem C06_one_state_per_check (o : Ord) (ho : o.fair) (cfg : Cfg) (hw : cfg.WF) (m : Mode) (rs : List Rcpt)
    (hno : ∀ c, cfg.v c .conn ≠ .rej ∧ cfg.v c .sender ≠ .rej) :
    (run o cfg m rs).final.cr.gens = [] ∧ ∀ k ∈ (run o cfg m rs).final.cr.done, k.g = 0 := by
  have hg : (run o cfg m rs).final.cr.gens = [] := by
    rw [run_ord o ho, run_final]
    split
    · exact start_gens_keep cfg hno
    · have g1 : (rcptPhase cfg rs).1.cr.gens = [] := by
        rw [rcptPhase, addAll_gens_keep cfg hno, start_gens_keep cfg hno]
      split
      · exact g1
      · have ch := bodyChecks_chain cfg (rcptPhase cfg rs).1
        rw [body_cr, ch.gens_keep hno, g1]
  refine ⟨hg, ?_⟩
  intro k hk
  -- every log entry's generation is at most the number of dropped state objects of its check
  have hle : ∀ k ∈ (run o cfg m rs).final.cr.done, k.g ≤ (run o cfg m rs).final.cr.gen k.c := by
    rw [run_ord o ho]; exact (final_inv cfg hw m rs).le
  have := hle k hk
  simp only [CR.gen, hg, List.count_nil] at this
  omega

theorem count_one {l : List Call} (hn : l.Nodup) {k : Call} (hk : k ∈ l) : l.count k = 1 := by
  rw [List.Nodup.count hn]; simp [hk]

/-- **Every applicable check sees every stage exactly once.** When DATA gets past the checks (the
message is handed to the targets, or only DMARC / a modifier / a target refuses it), every check
that is asked about the body - global, source, or in the destination block of a recipient handled
in that block's scope - has a state object that was asked exactly once about the connection,
exactly once about the sender, exactly once about the body, and exactly once about each recipient
handled in its scope (every accepted recipient it applies to, and every recipient that passed the
checks and then failed in its block's `RewriteRcpt`) — whatever the placement, the envelope, the
modifier failures and the completion order. -/
theorem C06_sees_every_stage (o : Ord) (ho : o.fair) (cfg : Cfg) (hw : cfg.WF) (m : Mode) (rs : List Rcpt) :
    ∀ b, (run o cfg m rs).body = some b → b.refused ≠ some .check →
      ∀ c, inBodyScope cfg (run o cfg m rs).rcpts c →
        (run o cfg m rs).final.cr.done.count ⟨c, (run o cfg m rs).final.cr.gen c, .conn⟩ = 1 ∧
        (run o cfg m rs).final.cr.done.count ⟨c, (run o cfg m rs).final.cr.gen c, .sender⟩ = 1 ∧
        (run o cfg m rs).final.cr.done.count ⟨c, (run o cfg m rs).final.cr.gen c, .body⟩ = 1 ∧
        ∀ x ∈ (run o cfg m rs).rcpts, ReachesBlock cfg x.1 → applies cfg x.1 c →
          (run o cfg m rs).final.cr.done.count ⟨c, (run o cfg m rs).final.cr.gen c, .rcpt x.1⟩ = 1 := by
  rw [run_ord o ho]
  intro b hb hnc c hc
  have I := final_inv cfg hw m rs
  rw [run_body] at hb
  by_cases hs : (start idOrd cfg).2 = true
  · simp [hs] at hb
  · have hs' : (start idOrd cfg).2 = false := by simpa using hs
    simp only [hs, Bool.false_eq_true, ↓reduceIte] at hb
    by_cases hall : (rcptPhase cfg rs).2.all (fun x => x.2) = true
    · simp [hall] at hb
    · simp only [hall, Bool.false_eq_true, ↓reduceIte, Option.some.injEq] at hb
      have hrc : (run idOrd cfg m rs).rcpts = (rcptPhase cfg rs).2 := by
        rw [run_rcpts]; simp [hs]
      have hfin : (run idOrd cfg m rs).final.cr = (bodyChecks cfg (rcptPhase cfg rs).1).1 := by
        rw [run_final]; simp only [hs, hall, Bool.false_eq_true, ↓reduceIte]; exact body_cr _ _
      rw [hrc] at hc ⊢
      rw [hfin] at I ⊢
      have hpass : (bodyChecks cfg (rcptPhase cfg rs).1).2 = false := by
        cases h : (bodyChecks cfg (rcptPhase cfg rs).1).2
        · rfl
        · exfalso; apply hnc; rw [← hb, bodySMTP_eq]; simp [h]
      have ch := bodyChecks_chain cfg (rcptPhase cfg rs).1
      rw [hpass] at ch
      obtain ⟨g, hg, hcg⟩ := (mem_bodyGroups cfg hs' rs c).mpr hc
      have k := ch.ok rfl g hg c hcg
      have sn := I.seen c k.1
      refine ⟨count_one I.nodup sn.1, count_one I.nodup sn.2, count_one I.nodup k.2.1, ?_⟩
      intro x hx hre hap
      have hg' : ∃ g ∈ appGroups cfg x.1, c ∈ g := by
        simp only [appGroups, List.mem_cons, List.not_mem_nil, or_false]
        rcases hap with h | h | h
        · exact ⟨_, Or.inl rfl, h⟩
        · exact ⟨_, Or.inr (Or.inl rfl), h⟩
        · exact ⟨_, Or.inr (Or.inr rfl), h⟩
      obtain ⟨g', hg', hcg'⟩ := hg'
      have acc := addAll_reached cfg rs _ (start_ok cfg hs').1 x hx hre g' hg' c hcg'
      exact count_one I.nodup (ch.ext.mem acc.1 acc.2.1).2

/-- An accepted recipient was handled in the scope of every check that applies to it. -/
theorem C06_accepted_reaches_block (o : Ord) (ho : o.fair) (cfg : Cfg) (m : Mode) (rs : List Rcpt) :
    ∀ x ∈ (run o cfg m rs).rcpts, x.2 = false → ReachesBlock cfg x.1 := by
  rw [run_ord o ho, run_rcpts]
  intro x hx hxa
  by_cases hs : (start idOrd cfg).2 = true
  · simp [hs] at hx
  · have hs' : (start idOrd cfg).2 = false := by simpa using hs
    simp only [hs, Bool.false_eq_true, ↓reduceIte] at hx
    exact addAll_accepted_reaches cfg rs _ (start_ok cfg hs').1 x hx hxa

/-- The same in the property's words: every check that applies to the message (global, source, or
in the destination block of an accepted recipient) saw connection, sender, body and each accepted
recipient it applies to exactly once. -/
theorem C06_sees_every_stage_accepted (o : Ord) (ho : o.fair) (cfg : Cfg) (hw : cfg.WF) (m : Mode) (rs : List Rcpt) :
    ∀ b, (run o cfg m rs).body = some b → b.refused ≠ some .check →
      ∀ c, appliesBody cfg (run o cfg m rs).rcpts c →
        (run o cfg m rs).final.cr.done.count ⟨c, (run o cfg m rs).final.cr.gen c, .conn⟩ = 1 ∧
        (run o cfg m rs).final.cr.done.count ⟨c, (run o cfg m rs).final.cr.gen c, .sender⟩ = 1 ∧
        (run o cfg m rs).final.cr.done.count ⟨c, (run o cfg m rs).final.cr.gen c, .body⟩ = 1 ∧
        ∀ x ∈ (run o cfg m rs).rcpts, x.2 = false → applies cfg x.1 c →
          (run o cfg m rs).final.cr.done.count ⟨c, (run o cfg m rs).final.cr.gen c, .rcpt x.1⟩ = 1 := by
  intro b hb hnc c hc
  have k := C06_sees_every_stage o ho cfg hw m rs b hb hnc c (C06_applies_in_scope o ho cfg m rs c hc)
  exact ⟨k.1, k.2.1, k.2.2.1, fun x hx hxa hap =>
    k.2.2.2 x hx (C06_accepted_reaches_block o ho cfg m rs x hx hxa) hap⟩

/-- **The blocks that take part in the body stage** (the key set of `rcptModifiersState`, which
`Body` and `BodyNonAtomic` walk to find the destination blocks whose checks are asked about the body
and whose modifiers rewrite it): when DATA is reached they are exactly the blocks of the recipients
handled in their scope.  In particular the block of every ACCEPTED recipient is among them, no
matter what came after that recipient was accepted - a later recipient of the same block failing
in the block's `RewriteRcpt`, recipients of other blocks, refusals: nothing removes a block. -/
theorem C06_body_stage_blocks (o : Ord) (ho : o.fair) (cfg : Cfg) (m : Mode) (rs : List Rcpt)
    (hok : (run o cfg m rs).startRefused = false) :
    (∀ b, b ∈ (run o cfg m rs).final.used ↔
      ∃ x ∈ (run o cfg m rs).rcpts, ReachesBlock cfg x.1 ∧ cfg.route x.1 = b) ∧
    (∀ x ∈ (run o cfg m rs).rcpts, x.2 = false → cfg.route x.1 ∈ (run o cfg m rs).final.used) := by
  have main : ∀ b, b ∈ (run o cfg m rs).final.used ↔
      ∃ x ∈ (run o cfg m rs).rcpts, ReachesBlock cfg x.1 ∧ cfg.route x.1 = b := by
    rw [run_ord o ho] at hok ⊢
    rw [run_startRefused] at hok
    rw [run_final, run_rcpts]
    simp only [hok, Bool.false_eq_true, ↓reduceIte]
    have ad := atData cfg hok rs
    intro b
    split
    · exact ad.2.2.2.1 b
    · rw [(body_frame cfg _).2]; exact ad.2.2.2.1 b
  refine ⟨main, ?_⟩
  intro x hx hxa
  exact (main _).mpr ⟨x, hx, C06_accepted_reaches_block o ho cfg m rs x hx hxa, rfl⟩

/-- **Only applicable checks are called**: every call of the transaction is on a check of the
global block, of the source block, or of the destination block of a submitted recipient. -/
theorem C06_only_applicable_checks_called (o : Ord) (ho : o.fair) (cfg : Cfg) (m : Mode) (rs : List Rcpt) :
    ∀ k ∈ (run o cfg m rs).final.cr.done,
      k.c ∈ cfg.global ∨ k.c ∈ cfg.source ∨ ∃ r ∈ rs, k.c ∈ (cfg.block (cfg.route r)).checks := by
  rw [run_ord o ho, run_final]
  have h0 : ∀ k ∈ (start idOrd cfg).1.cr.done,
      k.c ∈ cfg.global ∨ k.c ∈ cfg.source ∨ ∃ r ∈ rs, k.c ∈ (cfg.block (cfg.route r)).checks := by
    intro k hk
    rcases start_done_src cfg k hk with h | h
    · exact Or.inl h
    · exact Or.inr (Or.inl h)
  have h1 : ∀ k ∈ (rcptPhase cfg rs).1.cr.done,
      k.c ∈ cfg.global ∨ k.c ∈ cfg.source ∨ ∃ r ∈ rs, k.c ∈ (cfg.block (cfg.route r)).checks := by
    intro k hk
    rcases addAll_done_src cfg rs _ k hk with hk | ⟨r, hr, g, hg, hc⟩
    · exact h0 k hk
    · simp only [appGroups, List.mem_cons, List.not_mem_nil, or_false] at hg
      rcases hg with rfl | rfl | rfl
      · exact Or.inl hc
      · exact Or.inr (Or.inl hc)
      · exact Or.inr (Or.inr ⟨r, hr, hc⟩)
  split
  · exact h0
  · rename_i hs
    have hs' : (start idOrd cfg).2 = false := by simpa using hs
    split
    · exact h1
    · rw [body_cr]
      intro k hk
      rcases (bodyChecks_chain cfg (rcptPhase cfg rs).1).done_src k hk with hk | ⟨g, hg, hc⟩
      · exact h1 k hk
      · rcases (mem_bodyGroups cfg hs' rs k.c).mp ⟨g, hg, hc⟩ with h | h | ⟨x, hx, _, h⟩
        · exact Or.inl h
        · exact Or.inr (Or.inl h)
        · refine Or.inr (Or.inr ⟨x.1, ?_, h⟩)
          have := addAll_map_fst idOrd cfg rs (start idOrd cfg).1
          rw [← this]
          exact List.mem_map.mpr ⟨x, hx, rfl⟩

/-! ## several messages on one pipeline: transactions are independent -/

theorem stepN_closed (t : TxIn) (ob : Obs) : ∀ n, t.stepN n (.closed ob) = .closed ob
  | 0 => rfl
  | n + 1 => by simp [TxIn.stepN, TxIn.step, stepN_closed t ob n]

theorem stepN_add (t : TxIn) : ∀ (a b : Nat) (s : TxSt), t.stepN (a + b) s = t.stepN b (t.stepN a s)
  | 0, b, s => by simp [TxIn.stepN]
  | a + 1, b, s => by
    have : a + 1 + b = (a + b) + 1 := by omega
    rw [this]
    simp only [TxIn.stepN]
    exact stepN_add t a b _

/-- What the transaction shows once the RCPT phase is over. -/
def closeTx (t : TxIn) (d : Dlv) (done : List (Rcpt × Bool)) : Obs :=
  if done.all (fun x => x.2) then ⟨false, done, none, d⟩
  else ⟨false, done, some (bodyOf t.m t.o t.cfg d).2, (bodyOf t.m t.o t.cfg d).1⟩

theorem stepN_succ (t : TxIn) (n : Nat) (s : TxSt) : t.stepN (n + 1) s = t.stepN n (t.step s) := rfl

theorem step_rcpts_cons (t : TxIn) (d : Dlv) (done : List (Rcpt × Bool)) (r : Rcpt) (rest : List Rcpt) :
    t.step (.rcpts d done (r :: rest)) =
      .rcpts (addRcpt t.o t.cfg d r).1 (done ++ [(r, (addRcpt t.o t.cfg d r).2)]) rest := rfl

theorem step_rcpts_nil (t : TxIn) (d : Dlv) (done : List (Rcpt × Bool)) :
    t.step (.rcpts d done []) = .closed (closeTx t d done) := by
  simp only [TxIn.step, closeTx]
  split <;> rfl

theorem step_fresh (t : TxIn) :
    t.step .fresh = if (start t.o t.cfg).2 then .closed ⟨true, [], none, (start t.o t.cfg).1⟩
      else .rcpts (start t.o t.cfg).1 [] t.rcpts := rfl

/-- The remaining RCPT commands and DATA, one command at a time, are `addAll` followed by the body stage. -/
theorem stepN_rcpts (t : TxIn) : ∀ (todo : List Rcpt) (d : Dlv) (done : List (Rcpt × Bool)),
    t.stepN (todo.length + 1) (.rcpts d done todo) =
      .closed (closeTx t (addAll t.o t.cfg d todo).1 (done ++ (addAll t.o t.cfg d todo).2))
  | [], d, done => by
    rw [List.length_nil, Nat.zero_add, stepN_succ, step_rcpts_nil]
    simp [TxIn.stepN, addAll]
  | r :: rest, d, done => by
    rw [List.length_cons, stepN_succ, step_rcpts_cons, stepN_rcpts t rest]
    simp [addAll, List.append_assoc]

/-- **Command by command = the whole transaction**: MAIL, every RCPT and DATA issued one at a time
(with anything happening in between on other messages) give exactly `run`. -/
theorem C06_step_run (t : TxIn) : t.stepN (t.rcpts.length + 2) .fresh = .closed (run t.o t.cfg t.m t.rcpts) := by
  have : t.rcpts.length + 2 = (t.rcpts.length + 1) + 1 := by omega
  rw [this, stepN_succ, step_fresh]
  unfold run
  by_cases hs : (start t.o t.cfg).2 = true
  · simp [hs, stepN_closed]
  · simp only [hs, Bool.false_eq_true, if_false]
    rw [stepN_rcpts t t.rcpts]
    simp only [List.nil_append, closeTx]

theorem C06_step_run_ge (t : TxIn) (n : Nat) (h : t.rcpts.length + 2 ≤ n) :
    t.stepN n .fresh = .closed (run t.o t.cfg t.m t.rcpts) := by
  obtain ⟨k, rfl⟩ : ∃ k, n = (t.rcpts.length + 2) + k := ⟨n - (t.rcpts.length + 2), by omega⟩
  rw [stepN_add, C06_step_run, stepN_closed]

theorem multiStep_length (txs : List TxIn) (sts : List TxSt) (i : Nat) : (multiStep txs sts i).length = sts.length := by
  unfold multiStep
  split <;> simp

theorem multiStep_get (txs : List TxIn) (sts : List TxSt) (i j : Nat) :
    (multiStep txs sts i)[j]? =
      if i = j then (match txs[j]?, sts[j]? with
        | some t, some s => some (t.step s)
        | _, s => s) else sts[j]? := by
  unfold multiStep
  by_cases hij : i = j
  · subst hij
    simp only [if_true]
    split
    · rename_i t s ht hs
      have hlt : i < sts.length := by
        rcases Nat.lt_or_ge i sts.length with h | h
        · exact h
        · rw [List.getElem?_eq_none h] at hs; cases hs
      rw [List.getElem?_set, ht]
      simp [hlt] at hs ⊢
      rw [hs]
    · rename_i h
      split
      · rename_i t s ht hs
        exact absurd hs (h t s ht)
      · rfl
  · simp only [hij, if_false]
    split
    · simp [hij]
    · rfl

/-- Frame property of the interleaved execution: after any schedule the state of message `j` is
its own commands applied to its own starting state - `count j` of them -, whatever the other
messages are and did. -/
theorem multi_frame (txs : List TxIn) (j : Nat) (t : TxIn) (ht : txs[j]? = some t) :
    ∀ (sched : List Nat) (sts : List TxSt) (s : TxSt), sts[j]? = some s →
      (sched.foldl (multiStep txs) sts)[j]? = some (t.stepN (sched.count j) s)
  | [], sts, s, hs => by simpa [TxIn.stepN] using hs
  | i :: rest, sts, s, hs => by
    simp only [List.foldl_cons]
    by_cases hij : i = j
    · subst hij
      have h1 : (multiStep txs sts i)[i]? = some (t.step s) := by
        rw [multiStep_get]; simp [ht, hs]
      rw [multi_frame txs i t ht rest _ _ h1]
      simp [TxIn.stepN]
    · have h1 : (multiStep txs sts i)[j]? = some s := by
        rw [multiStep_get]; simp [hij, hs]
      rw [multi_frame txs j t ht rest _ _ h1]
      have : (i == j) = false := by simpa using hij
      simp [List.count_cons, this]

/-- **Transactions are independent.**  Any number of messages in flight on the same pipeline, their
commands interleaved in any order: a message all of whose commands were issued (`MAIL`, its RCPTs,
`DATA`: `count j ≥ |rcpts| + 2`; surplus entries do nothing) ends with exactly the outcome `run`
gives for it alone - replies, per-recipient results, flag, hand-overs and call log -, so every
theorem of this file about `run` holds for each of the overlapping transactions. -/
theorem C06_transactions_independent (txs : List TxIn) (sched : List Nat) (j : Nat) (t : TxIn)
    (ht : txs[j]? = some t) (hc : t.rcpts.length + 2 ≤ sched.count j) :
    (multi txs sched)[j]? = some (.closed (run t.o t.cfg t.m t.rcpts)) := by
  unfold multi
  have h0 : (txs.map (fun _ => TxSt.fresh))[j]? = some TxSt.fresh := by simp [ht]
  rw [multi_frame txs j t ht sched _ _ h0, C06_step_run_ge t _ hc]

/-- The outcome of a transaction depends neither on what the other transactions on the pipeline
are nor on how the commands are interleaved. -/
theorem C06_outcome_independent_of_other_transactions (txs txs' : List TxIn) (sched sched' : List Nat)
    (j j' : Nat) (t : TxIn) (ht : txs[j]? = some t) (ht' : txs'[j']? = some t)
    (hc : t.rcpts.length + 2 ≤ sched.count j) (hc' : t.rcpts.length + 2 ≤ sched'.count j') :
    (multi txs sched)[j]? = (multi txs' sched')[j']? := by
  rw [C06_transactions_independent txs sched j t ht hc, C06_transactions_independent txs' sched' j' t ht' hc']

/-- Also half-way: after any prefix of any schedule a message is where its own commands put it. -/
theorem C06_transaction_state_is_its_own (txs : List TxIn) (sched : List Nat) (j : Nat) (t : TxIn)
    (ht : txs[j]? = some t) : (multi txs sched)[j]? = some (t.stepN (sched.count j) .fresh) := by
  unfold multi
  exact multi_frame txs j t ht sched _ _ (by simp [ht])

/-! ## T1: facts regenerated from the current tree (see tools/extract/c06calls.go) -/

/-- The steps of a body path that belong to its check phase (step codes 1-4, 9 = a `checkBody`
call the extractor does not recognise). -/
def checkPhase (l : List Nat) : List Nat := l.filter (fun x => x ≤ 4 || x == 9)

/-- In the current tree `Body` and `BodyNonAtomic` ask the same check groups about the body, in
the same order, and both apply the results — the call lists the two model functions mirror. -/
theorem C06_T1_body_paths_same_check_phase :
    checkPhase Generated.C06Calls.bodySteps = checkPhase Generated.C06Calls.bodyNonAtomicSteps ∧
    checkPhase Generated.C06Calls.bodySteps = Expect.C06Calls.checkPhase := by decide

/-- In both paths no target sees the body before the check phase is over. -/
theorem C06_T1_checks_before_targets :
    ((Generated.C06Calls.bodySteps.dropWhile (· ≠ 6)).all (fun x => x == 5 || x == 6)) = true ∧
    ((Generated.C06Calls.bodyNonAtomicSteps.dropWhile (· ≠ 6)).all (fun x => x == 5 || x == 6)) = true ∧
    Generated.C06Calls.bodySteps.contains 6 = true ∧ Generated.C06Calls.bodyNonAtomicSteps.contains 6 = true := by decide

/-- The merge logic and the replay of `checkStates` are still what the model was written from. -/
theorem C06_T1_merge_as_modelled :
    Generated.C06Calls.mergeChain = Expect.C06Calls.mergeChain ∧
    Generated.C06Calls.mergeOnce = Expect.C06Calls.mergeOnce ∧
    Generated.C06Calls.mergeAfterWait = Expect.C06Calls.mergeAfterWait ∧
    Generated.C06Calls.replayGroups = Expect.C06Calls.replayGroups := ⟨rfl, rfl, rfl, rfl⟩

/-- In the current tree the pipeline package writes `MsgMetadata.Quarantine` only in
`applyResults`, and every write stores the literal `true`: the flag is only ever raised, as
`Model.applyResults` (and with it `C06_quarantine_flag_monotone`) has it. -/
theorem C06_T1_flag_only_raised :
    Generated.C06Calls.flagWriteValues = Generated.C06Calls.flagWriteSites.map (fun _ => "true") ∧
    Generated.C06Calls.flagWriteSites = Expect.C06Calls.flagWriteSites := ⟨rfl, rfl⟩

/-- In the current tree the key set of `rcptModifiersState` - which `Body` / `BodyNonAtomic` walk to
find the destination blocks whose checks are asked about the body - is only ever extended, by
`getRcptModifiers`: nothing deletes, clears or replaces it (`Model.useBlock`, `C06_body_stage_blocks`). -/
theorem C06_T1_body_stage_blocks_only_added :
    Generated.C06Calls.blockMapUpdates = Expect.C06Calls.blockMapUpdates := rfl

/-! ## non-vacuity: a concrete transaction exercising the hypotheses -/

/-- Two checks: check 0 is referenced by the global block and by destination block 1, check 1 by
destination block 0 only; check 0 quarantines recipient 2, check 1 rejects recipient 3. -/
def exCfg : Cfg where
  v := fun c s => match c, s with
    | 0, .rcpt 2 => .quar
    | 1, .rcpt 3 => .rej
    | _, _ => .none
  global := [0]
  source := []
  block := fun b => if b = 0 then ⟨[1], [0]⟩ else ⟨[0], [1]⟩
  route := fun r => if r = 2 then 1 else 0
  tgt := fun t => ⟨t = 1, t = 1⟩
  dmarc := .off
  q0 := false
  mf := MFaults.none

example : exCfg.WF := ⟨by decide, by decide, by intro b; by_cases h : b = 0 <;> simp [exCfg, h]⟩

/-- Recipient 1 accepted, 3 refused (by check 1), 2 accepted and quarantining; over LMTP the
remote-like target 1 refuses the flagged message for recipient 2, target 0 takes it flagged. -/
example : let ob := run idOrd exCfg .lmtp [1, 3, 2]
    ob.startRefused = false ∧ ob.rcpts = [(1, false), (3, true), (2, false)] ∧
    ob.final.metaQ = true ∧ delivered .lmtp ob = [1] ∧ handedOver .lmtp ob = [(0, [1], true)] := by
  decide

/-- The same over SMTP: the refusal of target 1 fails the whole message. -/
example : delivered .smtp (run idOrd exCfg .smtp [1, 3, 2]) = [] := by decide

/-- The hypothesis of `C06_quarantine_flag_monotone` on a concrete transaction in which no check
of the pipeline itself quarantines anything the message goes through (recipient 2 is not in the
envelope): the flag handed over stays, the remote-like target 1 refuses, target 0 takes the
message flagged — and without the flag handed over the same transaction is not flagged. -/
example : let ob := run idOrd { exCfg with q0 := true } .lmtp [1, 3]
    ob.final.metaQ = true ∧ handedOver .lmtp ob = [(0, [1], true)] ∧
    (run idOrd exCfg .lmtp [1, 3]).final.metaQ = false := by
  decide

example : flagThrough idOrd .smtp false [(exCfg, [1, 2]), (exCfg, [1])] = true ∧
    flagThrough idOrd .smtp false [(exCfg, [1]), (exCfg, [1])] = false := by decide

/-- Failing modifiers (the transaction of reviewer case C06-5): check 1 sits in destination block 0
and rejects the body; recipient 1 (block 0) is accepted, recipient 3 (block 0 as well) passes the
checks and fails in the block's own `RewriteRcpt`, recipient 2 (block 1) is accepted. -/
def exMod : Cfg := { exCfg with
  v := fun c s => match c, s with
    | 1, .body => .rej
    | _, _ => .none
  mf := { MFaults.none with rcptB := fun r => r == 3 } }

/-- Block 0 stays among the blocks of the body stage (`used = [0, 1]`), check 1 is asked about the
body, its reject refuses DATA, nobody is served - over both body paths.  Recipient 3 was handled in
the scope of check 1 (`ReachesBlock`), so check 1 saw it - once. -/
example : let ob := run idOrd exMod .smtp [1, 3, 2]
    ob.startRefused = false ∧ ob.rcpts = [(1, false), (3, true), (2, false)] ∧ ob.final.used = [0, 1] ∧
    ob.body.map (fun b => b.refused) = some (some .check) ∧ delivered .smtp ob = [] ∧
    ob.final.cr.done.count ⟨1, 0, .rcpt 3⟩ = 1 ∧ ob.final.cr.done.count ⟨1, 0, .body⟩ = 1 := by decide

example : (run idOrd exMod .lmtp [1, 3, 2]).body.map (fun b => b.refused) = some (some .check) := by decide

example : ReachesBlock exMod 3 ∧ exMod.mf.rcptAny 3 = true ∧ ¬ ReachesBlock { exMod with mf := { MFaults.none with rcptG := fun r => r == 3 } } 3 := by
  unfold ReachesBlock MustRefuseRcpt; decide

/-- The same with a quarantine instead of the reject: every hand-over carries the flag. -/
example : let cfg : Cfg := { exMod with v := fun c s => match c, s with | 1, .body => .quar | _, _ => .none }
    (run idOrd cfg .lmtp [1, 3, 2]).final.metaQ = true ∧
    handedOver .lmtp (run idOrd cfg .lmtp [1, 3, 2]) = [(0, [1], true)] := by decide

/-- Failures elsewhere: `RewriteSender` of the source modifiers refuses MAIL; `RewriteBody` of block
1's modifiers refuses DATA after the checks passed (`Why.modifier`), nothing is handed over. -/
example : (run idOrd { exCfg with mf := { MFaults.none with senderS := true } } .smtp [1]).startRefused = true ∧
    (run idOrd { exCfg with mf := { MFaults.none with bodyB := fun b => b == 1 } } .lmtp [1, 2]).body.map (fun b => b.refused)
      = some (some .modifier) ∧
    (run idOrd { exCfg with mf := { MFaults.none with bodyB := fun b => b == 1 } } .lmtp [1]).body.map (fun b => b.refused)
      = some none := by decide

/-- The hypothesis of `C06_one_state_per_check` is satisfiable (and the conclusion not trivial:
calls were made). -/
example : (∀ c, exCfg.v c .conn ≠ .rej ∧ exCfg.v c .sender ≠ .rej) ∧
    (run idOrd exCfg .lmtp [1, 3, 2]).final.cr.done.length = 11 := by
  refine ⟨?_, by decide⟩
  intro c; simp only [exCfg]; constructor <;> simp

/-- `Cfg.WF` is needed: a block that lists the same check twice makes the runner create two state
objects for it in one go (and call each), which the log counts as the same call twice. The
property's placements put a check in several *blocks*, never twice in one. -/
example : ¬ (run idOrd { exCfg with global := [0, 0] } .smtp [1]).final.cr.done.Nodup := by decide

def exT0 : TxIn := ⟨idOrd, exCfg, .lmtp, [1, 3, 2]⟩
def exT1 : TxIn := ⟨idOrd, { exCfg with q0 := true }, .smtp, [1]⟩
def obsOf : Option TxSt → Option Obs
  | some (TxSt.closed ob) => some ob
  | _ => none
def todoOf : Option TxSt → Option (List (Rcpt × Bool) × List Rcpt)
  | some (TxSt.rcpts _ done todo) => some (done, todo)
  | _ => none

/-- Two messages in flight on `exCfg`'s pipeline (the second one pre-flagged, over SMTP, to a
recipient of the other block), their eight commands interleaved: the schedule is complete for both
(hypothesis of `C06_transactions_independent`), and each ends exactly as it does alone - the
first one with recipient 3 refused and flagged by its own check, the second one flagged as handed
over and nothing of the first one's verdicts.  Half-way (MAIL and one RCPT of the first message) it
is where its own two commands put it. -/
example : exT0.rcpts.length + 2 ≤ [0, 1, 0, 1, 0, 0, 1, 0].count 0 ∧
    exT1.rcpts.length + 2 ≤ [0, 1, 0, 1, 0, 0, 1, 0].count 1 := by decide
example : (obsOf (multi [exT0, exT1] [0, 1, 0, 1, 0, 0, 1, 0])[0]?).map (fun a => (a.rcpts, delivered .lmtp a)) =
    some ([(1, false), (3, true), (2, false)], [1]) := by decide
example : (obsOf (multi [exT0, exT1] [0, 1, 0, 1, 0, 0, 1, 0])[1]?).map (fun b => (b.rcpts, b.final.metaQ)) =
    some ([(1, false)], true) := by decide
example : (obsOf (multi [exT0, exT1] [0, 1, 0, 1, 0, 0, 1, 0])[1]?).map (fun b => handedOver .smtp b) =
    some [(0, [1], true)] := by decide
example : (obsOf (multi [exT0, exT1] [0, 1, 0, 1, 0, 0, 1, 0])[1]?).map (fun b => b.final.cr.done) =
    some (run idOrd { exCfg with q0 := true } .smtp [1]).final.cr.done := by decide
example : todoOf (multi [exT0, exT1] [0, 1, 0])[0]? = some ([(1, false)], [3, 2]) := by decide

/-! ## Round 9: DMARC policy discovery (`discover`) - what decides the `Dmarc` parameter -/

/-- What is published at a `_dmarc` name besides DMARC records does not matter: two answers with
the same DMARC records give the same outcome, at the From domain ... -/
theorem C06_dmarc_discovery_ignores_other_txt_at_from (w : World) (l l' : List Txt)
    (h : dmarcRecords l = dmarcRecords l') :
    discover { w with atFrom := .recs l } = discover { w with atFrom := .recs l' } := by
  cases hf : w.fromIsOrg <;> simp [discover, fetchRecord, World.first, lookupPolicies, h]

/-- ... and at the organizational domain. -/
theorem C06_dmarc_discovery_ignores_other_txt_at_org (w : World) (l l' : List Txt)
    (h : dmarcRecords l = dmarcRecords l') :
    discover { w with atOrg := .recs l } = discover { w with atOrg := .recs l' } := by
  cases hf : w.fromIsOrg <;> simp [discover, fetchRecord, World.first, lookupPolicies, h]

/-- A name that does not exist and a name with records none of which is a DMARC record are the same
to the discovery. -/
theorem C06_dmarc_no_record_is_no_name (w : World) (l : List Txt) (h : dmarcRecords l = []) :
    discover { w with atFrom := .recs l } = discover { w with atFrom := .nx } := by
  cases hf : w.fromIsOrg <;> simp [discover, fetchRecord, World.first, lookupPolicies, h]

/-- The policy of the organizational domain applies to a subdomain without a DMARC record of its
own - whatever else its `_dmarc` name answers with (nothing, no such name, a wildcard TXT record,
an SPF record): a message that is not aligned gets `sp` if the record has one, else `p`. -/
theorem C06_dmarc_org_policy_applies (w : World) (p : Pol) (sp : Option Pol) (lo : List Txt)
    (hsub : w.fromIsOrg = false)
    (hfrom : w.atFrom = .nx ∨ ∃ l, w.atFrom = .recs l ∧ dmarcRecords l = [])
    (horg : w.atOrg = .recs lo) (hone : dmarcRecords lo = [(p, sp)]) (hal : w.aligned = false) :
    discover w = (sp.getD p).toDmarc := by
  rcases hfrom with hfrom | ⟨l, hfrom, hl⟩ <;>
    cases sp <;> simp [discover, fetchRecord, World.first, lookupPolicies, *]

/-- The enforcement theorems compose with the discovery: a failing message of a subdomain whose
organizational domain publishes quarantine is flagged before every target (instance of
`C06_quarantine_flags_every_target` with `cfg.dmarc = discover w`). -/
theorem C06_dmarc_discovered_quarantine_flags (o : Ord) (ho : o.fair) (cfg : Cfg) (m : Mode) (rs : List Rcpt)
    (w : World) (hd : cfg.dmarc = discover w) (hq : discover w = .quar) :
    ∀ b, (run o cfg m rs).body = some b → b.refused = none →
      (run o cfg m rs).final.metaQ = true ∧
      (∀ x ∈ handedOver m (run o cfg m rs), x.2.2 = true ∧ (cfg.tgt x.1).refuseQ = false) := by
  intro b hb hn
  have h := C06_quarantine_flags_every_target o ho cfg m rs b hb hn (Or.inr (Or.inl (hd.trans hq)))
  exact ⟨h.1, h.2.2⟩

/-- Non-vacuity and the cases of the discovery: the seeded scenario (subdomain answering with an
SPF record, organizational domain publishing reject / quarantine with and without `sp`), several
records, temporary failures at either name (the second one only when it is asked), alignment. -/
example : discover ⟨false, .recs [.stray], .recs [.policy .reject none], false⟩ = .rej := by decide
example : discover ⟨false, .recs [.stray, .stray], .recs [.stray, .policy .quarantine none], false⟩ = .quar := by decide
example : discover ⟨false, .nx, .recs [.policy .reject (some .quarantine)], false⟩ = .quar := by decide
example : discover ⟨false, .recs [], .recs [.policy .nothing (some .reject)], false⟩ = .rej := by decide
example : discover ⟨false, .recs [.policy .quarantine (some .reject)], .recs [.policy .reject none], false⟩ = .quar := by decide
example : discover ⟨false, .recs [.policy .quarantine none, .policy .reject none], .recs [.policy .reject none], false⟩ = .pass := by decide
example : discover ⟨false, .recs [.stray], .recs [.policy .reject none, .policy .reject none], false⟩ = .pass := by decide
example : discover ⟨false, .temp, .recs [.policy .nothing none], true⟩ = .rej := by decide
example : discover ⟨false, .recs [.policy .nothing none], .temp, false⟩ = .pass := by decide
example : discover ⟨false, .recs [.stray], .temp, false⟩ = .rej := by decide
example : discover ⟨true, .nx, .recs [.policy .reject (some .nothing)], false⟩ = .rej := by decide
example : discover ⟨false, .nx, .recs [.policy .reject none], true⟩ = .pass := by decide
example : ∃ (w : World) (p : Pol) (sp : Option Pol) (lo : List Txt), w.fromIsOrg = false ∧ (w.atFrom = .nx ∨ ∃ l, w.atFrom = .recs l ∧ dmarcRecords l = []) ∧
    w.atOrg = .recs lo ∧ dmarcRecords lo = [(p, sp)] ∧ w.aligned = false :=
  ⟨⟨false, .recs [.stray], .recs [.stray, .policy .reject none], false⟩, .reject, none, _, rfl,
    Or.inr ⟨_, rfl, rfl⟩, rfl, rfl, rfl⟩

/-- Non-vacuity of `C06_dead_block_takes_no_recipient`: block 1 of `exCfg` dead, recipient 2 (routed to it) is
refused, recipient 1 is not. -/
example : let cfg : Cfg := { exCfg with mf := MFaults.none.withDeadBlocks exCfg.route (fun b => b == 1) }
    cfg.mf = MFaults.none.withDeadBlocks cfg.route (fun b => b == 1) ∧
    (run idOrd cfg .smtp [1, 2]).rcpts = [(1, false), (2, true)] ∧
    delivered .smtp (run idOrd cfg .smtp [1, 2]) = [1] := by
  refine ⟨rfl, ?_, ?_⟩ <;> decide

end MaddyVerif.C06
