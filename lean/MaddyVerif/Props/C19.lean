import MaddyVerif.Lemmas.PoolKey
import MaddyVerif.Lemmas.PoolTick
/-!
# C19 — a pooled connection has one owner at a time and is closed once

Quantifier: every schedule (`List Who` of any length: goroutine steps with arbitrary map-iteration picks,
clock ticks, connection breaks, cancellations of a worker's context), any number of workers running any programs of get / use / return / drop /
clean-up / shutdown on any keys, any configuration.  `run (init cfg progs) ws` is the state after schedule `ws`.

The model (`Model/Pool.lean`) mirrors `pool.go` *after* the fix "pool.Get emptied an expired bucket after
releasing the lock"; the unfixed behaviour is exhibited on the real code by the check's replay (notes/C19.md).

Only `C19_no_deadlock_single_shutdown` needs a hypothesis (`pool.Close()` is called at most once), and
`C19_double_shutdown_blocks` shows it is necessary.
-/
namespace MaddyVerif.C19
open MaddyVerif.Pool

/-! ## every state reachable by any schedule satisfies the invariants -/

theorem reach_inv (cfg : Cfg) (progs : List (List Op)) (ws : List Who) : Inv (run (init cfg progs) ws) :=
  inv_run ws (inv_init cfg progs)

/-! ## one owner at a time -/

/-- **Single owner.** Every connection that was ever created is at exactly one place — idle in one bucket,
carried by one goroutine of the pool, held by one worker, closed (once), or dropped by a `Return` after
shutdown — and a connection that was not created yet is nowhere.  Places are derived from the channel
buffers, program counters, holdings and the `closed` / `leaked` lists (`cnt`), not stored. -/
theorem C19_single_owner (cfg : Cfg) (progs : List (List Op)) (ws : List Who) (c : Nat) :
    let s := run (init cfg progs) ws
    (c < s.fresh → cnt s c = 1) ∧ (s.fresh ≤ c → cnt s c = 0) :=
  (reach_inv cfg progs ws).one c

theorem cnt_le_one {s : St} (h : OnePlace s) (c : Nat) : cnt s c ≤ 1 := by
  by_cases hc : c < s.fresh
  · rw [(h c).1 hc]; exact Nat.le_refl 1
  · rw [(h c).2 (by omega)]; exact Nat.zero_le 1

theorem taskCnt_ge (tasks : List Task) (i : Nat) (t : Task) (c : Nat) (h : tasks[i]? = some t) :
    (Task.conns t).count c ≤ taskCnt tasks c := by
  rw [taskCnt_split tasks i t c h]; omega

theorem taskCnt_ge_two (tasks : List Task) (i j : Nat) (ti tj : Task) (c : Nat) (hij : i < j)
    (hi : tasks[i]? = some ti) (hj : tasks[j]? = some tj) :
    (Task.conns ti).count c + (Task.conns tj).count c ≤ taskCnt tasks c := by
  induction tasks generalizing i j with
  | nil => simp at hi
  | cons a l ih =>
    cases j with
    | zero => omega
    | succ j' =>
      simp at hj
      rw [taskCnt_cons]
      cases i with
      | zero =>
        simp at hi; subst hi
        have := taskCnt_ge l j' tj c hj
        omega
      | succ i' =>
        simp at hi
        have := ih i' j' (by omega) hi hj
        omega

theorem count_pos_of_mem_held {t : Task} {c k : Nat} (h : (c, k) ∈ t.held) : 1 ≤ (Task.conns t).count c := by
  unfold Task.conns
  rw [List.count_append]
  have : c ∈ t.held.map (·.1) := List.mem_map.mpr ⟨(c, k), h, rfl⟩
  have := List.count_pos_iff.mpr this
  omega

/-- Two different goroutines never hold (or carry) the same connection. -/
theorem C19_owners_disjoint (cfg : Cfg) (progs : List (List Op)) (ws : List Who)
    (i j : Nat) (ti tj : Task) (c : Nat) (hij : i ≠ j)
    (hi : (run (init cfg progs) ws).tasks[i]? = some ti) (hj : (run (init cfg progs) ws).tasks[j]? = some tj)
    (hc : c ∈ Task.conns ti) : c ∉ Task.conns tj := by
  intro hcj
  have h1 := cnt_le_one (reach_inv cfg progs ws).one c
  have hci := List.count_pos_iff.mpr hc
  have hcj' := List.count_pos_iff.mpr hcj
  unfold cnt at h1
  rcases Nat.lt_or_gt_of_ne hij with h | h
  · have := taskCnt_ge_two _ i j ti tj c h hi hj; omega
  · have := taskCnt_ge_two _ j i tj ti c h hj hi; omega

/-- A worker never holds the same connection twice. -/
theorem C19_held_nodup (cfg : Cfg) (progs : List (List Op)) (ws : List Who) (i : Nat) (t : Task)
    (hi : (run (init cfg progs) ws).tasks[i]? = some t) : (t.held.map (·.1)).Nodup := by
  rw [List.nodup_iff_count]
  intro c
  have h1 := cnt_le_one (reach_inv cfg progs ws).one c
  have := taskCnt_ge _ i t c hi
  unfold cnt at h1
  unfold Task.conns at this
  rw [List.count_append] at this
  omega

/-! ## never handed out after close, expiry or shutdown -/

/-- **Never handed out closed; never closed while held; not idle in a bucket while held.**  A connection a
worker holds has not been closed (by anybody) and is in no bucket. -/
theorem C19_never_handed_out_closed (cfg : Cfg) (progs : List (List Op)) (ws : List Who) (i : Nat) (t : Task)
    (c k : Nat) (hi : (run (init cfg progs) ws).tasks[i]? = some t) (hc : (c, k) ∈ t.held) :
    c ∉ (run (init cfg progs) ws).closed ∧ chanCnt (run (init cfg progs) ws).chans c = 0 ∧
      c ∉ (run (init cfg progs) ws).leaked := by
  have h1 := cnt_le_one (reach_inv cfg progs ws).one c
  have h2 := taskCnt_ge _ i t c hi
  have h3 := count_pos_of_mem_held hc
  unfold cnt at h1
  refine ⟨fun h => ?_, by omega, fun h => ?_⟩
  · have := List.count_pos_iff.mpr h; omega
  · have := List.count_pos_iff.mpr h; omega

/-- **Closed at most once.**  `Close()` is called at most once on every connection, by anybody. -/
theorem C19_closed_at_most_once (cfg : Cfg) (progs : List (List Op)) (ws : List Who) :
    (run (init cfg progs) ws).closed.Nodup := by
  rw [List.nodup_iff_count]
  intro c
  have h1 := cnt_le_one (reach_inv cfg progs ws).one c
  unfold cnt at h1
  omega

/-- **Never handed out expired or unusable.**  Every pooled connection `Get` returned had, at that moment,
`LastUseAt + MaxConnLifetime ≥ now` and `Usable() = true`. -/
theorem C19_never_handed_out_expired (cfg : Cfg) (progs : List (List Op)) (ws : List Who) :
    ∀ e ∈ (run (init cfg progs) ws).handLog, e.now ≤ e.lastUse + cfg.maxLife ∧ e.broken = false := by
  intro e he
  have := (reach_inv cfg progs ws).hand e he
  rw [cfg_run] at this
  exact this

/-- **Never handed out after shutdown.**  No `Get` ever took a connection out of a bucket after `pool.Close()`
had completed (`p.keys == nil`): every receive in the log happened on a live pool. -/
theorem C19_no_handout_after_shutdown (cfg : Cfg) (progs : List (List Op)) (ws : List Who) :
    ∀ e ∈ (run (init cfg progs) ws).recvLog, e.2 = false :=
  (reach_inv cfg progs ws).cinv.recv

/-- … because once the pool is shut down every bucket ever created is empty, and stays empty. -/
theorem C19_empty_after_shutdown (cfg : Cfg) (progs : List (List Op)) (ws : List Who)
    (hk : (run (init cfg progs) ws).keysNil = true) (x : Nat) (ch : Chan)
    (hx : (run (init cfg progs) ws).chans[x]? = some ch) : ch.buf = [] :=
  empty_after_shutdown (reach_inv cfg progs ws).cinv hk hx

/-! ## handed out only under the key, and within the idle lifetime, of the last `Return`

`retKey c` / `retAt c` are history variables: the key and the time of the last `pool.Return(key, c)` call, written by
the `ret` op only; no transition of the pool reads them.  `lastUse c` is the connection's `LastUseAt()` stamp; it is
written by the worker's `use` op and by `cfg.New` only — in particular **not** by `Usable()`. -/

theorem reach_kinv (cfg : Cfg) (progs : List (List Op)) (ws : List Who) : KInv (run (init cfg progs) ws) :=
  kinv_run ws (inv_init cfg progs) (kinv_init cfg progs)

/-- **A connection is only ever handed out for the key it was returned under.**  For every pooled hand-out, the
key `Get` was called with is the key of the last `Return` of that connection. -/
theorem C19_handed_out_under_return_key (cfg : Cfg) (progs : List (List Op)) (ws : List Who) :
    ∀ e ∈ (run (init cfg progs) ws).handLog, e.retKey = some e.key :=
  fun e he => ((reach_kinv cfg progs ws).log e he).1

/-- … because a connection idle in a bucket was last returned under the key of that bucket (and has not been used
since that `Return`). -/
theorem C19_idle_under_return_key (cfg : Cfg) (progs : List (List Op)) (ws : List Who) (x : Nat) (ch : Chan)
    (hx : (run (init cfg progs) ws).chans[x]? = some ch) (c : Nat) (hc : c ∈ ch.buf) :
    (run (init cfg progs) ws).retKey c = some ch.key ∧
      (run (init cfg progs) ws).lastUse c ≤ (run (init cfg progs) ws).retAt c :=
  (reach_kinv cfg progs ws).buf x ch hx c hc

/-- **Handed out less than the idle lifetime after its last `Return`.**  Measured by the time of the `Return` call
(not by what the connection object reports): every pooled hand-out happened at most `MaxConnLifetime` after the
last `Return` of that connection. -/
theorem C19_handed_out_within_lifetime_of_last_return (cfg : Cfg) (progs : List (List Op)) (ws : List Who) :
    ∀ e ∈ (run (init cfg progs) ws).handLog, e.now ≤ e.retAt + cfg.maxLife := by
  intro e he
  have h1 := (C19_never_handed_out_expired cfg progs ws e he).1
  have h2 := ((reach_kinv cfg progs ws).log e he).2
  omega

/-- **`Usable()` cannot move the idle stamp.**  The step in which `Get` calls `conn.Usable()` and compares
`conn.LastUseAt()` with the lifetime leaves every `LastUseAt` stamp (and the `Return` history) as it was.  The
real connection type (`mxConn`) is checked against this by the harness (`C19/usable-moved-idle-stamp`). -/
theorem C19_usable_keeps_idle_stamp (s s' : St) (i p k h c : Nat) (prog : List Op) (held : List (Nat × Nat))
    (hstep : stepTask s i ⟨.gUsable k h c, prog, held⟩ p = some s') :
    s'.lastUse = s.lastUse ∧ s'.retKey = s.retKey ∧ s'.retAt = s.retAt ∧ s'.now = s.now := by
  simp only [stepTask] at hstep
  split at hstep
  · simp only [Option.some.injEq] at hstep; subst hstep; exact ⟨rfl, rfl, rfl, rfl⟩
  · split at hstep
    · simp only [Option.some.injEq] at hstep; subst hstep; exact ⟨rfl, rfl, rfl, rfl⟩
    · simp only [Option.some.injEq] at hstep; subst hstep; exact ⟨rfl, rfl, rfl, rfl⟩

/-- More generally no code of the pool (`Get`, `Return`, `CleanUp`, `Close`, the spawned `Close()` calls) ever writes
the idle stamp of an existing connection: only a worker's `use` (a step from `idle`) does. -/
theorem C19_pool_never_restamps (s s' : St) (i p : Nat) (t : Task) (hpc : t.pc ≠ .idle)
    (hstep : stepTask s i t p = some s') (c : Nat) (hc : c < s.fresh) : s'.lastUse c = s.lastUse c := by
  have hne : ¬ c = s.fresh := by omega
  obtain ⟨pc, prog, held⟩ := t
  cases pc
  case idle => exact absurd rfl hpc
  all_goals (
    simp only [stepTask] at hstep
    repeat' split at hstep
    all_goals (try (simp only [Option.some.injEq, reduceCtorEq] at hstep))
    all_goals (try subst hstep)
    all_goals (try (obtain ⟨ch, rest, hch, hbuf, rfl⟩ := recv_conn ‹recv _ _ = _›))
    all_goals (try (obtain ⟨ch, hch, hopen, rfl⟩ := closeChan_some ‹closeChan _ _ = _›))
    all_goals (first | rfl | (simp only [miss, setTask, hne, ↓reduceIte]) | simp at hstep))

/-! ## returned connections are reissued or closed exactly once -/

/-- Nothing is dropped by a live pool: `Return` lets a connection go unclosed only after shutdown. -/
theorem C19_no_drop_while_live (cfg : Cfg) (progs : List (List Op)) (ws : List Who)
    (hk : (run (init cfg progs) ws).keysNil = false) : (run (init cfg progs) ws).leaked = [] :=
  (reach_inv cfg progs ws).cinv.noLeak hk

/-- An idle connection is always reachable by the pool: it sits in a bucket of the map, or in the bucket the
lock holder has taken out of the map and is draining — never in an orphaned bucket. -/
theorem C19_idle_is_reachable (cfg : Cfg) (progs : List (List Op)) (ws : List Who) (x : Nat) (ch : Chan)
    (hx : (run (init cfg progs) ws).chans[x]? = some ch) (hne : ch.buf ≠ []) :
    x ∈ (run (init cfg progs) ws).keys ∨ pend (run (init cfg progs) ws) = some x :=
  (reach_inv cfg progs ws).cinv.ne x ch hx hne

def heldCnt (tasks : List Task) (c : Nat) : Nat := (tasks.map (fun t => (t.held.map (·.1)).count c)).sum

theorem taskCnt_done (tasks : List Task) (c : Nat) (hd : ∀ t ∈ tasks, t.pc = .done) :
    taskCnt tasks c = heldCnt tasks c := by
  induction tasks with
  | nil => rfl
  | cons a l ih =>
    have ha := hd a (by simp)
    have := ih (fun t ht => hd t (by simp [ht]))
    simp only [taskCnt, heldCnt, List.map_cons, List.sum_cons] at this ⊢
    rw [this]
    simp [Task.conns, ha, Pc.conns]

theorem chanCnt_zero (chans : List Chan) (c : Nat) (h : ∀ (x : Nat) (ch : Chan), chans[x]? = some ch → ch.buf = []) :
    chanCnt chans c = 0 := by
  induction chans with
  | nil => rfl
  | cons a l ih =>
    have ha := h 0 a (by simp)
    have := ih (fun x ch hx => h (x + 1) ch (by simpa using hx))
    simp only [chanCnt, List.map_cons, List.sum_cons] at this ⊢
    rw [this, ha]; simp

/-- **Returned connections are reissued or closed exactly once** (safety form).  When everything has come to
rest after shutdown (all goroutines finished, `pool.Close()` done), no connection is idle anywhere, and every
connection ever created is accounted for exactly once: held by one worker (it was handed out and not returned),
or closed exactly once, or it was handed to `Return` after the shutdown (the only case in which the pool drops a
connection, `C19_no_drop_while_live`).  Together with `C19_no_deadlock_single_shutdown` (that state is reached)
this is "every connection returned to a live pool is eventually handed out again or closed exactly once". -/
theorem C19_returned_is_reissued_or_closed_once (cfg : Cfg) (progs : List (List Op)) (ws : List Who)
    (hdone : ∀ t ∈ (run (init cfg progs) ws).tasks, t.pc = .done)
    (hk : (run (init cfg progs) ws).keysNil = true) (c : Nat) (hc : c < (run (init cfg progs) ws).fresh) :
    chanCnt (run (init cfg progs) ws).chans c = 0 ∧
    heldCnt (run (init cfg progs) ws).tasks c + (run (init cfg progs) ws).closed.count c +
      (run (init cfg progs) ws).leaked.count c = 1 := by
  have hinv := reach_inv cfg progs ws
  have h0 := chanCnt_zero _ c (fun x ch hx => empty_after_shutdown hinv.cinv hk hx)
  have h1 := (hinv.one c).1 hc
  unfold cnt at h1
  rw [taskCnt_done _ c hdone, h0] at h1
  exact ⟨h0, by omega⟩

/-! ## no crash, no deadlock -/

/-- **No panic.**  No goroutine ever dies in a Go panic: no `close` of a closed channel, no send on a closed
channel, no use of a bucket that does not exist. -/
theorem C19_no_panic (cfg : Cfg) (progs : List (List Op)) (ws : List Who) (i : Nat) (t : Task)
    (hi : (run (init cfg progs) ws).tasks[i]? = some t) (cs : List Nat) : t.pc ≠ .panicked cs :=
  ((reach_inv cfg progs ws).sinv.tasks i t hi).2.1 cs

/-- The lock is held by exactly the goroutine that is inside a critical section (mutual exclusion). -/
theorem C19_mutual_exclusion (cfg : Cfg) (progs : List (List Op)) (ws : List Who) (i j : Nat) (ti tj : Task)
    (hi : (run (init cfg progs) ws).tasks[i]? = some ti) (hj : (run (init cfg progs) ws).tasks[j]? = some tj)
    (hli : ti.pc.locked = true) (hlj : tj.pc.locked = true) : i = j := by
  have h1 := ((reach_inv cfg progs ws).sinv.tasks i ti hi).1 hli
  have h2 := ((reach_inv cfg progs ws).sinv.tasks j tj hj).1 hlj
  rw [h1] at h2; simpa using h2

theorem sd_pos_of_sStop (tasks : List Task) (i : Nat) (t : Task) (h : tasks[i]? = some t) (hp : t.pc = .sStop) :
    1 ≤ sdSum tasks := by
  rw [sdSum_split tasks i t h]
  simp only [sd, hp, ↓reduceIte]
  omega

/-- a goroutine inside the critical section can always take its next step -/
theorem holder_enabled {s : St} (hs : SInv s) {i : Nat} {t : Task} (ht : s.tasks[i]? = some t)
    (hl : t.pc.locked = true) (p : Nat) : stepTask s i t p ≠ none := by
  have hpc := (hs.tasks i t ht).2.2
  obtain ⟨pc, prog, held⟩ := t
  cases pc <;> simp [Pc.locked] at hl <;> simp only [PcOK] at hpc <;> simp only [stepTask]
  case gDropClose k h => split <;> simp
  case gDrain k h =>
    have := recv_closed_not_block hpc
    split <;> (try split) <;> simp_all
  case rIter => split <;> (try split) <;> (try split) <;> simp
  case rClose => split <;> simp
  case rDrain =>
    have := recv_closed_not_block hpc.1
    split <;> (try split) <;> simp_all
  case rDrainClose => simp
  case rSel => split <;> (try split) <;> (try split) <;> simp
  case cIter => split <;> (try split) <;> (try split) <;> simp
  case cClose => split <;> simp
  case cDrain =>
    have := recv_closed_not_block hpc.1
    split <;> (try split) <;> simp_all
  case sIter => simp
  case sClose => split <;> simp
  case sDrain =>
    have := recv_closed_not_block hpc.1
    split <;> (try split) <;> simp_all
  case sDrainClose => simp

/-- a goroutine outside the critical section that has not finished can take a step when the lock is free and
the ticker is there for anybody waiting to stop it -/
theorem free_enabled {s : St} (hs : SInv s) {i : Nat} {t : Task} (ht : s.tasks[i]? = some t)
    (hl : t.pc.locked = false) (hnd : t.pc ≠ .done) (hlock : s.lock = none)
    (htk : t.pc = .sStop → s.ticker = true ∧ s.tkTask = none) (p : Nat) : stepTask s i t p ≠ none := by
  have hnp := (hs.tasks i t ht).2.1
  obtain ⟨pc, prog, held⟩ := t
  cases pc <;> simp [Pc.locked] at hl <;> simp only [stepTask, hlock]
  case done => simp at hnd
  case panicked cs => exact absurd rfl (hnp cs)
  case idle => split <;> (try split) <;> (try split) <;> (try split) <;> (try split) <;> simp
  case wClose => simp
  case kClose => simp
  case gLock => simp; split <;> (try split) <;> (try split) <;> simp
  case gSel => split <;> (try split) <;> simp
  case gUsable => split <;> (try split) <;> simp
  case rLock => simp; split <;> (try split) <;> (try split) <;> (try split) <;> simp
  case cLock => simp; split <;> simp
  case sStop => simp [(htk rfl).1, (htk rfl).2]
  case sLock => simp; split <;> simp

/-- **No deadlock with a single shutdown.**  If the programs call `pool.Close()` at most once in total, then in
every reachable state in which some goroutine has not finished, some goroutine can take a step: nobody waits
for ever for the lock, for a bucket to drain, or for the ticker to take the stop signal. -/
theorem C19_no_deadlock_single_shutdown (cfg : Cfg) (progs : List (List Op)) (ws : List Who)
    (h1 : shutdowns progs ≤ 1)
    (hlive : ∃ (i : Nat) (t : Task), (run (init cfg progs) ws).tasks[i]? = some t ∧ t.pc ≠ .done) :
    ∃ i p, step (run (init cfg progs) ws) (.task i p) ≠ none := by
  have hinv := reach_inv cfg progs ws
  have hsh := shut_run ws (shut_init cfg progs h1)
  have htki := tk_run ws (tk_init cfg progs)
  generalize run (init cfg progs) ws = s at *
  cases hlock : s.lock with
  | some j =>
    obtain ⟨tj, htj, hlj⟩ := hinv.sinv.holder j hlock
    refine ⟨j, 0, ?_⟩
    simp only [step, htj]
    exact holder_enabled hinv.sinv htj hlj 0
  | none =>
    have hul : ∀ (i : Nat) (t : Task), s.tasks[i]? = some t → t.pc.locked = false := by
      intro i t hi
      cases hb : t.pc.locked with
      | false => rfl
      | true => have := (hinv.sinv.tasks i t hi).1 hb; rw [hlock] at this; simp at this
    cases htk0 : s.tkTask with
    | some j =>
      -- the ticker goroutine is inside `CleanUp` (or on its way back): the lock is free, it can move
      obtain ⟨tj, htj, hsw⟩ := htki j htk0
      refine ⟨j, 0, ?_⟩
      simp only [step, htj]
      refine free_enabled hinv.sinv htj (hul j tj htj) ?_ hlock ?_ 0
      · intro h; rw [h] at hsw; simp [sweeping] at hsw
      · intro h; rw [h] at hsw; simp [sweeping] at hsw
    | none =>
      obtain ⟨i, t, hi, hnd⟩ := hlive
      refine ⟨i, 0, ?_⟩
      simp only [step, hi]
      refine free_enabled hinv.sinv hi (hul i t hi) hnd hlock ?_ 0
      intro hp
      refine ⟨?_, htk0⟩
      cases htk : s.ticker with
      | true => rfl
      | false =>
        have := hsh.2 htk
        have := sd_pos_of_sStop s.tasks i t hi hp
        omega

/-- **`Close` sends the stop signal before it takes the lock.**  In every reachable state a goroutine that is parked
at the send on `cleanupStop` (waiting for the ticker goroutine to be in its `select`) does not hold `keysLock`, and
nobody inside a critical section of the lock is waiting for anything but a step of its own.  This is the ordering
`C19_no_deadlock_single_shutdown` rests on: a ticker goroutine whose ticker fired and which waits for the lock inside
`CleanUp` is never waited for by the holder of that lock. -/
theorem C19_stop_sent_outside_lock (cfg : Cfg) (progs : List (List Op)) (ws : List Who) (i : Nat) (t : Task)
    (hi : (run (init cfg progs) ws).tasks[i]? = some t) (hp : t.pc = .sStop) :
    (run (init cfg progs) ws).lock ≠ some i := by
  intro hl
  obtain ⟨tj, htj, hlj⟩ := (reach_inv cfg progs ws).sinv.holder i hl
  rw [hi] at htj
  simp only [Option.some.injEq] at htj
  subst htj
  rw [hp] at hlj
  simp [Pc.locked] at hlj

/-- **The ticker goroutine away from its `select` is inside `CleanUp`.**  Whenever the ticker of `cleanUpTick` has
fired and the goroutine has not yet come back to the `select` (`tkTask = some j`; the stop signal cannot be delivered),
goroutine `j` exists and is at one of the points of `CleanUp` or on its way back — in particular it never waits for
anybody but the holder of `keysLock`. -/
theorem C19_ticker_away_is_sweeping (cfg : Cfg) (progs : List (List Op)) (ws : List Who) (j : Nat)
    (hj : (run (init cfg progs) ws).tkTask = some j) :
    ∃ t, (run (init cfg progs) ws).tasks[j]? = some t ∧ sweeping t.pc = true :=
  tk_run ws (tk_init cfg progs) j hj

/-! ## cancellation: a `Get` whose context is cancelled or times out

The context of a worker can be cancelled by the schedule at any point (`Who.cancel i`: before `Get` starts, between
any two of its synchronisation points, while it is inside `Usable()`).  `Get` itself never looks at the context; it
only passes it to `cfg.New`, which fails on a context that is done.  So a `Get` has three outcomes — a pooled
connection, a new connection, the context's error — and the error can only come from `cfg.New`: a connection that
was already taken out of a bucket is never left behind. -/

/-- **A connection taken out of a bucket is handed out or closed, cancelled or not.**  The step `Get` takes after
`Usable()` answered — whatever the state of the caller's context — either hands the connection to the caller (under
the key of the call) or passes it to a `go conn.Close()` goroutine and goes on to the next one.  There is no third
way out (`return nil, ctx.Err()` with the connection in a local variable). -/
theorem C19_get_hands_out_or_closes (s s' : St) (i p k h c : Nat) (prog : List Op) (held : List (ConnId × Key))
    (ht : s.tasks[i]? = some ⟨.gUsable k h c, prog, held⟩)
    (hstep : stepTask s i ⟨.gUsable k h c, prog, held⟩ p = some s') :
    s'.tasks[i]? = some ⟨.idle, prog, held ++ [(c, k)]⟩ ∨
      (s'.tasks[i]? = some ⟨.gSel k h, prog, held⟩ ∧ s'.tasks[s.tasks.length]? = some ⟨.kClose c, [], []⟩) := by
  have hi := lt_of_getElem? ht
  simp only [stepTask] at hstep
  split at hstep
  · simp only [Option.some.injEq] at hstep; subst hstep
    right
    simp [spawnCloser, setTask, List.getElem?_append_left, hi]
  · split at hstep
    · simp only [Option.some.injEq] at hstep; subst hstep
      right
      simp [spawnCloser, setTask, List.getElem?_append_left, hi]
    · simp only [Option.some.injEq] at hstep; subst hstep
      left
      simp [setTask, hi]

theorem fresh_step {s s' : St} {w : Who} (hstep : step s w = some s') : s.fresh ≤ s'.fresh := by
  cases w with
  | task i p =>
    simp only [step] at hstep
    split at hstep
    · simp at hstep
    · rename_i t ht; exact (cnt_stepTask ht hstep 0).2.1
  | tick d => simp only [step, Option.some.injEq] at hstep; subst hstep; exact Nat.le_refl _
  | brk c =>
    simp only [step] at hstep
    split at hstep
    · simp only [Option.some.injEq] at hstep; subst hstep; exact Nat.le_refl _
    · simp at hstep
  | cancel i => simp only [step, Option.some.injEq] at hstep; subst hstep; exact Nat.le_refl _

theorem fresh_run (s : St) (ws : List Who) : s.fresh ≤ (run s ws).fresh := by
  induction ws generalizing s with
  | nil => exact Nat.le_refl _
  | cons w ws ih =>
    simp only [run, next]
    cases h : step s w with
    | none => simpa using ih s
    | some s' => exact Nat.le_trans (fresh_step h) (by simpa using ih s')

theorem run_append (s : St) (a b : List Who) : run s (a ++ b) = run (run s a) b := by
  induction a generalizing s with
  | nil => rfl
  | cons w a ih => simp only [List.cons_append, run]; exact ih _

/-- **A connection a `Get` took out of a bucket is never lost, whenever the context is cancelled.**  Let a goroutine
be inside `Get` with connection `c` taken out of a bucket (parked in `Usable()`), after any schedule `ws`.  Then after
every continuation `ws'` — which may cancel the context of that goroutine (or of anybody) at any point, move the
clock, break the connection, shut the pool down — `c` is still at exactly one place: held by a worker, idle in a
bucket, carried by a goroutine of the pool that is about to close it, closed once, or (after shutdown only,
`C19_no_drop_while_live`) dropped by `Return`.  In particular it is never at no place at all. -/
theorem C19_cancelled_get_never_loses_conn (cfg : Cfg) (progs : List (List Op)) (ws ws' : List Who)
    (i k h c : Nat) (t : Task) (hi : (run (init cfg progs) ws).tasks[i]? = some t) (hpc : t.pc = .gUsable k h c) :
    cnt (run (init cfg progs) (ws ++ ws')) c = 1 := by
  have h1 := (reach_inv cfg progs ws).one c
  have hfresh : c < (run (init cfg progs) ws).fresh := by
    by_cases hlt : c < (run (init cfg progs) ws).fresh
    · exact hlt
    · exfalso
      have h0 := h1.2 (by omega)
      have hge := taskCnt_ge _ i t c hi
      have : 1 ≤ (Task.conns t).count c := by
        unfold Task.conns
        rw [hpc]
        simp [Pc.conns]
      unfold cnt at h0
      omega
  have hmono := fresh_run (run (init cfg progs) ws) ws'
  rw [← run_append] at hmono
  exact ((reach_inv cfg progs (ws ++ ws')).one c).1 (by omega)

/-- **The cancellation outcome of `Get`.**  A step of `Get` taken under a context that is done never creates a
connection and never changes what the caller holds, unless it is the hand-out of a pooled connection
(`C19_get_hands_out_or_closes`): where the live `Get` would come back with a new connection, the cancelled one comes
back with the context's error and nothing else. -/
theorem C19_cancelled_get_creates_nothing (s s' : St) (i p : Nat) (t : Task) (hc : s.cancelled i = true)
    (hpc : (∃ k, t.pc = .gLock k) ∨ (∃ k h, t.pc = .gDropClose k h) ∨ (∃ k h, t.pc = .gDrain k h) ∨ (∃ k h, t.pc = .gSel k h))
    (ht : s.tasks[i]? = some t) (hstep : stepTask s i t p = some s') :
    s'.fresh = s.fresh ∧ ∃ t', s'.tasks[i]? = some t' ∧ t'.held = t.held := by
  have hi := lt_of_getElem? ht
  have hget : s.tasks[i] = t := by
    have := List.getElem?_eq_getElem hi
    rw [ht] at this
    exact (Option.some.inj this).symm
  obtain ⟨pc, prog, held⟩ := t
  rcases hpc with ⟨k, rfl⟩ | ⟨k, h, rfl⟩ | ⟨k, h, rfl⟩ | ⟨k, h, rfl⟩
  all_goals (
    simp only [stepTask, hc, ↓reduceIte] at hstep
    repeat' split at hstep
    all_goals (try (simp only [Option.some.injEq, reduceCtorEq] at hstep))
    all_goals (try subst hstep)
    all_goals (try (obtain ⟨ch, rest, hch, hbuf, rfl⟩ := recv_conn ‹recv _ _ = _›))
    all_goals (try (obtain ⟨ch, hch, hopen, rfl⟩ := closeChan_some ‹closeChan _ _ = _›))
    all_goals (first
      | (simp at hstep; done)
      | (simp [setTask, spawnCloser, Pool.panic, List.getElem?_append_left, hi, hget]; done)))

/-! ## the hypothesis is necessary; non-vacuity -/

def cfgEx : Cfg := { maxKeys := 2, maxConns := 2, maxLife := 1, staleLife := 9 }

/-- A second `pool.Close()` blocks for ever on `cleanupStop`: the first shutdown has completed, the second
worker is parked at the send, the ticker goroutine is gone, and no step of it is possible for any pick. -/
theorem C19_double_shutdown_blocks :
    let s := run (init cfgEx [[.shutdown], [.shutdown]]) [.task 0 0, .task 0 0, .task 0 0, .task 0 0, .task 1 0]
    s.keysNil = true ∧ s.ticker = false ∧ (s.tasks.map (·.pc)) = [.done, .sStop] ∧
      ∀ p, (step s (.task 1 p)).isNone = true ∧ (step s (.task 0 p)).isNone = true := by
  refine ⟨by decide, by decide, by decide, fun p => ⟨rfl, rfl⟩⟩

/-- Non-vacuity of the ticker part of the deadlock theorem: the ticker of `cleanUpTick` fires (worker 1, `sweep`) while
worker 0 is parked in `Close()` at the send on `cleanupStop`.  As long as the ticker goroutine is inside `CleanUp`
(`tkTask = some 1`) the send cannot complete — and, the lock not being held by `Close`, the sweep runs to its end, the
goroutine returns to its `select`, the stop signal is taken and the shutdown completes: the idle connection is closed
once. -/
example :
    let s1 := run (init cfgEx [[.get 0, .ret, .shutdown], [.sweep]]) (List.replicate 6 (.task 0 0) ++ [.task 1 0])
    let s2 := run s1 [.task 1 0, .task 1 0, .task 1 0]
    let s3 := run s2 (List.replicate 9 (.task 0 0))
    s1.tkTask = some 1 ∧ (step s1 (.task 0 0)).isNone = true ∧ (s1.tasks.map (·.pc)) = [.sStop, .cLock] ∧
      s2.tkTask = none ∧ (step s2 (.task 0 0)).isSome = true ∧
      s3.keysNil = true ∧ s3.ticker = false ∧ s3.closed = [0] ∧ (s3.tasks.map (·.pc)) = [.done, .idle] := by
  decide

/-- The schedule of the defect that was repaired (worker 2 parked between unlock and select, worker 1 drops the
expired bucket, worker 3 shuts the pool down, worker 2 resumes): in the repaired code worker 2 finds the bucket
empty and gets a fresh connection; the bucket's connection was closed exactly once. -/
example :
    let s := run (init cfgEx [[.get 0, .use, .ret, .get 0, .use, .ret], [.get 0], [.get 0], [.shutdown]])
      ([.task 0 0, .task 0 0, .task 0 0, .task 0 0, .task 0 0, .task 0 0, .tick 1,
        .task 0 0, .task 0 0, .task 0 0, .task 0 0, .task 0 0, .task 0 0, .task 0 0, .task 0 0,
        .task 2 0, .task 2 0, .tick 1, .task 1 0, .task 1 0, .task 1 0, .task 1 0, .task 1 0,
        .task 3 0, .task 3 0, .task 3 0, .task 2 0, .task 2 0, .task 4 0])
    s.keysNil = true ∧ s.closed = [0] ∧ s.recvLog.length = 1 ∧ s.handLog.length = 1 ∧ s.fresh = 3 := by
  decide

/-- Non-vacuity of the hand-out theorems: a schedule in which a pooled connection is reused. -/
example :
    let s := run (init cfgEx [[.get 0, .use, .ret, .get 0]])
      [.task 0 0, .task 0 0, .task 0 0, .task 0 0, .task 0 0, .task 0 0, .task 0 0, .task 0 0, .task 0 0, .task 0 0]
    s.handLog.map (·.conn) = [0] ∧ (s.tasks.map (·.held)) = [[(0, 0)]] ∧ s.closed = [] := by
  decide

/-- Non-vacuity of the key / last-`Return` theorems: two keys; the connection returned under key 1 at time 3 (last
used at time 1) is handed out for key 1 at time 4 with the history the theorems speak about. -/
example :
    let s := run (init { maxKeys := 2, maxConns := 2, maxLife := 5, staleLife := 9 }
        [[.get 0, .ret, .get 1, .use, .ret, .get 1]])
      ([.tick 1] ++ List.replicate 8 (.task 0 0) ++ [.tick 2] ++ List.replicate 3 (.task 0 0) ++ [.tick 1] ++
        List.replicate 5 (.task 0 0))
    s.handLog = [{ conn := 1, lastUse := 1, now := 4, broken := false, key := 1, retKey := some 1, retAt := 3 }] ∧
      s.retKey 0 = some 0 ∧ s.retAt 0 = 1 := by
  decide

/-- Non-vacuity of the quiescence theorem: everything done after shutdown, one connection closed by the
shutdown, one held, one dropped by a late `Return`. -/
example :
    let s := run (init cfgEx [[.get 0, .ret, .get 1, .get 1, .shutdown, .ret]])
      (List.replicate 30 (.task 0 0))
    (s.tasks.map (·.pc)) = [.done] ∧ s.keysNil = true ∧ s.closed = [0] ∧ s.leaked = [1] ∧
      (s.tasks.map (·.held)) = [[(2, 1)]] ∧ s.fresh = 3 := by
  decide

/-- Non-vacuity of the cancellation theorems.  Worker 0 leaves connection 0 in the bucket of key 0; the context of
worker 1 is cancelled while its `Get(0)` is parked in `Usable()` with that connection: `Get` still hands it out.
The context of worker 2 is cancelled before its `Get(1)`: no bucket, `cfg.New` fails, the worker holds nothing and no
connection was created.  Nothing is closed, nothing is lost. -/
example :
    let s := run (init cfgEx [[.get 0, .ret], [.get 0], [.get 1]])
      (List.replicate 5 (.task 0 0) ++ [.task 1 0, .task 1 0, .task 1 0, .cancel 1, .task 1 0,
        .cancel 2, .task 2 0, .task 2 0])
    s.cancelled 1 = true ∧ (s.tasks.map (·.held)) = [[], [(0, 0)], []] ∧ (s.tasks.map (·.pc)) = [.idle, .idle, .idle] ∧
      s.fresh = 1 ∧ s.closed = [] ∧ s.handLog.map (·.conn) = [0] := by
  decide

/-- … and the hypotheses of `C19_cancelled_get_never_loses_conn` hold on that schedule just after the `cancel`. -/
example :
    let s := run (init cfgEx [[.get 0, .ret], [.get 0], [.get 1]])
      (List.replicate 5 (.task 0 0) ++ [.task 1 0, .task 1 0, .task 1 0, .cancel 1])
    s.cancelled 1 = true ∧ (s.tasks.map (·.pc)) = [.idle, .gUsable 0 0 0, .idle] := by
  decide

/-- Non-vacuity of `shutdowns progs ≤ 1`. -/
example : shutdowns [[.get 0, .ret], [.cleanup, .shutdown]] ≤ 1 := by decide

end MaddyVerif.C19
