import MaddyVerif.Model.Cfg
import MaddyVerif.Generated.CfgFacts
import MaddyVerif.Expect.CfgFacts
/-!
# C20 — configuration parsing never crashes and parsed trees round-trip

Theorems about `MaddyVerif.Cfg` (the model of lexer + cfgparser), for all inputs.
-/
namespace MaddyVerif.C20
open MaddyVerif.Cfg

/-! ## Outcome predicates -/

/-- `r` is not a panic, and if it is a value the value satisfies `P` -/
def Safe {α} (P : α → Prop) : Res α → Prop
  | .ok a => P a
  | .err _ _ => True
  | .panic => False
  | .fuel => True

theorem bind_eq {α β} (x : Res α) (f : α → Res β) : (x >>= f) = Res.bind x f := rfl
theorem pure_eq {α} (a : α) : (pure a : Res α) = .ok a := rfl

theorem Safe.bind {α β} {P : α → Prop} {Q : β → Prop} {x : Res α} {f : α → Res β}
    (hx : Safe P x) (hf : ∀ a, P a → Safe Q (f a)) : Safe Q (x >>= f) := by
  cases x <;> simp_all [Safe, bind_eq, Res.bind]

theorem Safe.mono {α} {P Q : α → Prop} {x : Res α} (hx : Safe P x) (h : ∀ a, P a → Q a) : Safe Q x := by
  cases x <;> simp_all [Safe]

theorem Safe.ne_panic {α} {P : α → Prop} {x : Res α} (hx : Safe P x) : x ≠ .panic := by
  cases x <;> simp_all [Safe]

theorem Safe.of_ok {α} {P : α → Prop} {x : Res α} {a : α} (hx : Safe P x) (h : x = .ok a) : P a := by
  subst h; exact hx

/-! ## Dispenser -/

theorem tokAt_some (c : Ctx) (i : Int) (h0 : 0 ≤ i) (h1 : i < c.len) : ∃ t, c.tokAt i = some t := by
  unfold Ctx.tokAt Ctx.len at *
  have : ¬ i < 0 := by omega
  simp [this]
  have : i.toNat < c.toks.length := by omega
  exact ⟨c.toks[i.toNat], by simp [this]⟩

/-- what the cursor-moving primitives may do to a context -/
def Step (c c' : Ctx) : Prop :=
  c' = c ∨ (c' = { c with cursor := c.cursor + 1 } ∧ c.cursor + 1 < c.len)

theorem next_spec (c : Ctx) : Step c c.next.2 ∧ (c.next.1 = true → c.next.2 = { c with cursor := c.cursor + 1 } ∧ c.cursor + 1 < c.len)
    ∧ (c.next.1 = false → c.next.2 = c ∧ ¬ c.cursor + 1 < c.len) := by
  unfold Ctx.next Step
  split <;> simp <;> omega


/-- the cursor moved to the next token, nothing else changed -/
def Moved (c c' : Ctx) : Prop := c' = { c with cursor := c.cursor + 1 } ∧ c.cursor + 1 < c.len

/-- outcome of a conditional cursor move -/
def Adv (c : Ctx) (r : Bool × Ctx) : Prop := (r.1 = false ∧ r.2 = c) ∨ (r.1 = true ∧ Moved c r.2)

theorem nextArg_spec (c : Ctx) (h0 : 0 ≤ c.cursor) : Safe (Adv c) c.nextArg := by
  unfold Ctx.nextArg
  have : ¬ c.cursor < 0 := by omega
  simp only [this, if_false]
  split
  · simp [Safe, Adv]
  · split
    · obtain ⟨a, ha⟩ := tokAt_some c c.cursor h0 (by omega)
      obtain ⟨b, hb⟩ := tokAt_some c (c.cursor + 1) (by omega) (by omega)
      rw [ha, hb]; simp only
      split
      · exact Or.inr ⟨rfl, rfl, by omega⟩
      · simp [Safe, Adv]
    · simp [Safe, Adv]

theorem nextLine_spec (c : Ctx) (h0 : 0 ≤ c.cursor) : Safe (Adv c) c.nextLine := by
  unfold Ctx.nextLine
  have : ¬ c.cursor < 0 := by omega
  simp only [this, if_false]
  split
  · simp [Safe, Adv]
  · split
    · obtain ⟨a, ha⟩ := tokAt_some c c.cursor h0 (by omega)
      obtain ⟨b, hb⟩ := tokAt_some c (c.cursor + 1) (by omega) (by omega)
      rw [ha, hb]; simp only
      split
      · exact Or.inr ⟨rfl, rfl, by omega⟩
      · simp [Safe, Adv]
    · simp [Safe, Adv]

theorem next_adv (c : Ctx) : Adv c c.next := by
  unfold Ctx.next Adv Moved
  split
  · right; exact ⟨rfl, rfl, by omega⟩
  · left; exact ⟨rfl, rfl⟩

/-! ## Slices never go out of range under the guards the code uses -/

theorem hasSuffixCh_ne_nil {s : Str} {c : Char} (h : hasSuffixCh s c = true) : s ≠ [] := by
  intro hs; subst hs; simp [hasSuffixCh] at h

theorem isMacroRef_len {s : Str} (h : isMacroRef s = true) : 3 ≤ s.length := by
  unfold isMacroRef at h
  simp only [Bool.and_eq_true] at h
  obtain ⟨h1, h2⟩ := h
  match s, h1, h2 with
  | a :: b :: [], h1, h2 =>
    simp [macroPre, List.isPrefixOf] at h1
    simp [hasSuffixCh] at h2
    obtain ⟨_, hb⟩ := h1
    subst hb; exact absurd h2 (by decide)
  | a :: b :: c :: r, _, _ => simp
  | [], h1, _ => simp [macroPre, List.isPrefixOf] at h1
  | [a], h1, _ => simp [macroPre, List.isPrefixOf] at h1

theorem slice_ok (s : Str) (a b : Nat) (h1 : a ≤ b) (h2 : b ≤ s.length) :
    slice s a b = .ok ((s.take b).drop a) := by
  simp [slice, h1, h2]

theorem isSnippet_safe (name : Str) : Safe (fun _ => True) (isSnippet name) := by
  unfold isSnippet
  split
  · rename_i h
    simp only [Bool.and_eq_true] at h
    have h2 := hasSuffixCh_ne_nil h.2
    have : 2 ≤ name.length := by
      match name, h.1, h.2 with
      | [a], h1, h2 =>
        simp [List.isPrefixOf] at h1
        simp [hasSuffixCh] at h2
        subst h1; exact absurd h2 (by decide)
      | a :: b :: r, _, _ => simp
    rw [slice_ok _ _ _ (by omega) (by omega)]
    simp [Safe, bind_eq, Res.bind, pure_eq]
  · simp [Safe]


/-! ## Well-formed trees -/

mutual
/-- what `Read` promises about a node: not a macro or snippet declaration, a valid directive
name, and the same for all descendants -/
def GoodN (u : Uni) : Node → Prop
  | .mk name _ block ch sn ma _ _ =>
    sn = false ∧ ma = false ∧ validateNodeName u name = none ∧ (block = false → ch = []) ∧ GoodL u ch
def GoodL (u : Uni) : List Node → Prop
  | [] => True
  | n :: ns => GoodN u n ∧ GoodL u ns
end

theorem GoodL_append (u : Uni) (a b : List Node) : GoodL u (a ++ b) ↔ GoodL u a ∧ GoodL u b := by
  induction a with
  | nil => simp [GoodL]
  | cons x xs ih => simp [GoodL, ih, and_assoc]

theorem GoodL_nil (u : Uni) : GoodL u [] := by simp [GoodL]

theorem GoodN_iff (u : Uni) (n : Node) :
    GoodN u n ↔ n.isSnip = false ∧ n.isMacro = false ∧ validateNodeName u n.name = none ∧
      (n.block = false → n.children = []) ∧ GoodL u n.children := by
  cases n; simp [GoodN, Node.isSnip, Node.isMacro, Node.name, Node.children, Node.block]

/-! ## expandMacros -/

theorem expandSingleLoop_safe (m : List (Str × List Str)) (l : Nat) (names : List Str) (arg : Str) :
    Safe (fun _ => True) (expandSingleLoop m l names arg) := by
  induction names generalizing arg with
  | nil => simp [expandSingleLoop, Safe]
  | cons n ns ih =>
    unfold expandSingleLoop
    simp only
    split
    · simp [Safe]
    · split <;> exact ih _

theorem expandArgs_safe (m : List (Str × List Str)) (l : Nat) (args : List Str) :
    Safe (fun _ => True) (expandArgs m l args) := by
  induction args with
  | nil => simp [expandArgs, Safe]
  | cons a as ih =>
    unfold expandArgs
    split
    · apply Safe.bind (P := fun _ => True)
      · split
        · exact expandSingleLoop_safe _ _ _ _
        · simp [Safe]
      · intro _ _
        apply Safe.bind ih
        intro _ _; simp [Safe, pure_eq]
    · rename_i h
      simp only [Bool.not_eq_true, Bool.not_eq_false'] at h
      have hl := isMacroRef_len (by simpa using h)
      rw [slice_ok _ _ _ (by omega) (by omega)]
      simp only [bind_eq, Res.bind]
      apply Safe.bind ih
      intro _ _
      split <;> simp [Safe, pure_eq]

mutual
theorem expandMacros_safe (u : Uni) (m : List (Str × List Str)) (l : Nat) :
    ∀ n : Node, Safe (fun n' => n'.name = n.name ∧ n'.isSnip = n.isSnip ∧ n'.isMacro = n.isMacro ∧
      n'.block = n.block ∧ n'.file = n.file ∧ n'.line = n.line ∧
      (GoodL u n.children → GoodL u n'.children) ∧ (n.children = [] → n'.children = [])) (expandMacros m l n)
  | .mk name args block ch sn ma f ln => by
    unfold expandMacros
    split
    · simp [Safe]
    · apply Safe.bind (expandArgs_safe m l args)
      intro args' _
      apply Safe.bind (expandMacrosList_safe u m l ch)
      intro ch' hch
      simp only [Safe, pure_eq, Node.name, Node.isSnip, Node.isMacro, Node.block, Node.file, Node.line, Node.children, true_and]
      exact hch
theorem expandMacrosList_safe (u : Uni) (m : List (Str × List Str)) (l : Nat) :
    ∀ ns : List Node, Safe (fun ns' => (GoodL u ns → GoodL u ns') ∧ (ns = [] → ns' = [])) (expandMacrosList m l ns)
  | [] => by simp [expandMacrosList, Safe]
  | n :: ns => by
    unfold expandMacrosList
    apply Safe.bind (expandMacros_safe u m l n)
    intro n' hn
    apply Safe.bind (expandMacrosList_safe u m l ns)
    intro ns' hns
    simp only [Safe, pure_eq, GoodL]
    refine ⟨?_, by simp⟩
    intro ⟨h1, h2⟩
    refine ⟨?_, hns.1 h2⟩
    rw [GoodN_iff] at h1 ⊢
    obtain ⟨e1, e2, e3, e4, _, _, e7, e8⟩ := hn
    rw [e1, e2, e3, e4]
    exact ⟨h1.1, h1.2.1, h1.2.2.1, fun hb => e8 (h1.2.2.2.1 hb), e7 h1.2.2.2.2⟩
end

theorem expandMacros_good (u : Uni) (m : List (Str × List Str)) (l : Nat) (n : Node) (h : GoodN u n) :
    Safe (GoodN u) (expandMacros m l n) := by
  apply Safe.mono (expandMacros_safe u m l n)
  intro n' ⟨e1, e2, e3, e4, _, _, e7, e8⟩
  rw [GoodN_iff] at h ⊢
  rw [e1, e2, e3, e4]
  exact ⟨h.1, h.2.1, h.2.2.1, fun hb => e8 (h.2.2.2.1 hb), e7 h.2.2.2.2⟩


/-! ## The block parser: crash-freedom and invariants (mutual induction on the fuel) -/

def SnipsGood (u : Uni) (c : Ctx) : Prop := ∀ p ∈ c.snippets, GoodL u p.2

/-- cursor on a token -/
def Inb (c : Ctx) : Prop := 0 ≤ c.cursor ∧ c.cursor < c.len

/-- how a parsing function may change the context -/
def Rel (u : Uni) (c c' : Ctx) : Prop :=
  c'.toks = c.toks ∧ c'.file = c.file ∧ c.cursor ≤ c'.cursor ∧ c'.cursor < c'.len ∧ SnipsGood u c'

theorem Rel.refl (u : Uni) (c : Ctx) (h : c.cursor < c.len) (hs : SnipsGood u c) : Rel u c c :=
  ⟨rfl, rfl, by omega, h, hs⟩

theorem Rel.trans {u : Uni} {a b c : Ctx} (h1 : Rel u a b) (h2 : Rel u b c) : Rel u a c := by
  obtain ⟨a1, a2, a3, a4, a5⟩ := h1
  obtain ⟨b1, b2, b3, b4, b5⟩ := h2
  exact ⟨by rw [b1, a1], by rw [b2, a2], by omega, b4, b5⟩

/-- result of `readNode`: children are well-formed; the name was validated unless the node is a
macro or snippet declaration -/
def NodeOut (u : Uni) (n : Node) : Prop :=
  GoodL u n.children ∧ (n.block = false → n.children = []) ∧
    (n.isMacro = false → n.isSnip = false → validateNodeName u n.name = none)

theorem Moved.facts {u : Uni} {c c' : Ctx} (h : Moved c c') (h0 : -1 ≤ c.cursor) (hs : SnipsGood u c) :
    Rel u c c' ∧ Inb c' ∧ c'.nesting = c.nesting ∧ c'.macros = c.macros ∧ c'.snippets = c.snippets ∧
      c'.cursor = c.cursor + 1 := by
  obtain ⟨e, hlt⟩ := h
  subst e
  refine ⟨⟨rfl, rfl, ?_, ?_, hs⟩, ⟨?_, ?_⟩, rfl, rfl, rfl, rfl⟩
  · show c.cursor ≤ c.cursor + 1; omega
  · show c.cursor + 1 < c.len; exact hlt
  · show 0 ≤ c.cursor + 1; omega
  · show c.cursor + 1 < c.len; exact hlt

theorem advanceArg_spec (c : Ctx) (b : Bool) (h0 : 0 ≤ c.cursor) : Safe (Adv c) (advanceArg c b) := by
  unfold advanceArg
  apply Safe.bind (nextArg_spec c h0)
  intro r hr
  obtain ⟨r1, r2⟩ := r
  rcases hr with ⟨e1, e2⟩ | ⟨e1, e2⟩
  · simp only at e1 e2; subst e1; subst e2
    simp only [Bool.false_eq_true, if_false]
    split
    · exact nextLine_spec r2 h0
    · exact Or.inl ⟨rfl, rfl⟩
  · simp only at e1 e2; subst e1
    exact Or.inr ⟨rfl, e2⟩

theorem advanceLine_spec (c : Ctx) (b : Bool) (h0 : b = true → 0 ≤ c.cursor) :
    Safe (fun r : Bool × Ctx => (r.1 = true ∧ r.2 = c) ∨ (r.1 = false ∧ Moved c r.2)) (advanceLine c b) := by
  unfold advanceLine
  split
  · rename_i hb
    apply Safe.bind (nextLine_spec c (h0 hb))
    intro r hr
    obtain ⟨r1, r2⟩ := r
    rcases hr with ⟨e1, e2⟩ | ⟨e1, e2⟩
    · simp only at e1 e2; subst e1; subst e2
      simp only [Bool.false_eq_true, if_false]
      rcases next_adv r2 with ⟨f1, f2⟩ | ⟨f1, f2⟩
      · rw [f1, f2]; exact Or.inl ⟨rfl, rfl⟩
      · rw [f1]; simp only [if_true, Ctx.err, Safe]
    · simp only at e1 e2; subst e1
      exact Or.inr ⟨rfl, e2⟩
  · rcases next_adv c with ⟨f1, f2⟩ | ⟨f1, f2⟩
    · rw [f1, f2]; exact Or.inl ⟨rfl, rfl⟩
    · rw [f1]; exact Or.inr ⟨rfl, f2⟩


theorem parseAsMacro_safe (c : Ctx) (name : Str) (args : List Str) :
    Safe (fun _ => True) (parseAsMacro c name args) := by
  unfold parseAsMacro
  split
  · simp [Safe]
  · split
    · simp [Safe, Ctx.err]
    · rename_i h1 h2
      have hl : 3 ≤ name.length := isMacroRef_len (by simp [isMacroRef] at *; exact ⟨h1, h2⟩)
      rw [slice_ok _ _ _ (by omega) (by omega)]
      simp only [bind_eq, Res.bind]
      split
      · simp [Safe, Ctx.err]
      · rename_i h3
        match args, h3 with
        | a0 :: rest, _ => simp only; split <;> simp [Safe, Ctx.err]
        | [], h3 => simp at h3

theorem finishNode_spec (u : Uni) (c : Ctx) (node : Node) :
    Safe (fun r : Node × Ctx => r.2 = c ∧ r.1.children = node.children ∧ r.1.block = node.block ∧
      (r.1.isMacro = false → r.1.isSnip = false → validateNodeName u r.1.name = none))
      (finishNode u c node) := by
  unfold finishNode
  apply Safe.bind (parseAsMacro_safe c node.name node.args)
  intro r _
  split
  · cases node; simp [Safe, Node.setName, Node.setArgs, Node.setMacro, Node.children, Node.isMacro, Node.name, Node.args,
      Node.block, Node.isSnip, Node.file, Node.line]
  · split
    · split
      · simp [Safe]
      · rename_i hv; simp [Safe, hv]
    · rename_i hs
      simp only [Safe, true_and]
      intro _ h2
      simp [h2] at hs

theorem startNode_spec (c : Ctx) :
    Safe (fun n : Node => n.children = [] ∧ n.isMacro = false ∧ n.args = []) (startNode c) := by
  unfold startNode
  apply Safe.bind (isSnippet_safe c.val)
  intro sn _
  split <;> simp [Safe, Node.children, Node.isMacro, Node.args]

theorem closeEdge_spec (node : Node) (c : Ctx) :
    Safe (fun r : Node × Ctx × Bool => r.2.1.toks = c.toks ∧ r.2.1.cursor = c.cursor ∧ r.2.1.file = c.file ∧
      r.2.1.snippets = c.snippets ∧ r.2.1.macros = c.macros ∧ r.1.children = node.children ∧
      r.1.isMacro = node.isMacro ∧ r.1.isSnip = node.isSnip ∧ r.1.name = node.name ∧ r.1.block = node.block) (closeEdge node c) := by
  unfold closeEdge
  split
  · split
    · simp [Safe, Ctx.err]
    · cases node; simp [Safe, Node.setArgs, Node.children, Node.isMacro, Node.isSnip, Node.name, Node.block]
  · simp [Safe]


@[simp] theorem children_setArgs (n : Node) (x : List Str) : (n.setArgs x).children = n.children := by cases n; rfl
@[simp] theorem children_setChildren (n : Node) (b : Bool) (x : List Node) : (n.setChildren b x).children = x := by cases n; rfl
@[simp] theorem args_setArgs (n : Node) (x : List Str) : (n.setArgs x).args = x := by cases n; rfl
@[simp] theorem args_setChildren (n : Node) (b : Bool) (x : List Node) : (n.setChildren b x).args = n.args := by cases n; rfl

theorem SnipsGood_of_eq {u : Uni} {c c' : Ctx} (h : c'.snippets = c.snippets) (hs : SnipsGood u c) : SnipsGood u c' := by
  unfold SnipsGood at *; rw [h]; exact hs

@[simp] theorem block_setArgs (n : Node) (x : List Str) : (n.setArgs x).block = n.block := by cases n; rfl
@[simp] theorem block_setChildren (n : Node) (b : Bool) (x : List Node) : (n.setChildren b x).block = b := by cases n; rfl

/-- `Children == nil` is represented by `block = false` with an empty child list -/
def WFB (n : Node) : Prop := n.block = false → n.children = []

def ArgP (u : Uni) (c : Ctx) (r : Node × Ctx) : Prop := Rel u c r.2 ∧ Inb r.2 ∧ NodeOut u r.1
def NodesP (u : Uni) (c : Ctx) (r : List Node × Ctx) : Prop := Rel u c r.2 ∧ GoodL u r.1

theorem ArgP.trans {u : Uni} {a b : Ctx} {r : Node × Ctx} (h1 : Rel u a b) (h2 : ArgP u b r) : ArgP u a r :=
  ⟨h1.trans h2.1, h2.2.1, h2.2.2⟩
theorem NodesP.trans {u : Uni} {a b : Ctx} {r : List Node × Ctx} (h1 : Rel u a b) (h2 : NodesP u b r) : NodesP u a r :=
  ⟨h1.trans h2.1, h2.2⟩

/-- statement proved by induction on the fuel, for the five mutually recursive functions -/
def ParserInv (u : Uni) (fuel : Nat) : Prop :=
  (∀ c node b, Inb c → SnipsGood u c → GoodL u node.children → WFB node → Safe (ArgP u c) (argLoop u fuel c node b)) ∧
  (∀ c node, Inb c → SnipsGood u c → GoodL u node.children → WFB node → Safe (ArgP u c) (afterArgs u fuel c node)) ∧
  (∀ c res b, -1 ≤ c.cursor → c.cursor < c.len → (b = true → 0 ≤ c.cursor) → SnipsGood u c → GoodL u res →
      Safe (NodesP u c) (nodesLoop u fuel c res b)) ∧
  (∀ c, Inb c → SnipsGood u c → Safe (ArgP u c) (readNode u fuel c)) ∧
  (∀ c, -1 ≤ c.cursor → c.cursor < c.len → SnipsGood u c → Safe (NodesP u c) (readNodes u fuel c))

theorem parser_inv (u : Uni) : ∀ fuel, ParserInv u fuel := by
  intro fuel
  induction fuel with
  | zero =>
    refine ⟨?_, ?_, ?_, ?_, ?_⟩ <;> intros <;> simp [argLoop, afterArgs, nodesLoop, readNode, readNodes, Safe]
  | succ fuel ih =>
    obtain ⟨ihArg, ihAfter, ihLoop, ihNode, ihNodes⟩ := ih
    refine ⟨?_, ?_, ?_, ?_, ?_⟩
    · -- argLoop
      intro c node b hc hs hg hw
      unfold argLoop
      apply Safe.bind (advanceArg_spec c b hc.1)
      intro r hr
      obtain ⟨r1, r2⟩ := r
      rcases hr with ⟨e1, e2⟩ | ⟨e1, e2⟩
      · simp only at e1 e2; subst e1; subst e2
        simp only [Bool.false_eq_true, if_false]
        exact ihAfter r2 node hc hs hg hw
      · simp only at e1 e2; subst e1
        obtain ⟨hrel, hinb, _, _, hsn, _⟩ := e2.facts (u := u) (by have := hc.1; omega) hs
        have hs2 : SnipsGood u r2 := hrel.2.2.2.2
        simp only [if_true]
        split
        · apply Safe.bind (ihNodes r2 (by have := hinb.1; omega) hinb.2 hs2)
          intro rc hrc
          have hinb3 : Inb rc.2 := ⟨by have := hrc.1.2.2.1; have := hinb.1; omega, hrc.1.2.2.2.1⟩
          apply Safe.mono (ihAfter rc.2 (node.setChildren true rc.1) hinb3 hrc.1.2.2.2.2 (by simpa using hrc.2) (by simp [WFB]))
          intro x hx
          exact ArgP.trans (hrel.trans hrc.1) hx
        · apply Safe.mono (ihArg r2 _ false hinb hs2 (by simpa using hg) (by simpa [WFB] using hw))
          intro x hx
          exact ArgP.trans hrel hx
    · -- afterArgs
      intro c node hc hs hg hw
      unfold afterArgs
      split
      · exact ihArg c _ true hc hs (by simpa using hg) (by simpa [WFB] using hw)
      · apply Safe.mono (finishNode_spec u c node)
        intro r ⟨e1, e2, eb, e3⟩
        refine ⟨?_, ?_, ?_, ?_, e3⟩
        · rw [e1]; exact Rel.refl u c hc.2 hs
        · rw [e1]; exact hc
        · rw [e2]; exact hg
        · rw [e2, eb]; exact hw
    · -- nodesLoop
      intro c res b hlo hhi hb hs hg
      unfold nodesLoop
      apply Safe.bind (advanceLine_spec c b hb)
      intro r hr
      obtain ⟨r1, r2⟩ := r
      rcases hr with ⟨e1, e2⟩ | ⟨e1, e2⟩
      · simp only at e1 e2; subst e1; subst e2
        simp only [if_true]
        exact ⟨Rel.refl u r2 hhi hs, hg⟩
      · simp only at e1 e2; subst e1
        obtain ⟨hrel, hinb, _, _, hsn, _⟩ := e2.facts (u := u) hlo hs
        have hs2 : SnipsGood u r2 := hrel.2.2.2.2
        simp only [Bool.false_eq_true, if_false]
        split
        · split
          · simp [Safe, Ctx.err]
          · exact ⟨⟨hrel.1, hrel.2.1, hrel.2.2.1, hrel.2.2.2.1, SnipsGood_of_eq rfl hs2⟩, hg⟩
        · apply Safe.bind (ihNode r2 hinb hs2)
          intro rn hrn
          apply Safe.bind (closeEdge_spec rn.1 rn.2)
          intro e he
          obtain ⟨k1, k2, k3, k4, k5, k6, k7, k8, k9, k10⟩ := he
          obtain ⟨hrel2, hinb2, hout⟩ := hrn
          have hs3 : SnipsGood u e.2.1 := SnipsGood_of_eq k4 hrel2.2.2.2.2
          have hrel3 : Rel u c e.2.1 := by
            have h13 := hrel.trans hrel2
            refine ⟨by rw [k1]; exact h13.1, by rw [k3]; exact h13.2.1, by rw [k2]; exact h13.2.2.1, ?_, hs3⟩
            show e.2.1.cursor < (e.2.1.toks.length : Int)
            rw [k1, k2]; exact h13.2.2.2.1
          have hcur : 0 ≤ e.2.1.cursor := by rw [k2]; exact hinb2.1
          split
          · split
            · simp [Safe, Ctx.err]
            · apply Safe.bind (expandMacros_safe u e.2.1.macros e.2.1.line e.1)
              intro nm _
              apply Safe.mono (ihLoop { e.2.1 with macros := (nm.name, nm.args) :: e.2.1.macros } res true
                (by show -1 ≤ e.2.1.cursor; omega) hrel3.2.2.2.1 (fun _ => hcur)
                (SnipsGood_of_eq rfl hs3) hg)
              intro x hx
              refine NodesP.trans ?_ hx
              exact ⟨hrel3.1, hrel3.2.1, hrel3.2.2.1, hrel3.2.2.2.1, SnipsGood_of_eq rfl hs3⟩
          · split
            · split
              · simp [Safe, Ctx.err]
              · split
                · simp [Safe, Ctx.err]
                · have hs4 : SnipsGood u { e.2.1 with snippets := (e.1.name, e.1.children) :: e.2.1.snippets } := by
                    intro p hp
                    simp only [List.mem_cons] at hp
                    rcases hp with hp | hp
                    · rw [hp]; simp only; rw [k6]; exact hout.1
                    · exact hs3 p hp
                  apply Safe.mono (ihLoop { e.2.1 with snippets := (e.1.name, e.1.children) :: e.2.1.snippets } res true
                    (by show -1 ≤ e.2.1.cursor; omega) hrel3.2.2.2.1 (fun _ => hcur) hs4 hg)
                  intro x hx
                  refine NodesP.trans ?_ hx
                  exact ⟨hrel3.1, hrel3.2.1, hrel3.2.2.1, hrel3.2.2.2.1, hs4⟩
            · rename_i hm hsn
              have hgood : GoodN u e.1 := by
                rw [GoodN_iff]
                refine ⟨by simpa using hsn, by simpa using hm, ?_, by rw [k6, k10]; exact hout.2.1, by rw [k6]; exact hout.1⟩
                rw [k9]
                exact hout.2.2 (by rw [← k7]; simpa using hm) (by rw [← k8]; simpa using hsn)
              apply Safe.bind (expandMacros_good u e.2.1.macros e.2.1.line e.1 hgood)
              intro n' hn'
              have hg' : GoodL u (res ++ [n']) := (GoodL_append u res [n']).2 ⟨hg, hn', trivial⟩
              split
              · exact ⟨hrel3, hg'⟩
              · exact ihLoop _ _ true (by omega) hrel3.2.2.2.1 (fun _ => hcur) hs3 hg' |>.mono (fun x hx => NodesP.trans hrel3 hx |> fun h => by
                  exact ⟨⟨h.1.1, h.1.2.1, h.1.2.2.1, h.1.2.2.2.1, h.1.2.2.2.2⟩, h.2⟩)
    · -- readNode
      intro c hc hs
      unfold readNode
      split
      · simp [Safe]
      · apply Safe.bind (startNode_spec c)
        intro node hn
        exact ihArg c node false hc hs (by rw [hn.1]; exact GoodL_nil u) (fun _ => hn.1)
    · -- readNodes
      intro c hlo hhi hs
      unfold readNodes
      split
      · simp [Safe, Ctx.err]
      · apply Safe.mono (ihLoop { c with nesting := c.nesting + 1 } [] false hlo hhi (by simp) (SnipsGood_of_eq rfl hs) (GoodL_nil u))
        intro x hx
        exact ⟨⟨hx.1.1, hx.1.2.1, hx.1.2.2.1, hx.1.2.2.2.1, hx.1.2.2.2.2⟩, hx.2⟩


/-! ## Import expansion: crash-freedom, well-formedness, no `import` left -/

mutual
/-- no directive named `import` in the tree -/
def NoImpN : Node → Prop
  | .mk name _ _ ch _ _ _ _ => name ≠ importName ∧ NoImpL ch
def NoImpL : List Node → Prop
  | [] => True
  | n :: ns => NoImpN n ∧ NoImpL ns
end

theorem NoImpN_iff (n : Node) : NoImpN n ↔ n.name ≠ importName ∧ NoImpL n.children := by
  cases n; simp [NoImpN, Node.name, Node.children]

def MapsGood (u : Uni) (m : Maps) : Prop := ∀ p ∈ m.snippets, GoodL u p.2

/-- what `expandImports` returns for `node` -/
def ImpOut (u : Uni) (node : Node) (r : Node × Maps) : Prop :=
  r.1.name = node.name ∧ r.1.isSnip = node.isSnip ∧ r.1.isMacro = node.isMacro ∧
  GoodL u r.1.children ∧ NoImpL r.1.children ∧ MapsGood u r.2 ∧ WFB r.1

def PrevOK (u : Uni) (prev : Nat → Maps → Node → Nat → Res (Node × Maps)) : Prop :=
  ∀ l m node d, MapsGood u m → GoodL u node.children → WFB node → Safe (ImpOut u node) (prev l m node d)

theorem lookup_mem {β} (m : List (Str × β)) (k : Str) (v : β) (h : lookup m k = some v) : ∃ p ∈ m, p.2 = v := by
  unfold lookup at h
  split at h
  · rename_i p hp
    simp only [Option.some.injEq] at h
    exact ⟨p, List.mem_of_find?_eq_some hp, h⟩
  · simp at h

theorem readTreeWith_spec (u : Uni) (expand : Nat → Maps → Node → Nat → Res (Node × Maps)) (hexp : PrevOK u expand)
    (src : Str) (file depth cnt : Nat) :
    Safe (fun r : List Node × Maps => GoodL u r.1 ∧ NoImpL r.1 ∧ MapsGood u r.2 ∧ checkNesting r.1 0 = none)
      (readTreeWith u expand src file depth cnt) := by
  unfold readTreeWith
  have hinv := (parser_inv u (parseFuel (lexAll src).length)).2.2.2.2
    { toks := lexAll src, file := file } (by simp) (by simp [Ctx.len]; omega) (by intro p hp; simp at hp)
  apply Safe.bind hinv
  intro r hr
  split
  · simp [Safe, Ctx.err]
  · apply Safe.bind (hexp r.2.line ⟨r.2.snippets, r.2.macros, cnt⟩ (.mk [] [] true r.1 false false file 1) depth
      hr.1.2.2.2.2 (by simpa [Node.children] using hr.2) (by simp [WFB, Node.block]))
    intro e he
    split
    · simp [Safe]
    · rename_i hck
      exact ⟨he.2.2.2.1, he.2.2.2.2.1, he.2.2.2.2.2.1, hck⟩

theorem resolveImport_spec (u : Uni) (fs : Fs) (prev : Nat → Maps → Node → Nat → Res (Node × Maps)) (hprev : PrevOK u prev)
    (m : Maps) (hm : MapsGood u m) (child : Node) (name : Str) (depth : Nat) :
    Safe (fun r : List Node × Maps => GoodL u r.1 ∧ MapsGood u r.2) (resolveImport u fs prev m child name depth) := by
  unfold resolveImport
  split
  · rename_i st hst
    obtain ⟨p, hp, e⟩ := lookup_mem _ _ _ hst
    exact ⟨by rw [← e]; exact hm p hp, hm⟩
  · split
    · simp [Safe]
    · rename_i f _
      apply Safe.bind (readTreeWith_spec u prev hprev f.2 f.1 (depth + 1) m.cnt)
      intro r hr
      refine ⟨hr.1, ?_⟩
      intro p hp
      simp only [List.mem_append] at hp
      rcases hp with hp | hp
      · exact hr.2.2.1 p hp
      · exact hm p hp

theorem NoImpL_nil : NoImpL [] := by simp [NoImpL]

mutual
theorem impNode_spec (u : Uni) (fs : Fs) (prev : Nat → Maps → Node → Nat → Res (Node × Maps)) (hprev : PrevOK u prev)
    (l : Nat) : ∀ (node : Node) (m : Maps) (d : Nat), MapsGood u m → GoodL u node.children → WFB node →
      Safe (ImpOut u node) (impNode u fs prev l m node d)
  | .mk name args block ch sn ma f ln, m, d, hm, hg, hw => by
    unfold impNode
    split
    · rename_i hb
      have hch : ch = [] := hw (by simpa [Node.block] using hb)
      subst hch
      exact ⟨rfl, rfl, rfl, GoodL_nil u, NoImpL_nil, hm, fun _ => rfl⟩
    · apply Safe.bind (impList_spec u fs prev hprev l ch m d hm (by simpa [Node.children] using hg))
      intro r hr
      split
      · apply Safe.mono (hprev l r.2.2 (.mk name args true r.1 sn ma f ln) (d + 1) hr.2.1
          (by simpa [Node.children] using hr.1) (by simp [WFB, Node.block]))
        intro x hx
        exact hx
      · rename_i hc
        exact ⟨rfl, rfl, rfl, hr.1, hr.2.2 (by simpa using hc), hr.2.1, by simp [WFB, Node.block]⟩
theorem impList_spec (u : Uni) (fs : Fs) (prev : Nat → Maps → Node → Nat → Res (Node × Maps)) (hprev : PrevOK u prev)
    (l : Nat) : ∀ (ns : List Node) (m : Maps) (d : Nat), MapsGood u m → GoodL u ns →
      Safe (fun r : List Node × Bool × Maps => GoodL u r.1 ∧ MapsGood u r.2.2 ∧ (r.2.1 = false → NoImpL r.1))
        (impList u fs prev l m ns d)
  | [], m, d, hm, _ => by
    unfold impList
    exact ⟨GoodL_nil u, hm, fun _ => trivial⟩
  | child :: rest, m, d, hm, hg => by
    unfold impList
    simp only [GoodL] at hg
    have hgc := (GoodN_iff u child).1 hg.1
    apply Safe.bind (impNode_spec u fs prev hprev l child m (d + 1) hm hgc.2.2.2.2 hgc.2.2.2.1)
    intro rc hrc
    split
    · split
      · simp [Safe]
      · split
        · simp [Safe]
        · rename_i hlen
          split
          · rename_i hargs
            simp [hargs] at hlen
          · apply Safe.bind (resolveImport_spec u fs prev hprev rc.2 hrc.2.2.2.2.2.1 rc.1 _ d)
            intro rs hrs
            split
            · simp [Safe]
            · apply Safe.bind (impList_spec u fs prev hprev l rest { rs.2 with cnt := rs.2.cnt + 1 + sizeL rs.1 } d hrs.2 hg.2)
              intro rr hrr
              exact ⟨(GoodL_append u _ _).2 ⟨hrs.1, hrr.1⟩, hrr.2.1, fun h => by simp at h⟩
    · rename_i hni
      apply Safe.bind (impList_spec u fs prev hprev l rest rc.2 d hrc.2.2.2.2.2.1 hg.2)
      intro rr hrr
      have hgood : GoodN u rc.1 := by
        rw [GoodN_iff]
        obtain ⟨e1, e2, e3, e4, _, _, e7⟩ := hrc
        rw [e1, e2, e3]
        exact ⟨hgc.1, hgc.2.1, hgc.2.2.1, e7, e4⟩
      have hnoimp : NoImpN rc.1 := by
        rw [NoImpN_iff]
        exact ⟨by simpa using hni, hrc.2.2.2.2.1⟩
      exact ⟨⟨hgood, hrr.1⟩, hrr.2.1, fun h => ⟨hnoimp, hrr.2.2 h⟩⟩
end

theorem expandImports_ok (u : Uni) (fs : Fs) : ∀ gas, PrevOK u (expandImports u fs gas)
  | 0 => by intro l m node d _ _ _; simp [expandImports, Safe]
  | gas + 1 => by
    intro l m node d hm hg hw
    unfold expandImports
    exact impNode_spec u fs _ (expandImports_ok u fs gas) l node m d hm hg hw


/-! ## Termination: the fuel of the block parser is sufficient -/

/-- `r` is not "out of fuel", and if it is a value the value satisfies `P` -/
def Term {α} (P : α → Prop) : Res α → Prop
  | .ok a => P a
  | .err _ _ => True
  | .panic => True
  | .fuel => False

theorem Term.bind {α β} {P : α → Prop} {Q : β → Prop} {x : Res α} {f : α → Res β}
    (hx : Term P x) (hf : ∀ a, P a → Term Q (f a)) : Term Q (x >>= f) := by
  cases x <;> simp_all [Term, bind_eq, Res.bind]

theorem Term.mono {α} {P Q : α → Prop} {x : Res α} (hx : Term P x) (h : ∀ a, P a → Q a) : Term Q x := by
  cases x <;> simp_all [Term]

theorem Term.and_safe {α} {P Q : α → Prop} {x : Res α} (h1 : Term P x) (h2 : Safe Q x) : Term (fun a => P a ∧ Q a) x := by
  cases x <;> simp_all [Term, Safe]

theorem Term.of_safe {α} {Q : α → Prop} {x : Res α} (hne : x ≠ .fuel) (h2 : Safe Q x) : Term Q x := by
  cases x <;> simp_all [Term, Safe]

theorem Term.ne_fuel {α} {P : α → Prop} {x : Res α} (hx : Term P x) : x ≠ .fuel := by
  cases x <;> simp_all [Term]

/-- number of tokens after the cursor -/
def rem (c : Ctx) : Nat := (c.len - 1 - c.cursor).toNat

theorem Rel.rem_le {u : Uni} {c c' : Ctx} (h : Rel u c c') : rem c' ≤ rem c := by
  obtain ⟨h1, _, h3, _, _⟩ := h
  unfold rem Ctx.len
  rw [h1]; omega

theorem Moved.rem_lt {c c' : Ctx} (h : Moved c c') (h0 : -1 ≤ c.cursor) : rem c' + 1 = rem c := by
  obtain ⟨e, hlt⟩ := h
  subst e
  unfold rem Ctx.len at *
  simp only
  omega

def FuelInv (u : Uni) (fuel : Nat) : Prop :=
  (∀ c node b, Inb c → SnipsGood u c → GoodL u node.children → WFB node →
      3 * rem c + 2 * node.args.length + 2 ≤ fuel → argLoop u fuel c node b ≠ .fuel) ∧
  (∀ c node, Inb c → SnipsGood u c → GoodL u node.children → WFB node →
      3 * rem c + 2 * node.args.length + 1 ≤ fuel → afterArgs u fuel c node ≠ .fuel) ∧
  (∀ c res b, -1 ≤ c.cursor → c.cursor < c.len → (b = true → 0 ≤ c.cursor) → SnipsGood u c → GoodL u res →
      3 * rem c + 3 ≤ fuel → nodesLoop u fuel c res b ≠ .fuel) ∧
  (∀ c, Inb c → SnipsGood u c → 3 * rem c + 3 ≤ fuel → readNode u fuel c ≠ .fuel) ∧
  (∀ c, -1 ≤ c.cursor → c.cursor < c.len → SnipsGood u c → 3 * rem c + 4 ≤ fuel → readNodes u fuel c ≠ .fuel)

abbrev T0 {α} : Res α → Prop := Term (fun _ => True)

theorem slice_t0 (s : Str) (a b : Nat) : T0 (slice s a b) := by
  unfold slice; split <;> simp [Term]

theorem nextArg_t0 (c : Ctx) : T0 c.nextArg := by
  unfold Ctx.nextArg
  repeat' split
  all_goals simp [Term]

theorem nextLine_t0 (c : Ctx) : T0 c.nextLine := by
  unfold Ctx.nextLine
  repeat' split
  all_goals simp [Term]

theorem parseAsMacro_t0 (c : Ctx) (name : Str) (args : List Str) : T0 (parseAsMacro c name args) := by
  unfold parseAsMacro
  split
  · simp [Term]
  · split
    · simp [Term, Ctx.err]
    · apply Term.bind (slice_t0 _ _ _)
      intro _ _
      repeat' split
      all_goals simp [Term, Ctx.err]

theorem finishNode_t0 (u : Uni) (c : Ctx) (node : Node) : T0 (finishNode u c node) := by
  unfold finishNode
  apply Term.bind (parseAsMacro_t0 _ _ _)
  intro _ _
  repeat' split
  all_goals simp [Term]

theorem startNode_t0 (c : Ctx) : T0 (startNode c) := by
  unfold startNode isSnippet
  apply Term.bind (P := fun _ => True)
  · split
    · apply Term.bind (slice_t0 _ _ _)
      intro _ _; simp [Term]
    · simp [Term]
  · intro a _; split <;> simp [Term]

theorem closeEdge_t0 (n : Node) (c : Ctx) : T0 (closeEdge n c) := by
  unfold closeEdge Ctx.err
  repeat' split
  all_goals simp [Term]

theorem advanceArg_t0 (c : Ctx) (b : Bool) : T0 (advanceArg c b) := by
  unfold advanceArg
  apply Term.bind (nextArg_t0 c)
  intro r _
  split
  · simp [Term]
  · split
    · exact nextLine_t0 _
    · simp [Term]

theorem advanceLine_t0 (c : Ctx) (b : Bool) : T0 (advanceLine c b) := by
  unfold advanceLine
  split
  · apply Term.bind (nextLine_t0 c)
    intro r _
    repeat' split
    all_goals simp [Term, Ctx.err]
  · simp [Term]

theorem expandSingleLoop_t0 (m : List (Str × List Str)) (l : Nat) (names : List Str) (arg : Str) :
    T0 (expandSingleLoop m l names arg) := by
  induction names generalizing arg with
  | nil => simp [expandSingleLoop, Term]
  | cons n ns ih =>
    unfold expandSingleLoop
    simp only
    split
    · simp [Term]
    · split <;> exact ih _

theorem expandArgs_t0 (m : List (Str × List Str)) (l : Nat) (args : List Str) : T0 (expandArgs m l args) := by
  induction args with
  | nil => simp [expandArgs, Term]
  | cons a as ih =>
    unfold expandArgs
    split
    · apply Term.bind (P := fun _ => True)
      · split
        · exact expandSingleLoop_t0 _ _ _ _
        · simp [Term]
      · intro _ _
        apply Term.bind ih
        intro _ _; simp [Term, pure_eq]
    · apply Term.bind (slice_t0 _ _ _)
      intro _ _
      apply Term.bind ih
      intro _ _
      split <;> simp [Term, pure_eq]

mutual
theorem expandMacros_t0 (m : List (Str × List Str)) (l : Nat) : ∀ n : Node, T0 (expandMacros m l n)
  | .mk name args block ch sn ma f ln => by
    unfold expandMacros
    split
    · simp [Term]
    · apply Term.bind (expandArgs_t0 m l args)
      intro _ _
      apply Term.bind (expandMacrosList_t0 m l ch)
      intro _ _
      simp [Term, pure_eq]
theorem expandMacrosList_t0 (m : List (Str × List Str)) (l : Nat) : ∀ ns : List Node, T0 (expandMacrosList m l ns)
  | [] => by simp [expandMacrosList, Term]
  | n :: ns => by
    unfold expandMacrosList
    apply Term.bind (expandMacros_t0 m l n)
    intro _ _
    apply Term.bind (expandMacrosList_t0 m l ns)
    intro _ _
    simp [Term, pure_eq]
end


theorem Inb.rem_eq {c : Ctx} (h : Inb c) : (rem c : Int) = c.len - 1 - c.cursor := by
  unfold rem; have := h.2; omega

theorem parser_fuel (u : Uni) : ∀ fuel, FuelInv u fuel := by
  intro fuel
  induction fuel with
  | zero =>
    refine ⟨?_, ?_, ?_, ?_, ?_⟩ <;> intros <;> omega
  | succ fuel ih =>
    obtain ⟨ihArg, ihAfter, ihLoop, ihNode, ihNodes⟩ := ih
    obtain ⟨pvArg, pvAfter, pvLoop, pvNode, pvNodes⟩ := parser_inv u fuel
    refine ⟨?_, ?_, ?_, ?_, ?_⟩
    · -- argLoop
      intro c node b hc hs hg hw hf
      unfold argLoop
      apply Term.ne_fuel (P := fun _ => True)
      apply Term.bind (Term.and_safe (advanceArg_t0 c b) (advanceArg_spec c b hc.1))
      intro r ⟨_, hr⟩
      obtain ⟨r1, r2⟩ := r
      rcases hr with ⟨e1, e2⟩ | ⟨e1, e2⟩
      · simp only at e1 e2; subst e1; subst e2
        simp only [Bool.false_eq_true, if_false]
        exact Term.of_safe (ihAfter r2 node hc hs hg hw (by omega)) (pvAfter r2 node hc hs hg hw) |>.mono (fun _ _ => trivial)
      · simp only at e1 e2; subst e1
        obtain ⟨hrel, hinb, _, _, hsn, _⟩ := e2.facts (u := u) (by have := hc.1; omega) hs
        have hs2 : SnipsGood u r2 := hrel.2.2.2.2
        have hrem := e2.rem_lt (by have := hc.1; omega)
        simp only [if_true]
        split
        · have hN := pvNodes r2 (by have := hinb.1; omega) hinb.2 hs2
          apply Term.bind (Term.of_safe (ihNodes r2 (by have := hinb.1; omega) hinb.2 hs2 (by omega)) hN)
          intro rc hrc
          have hinb3 : Inb rc.2 := ⟨by have := hrc.1.2.2.1; have := hinb.1; omega, hrc.1.2.2.2.1⟩
          have hr3 := hrc.1.rem_le
          have hg3 : GoodL u (node.setChildren true rc.1).children := by simpa using hrc.2
          have hw3 : WFB (node.setChildren true rc.1) := by simp [WFB]
          exact Term.of_safe (ihAfter rc.2 _ hinb3 hrc.1.2.2.2.2 hg3 hw3 (by simp; omega))
            (pvAfter rc.2 _ hinb3 hrc.1.2.2.2.2 hg3 hw3) |>.mono (fun _ _ => trivial)
        · have hg3 : GoodL u (node.setArgs (node.args ++ [r2.val])).children := by simpa using hg
          have hw3 : WFB (node.setArgs (node.args ++ [r2.val])) := by simpa [WFB] using hw
          exact Term.of_safe (ihArg r2 _ false hinb hs2 hg3 hw3 (by simp; omega))
            (pvArg r2 _ false hinb hs2 hg3 hw3) |>.mono (fun _ _ => trivial)
    · -- afterArgs
      intro c node hc hs hg hw hf
      unfold afterArgs
      split
      · rename_i hl
        have hne : node.args ≠ [] := by intro h; simp [h] at hl
        have hlen : node.args.dropLast.length + 1 = node.args.length := by
          rw [List.length_dropLast]; have := List.length_pos_iff.mpr hne; omega
        exact ihArg c _ true hc hs (by simpa using hg) (by simpa [WFB] using hw) (by simp; omega)
      · exact Term.ne_fuel (finishNode_t0 u c node)
    · -- nodesLoop
      intro c res b hlo hhi hb hs hg hf
      unfold nodesLoop
      apply Term.ne_fuel (P := fun _ => True)
      apply Term.bind (Term.and_safe (advanceLine_t0 c b) (advanceLine_spec c b hb))
      intro r ⟨_, hr⟩
      obtain ⟨r1, r2⟩ := r
      rcases hr with ⟨e1, e2⟩ | ⟨e1, e2⟩
      · simp only at e1 e2; subst e1; subst e2
        simp [Term]
      · simp only at e1 e2; subst e1
        obtain ⟨hrel, hinb, _, _, hsn, _⟩ := e2.facts (u := u) hlo hs
        have hs2 : SnipsGood u r2 := hrel.2.2.2.2
        have hrem := e2.rem_lt hlo
        simp only [Bool.false_eq_true, if_false]
        split
        · split <;> simp [Term, Ctx.err]
        · apply Term.bind (Term.of_safe (ihNode r2 hinb hs2 (by omega)) (pvNode r2 hinb hs2))
          intro rn hrn
          apply Term.bind (Term.and_safe (closeEdge_t0 rn.1 rn.2) (closeEdge_spec rn.1 rn.2))
          intro e ⟨_, he⟩
          obtain ⟨k1, k2, k3, k4, k5, k6, k7, k8, k9, k10⟩ := he
          obtain ⟨hrel2, hinb2, hout⟩ := hrn
          have hs3 : SnipsGood u e.2.1 := SnipsGood_of_eq k4 hrel2.2.2.2.2
          have hlen3 : e.2.1.cursor < e.2.1.len := by
            show e.2.1.cursor < (e.2.1.toks.length : Int)
            rw [k1, k2]; exact hrel2.2.2.2.1
          have hcur : 0 ≤ e.2.1.cursor := by rw [k2]; exact hinb2.1
          have hrem3 : rem e.2.1 ≤ rem r2 := by
            have := hrel2.rem_le
            have e1 : rem e.2.1 = rem rn.2 := by unfold rem Ctx.len; rw [k1, k2]
            omega
          split
          · split
            · simp [Term, Ctx.err]
            · apply Term.bind (expandMacros_t0 e.2.1.macros e.2.1.line e.1)
              intro nm _
              have := ihLoop { e.2.1 with macros := (nm.name, nm.args) :: e.2.1.macros } res true
                (by show -1 ≤ e.2.1.cursor; omega) hlen3 (fun _ => hcur) (SnipsGood_of_eq rfl hs3) hg
                (by show 3 * rem e.2.1 + 3 ≤ fuel; omega)
              revert this
              generalize nodesLoop u fuel _ res true = x
              cases x <;> simp [Term]
          · split
            · split
              · simp [Term, Ctx.err]
              · split
                · simp [Term, Ctx.err]
                · have hs4 : SnipsGood u { e.2.1 with snippets := (e.1.name, e.1.children) :: e.2.1.snippets } := by
                    intro p hp
                    simp only [List.mem_cons] at hp
                    rcases hp with hp | hp
                    · rw [hp]; simp only; rw [k6]; exact hout.1
                    · exact hs3 p hp
                  have := ihLoop { e.2.1 with snippets := (e.1.name, e.1.children) :: e.2.1.snippets } res true
                    (by show -1 ≤ e.2.1.cursor; omega) hlen3 (fun _ => hcur) hs4 hg
                    (by show 3 * rem e.2.1 + 3 ≤ fuel; omega)
                  revert this
                  generalize nodesLoop u fuel _ res true = x
                  cases x <;> simp [Term]
            · rename_i hm hsn
              have hgood : GoodN u e.1 := by
                rw [GoodN_iff]
                refine ⟨by simpa using hsn, by simpa using hm, ?_, by rw [k6, k10]; exact hout.2.1, by rw [k6]; exact hout.1⟩
                rw [k9]
                exact hout.2.2 (by rw [← k7]; simpa using hm) (by rw [← k8]; simpa using hsn)
              apply Term.bind (Term.of_safe (Term.ne_fuel (expandMacros_t0 e.2.1.macros e.2.1.line e.1))
                (expandMacros_good u e.2.1.macros e.2.1.line e.1 hgood))
              intro n' hn'
              have hg' : GoodL u (res ++ [n']) := (GoodL_append u res [n']).2 ⟨hg, hn', trivial⟩
              split
              · simp [Term]
              · have := ihLoop e.2.1 (res ++ [n']) true (by omega) hlen3 (fun _ => hcur) hs3 hg' (by omega)
                revert this
                generalize nodesLoop u fuel _ _ true = x
                cases x <;> simp [Term]
    · -- readNode
      intro c hc hs hf
      unfold readNode
      split
      · simp
      · apply Term.ne_fuel (P := fun _ => True)
        apply Term.bind (Term.and_safe (startNode_t0 c) (startNode_spec c))
        intro node ⟨_, hn⟩
        have := ihArg c node false hc hs (by rw [hn.1]; exact GoodL_nil u) (fun _ => hn.1) (by rw [hn.2.2]; simp; omega)
        revert this
        generalize argLoop u fuel c node false = x
        cases x <;> simp [Term]
    · -- readNodes
      intro c hlo hhi hs hf
      unfold readNodes
      split
      · simp [Ctx.err]
      · exact ihLoop { c with nesting := c.nesting + 1 } [] false hlo hhi (by simp) (SnipsGood_of_eq rfl hs) (GoodL_nil u)
          (by show 3 * rem c + 3 ≤ fuel; omega)


/-! ## Termination: the gas of import expansion is sufficient -/

/-- `prev` does not run out of gas at the depths where `expandImports` can still call it -/
def PrevT (u : Uni) (prev : Nat → Maps → Node → Nat → Res (Node × Maps)) (d : Nat) : Prop :=
  ∀ l m node d', d < d' → d' ≤ 256 → MapsGood u m → GoodL u node.children → WFB node → prev l m node d' ≠ .fuel

theorem PrevT.weaken {u : Uni} {prev : Nat → Maps → Node → Nat → Res (Node × Maps)} {d d2 : Nat}
    (h : PrevT u prev d) (hd : d ≤ d2) : PrevT u prev d2 :=
  fun l m node d' h1 h2 => h l m node d' (by omega) h2

theorem rem_init (toks : List Token) (file : Nat) : rem { toks := toks, file := file } = toks.length := by
  unfold rem Ctx.len; simp

theorem readTreeWith_term (u : Uni) (expand : Nat → Maps → Node → Nat → Res (Node × Maps)) (hexp : PrevOK u expand)
    (src : Str) (file depth cnt : Nat)
    (ht : ∀ l m node, MapsGood u m → GoodL u node.children → WFB node → expand l m node depth ≠ .fuel) :
    readTreeWith u expand src file depth cnt ≠ .fuel := by
  unfold readTreeWith
  apply Term.ne_fuel (P := fun _ => True)
  have hinv := (parser_inv u (parseFuel (lexAll src).length)).2.2.2.2
    { toks := lexAll src, file := file } (by simp) (by simp [Ctx.len]; omega) (by intro p hp; simp at hp)
  have hfuel := (parser_fuel u (parseFuel (lexAll src).length)).2.2.2.2
    { toks := lexAll src, file := file } (by simp) (by simp [Ctx.len]; omega) (by intro p hp; simp at hp)
    (by rw [rem_init]; unfold parseFuel; omega)
  apply Term.bind (Term.of_safe hfuel hinv)
  intro r hr
  split
  · simp [Term, Ctx.err]
  · have hg : GoodL u (Node.mk [] [] true r.1 false false file 1).children := by simpa [Node.children] using hr.2
    have hw : WFB (Node.mk [] [] true r.1 false false file 1) := by simp [WFB, Node.block]
    apply Term.bind (Term.of_safe (ht r.2.line ⟨r.2.snippets, r.2.macros, cnt⟩ _ hr.1.2.2.2.2 hg hw)
      (hexp r.2.line ⟨r.2.snippets, r.2.macros, cnt⟩ _ depth hr.1.2.2.2.2 hg hw))
    intro e _
    split <;> simp [Term]

theorem resolveImport_term (u : Uni) (fs : Fs) (prev : Nat → Maps → Node → Nat → Res (Node × Maps)) (hprev : PrevOK u prev)
    (m : Maps) (child : Node) (name : Str) (depth : Nat) (hd : depth ≤ 255) (ht : PrevT u prev depth) :
    resolveImport u fs prev m child name depth ≠ .fuel := by
  unfold resolveImport
  split
  · simp
  · split
    · simp
    · rename_i f _
      apply Term.ne_fuel (P := fun _ => True)
      apply Term.bind (P := fun _ => True)
      · have := readTreeWith_term u prev hprev f.2 f.1 (depth + 1) m.cnt
          (fun l m node hm hg hw => ht l m node (depth + 1) (by omega) (by omega) hm hg hw)
        revert this
        generalize readTreeWith u prev f.2 f.1 (depth + 1) m.cnt = x
        cases x <;> simp [Term]
      · intro _ _; simp [Term]

mutual
theorem impNode_term (u : Uni) (fs : Fs) (prev : Nat → Maps → Node → Nat → Res (Node × Maps)) (hprev : PrevOK u prev)
    (l : Nat) : ∀ (node : Node) (m : Maps) (d : Nat), PrevT u prev d → MapsGood u m → GoodL u node.children → WFB node →
      impNode u fs prev l m node d ≠ .fuel
  | .mk name args block ch sn ma f ln, m, d, ht, hm, hg, hw => by
    unfold impNode
    split
    · simp
    · apply Term.ne_fuel (P := fun _ => True)
      have hgl : GoodL u ch := by simpa [Node.children] using hg
      apply Term.bind (Term.and_safe (impList_term u fs prev hprev l ch m d ht hm hgl)
        (impList_spec u fs prev hprev l ch m d hm hgl))
      intro r ⟨hr1, hr2⟩
      split
      · rename_i hc
        have hd : d ≤ 255 := hr1 hc
        have := ht l r.2.2 (.mk name args true r.1 sn ma f ln) (d + 1) (by omega) (by omega) hr2.2.1
          (by simpa [Node.children] using hr2.1) (by simp [WFB, Node.block])
        revert this
        generalize prev l r.2.2 _ (d + 1) = x
        cases x <;> simp [Term]
      · simp [Term]
theorem impList_term (u : Uni) (fs : Fs) (prev : Nat → Maps → Node → Nat → Res (Node × Maps)) (hprev : PrevOK u prev)
    (l : Nat) : ∀ (ns : List Node) (m : Maps) (d : Nat), PrevT u prev d → MapsGood u m → GoodL u ns →
      Term (fun r : List Node × Bool × Maps => r.2.1 = true → d ≤ 255) (impList u fs prev l m ns d)
  | [], m, d, _, _, _ => by
    unfold impList
    simp [Term]
  | child :: rest, m, d, ht, hm, hg => by
    unfold impList
    simp only [GoodL] at hg
    have hgc := (GoodN_iff u child).1 hg.1
    apply Term.bind (Term.of_safe (impNode_term u fs prev hprev l child m (d + 1) (ht.weaken (by omega)) hm hgc.2.2.2.2 hgc.2.2.2.1)
      (impNode_spec u fs prev hprev l child m (d + 1) hm hgc.2.2.2.2 hgc.2.2.2.1))
    intro rc hrc
    split
    · split
      · simp [Term]
      · rename_i hdd
        split
        · simp [Term]
        · split
          · simp [Term]
          · have hd : d ≤ 255 := by omega
            apply Term.bind (Term.of_safe (resolveImport_term u fs prev hprev rc.2 rc.1 _ d hd ht)
              (resolveImport_spec u fs prev hprev rc.2 hrc.2.2.2.2.2.1 rc.1 _ d))
            intro rs hrs
            split
            · simp [Term]
            · apply Term.bind (impList_term u fs prev hprev l rest { rs.2 with cnt := rs.2.cnt + 1 + sizeL rs.1 } d ht hrs.2 hg.2)
              intro rr _
              simp only [Term]
              intro _; exact hd
    · apply Term.bind (impList_term u fs prev hprev l rest rc.2 d ht hrc.2.2.2.2.2.1 hg.2)
      intro rr hrr
      exact hrr
end

theorem expandImports_term (u : Uni) (fs : Fs) : ∀ gas d, 257 ≤ gas + d → 1 ≤ gas →
    ∀ l m node, MapsGood u m → GoodL u node.children → WFB node → expandImports u fs gas l m node d ≠ .fuel
  | 0, _, _, h1 => by omega
  | gas + 1, d, h, _ => by
    intro l m node hm hg hw
    unfold expandImports
    apply impNode_term u fs _ (expandImports_ok u fs gas) l node m d ?_ hm hg hw
    intro l' m' node' d' h1 h2 hm' hg' hw'
    exact expandImports_term u fs gas d' (by omega) (by omega) l' m' node' hm' hg' hw'


/-! ## Environment expansion leaves valid directive names alone -/

theorem replacerGo_noBrace (env : List (Str × Str)) : ∀ s : Str, (∀ c ∈ s, c ≠ '{') → replacerGo (envPairs env) 0 s = s
  | [], _ => by simp [replacerGo]
  | c :: cs, h => by
    have hc : c ≠ '{' := h c (by simp)
    have hfind : (envPairs env).find? (fun p => p.1.isPrefixOf (c :: cs)) = none := by
      rw [List.find?_eq_none]
      intro p hp
      simp only [envPairs, List.mem_map] at hp
      obtain ⟨kv, _, e⟩ := hp
      rw [← e]
      simp [envPre, List.isPrefixOf]
      intro h1; exact absurd h1.symm hc
    unfold replacerGo
    rw [hfind]
    simp only
    rw [replacerGo_noBrace env cs (fun x hx => h x (by simp [hx]))]

theorem reRemove_noBrace : ∀ s : Str, (∀ c ∈ s, c ≠ '{') → reRemoveAllGo envPre '}' 0 s = s
  | [], _ => by simp [reRemoveAllGo]
  | c :: cs, h => by
    have hc : c ≠ '{' := h c (by simp)
    have hm : reMatch envPre '}' (c :: cs) = none := by
      unfold reMatch
      have : envPre.isPrefixOf (c :: cs) = false := by
        simp [envPre, List.isPrefixOf]
        intro h1; exact absurd h1.symm hc
      simp [this]
    unfold reRemoveAllGo
    rw [hm]
    simp only
    rw [reRemove_noBrace cs (fun x hx => h x (by simp [hx]))]

/-- `unicode.IsLetter('{')` and `unicode.IsDigit('{')` are false -/
def UniBrace (u : Uni) : Prop := u.isLetter '{' = false ∧ u.isDigit '{' = false

theorem validName_noBrace (u : Uni) (hu : UniBrace u) (s : Str) (h : validateNodeName u s = none) :
    ∀ c ∈ s, c ≠ '{' := by
  unfold validateNodeName at h
  match s, h with
  | [], h => simp at h
  | c :: cs, h =>
    simp only at h
    split at h
    · simp at h
    · split at h
      · rename_i hall
        intro x hx hxe
        subst hxe
        have := List.all_eq_true.mp hall _ hx
        simp [hu.1, hu.2, allowedPunct] at this
      · simp at h

theorem expandEnvStr_validName (u : Uni) (hu : UniBrace u) (env : List (Str × Str)) (s : Str)
    (h : validateNodeName u s = none) : expandEnvStr env s = s := by
  have hb := validName_noBrace u hu s h
  unfold expandEnvStr removeUnexpandedEnvvars
  rw [replacerGo_noBrace env s hb, reRemove_noBrace s hb]

mutual
theorem expandEnv_good (u : Uni) (hu : UniBrace u) (env : List (Str × Str)) : ∀ n : Node, GoodN u n →
    GoodN u (expandEnvNode env n) ∧ (NoImpN n → NoImpN (expandEnvNode env n)) ∧
      (∀ k, checkNestingNode k (expandEnvNode env n) = checkNestingNode k n)
  | .mk name args block ch sn ma f l, hg => by
    simp only [GoodN] at hg
    obtain ⟨h1, h2, h3, h4, h5⟩ := hg
    have ih := expandEnvL_good u hu env ch h5
    unfold expandEnvNode
    rw [expandEnvStr_validName u hu env name h3]
    refine ⟨?_, ?_, ?_⟩
    · simp only [GoodN]
      refine ⟨h1, h2, h3, ?_, ih.1⟩
      intro hb; rw [h4 hb]; simp [expandEnvList]
    · simp only [NoImpN]
      intro ⟨a, b⟩; exact ⟨a, ih.2.1 b⟩
    · intro k
      simp only [checkNestingNode]
      rw [ih.2.2]
theorem expandEnvL_good (u : Uni) (hu : UniBrace u) (env : List (Str × Str)) : ∀ ns : List Node, GoodL u ns →
    GoodL u (expandEnvList env ns) ∧ (NoImpL ns → NoImpL (expandEnvList env ns)) ∧
      (∀ k, checkNestingList k (expandEnvList env ns) = checkNestingList k ns)
  | [], _ => by simp [expandEnvList, GoodL]
  | n :: ns, hg => by
    simp only [GoodL] at hg
    have ih1 := expandEnv_good u hu env n hg.1
    have ih2 := expandEnvL_good u hu env ns hg.2
    unfold expandEnvList
    refine ⟨⟨ih1.1, ih2.1⟩, ?_, ?_⟩
    · simp only [NoImpL]
      intro ⟨a, b⟩; exact ⟨ih1.2.1 a, ih2.2.1 b⟩
    · intro k
      simp only [checkNestingList]
      rw [ih1.2.2, ih2.2.2]
end

/-! ## Depth -/

mutual
/-- number of nodes on the longest root-to-leaf path -/
def depthN : Node → Nat
  | .mk _ _ _ ch _ _ _ _ => depthL ch + 1
def depthL : List Node → Nat
  | [] => 0
  | n :: ns => max (depthN n) (depthL ns)
end

mutual
theorem depthN_le (u : Uni) : ∀ (n : Node) (k : Nat), GoodN u n → k ≤ 256 → checkNestingNode k n = none → depthN n + k ≤ 257
  | .mk name args block ch sn ma f l, k, hg, hk, hc => by
    simp only [GoodN] at hg
    simp only [checkNestingNode] at hc
    simp only [depthN]
    split at hc
    · rename_i hb
      have : ch = [] := hg.2.2.2.1 (by simpa using hb)
      subst this
      simp [depthL]; omega
    · split at hc
      · simp at hc
      · have := depthL_le u ch (k + 1) hg.2.2.2.2 (by omega) hc
        omega
theorem depthL_le (u : Uni) : ∀ (ns : List Node) (k : Nat), GoodL u ns → k ≤ 256 → checkNestingList k ns = none → depthL ns + k ≤ 257
  | [], k, _, hk, _ => by simp [depthL]; omega
  | n :: ns, k, hg, hk, hc => by
    simp only [GoodL] at hg
    simp only [checkNestingList] at hc
    split at hc
    · simp at hc
    · rename_i hn
      have h1 := depthN_le u n k hg.1 hk hn
      have h2 := depthL_le u ns k hg.2 hk hc
      simp only [depthL]
      omega
end

/-! ## The reader as a whole -/

theorem MapsGood_nil (u : Uni) (ma : List (Str × List Str)) (k : Nat) : MapsGood u ⟨[], ma, k⟩ := by
  intro p hp; simp at hp

theorem readTree_safe (u : Uni) (fs : Fs) (src : Str) :
    Safe (fun r : List Node × Maps => GoodL u r.1 ∧ NoImpL r.1 ∧ MapsGood u r.2 ∧ checkNesting r.1 0 = none)
      (readTree u fs src) :=
  readTreeWith_spec u _ (expandImports_ok u fs importGas) src 0 0 0

theorem readTree_term (u : Uni) (fs : Fs) (src : Str) : readTree u fs src ≠ .fuel :=
  readTreeWith_term u _ (expandImports_ok u fs importGas) src 0 0 0
    (fun l m node hm hg hw => expandImports_term u fs importGas 0 (by decide) (by decide) l m node hm hg hw)

/-- **Crash-freedom**: for every byte sequence, environment, configuration directory and Unicode
classification, the reader never hits an out-of-range index or slice. -/
theorem C20_no_panic (u : Uni) (fs : Fs) (env : List (Str × Str)) (bs : List Nat) :
    readBytes u fs env bs ≠ .panic := by
  unfold readBytes Cfg.read
  apply Safe.ne_panic (P := fun _ => True)
  apply Safe.bind (readTree_safe u fs (decodeUtf8 bs))
  intro _ _; simp [Safe]

/-- **Termination**: every function of the model is structurally recursive, except the block parser
and import expansion which carry fuel; the fuel supplied by `read` (`parseFuel`, `importGas`) is
never exhausted, for any input. -/
theorem C20_terminates (u : Uni) (fs : Fs) (env : List (Str × Str)) (bs : List Nat) :
    readBytes u fs env bs ≠ .fuel := by
  unfold readBytes Cfg.read
  apply Term.ne_fuel (P := fun _ => True)
  apply Term.bind (P := fun _ => True)
  · have := readTree_term u fs (decodeUtf8 bs)
    revert this
    generalize readTree u fs (decodeUtf8 bs) = x
    cases x <;> simp [Term]
  · intro _ _; simp [Term]

/-- every run ends with a tree or a reported error -/
theorem C20_total (u : Uni) (fs : Fs) (env : List (Str × Str)) (bs : List Nat) :
    (∃ ns, readBytes u fs env bs = .ok ns) ∨ (∃ k l, readBytes u fs env bs = .err k l) := by
  have h1 := C20_no_panic u fs env bs
  have h2 := C20_terminates u fs env bs
  cases h : readBytes u fs env bs with
  | ok ns => exact Or.inl ⟨ns, rfl⟩
  | err k l => exact Or.inr ⟨k, l, rfl⟩
  | panic => exact absurd h h1
  | fuel => exact absurd h h2

/-- **Well-formed output**: a returned tree contains no macro or snippet declaration, no `import`
directive, only valid directive names, and is at most 257 levels deep (the limit `readNodes`
enforces, which the tree must respect to be parsed again). -/
theorem C20_output_wellformed (u : Uni) (hu : UniBrace u) (fs : Fs) (env : List (Str × Str)) (bs : List Nat)
    (ns : List Node) (h : readBytes u fs env bs = .ok ns) :
    GoodL u ns ∧ NoImpL ns ∧ checkNesting ns 0 = none ∧ depthL ns ≤ 257 := by
  unfold readBytes Cfg.read at h
  have hs := readTree_safe u fs (decodeUtf8 bs)
  cases hr : readTree u fs (decodeUtf8 bs) with
  | ok r =>
    rw [hr] at h hs
    simp only [bind_eq, Res.bind, Res.ok.injEq] at h
    subst h
    obtain ⟨g1, g2, _, g4⟩ := hs
    have he := expandEnvL_good u hu env r.1 g1
    have hck : checkNesting (expandEnvList env r.1) 0 = none := by
      unfold checkNesting at *; rw [he.2.2]; exact g4
    refine ⟨he.1, he.2.1 g2, hck, ?_⟩
    have := depthL_le u _ 0 he.1 (by omega) hck
    omega
  | err k l => rw [hr] at h; simp [bind_eq, Res.bind] at h
  | panic => rw [hr] at h; simp [bind_eq, Res.bind] at h
  | fuel => rw [hr] at h; simp [bind_eq, Res.bind] at h


/-! ## Size: import expansion cannot multiply the tree beyond `maxExpandedNodes` (fix 3) -/

theorem Safe.and {α} {P Q : α → Prop} {x : Res α} (h1 : Safe P x) (h2 : Safe Q x) : Safe (fun a => P a ∧ Q a) x := by
  cases x <;> simp_all [Safe]

/-- if `r` is a value, the value satisfies `P` (nothing is said about the other outcomes) -/
def OkP {α} (P : α → Prop) : Res α → Prop
  | .ok a => P a
  | .err _ _ => True
  | .panic => True
  | .fuel => True

theorem OkP.bind {α β} {P : α → Prop} {Q : β → Prop} {x : Res α} {f : α → Res β}
    (hx : OkP P x) (hf : ∀ a, P a → OkP Q (f a)) : OkP Q (x >>= f) := by
  cases x <;> simp_all [OkP, bind_eq, Res.bind]

theorem OkP.mono {α} {P Q : α → Prop} {x : Res α} (hx : OkP P x) (h : ∀ a, P a → Q a) : OkP Q x := by
  cases x <;> simp_all [OkP]

theorem Safe.okp {α} {P : α → Prop} {x : Res α} (hx : Safe P x) : OkP P x := by
  cases x <;> simp_all [OkP, Safe]

theorem OkP.of_ok {α} {P : α → Prop} {x : Res α} {a : α} (hx : OkP P x) (h : x = .ok a) : P a := by
  subst h; exact hx

theorem OkP.triv {α} (x : Res α) : OkP (fun _ => True) x := by
  cases x <;> simp [OkP]

theorem sizeN_eq (n : Node) : sizeN n = 1 + sizeL n.children := by
  cases n; simp [sizeN, Node.children]

theorem sizeL_append : ∀ a b : List Node, sizeL (a ++ b) = sizeL a + sizeL b
  | [], b => by simp [sizeL]
  | x :: xs, b => by
    simp only [List.cons_append, sizeL]
    rw [sizeL_append xs b]; omega

mutual
theorem expandMacros_size (m : List (Str × List Str)) (l : Nat) :
    ∀ n : Node, OkP (fun n' => sizeN n' = sizeN n) (expandMacros m l n)
  | .mk name args block ch sn ma f ln => by
    unfold expandMacros
    split
    · simp [OkP]
    · apply OkP.bind (OkP.triv _)
      intro args' _
      apply OkP.bind (expandMacrosList_size m l ch)
      intro ch' hch
      simp only [OkP, pure_eq, sizeN, hch]
theorem expandMacrosList_size (m : List (Str × List Str)) (l : Nat) :
    ∀ ns : List Node, OkP (fun ns' => sizeL ns' = sizeL ns) (expandMacrosList m l ns)
  | [] => by
    simp [expandMacrosList, OkP]
  | n :: ns => by
    unfold expandMacrosList
    apply OkP.bind (expandMacros_size m l n)
    intro n' hn
    apply OkP.bind (expandMacrosList_size m l ns)
    intro ns' hns
    simp only [OkP, pure_eq, sizeL, hn, hns]
end

theorem Safe.and_okp {α} {P Q : α → Prop} {x : Res α} (h1 : Safe P x) (h2 : OkP Q x) : Safe (fun a => P a ∧ Q a) x := by
  cases x <;> simp_all [Safe, OkP]

/-! ### The block parser produces at most one node per token -/

def SzArg (c : Ctx) (node : Node) (r : Node × Ctx) : Prop :=
  (sizeN r.1 : Int) + c.cursor ≤ sizeN node + r.2.cursor
def SzNodes (c : Ctx) (res : List Node) (r : List Node × Ctx) : Prop :=
  (sizeL r.1 : Int) + c.cursor ≤ sizeL res + r.2.cursor

def ParserSize (u : Uni) (fuel : Nat) : Prop :=
  (∀ c node b, Inb c → SnipsGood u c → GoodL u node.children → WFB node → Safe (SzArg c node) (argLoop u fuel c node b)) ∧
  (∀ c node, Inb c → SnipsGood u c → GoodL u node.children → WFB node → Safe (SzArg c node) (afterArgs u fuel c node)) ∧
  (∀ c res b, -1 ≤ c.cursor → c.cursor < c.len → (b = true → 0 ≤ c.cursor) → SnipsGood u c → GoodL u res →
      Safe (SzNodes c res) (nodesLoop u fuel c res b)) ∧
  (∀ c, Inb c → SnipsGood u c → Safe (fun r : Node × Ctx => (sizeN r.1 : Int) + c.cursor ≤ 1 + r.2.cursor) (readNode u fuel c)) ∧
  (∀ c, -1 ≤ c.cursor → c.cursor < c.len → SnipsGood u c → Safe (SzNodes c []) (readNodes u fuel c))

@[simp] theorem sizeN_setArgs (n : Node) (x : List Str) : sizeN (n.setArgs x) = sizeN n := by cases n; simp [Node.setArgs, sizeN, Node.children]
@[simp] theorem sizeN_setChildren (n : Node) (b : Bool) (x : List Node) : sizeN (n.setChildren b x) = 1 + sizeL x := by
  cases n; simp [Node.setChildren, sizeN]

theorem parser_size (u : Uni) : ∀ fuel, ParserSize u fuel := by
  intro fuel
  induction fuel with
  | zero =>
    refine ⟨?_, ?_, ?_, ?_, ?_⟩ <;> intros <;> simp [argLoop, afterArgs, nodesLoop, readNode, readNodes, Safe]
  | succ fuel ih =>
    obtain ⟨ihArg, ihAfter, ihLoop, ihNode, ihNodes⟩ := ih
    obtain ⟨_, _, _, pvNode, pvNodes⟩ := parser_inv u fuel
    refine ⟨?_, ?_, ?_, ?_, ?_⟩
    · -- argLoop
      intro c node b hc hs hg hw
      unfold argLoop
      apply Safe.bind (advanceArg_spec c b hc.1)
      intro r hr
      obtain ⟨r1, r2⟩ := r
      rcases hr with ⟨e1, e2⟩ | ⟨e1, e2⟩
      · simp only at e1 e2; subst e1; subst e2
        simp only [Bool.false_eq_true, if_false]
        exact ihAfter r2 node hc hs hg hw
      · simp only at e1 e2; subst e1
        obtain ⟨hrel, hinb, _, _, hsn, hcur⟩ := e2.facts (u := u) (by have := hc.1; omega) hs
        have hs2 : SnipsGood u r2 := hrel.2.2.2.2
        simp only [if_true]
        split
        · apply Safe.bind (Safe.and (pvNodes r2 (by have := hinb.1; omega) hinb.2 hs2)
            (ihNodes r2 (by have := hinb.1; omega) hinb.2 hs2))
          intro rc ⟨hrc, hsz⟩
          have hinb3 : Inb rc.2 := ⟨by have := hrc.1.2.2.1; have := hinb.1; omega, hrc.1.2.2.2.1⟩
          apply Safe.mono (ihAfter rc.2 (node.setChildren true rc.1) hinb3 hrc.1.2.2.2.2 (by simpa using hrc.2) (by simp [WFB]))
          intro x hx
          unfold SzArg at hx ⊢
          unfold SzNodes at hsz
          rw [sizeN_setChildren] at hx
          have h1 := sizeN_eq node
          simp only [sizeL] at hsz
          omega
        · apply Safe.mono (ihArg r2 _ false hinb hs2 (by simpa using hg) (by simpa [WFB] using hw))
          intro x hx
          unfold SzArg at hx ⊢
          rw [sizeN_setArgs] at hx
          omega
    · -- afterArgs
      intro c node hc hs hg hw
      unfold afterArgs
      split
      · apply Safe.mono (ihArg c _ true hc hs (by simpa using hg) (by simpa [WFB] using hw))
        intro x hx
        unfold SzArg at hx ⊢
        rw [sizeN_setArgs] at hx
        exact hx
      · apply Safe.mono (finishNode_spec u c node)
        intro r ⟨e1, e2, _, _⟩
        unfold SzArg
        rw [sizeN_eq r.1, sizeN_eq node, e1, e2]
        omega
    · -- nodesLoop
      intro c res b hlo hhi hb hs hg
      unfold nodesLoop
      apply Safe.bind (advanceLine_spec c b hb)
      intro r hr
      obtain ⟨r1, r2⟩ := r
      rcases hr with ⟨e1, e2⟩ | ⟨e1, e2⟩
      · simp only at e1 e2; subst e1; subst e2
        simp only [if_true]
        show (sizeL res : Int) + r2.cursor ≤ sizeL res + r2.cursor
        omega
      · simp only at e1 e2; subst e1
        obtain ⟨hrel, hinb, _, _, hsn, hcur⟩ := e2.facts (u := u) hlo hs
        have hs2 : SnipsGood u r2 := hrel.2.2.2.2
        simp only [Bool.false_eq_true, if_false]
        split
        · split
          · simp [Safe, Ctx.err]
          · show SzNodes c res (res, _)
            unfold SzNodes
            show (sizeL res : Int) + c.cursor ≤ sizeL res + r2.cursor
            omega
        · apply Safe.bind (Safe.and (pvNode r2 hinb hs2) (ihNode r2 hinb hs2))
          intro rn ⟨hrn, hszn⟩
          apply Safe.bind (closeEdge_spec rn.1 rn.2)
          intro e he
          obtain ⟨k1, k2, k3, k4, k5, k6, k7, k8, k9, k10⟩ := he
          obtain ⟨hrel2, hinb2, hout⟩ := hrn
          have hs3 : SnipsGood u e.2.1 := SnipsGood_of_eq k4 hrel2.2.2.2.2
          have hrel3 : Rel u c e.2.1 := by
            have h13 := hrel.trans hrel2
            refine ⟨by rw [k1]; exact h13.1, by rw [k3]; exact h13.2.1, by rw [k2]; exact h13.2.2.1, ?_, hs3⟩
            show e.2.1.cursor < (e.2.1.toks.length : Int)
            rw [k1, k2]; exact h13.2.2.2.1
          have hcur0 : 0 ≤ e.2.1.cursor := by rw [k2]; exact hinb2.1
          have hmono : r2.cursor ≤ rn.2.cursor := hrel2.2.2.1
          have hsze : sizeN e.1 = sizeN rn.1 := by rw [sizeN_eq e.1, sizeN_eq rn.1, k6]
          split
          · split
            · simp [Safe, Ctx.err]
            · apply Safe.bind (expandMacros_safe u e.2.1.macros e.2.1.line e.1)
              intro nm _
              apply Safe.mono (ihLoop { e.2.1 with macros := (nm.name, nm.args) :: e.2.1.macros } res true
                (by show -1 ≤ e.2.1.cursor; omega) hrel3.2.2.2.1 (fun _ => hcur0)
                (SnipsGood_of_eq rfl hs3) hg)
              intro x hx
              unfold SzNodes at hx ⊢
              have : ({ e.2.1 with macros := (nm.name, nm.args) :: e.2.1.macros } : Ctx).cursor = e.2.1.cursor := rfl
              rw [this, k2] at hx
              omega
          · split
            · split
              · simp [Safe, Ctx.err]
              · split
                · simp [Safe, Ctx.err]
                · have hs4 : SnipsGood u { e.2.1 with snippets := (e.1.name, e.1.children) :: e.2.1.snippets } := by
                    intro p hp
                    simp only [List.mem_cons] at hp
                    rcases hp with hp | hp
                    · rw [hp]; simp only; rw [k6]; exact hout.1
                    · exact hs3 p hp
                  apply Safe.mono (ihLoop { e.2.1 with snippets := (e.1.name, e.1.children) :: e.2.1.snippets } res true
                    (by show -1 ≤ e.2.1.cursor; omega) hrel3.2.2.2.1 (fun _ => hcur0) hs4 hg)
                  intro x hx
                  unfold SzNodes at hx ⊢
                  have : ({ e.2.1 with snippets := (e.1.name, e.1.children) :: e.2.1.snippets } : Ctx).cursor = e.2.1.cursor := rfl
                  rw [this, k2] at hx
                  omega
            · rename_i hm hsn'
              have hgood : GoodN u e.1 := by
                rw [GoodN_iff]
                refine ⟨by simpa using hsn', by simpa using hm, ?_, by rw [k6, k10]; exact hout.2.1, by rw [k6]; exact hout.1⟩
                rw [k9]
                exact hout.2.2 (by rw [← k7]; simpa using hm) (by rw [← k8]; simpa using hsn')
              apply Safe.bind (Safe.and_okp (expandMacros_good u e.2.1.macros e.2.1.line e.1 hgood)
                (expandMacros_size e.2.1.macros e.2.1.line e.1))
              intro n' ⟨hn', hsz'⟩
              have hg' : GoodL u (res ++ [n']) := (GoodL_append u res [n']).2 ⟨hg, hn', trivial⟩
              have hszl : sizeL (res ++ [n']) = sizeL res + sizeN n' := by
                rw [sizeL_append]; simp [sizeL]
              split
              · show SzNodes c res (res ++ [n'], e.2.1)
                unfold SzNodes
                rw [hszl, hsz', hsze, k2]
                omega
              · apply Safe.mono (ihLoop e.2.1 (res ++ [n']) true (by omega) hrel3.2.2.2.1 (fun _ => hcur0) hs3 hg')
                intro x hx
                unfold SzNodes at hx ⊢
                rw [hszl, hsz', hsze, k2] at hx
                omega
    · -- readNode
      intro c hc hs
      unfold readNode
      split
      · simp [Safe]
      · apply Safe.bind (startNode_spec c)
        intro node hn
        apply Safe.mono (ihArg c node false hc hs (by rw [hn.1]; exact GoodL_nil u) (fun _ => hn.1))
        intro x hx
        unfold SzArg at hx
        rw [sizeN_eq node, hn.1] at hx
        simp only [sizeL] at hx
        omega
    · -- readNodes
      intro c hlo hhi hs
      unfold readNodes
      split
      · simp [Safe, Ctx.err]
      · apply Safe.mono (ihLoop { c with nesting := c.nesting + 1 } [] false hlo hhi (by simp) (SnipsGood_of_eq rfl hs) (GoodL_nil u))
        intro x hx
        exact hx

/-! ### Import expansion: every node it adds is paid for by the shared counter -/

/-- what `expandImports` does to the size of `node` and to the counter -/
def ImpSz (m : Maps) (node : Node) (r : Node × Maps) : Prop :=
  m.cnt ≤ r.2.cnt ∧ sizeL r.1.children + m.cnt ≤ sizeL node.children + r.2.cnt ∧
    (m.cnt ≤ maxExpandedNodes → r.2.cnt ≤ maxExpandedNodes)

def PrevSz (prev : Nat → Maps → Node → Nat → Res (Node × Maps)) : Prop :=
  ∀ l m node d, OkP (ImpSz m node) (prev l m node d)

theorem readTreeWith_size (u : Uni) (expand : Nat → Maps → Node → Nat → Res (Node × Maps)) (hexp : PrevSz expand)
    (src : Str) (file depth cnt : Nat) :
    OkP (fun r : List Node × Maps => cnt ≤ r.2.cnt ∧ sizeL r.1 + cnt ≤ (lexAll src).length + r.2.cnt ∧
        (cnt ≤ maxExpandedNodes → r.2.cnt ≤ maxExpandedNodes))
      (readTreeWith u expand src file depth cnt) := by
  unfold readTreeWith
  have hinv := (parser_inv u (parseFuel (lexAll src).length)).2.2.2.2
    { toks := lexAll src, file := file } (by simp) (by simp [Ctx.len]; omega) (by intro p hp; simp at hp)
  have hsz := (parser_size u (parseFuel (lexAll src).length)).2.2.2.2
    { toks := lexAll src, file := file } (by simp) (by simp [Ctx.len]; omega) (by intro p hp; simp at hp)
  apply OkP.bind (Safe.and hinv hsz).okp
  intro r ⟨hr, hs⟩
  have hlen : sizeL r.1 ≤ (lexAll src).length := by
    have h1 : r.2.cursor < r.2.len := hr.1.2.2.2.1
    have h2 : r.2.toks = lexAll src := hr.1.1
    unfold SzNodes at hs
    unfold Ctx.len at h1
    rw [h2] at h1
    simp only [sizeL] at hs
    omega
  split
  · simp [OkP, Ctx.err]
  · apply OkP.bind (hexp r.2.line ⟨r.2.snippets, r.2.macros, cnt⟩ (.mk [] [] true r.1 false false file 1) depth)
    intro e he
    obtain ⟨h1, h2, h3⟩ := he
    have e1 : (Node.mk [] [] true r.1 false false file 1).children = r.1 := rfl
    have e2 : (⟨r.2.snippets, r.2.macros, cnt⟩ : Maps).cnt = cnt := rfl
    rw [e1, e2] at h2
    rw [e2] at h1 h3
    split
    · simp [OkP]
    · simp only [OkP]
      exact ⟨h1, by omega, h3⟩

theorem resolveImport_size (u : Uni) (fs : Fs) (prev : Nat → Maps → Node → Nat → Res (Node × Maps)) (hprev : PrevSz prev)
    (m : Maps) (child : Node) (name : Str) (depth : Nat) :
    OkP (fun r : List Node × Maps => m.cnt ≤ r.2.cnt ∧ (m.cnt ≤ maxExpandedNodes → r.2.cnt ≤ maxExpandedNodes))
      (resolveImport u fs prev m child name depth) := by
  unfold resolveImport
  split
  · simp [OkP]
  · split
    · simp [OkP]
    · rename_i f _
      apply OkP.bind (readTreeWith_size u prev hprev f.2 f.1 (depth + 1) m.cnt)
      intro r hr
      simp only [OkP]
      exact ⟨hr.1, hr.2.2⟩

mutual
theorem impNode_size (u : Uni) (fs : Fs) (prev : Nat → Maps → Node → Nat → Res (Node × Maps)) (hprev : PrevSz prev)
    (l : Nat) : ∀ (node : Node) (m : Maps) (d : Nat), OkP (ImpSz m node) (impNode u fs prev l m node d)
  | .mk name args block ch sn ma f ln, m, d => by
    unfold impNode
    split
    · simp only [OkP, ImpSz]
      exact ⟨Nat.le_refl _, Nat.le_refl _, fun h => h⟩
    · apply OkP.bind (impList_size u fs prev hprev l ch m d)
      intro r hr
      split
      · apply OkP.mono (hprev l r.2.2 (.mk name args true r.1 sn ma f ln) (d + 1))
        intro x hx
        unfold ImpSz at hx ⊢
        simp only [Node.children] at hx ⊢
        exact ⟨by omega, by omega, fun h => hx.2.2 (hr.2.2 h)⟩
      · simp only [OkP, ImpSz, Node.children]
        exact hr
theorem impList_size (u : Uni) (fs : Fs) (prev : Nat → Maps → Node → Nat → Res (Node × Maps)) (hprev : PrevSz prev)
    (l : Nat) : ∀ (ns : List Node) (m : Maps) (d : Nat),
      OkP (fun r : List Node × Bool × Maps => m.cnt ≤ r.2.2.cnt ∧ sizeL r.1 + m.cnt ≤ sizeL ns + r.2.2.cnt ∧
        (m.cnt ≤ maxExpandedNodes → r.2.2.cnt ≤ maxExpandedNodes)) (impList u fs prev l m ns d)
  | [], m, d => by
    unfold impList
    simp only [OkP]
    exact ⟨Nat.le_refl _, Nat.le_refl _, fun h => h⟩
  | child :: rest, m, d => by
    unfold impList
    apply OkP.bind (impNode_size u fs prev hprev l child m (d + 1))
    intro rc hrc
    obtain ⟨c1, c2, c3⟩ := hrc
    have hch : sizeN child = 1 + sizeL child.children := sizeN_eq child
    have hrc1 : sizeN rc.1 = 1 + sizeL rc.1.children := sizeN_eq rc.1
    split
    · split
      · simp [OkP]
      · split
        · simp [OkP]
        · split
          · simp [OkP]
          · apply OkP.bind (resolveImport_size u fs prev hprev rc.2 rc.1 _ d)
            intro rs hrs
            split
            · simp [OkP]
            · rename_i hcap
              apply OkP.bind (impList_size u fs prev hprev l rest { rs.2 with cnt := rs.2.cnt + 1 + sizeL rs.1 } d)
              intro rr hrr
              obtain ⟨r1, r2, r3⟩ := hrr
              simp only at r1 r2 r3
              simp only [OkP, sizeL, sizeL_append]
              refine ⟨by omega, by omega, fun _ => r3 (by omega)⟩
    · apply OkP.bind (impList_size u fs prev hprev l rest rc.2 d)
      intro rr hrr
      obtain ⟨r1, r2, r3⟩ := hrr
      simp only [OkP, sizeL]
      exact ⟨by omega, by omega, fun h => r3 (c3 h)⟩
end

theorem expandImports_size (u : Uni) (fs : Fs) : ∀ gas, PrevSz (expandImports u fs gas)
  | 0 => by intro l m node d; simp [expandImports, OkP]
  | gas + 1 => by
    intro l m node d
    unfold expandImports
    exact impNode_size u fs _ (expandImports_size u fs gas) l node m d

/-- **Every intermediate tree of import expansion is bounded**: whatever `expandImports` returns — for
any node, at any pass, at any depth, in any file, with any amount of gas — has at most
`maxExpandedNodes` nodes more than the tree it started from, provided the shared counter was within
the limit on entry (it starts at 0 and this theorem also shows it stays within the limit). -/
theorem C20_import_expansion_bounded (u : Uni) (fs : Fs) (gas l : Nat) (m : Maps) (node : Node) (d : Nat)
    (r : Node × Maps) (h : expandImports u fs gas l m node d = .ok r) (hm : m.cnt ≤ maxExpandedNodes) :
    sizeL r.1.children ≤ sizeL node.children + maxExpandedNodes ∧ r.2.cnt ≤ maxExpandedNodes := by
  obtain ⟨h1, h2, h3⟩ := (expandImports_size u fs gas l m node d).of_ok h
  have := h3 hm
  exact ⟨by omega, this⟩

mutual
theorem expandEnv_size (env : List (Str × Str)) : ∀ n : Node, sizeN (expandEnvNode env n) = sizeN n
  | .mk name args block ch sn ma f l => by
    unfold expandEnvNode
    simp only [sizeN, expandEnvL_size env ch]
theorem expandEnvL_size (env : List (Str × Str)) : ∀ ns : List Node, sizeL (expandEnvList env ns) = sizeL ns
  | [] => by simp [expandEnvList]
  | n :: ns => by
    unfold expandEnvList
    simp only [sizeL, expandEnv_size env n, expandEnvL_size env ns]
end

/-- the lexer produces at most one token per character (plus the one pending at the end) -/
theorem lexGo_length : ∀ (rest : List Char) (line tl : Nat) (val : Str) (c q e : Bool),
    (lexGo line tl val c q e rest).length ≤ rest.length + 1
  | [], line, tl, val, c, q, e => by
    unfold lexGo; split <;> simp
  | ch :: rest, line, tl, val, c, q, e => by
    unfold lexGo
    simp only [List.length_cons]
    repeat' split
    all_goals first
      | exact Nat.le_succ_of_le (lexGo_length rest _ _ _ _ _ _)
      | (simp only [List.length_cons]; exact Nat.succ_le_succ (lexGo_length rest _ _ _ _ _ _))

theorem lexAll_length (s : Str) : (lexAll s).length ≤ s.length + 1 := by
  unfold lexAll
  have h1 := lexGo_length (stripBOM s) 1 0 [] false false false
  have h2 : (stripBOM s).length ≤ s.length := by
    unfold stripBOM
    split
    · simp
    · split <;> simp
  omega

/-- **Bounded output**: a returned tree has at most one node per token of the main file plus
`maxExpandedNodes` nodes added by import expansion — for every input, directory and environment.
(Before fix 3 a 40-byte input produced 2^255 nodes.) -/
theorem C20_tree_size_bounded (u : Uni) (fs : Fs) (env : List (Str × Str)) (bs : List Nat)
    (ns : List Node) (h : readBytes u fs env bs = .ok ns) :
    sizeL ns ≤ (lexAll (decodeUtf8 bs)).length + maxExpandedNodes ∧
    sizeL ns ≤ (decodeUtf8 bs).length + 1 + maxExpandedNodes := by
  unfold readBytes Cfg.read at h
  have hs := readTreeWith_size u _ (expandImports_size u fs importGas) (decodeUtf8 bs) 0 0 0
  have hl := lexAll_length (decodeUtf8 bs)
  cases hr : readTree u fs (decodeUtf8 bs) with
  | ok r =>
    rw [hr] at h
    simp only [bind_eq, Res.bind, Res.ok.injEq] at h
    subst h
    unfold readTree at hr
    obtain ⟨_, g2, g3⟩ := hs.of_ok hr
    have := g3 (Nat.zero_le _)
    rw [expandEnvL_size]
    omega
  | err k l => rw [hr] at h; simp [bind_eq, Res.bind] at h
  | panic => rw [hr] at h; simp [bind_eq, Res.bind] at h
  | fuel => rw [hr] at h; simp [bind_eq, Res.bind] at h


/-! ## Macro references inside a longer argument are expanded (no reference is left in the output) -/

theorem isPrefixOf_macroPre_cons {c : Char} {cs : Str} (h : c ≠ '$') : macroPre.isPrefixOf (c :: cs) = false := by
  simp [macroPre, List.isPrefixOf]
  intro h1; exact absurd h1.symm h

theorem reMatch_noDollar {c : Char} {cs : Str} (h : c ≠ '$') : reMatch macroPre ')' (c :: cs) = none := by
  unfold reMatch
  simp [isPrefixOf_macroPre_cons h]

/-- no `$`, no match -/
theorem reFindAll_noDollar : ∀ s : Str, (∀ c ∈ s, c ≠ '$') → reFindAllGo macroPre ')' 0 s = []
  | [], _ => by simp [reFindAllGo]
  | c :: cs, h => by
    unfold reFindAllGo
    rw [reMatch_noDollar (h c (by simp))]
    exact reFindAll_noDollar cs (fun x hx => h x (by simp [hx]))

theorem reFindAll_skip (pre : Str) (close : Char) : ∀ (xs rest : Str), reFindAllGo pre close xs.length (xs ++ rest) = reFindAllGo pre close 0 rest
  | [], rest => by simp
  | x :: xs, rest => by
    simp only [List.length_cons, List.cons_append]
    conv => lhs; unfold reFindAllGo
    exact reFindAll_skip pre close xs rest

theorem lastIdx_none (c : Char) : ∀ (xs : Str) (i : Nat), (∀ x ∈ xs, x ≠ c) → lastIdxFrom1 c i xs = none
  | [], _, _ => by simp [lastIdxFrom1]
  | x :: xs, i, h => by
    unfold lastIdxFrom1
    rw [lastIdx_none c xs (i + 1) (fun y hy => h y (by simp [hy]))]
    have : (x == c) = false := by simpa using h x (by simp)
    simp [this]

theorem lastIdx_last (c : Char) (b : Str) (hb : ∀ x ∈ b, x ≠ c) : ∀ (a : Str) (i : Nat), 1 ≤ i + a.length →
    lastIdxFrom1 c i (a ++ c :: b) = some (i + a.length)
  | [], i, h => by
    simp only [List.nil_append, List.length_nil, Nat.add_zero] at h ⊢
    unfold lastIdxFrom1
    rw [lastIdx_none c b (i + 1) hb]
    simp [h]
  | x :: a, i, h => by
    simp only [List.cons_append, List.length_cons] at h ⊢
    unfold lastIdxFrom1
    rw [lastIdx_last c b hb a (i + 1) (by omega)]
    simp only
    congr 1; omega

theorem takeWhile_all {p : Char → Bool} : ∀ s : Str, (∀ c ∈ s, p c = true) → s.takeWhile p = s
  | [], _ => rfl
  | c :: cs, h => by
    simp only [List.takeWhile, h c (by simp)]
    rw [takeWhile_all cs (fun x hx => h x (by simp [hx]))]

/-- the reference `$(name)` (any name without `$`: it may contain `)`, `(`, blanks, quotes) followed by text
without `$` and `)`: exactly this reference is matched -/
theorem reMatch_ref (name post : Str) (hn : name ≠ []) (hn1 : ∀ c ∈ name, c ≠ '$')
    (hp : ∀ c ∈ post, c ≠ '$' ∧ c ≠ ')') :
    reMatch macroPre ')' (macroPre ++ name ++ [')'] ++ post) = some (name.length + 3, name) := by
  unfold reMatch
  have hpre : macroPre.isPrefixOf (macroPre ++ name ++ [')'] ++ post) = true := by
    simp [macroPre, List.isPrefixOf]
  rw [hpre]
  simp only [if_true]
  have hdrop : (macroPre ++ name ++ [')'] ++ post).drop macroPre.length = name ++ ')' :: post := by
    simp [macroPre]
  rw [hdrop]
  have htw : (name ++ ')' :: post).takeWhile (· != '$') = name ++ ')' :: post := by
    apply takeWhile_all
    intro c hc
    simp only [List.mem_append, List.mem_cons] at hc
    rcases hc with hc | hc | hc
    · simpa using hn1 c hc
    · subst hc; decide
    · simpa using (hp c hc).1
  rw [htw]
  have hlen : 1 ≤ name.length := by
    cases name with
    | nil => exact absurd rfl hn
    | cons _ _ => simp
  rw [lastIdx_last ')' post (fun x hx => (hp x hx).2) name 0 (by omega)]
  simp only [Nat.zero_add]
  have : (name ++ ')' :: post).take name.length = name := by simp
  rw [this]
  simp [macroPre]; omega

/-- `macroRe.FindAllStringSubmatch` on `pre $(name) post` finds the one reference -/
theorem macroMatches_embedded (pre name post : Str) (hpre : ∀ c ∈ pre, c ≠ '$') (hn : name ≠ [])
    (hn1 : ∀ c ∈ name, c ≠ '$') (hp : ∀ c ∈ post, c ≠ '$' ∧ c ≠ ')') :
    macroMatches (pre ++ (macroPre ++ name ++ [')'] ++ post)) = [name] := by
  unfold macroMatches
  induction pre with
  | nil =>
    simp only [List.nil_append]
    have hm := reMatch_ref name post hn hn1 hp
    have hshape : macroPre ++ name ++ [')'] ++ post = '$' :: ('(' :: (name ++ [')'])) ++ post := by simp [macroPre]
    rw [hshape] at hm ⊢
    simp only [List.cons_append]
    unfold reFindAllGo
    simp only [List.cons_append] at hm
    rw [hm]
    simp only
    have hskip := reFindAll_skip macroPre ')' ('(' :: (name ++ [')'])) post
    have hl : ('(' :: (name ++ [')'])).length = name.length + 3 - 1 := by simp
    rw [hl] at hskip
    simp only [List.cons_append] at hskip
    rw [hskip, reFindAll_noDollar post (fun c hc => (hp c hc).1)]
  | cons c cs ih =>
    simp only [List.cons_append]
    unfold reFindAllGo
    rw [reMatch_noDollar (hpre c (by simp))]
    exact ih (fun x hx => hpre x (by simp [hx]))

theorem replaceAll_skip (old new : Str) : ∀ (xs rest : Str), replaceAllGo old new xs.length (xs ++ rest) = replaceAllGo old new 0 rest
  | [], rest => by simp
  | x :: xs, rest => by
    simp only [List.length_cons, List.cons_append]
    conv => lhs; unfold replaceAllGo
    exact replaceAll_skip old new xs rest

theorem isPrefixOf_dollar_false (old : Str) {c : Char} {cs : Str} (h : c ≠ '$') : ('$' :: old).isPrefixOf (c :: cs) = false := by
  simp [List.isPrefixOf]
  intro h1; exact absurd h1.symm h

theorem replaceAll_noDollar (old new : Str) : ∀ s : Str, (∀ c ∈ s, c ≠ '$') → replaceAllGo ('$' :: old) new 0 s = s
  | [], _ => by simp [replaceAllGo]
  | c :: cs, h => by
    unfold replaceAllGo
    rw [isPrefixOf_dollar_false old (h c (by simp))]
    simp only [Bool.false_eq_true, if_false]
    rw [replaceAll_noDollar old new cs (fun x hx => h x (by simp [hx]))]

theorem isPrefixOf_self_append : ∀ (a b : Str), a.isPrefixOf (a ++ b) = true
  | [], _ => by simp [List.isPrefixOf]
  | x :: xs, b => by simp [isPrefixOf_self_append xs b]

/-- `strings.Replace(pre $(name) post, "$(name)", v, -1)` -/
theorem replaceAll_embedded (pre name post v : Str) (hpre : ∀ c ∈ pre, c ≠ '$') (hp : ∀ c ∈ post, c ≠ '$') :
    replaceAll (pre ++ (macroPre ++ name ++ [')'] ++ post)) (macroPre ++ name ++ [')']) v = pre ++ v ++ post := by
  unfold replaceAll
  have hold : macroPre ++ name ++ [')'] = '$' :: ('(' :: (name ++ [')'])) := by simp [macroPre]
  rw [hold]
  induction pre with
  | nil =>
    simp only [List.nil_append, List.cons_append]
    unfold replaceAllGo
    have hpx : ('$' :: '(' :: (name ++ [')'])).isPrefixOf ('$' :: ('(' :: (name ++ [')']) ++ post)) = true := by
      have := isPrefixOf_self_append ('$' :: '(' :: (name ++ [')'])) post
      simp at this ⊢
    simp only [List.cons_append] at hpx
    rw [hpx]
    simp only [if_true]
    have hskip := replaceAll_skip ('$' :: '(' :: (name ++ [')'])) v ('(' :: (name ++ [')'])) post
    simp only [List.length_cons, List.cons_append] at hskip ⊢
    have e : (name ++ [')']).length + 1 + 1 - 1 = (name ++ [')']).length + 1 := by omega
    rw [e, hskip, replaceAll_noDollar _ v post hp]
  | cons c cs ih =>
    simp only [List.cons_append]
    unfold replaceAllGo
    rw [isPrefixOf_dollar_false _ (hpre c (by simp))]
    simp only [Bool.false_eq_true, if_false]
    have := ih (fun x hx => hpre x (by simp [hx]))
    simp only [List.cons_append, List.append_assoc] at this ⊢
    rw [this]

/-- what a reference stands for inside a string: the single value, or nothing when the macro is
undefined or was declared without any value -/
def valueInString (macros : List (Str × List Str)) (name : Str) : Str :=
  match lookup macros name with
  | some (v :: _) => v
  | _ => []

/-- **An embedded reference is always substituted**: for every text `pre $(name) post` where `pre` and the
non-empty `name` have no `$` and `post` has neither `$` nor `)` (so that `$(name)` is the only reference the
reader's syntax recognises; the name itself may contain `)`, `(`, blanks, quotes — round 6), `expandSingleValueMacro` returns `pre value post` — `value` being empty when the
macro is undefined or value-less — unless the macro has several values (an error).  Nothing of the
reference is left. -/
theorem C20_embedded_macro_expanded (macros : List (Str × List Str)) (l : Nat) (pre name post : Str)
    (hpre : ∀ c ∈ pre, c ≠ '$') (hn : name ≠ []) (hn1 : ∀ c ∈ name, c ≠ '$')
    (hp : ∀ c ∈ post, c ≠ '$' ∧ c ≠ ')') (hone : ((lookup macros name).getD []).length ≤ 1) :
    expandSingleValueMacro macros l (pre ++ (macroPre ++ name ++ [')'] ++ post)) =
      .ok (pre ++ valueInString macros name ++ post) := by
  unfold expandSingleValueMacro
  rw [macroMatches_embedded pre name post hpre hn hn1 hp]
  unfold expandSingleLoop
  simp only
  have hgt : ¬ ((lookup macros name).getD []).length > 1 := by omega
  simp only [hgt, if_false]
  have hp' : ∀ c ∈ post, c ≠ '$' := fun c hc => (hp c hc).1
  unfold valueInString
  cases hl : lookup macros name with
  | none => simp only [expandSingleLoop]; rw [replaceAll_embedded pre name post [] hpre hp']
  | some vs =>
    cases vs with
    | nil => simp only [expandSingleLoop]; rw [replaceAll_embedded pre name post [] hpre hp']
    | cons v rest => simp only [expandSingleLoop]; rw [replaceAll_embedded pre name post v hpre hp']

/-- … and if the value has no `$` either, the result contains no `$(` at all -/
theorem C20_embedded_macro_no_residue (macros : List (Str × List Str)) (l : Nat) (pre name post : Str)
    (hpre : ∀ c ∈ pre, c ≠ '$') (hn : name ≠ []) (hn1 : ∀ c ∈ name, c ≠ '$')
    (hp : ∀ c ∈ post, c ≠ '$' ∧ c ≠ ')') (hone : ((lookup macros name).getD []).length ≤ 1)
    (hv : ∀ c ∈ valueInString macros name, c ≠ '$') :
    ∃ out, expandSingleValueMacro macros l (pre ++ (macroPre ++ name ++ [')'] ++ post)) = .ok out ∧
      (∀ c ∈ out, c ≠ '$') ∧ macroMatches out = [] := by
  refine ⟨_, C20_embedded_macro_expanded macros l pre name post hpre hn hn1 hp hone, ?_, ?_⟩
  · intro c hc
    simp only [List.mem_append] at hc
    rcases hc with (hc | hc) | hc
    · exact hpre c hc
    · exact hv c hc
    · exact (hp c hc).1
  · unfold macroMatches
    apply reFindAll_noDollar
    intro c hc
    simp only [List.mem_append] at hc
    rcases hc with (hc | hc) | hc
    · exact hpre c hc
    · exact hv c hc
    · exact (hp c hc).1

theorem hasInfix_mid (p : Str) : ∀ (a b : Str), hasInfix p (a ++ (p ++ b)) = true
  | [], b => by
    simp only [List.nil_append]
    cases h : p ++ b with
    | nil =>
      have : p = [] := by
        cases p with
        | nil => rfl
        | cons _ _ => simp at h
      simp [hasInfix, this]
    | cons c cs =>
      unfold hasInfix
      rw [← h, isPrefixOf_self_append]
      simp
  | x :: xs, b => by
    simp only [List.cons_append]
    unfold hasInfix
    rw [hasInfix_mid p xs b]
    simp

/-- the same at the level of `expandMacros`' argument loop: an argument `pre $(name) post` that is not
a reference as a whole becomes the single argument `pre value post` -/
theorem C20_embedded_macro_expandArgs (macros : List (Str × List Str)) (l : Nat) (pre name post : Str)
    (hpre : ∀ c ∈ pre, c ≠ '$') (hn : name ≠ []) (hn1 : ∀ c ∈ name, c ≠ '$')
    (hp : ∀ c ∈ post, c ≠ '$' ∧ c ≠ ')') (hone : ((lookup macros name).getD []).length ≤ 1)
    (hwhole : isMacroRef (pre ++ (macroPre ++ name ++ [')'] ++ post)) = false) :
    expandArgs macros l [pre ++ (macroPre ++ name ++ [')'] ++ post)] =
      .ok [pre ++ valueInString macros name ++ post] := by
  unfold expandArgs
  simp only [hwhole, Bool.not_false, if_true]
  have h1 : hasInfix macroPre (pre ++ (macroPre ++ name ++ [')'] ++ post)) = true := by
    have := hasInfix_mid macroPre pre (name ++ [')'] ++ post)
    simpa [List.append_assoc] using this
  have h2 : hasInfix [')'] (pre ++ (macroPre ++ name ++ [')'] ++ post)) = true := by
    have := hasInfix_mid [')'] (pre ++ macroPre ++ name) post
    simpa [List.append_assoc] using this
  rw [h1, h2]
  simp only [Bool.and_self, if_true]
  rw [C20_embedded_macro_expanded macros l pre name post hpre hn hn1 hp hone]
  simp [expandArgs, bind, Res.bind, pure]

/-- the reviewers' example: `pre-$(nope)-post` with `nope` undefined becomes `pre--post` -/
example : (match expandSingleValueMacro [] 1 "pre-$(nope)-post".toList with | .ok s => s | _ => ['?']) =
    "pre--post".toList := by decide
example : (match expandSingleValueMacro [("hostnme".toList, [])] 1 "/etc/$(hostnme)/x".toList with | .ok s => s | _ => ['?']) =
    "/etc//x".toList := by decide


/-! ### Round 6: references that are the whole argument (any name), and `$` in a name inside a string -/

theorem isMacroRef_ref (name : Str) : isMacroRef (macroPre ++ name ++ [')']) = true := by
  unfold isMacroRef hasSuffixCh
  have h : (macroPre ++ name ++ [')']).getLast? = some ')' := by simp
  rw [h]
  simp [macroPre, List.isPrefixOf]

theorem slice_ref (name : Str) :
    slice (macroPre ++ name ++ [')']) 2 ((macroPre ++ name ++ [')']).length - 1) = .ok name := by
  unfold slice
  have h1 : 2 ≤ (macroPre ++ name ++ [')']).length - 1 ∧
      (macroPre ++ name ++ [')']).length - 1 ≤ (macroPre ++ name ++ [')']).length := by
    simp [macroPre]
  rw [if_pos h1]
  have h2 : (macroPre ++ name ++ [')']).length - 1 = (macroPre ++ name).length := by simp [macroPre]
  rw [h2, List.take_left']
  · simp [macroPre]
  · rfl

/-- **A reference that is the whole argument is always substituted, whatever the name** — empty, with `$`,
parentheses, blanks or quotes in it, declared or not: the argument `$(name)` becomes the values of the macro
(no argument at all when it is not declared or has no value); the rest of the argument list is treated as
if the reference were not there.  The reference itself is not copied. -/
theorem C20_whole_arg_macro_expanded (macros : List (Str × List Str)) (l : Nat) (name : Str) (rest : List Str) :
    expandArgs macros l ((macroPre ++ name ++ [')']) :: rest) =
      (expandArgs macros l rest).bind (fun rest' => .ok ((lookup macros name).getD [] ++ rest')) := by
  conv => lhs; unfold expandArgs
  simp only [isMacroRef_ref, Bool.not_true, Bool.false_eq_true, if_false, slice_ref, bind, Res.bind, pure]
  cases expandArgs macros l rest with
  | ok rest' => cases lookup macros name <;> simp
  | err k n => rfl
  | panic => rfl
  | fuel => rfl

theorem C20_whole_arg_macro_alone (macros : List (Str × List Str)) (l : Nat) (name : Str) :
    expandArgs macros l [macroPre ++ name ++ [')']] = .ok ((lookup macros name).getD []) := by
  rw [C20_whole_arg_macro_expanded]
  simp [expandArgs, Res.bind]

/-- what `expandArgs` returns, `[["?"]]` for an error -/
def argsOr (r : Res (List Str)) : List Str := match r with | .ok a => a | _ => [['?']]

/-- the seeded change C20-7 in the model's terms: `$()`, `$($)` and a declared `$(dom$1)` as whole arguments -/
example : argsOr (expandArgs [] 1 ["$()".toList, "tail".toList]) = ["tail".toList] := by decide
example : argsOr (expandArgs [] 1 ["head".toList, "$($)".toList]) = ["head".toList] := by decide
example : argsOr (expandArgs [("dom$1".toList, ["example.org".toList])] 1 ["$(dom$1)".toList]) = ["example.org".toList] := by decide
example : argsOr (expandArgs [("a b".toList, ["x".toList, "y".toList])] 1 ["$(a b)".toList, "z".toList]) =
    ["x".toList, "y".toList, "z".toList] := by decide

/-- The full statement one would like for references inside a string: a reference to a DECLARED
single-valued macro, surrounded by text without `$`, `(`, `)`, is replaced by the value. -/
def C20_declared_macro_in_string_expanded_stmt : Prop :=
  ∀ (macros : List (Str × List Str)) (l : Nat) (pre name post v : Str),
    name ≠ [] → lookup macros name = some [v] →
    (∀ c ∈ pre, c ≠ '$' ∧ c ≠ '(' ∧ c ≠ ')') → (∀ c ∈ post, c ≠ '$' ∧ c ≠ '(' ∧ c ≠ ')') →
    expandSingleValueMacro macros l (pre ++ (macroPre ++ name ++ [')'] ++ post)) = .ok (pre ++ v ++ post)

/-- It is FALSE for the code as it is (known finding KF-C20-1): `macroRe` excludes `$` from the names it
recognises inside a string although declarations and whole-argument references accept it.
`$(dom$1) = example.org`, `x user@$(dom$1)`: the argument is returned unchanged. -/
theorem C20_dollar_name_in_string_left :
    argsOr (expandArgs [("dom$1".toList, ["example.org".toList])] 1 ["user@$(dom$1)".toList]) = ["user@$(dom$1)".toList] := by
  decide

theorem C20_declared_macro_in_string_expanded_counterexample : ¬ C20_declared_macro_in_string_expanded_stmt := by
  intro h
  have h1 := h [("dom$1".toList, ["example.org".toList])] 1 "user@".toList "dom$1".toList [] "example.org".toList
    (by decide) (by decide) (by decide) (by decide)
  have h2 : (match expandSingleValueMacro [("dom$1".toList, ["example.org".toList])] 1
      ("user@".toList ++ (macroPre ++ "dom$1".toList ++ [')'] ++ [])) with | .ok s => s | _ => ['?']) =
      "user@".toList ++ "example.org".toList ++ [] := by rw [h1]
  revert h2
  decide

/-- … and it holds for every name without `$` (the name may contain `)`, `(`, blanks, quotes). -/
theorem C20_declared_macro_in_string_expanded_partial (macros : List (Str × List Str)) (l : Nat) (pre name post v : Str)
    (hn : name ≠ []) (hn1 : ∀ c ∈ name, c ≠ '$') (hl : lookup macros name = some [v])
    (hpre : ∀ c ∈ pre, c ≠ '$' ∧ c ≠ '(' ∧ c ≠ ')') (hp : ∀ c ∈ post, c ≠ '$' ∧ c ≠ '(' ∧ c ≠ ')') :
    expandSingleValueMacro macros l (pre ++ (macroPre ++ name ++ [')'] ++ post)) = .ok (pre ++ v ++ post) := by
  have := C20_embedded_macro_expanded macros l pre name post (fun c hc => (hpre c hc).1) hn hn1
    (fun c hc => ⟨(hp c hc).1, (hp c hc).2.2⟩) (by simp [hl])
  rw [this]
  simp [valueInString, hl]

example : (match expandSingleValueMacro [("a)b".toList, ["v".toList])] 1 "p$(a)b)q".toList with | .ok s => s | _ => ['?']) =
    "pvq".toList := by decide
example : (match expandSingleValueMacro [("a \"b(".toList, ["v".toList])] 1 "p$(a \"b()q".toList with | .ok s => s | _ => ['?']) =
    "pvq".toList := by decide


/-! ## Lexer: printing tokens in the quoted syntax and lexing them again -/

/-- `s` can be written between quotes: scanning `s`, a backslash run of odd length is never
followed by a quote or by the end (`b` = an odd run is pending).  This is exactly the set of token
texts the quoted syntax of `lexer.next` can express. -/
def quotableGo : Bool → Str → Bool
  | b, [] => !b
  | b, c :: r =>
    if c == '\\' then quotableGo (!b) r
    else if c == '"' then !b && quotableGo false r
    else quotableGo false r

def quotable (s : Str) : Bool := quotableGo false s

def nl (s : Str) : Nat := s.count '\n'

/-- the token line recorded by `next` is irrelevant while no token is being accumulated -/
theorem lexGo_tokLine (line tl tl' : Nat) (c e : Bool) (rest : Str) :
    lexGo line tl [] c false e rest = lexGo line tl' [] c false e rest := by
  induction rest generalizing line c e with
  | nil => simp [lexGo]
  | cons ch rest ih =>
    unfold lexGo
    simp only [Bool.false_eq_true, if_false, List.isEmpty_nil, Bool.not_true, if_true]
    split
    · split
      · exact ih _ _ _
      · exact ih _ _ _
    · split
      · exact ih _ _ _
      · rfl


theorem nl_cons (c : Char) (r : Str) : nl (c :: r) = (if c = '\n' then 1 else 0) + nl r := by
  unfold nl
  rw [List.count_cons]
  by_cases h : c = '\n' <;> simp [h] <;> omega

theorem step_q_bs (line tl : Nat) (v : Str) (rest : Str) :
    lexGo line tl v false true false ('\\' :: rest) = lexGo line tl v false true true rest := by
  rw [lexGo]; simp

theorem step_q_esc (line tl : Nat) (v : Str) (c : Char) (rest : Str) (hc : c ≠ '"') :
    lexGo line tl v false true true (c :: rest) =
      lexGo (if c = '\n' then line + 1 else line) tl (v ++ ['\\'] ++ [c]) false true false rest := by
  rw [lexGo]; simp [hc]

theorem step_q_escq (line tl : Nat) (v : Str) (rest : Str) :
    lexGo line tl v false true true ('"' :: rest) = lexGo line tl (v ++ ['"']) false true false rest := by
  rw [lexGo]; simp

theorem step_q_plain (line tl : Nat) (v : Str) (c : Char) (rest : Str) (h1 : c ≠ '\\') (h2 : c ≠ '"') :
    lexGo line tl v false true false (c :: rest) =
      lexGo (if c = '\n' then line + 1 else line) tl (v ++ [c]) false true false rest := by
  rw [lexGo]; simp [h1, h2]

theorem step_q_close (line tl : Nat) (v : Str) (rest : Str) :
    lexGo line tl v false true false ('"' :: rest) = ⟨tl, v⟩ :: lexGo line tl [] false false false rest := by
  rw [lexGo]; simp

/-- inside quotes: `escapeQ s` followed by the closing quote yields the pending value plus `s` -/
theorem lex_quoted (tl : Nat) (rest : Str) : ∀ (s : Str) (line : Nat) (v : Str) (e : Bool), quotableGo e s = true →
    lexGo line tl v false true e (escapeQ s ++ '"' :: rest) =
      ⟨tl, v ++ (if e then ['\\'] else []) ++ s⟩ :: lexGo (line + nl s) tl [] false false false rest
  | [], line, v, e, h => by
    simp only [quotableGo, Bool.not_eq_true'] at h
    subst h
    simp [escapeQ, step_q_close, nl]
  | c :: r, line, v, e, h => by
    unfold quotableGo at h
    by_cases hb : c = '\\'
    · subst hb
      simp only [beq_self_eq_true, if_true] at h
      simp only [escapeQ, show (('\\' : Char) == '"') = false by decide, Bool.false_eq_true, if_false, List.cons_append]
      cases e
      · rw [step_q_bs, lex_quoted tl rest r line v true (by simpa using h), nl_cons]
        simp
      · rw [step_q_esc _ _ _ _ _ (by decide), lex_quoted tl rest r _ _ false (by simpa using h), nl_cons]
        simp
    · by_cases hq : c = '"'
      · subst hq
        simp only [show (('"' : Char) == '\\') = false by decide, Bool.false_eq_true, if_false, beq_self_eq_true, if_true,
          Bool.and_eq_true, Bool.not_eq_true'] at h
        obtain ⟨he, h2⟩ := h
        subst he
        simp only [escapeQ, beq_self_eq_true, if_true, List.cons_append]
        rw [step_q_bs, step_q_escq, lex_quoted tl rest r line (v ++ ['"']) false h2, nl_cons]
        simp
      · have hb' : (c == '\\') = false := by simpa using hb
        have hq' : (c == '"') = false := by simpa using hq
        simp only [hb', hq', Bool.false_eq_true, if_false] at h
        simp only [escapeQ, hq', Bool.false_eq_true, if_false, List.cons_append]
        cases e
        · rw [step_q_plain _ _ _ _ _ hb hq, lex_quoted tl rest r _ (v ++ [c]) false h, nl_cons]
          by_cases hn : c = '\n'
          · simp [hn, Nat.add_assoc, Nat.add_comm 1]
          · simp [hn]
        · rw [step_q_esc _ _ _ _ _ hq, lex_quoted tl rest r _ (v ++ ['\\'] ++ [c]) false h, nl_cons]
          by_cases hn : c = '\n'
          · simp [hn, Nat.add_assoc, Nat.add_comm 1]
          · simp [hn]


theorem step_open (line tl : Nat) (rest : Str) :
    lexGo line tl [] false false false ('"' :: rest) = lexGo line line [] false true false rest := by
  rw [lexGo]; simp [show isSpace '"' = false by decide]

theorem step_space (line tl : Nat) (rest : Str) :
    lexGo line tl [] false false false (' ' :: rest) = lexGo line tl [] false false false rest := by
  rw [lexGo]; simp [show isSpace ' ' = true by decide]

theorem step_nl (line tl : Nat) (rest : Str) :
    lexGo line tl [] false false false ('\n' :: rest) = lexGo (line + 1) tl [] false false false rest := by
  rw [lexGo]; simp [show isSpace '\n' = true by decide]

theorem step_lbrace (line tl : Nat) (rest : Str) :
    lexGo line tl [] false false false ('{' :: '\n' :: rest) = ⟨line, lbrace⟩ :: lexGo (line + 1) line [] false false false rest := by
  rw [lexGo]; simp [show isSpace '{' = false by decide]
  rw [lexGo]; simp [show isSpace '\n' = true by decide, lbrace]

theorem step_rbrace (line tl : Nat) (rest : Str) :
    lexGo line tl [] false false false ('}' :: '\n' :: rest) = ⟨line, rbrace⟩ :: lexGo (line + 1) line [] false false false rest := by
  rw [lexGo]; simp [show isSpace '}' = false by decide]
  rw [lexGo]; simp [show isSpace '\n' = true by decide, rbrace]

/-- one quoted token -/
theorem lex_quoteTok (line tl : Nat) (s rest : Str) (h : quotable s = true) :
    lexGo line tl [] false false false (quoteTok s ++ rest) =
      ⟨line, s⟩ :: lexGo (line + nl s) 0 [] false false false rest := by
  unfold quoteTok
  simp only [List.cons_append, List.append_assoc, List.nil_append]
  rw [step_open, lex_quoted line rest s line [] false h]
  simp only [Bool.false_eq_true, if_false, List.append_nil, List.nil_append]
  rw [lexGo_tokLine _ line 0]

/-! ### The token stream of a printed tree -/

/-- tokens of ` "a1" "a2" …` starting on `line`; second component: the line after the last one -/
def argToks : Nat → List Str → List Token × Nat
  | line, [] => ([], line)
  | line, a :: as => (⟨line, a⟩ :: (argToks (line + nl a) as).1, (argToks (line + nl a) as).2)

mutual
/-- tokens of `printNode n` when its first character is on `line`; second component: the line on
which the text after it starts -/
def nodeToks : Nat → Node → List Token × Nat
  | line, .mk name args block ch _ _ _ _ =>
    let a := argToks (line + nl name) args
    if block then
      let c := listToks (a.2 + 1) ch
      (⟨line, name⟩ :: a.1 ++ [⟨a.2, lbrace⟩] ++ c.1 ++ [⟨c.2, rbrace⟩], c.2 + 1)
    else (⟨line, name⟩ :: a.1, a.2 + 1)
def listToks : Nat → List Node → List Token × Nat
  | line, [] => ([], line)
  | line, n :: ns =>
    ((nodeToks line n).1 ++ (listToks (nodeToks line n).2 ns).1, (listToks (nodeToks line n).2 ns).2)
end

theorem lex_printArgs (tl : Nat) (rest : Str) : ∀ (as : List Str) (line : Nat), (∀ a ∈ as, quotable a = true) →
    lexGo line tl [] false false false (printArgs as ++ rest) =
      (argToks line as).1 ++ lexGo (argToks line as).2 0 [] false false false rest
  | [], line, _ => by simp [printArgs, argToks, lexGo_tokLine line tl 0]
  | a :: as, line, h => by
    simp only [printArgs, List.cons_append, List.append_assoc, argToks]
    rw [step_space, lex_quoteTok line tl a _ (h a (by simp)),
      lex_printArgs 0 rest as (line + nl a) (fun x hx => h x (by simp [hx]))]

mutual
/-- every token of the tree can be written between quotes -/
def quotableN : Node → Bool
  | .mk name args _ ch _ _ _ _ => quotable name && args.all quotable && quotableL ch
def quotableL : List Node → Bool
  | [] => true
  | n :: ns => quotableN n && quotableL ns
end

mutual
theorem lex_printNode (rest : Str) : ∀ (n : Node) (line tl : Nat), quotableN n = true →
    lexGo line tl [] false false false (printNode n ++ rest) =
      (nodeToks line n).1 ++ lexGo (nodeToks line n).2 0 [] false false false rest
  | .mk name args block ch sn ma f l, line, tl, h => by
    simp only [quotableN, Bool.and_eq_true, List.all_eq_true] at h
    obtain ⟨⟨h1, h2⟩, h3⟩ := h
    unfold printNode nodeToks
    cases block
    · simp only [Bool.false_eq_true, if_false, List.append_assoc]
      rw [lex_quoteTok line tl name _ h1, lex_printArgs 0 _ args _ h2]
      simp only [List.cons_append, List.nil_append]
      rw [step_nl]
    · simp only [if_true, List.append_assoc]
      rw [lex_quoteTok line tl name _ h1, lex_printArgs 0 _ args _ h2]
      simp only [List.cons_append, List.nil_append]
      rw [step_space, step_lbrace, lex_printList _ ch _ _ h3]
      rw [step_rbrace, lexGo_tokLine _ _ 0]
theorem lex_printList (rest : Str) : ∀ (ns : List Node) (line tl : Nat), quotableL ns = true →
    lexGo line tl [] false false false (printList ns ++ rest) =
      (listToks line ns).1 ++ lexGo (listToks line ns).2 0 [] false false false rest
  | [], line, tl, _ => by simp [printList, listToks, lexGo_tokLine line tl 0]
  | n :: ns, line, tl, h => by
    simp only [quotableL, Bool.and_eq_true] at h
    unfold printList listToks
    simp only [List.append_assoc]
    rw [lex_printNode _ n line tl h.1, lex_printList rest ns _ 0 h.2]
end

/-- `printList ns` never starts with a byte order mark -/
theorem stripBOM_printList : ∀ ns : List Node, stripBOM (printList ns) = printList ns
  | [] => by simp [printList, stripBOM]
  | (.mk name args block ch sn ma f l) :: ns => by
    simp [printList, printNode, quoteTok, stripBOM]

/-- **Lexer round trip**: the tokens of a printed tree are exactly its names, arguments and braces,
with the line numbers of the layout — for every tree whose tokens are quotable. -/
theorem C20_lex_print_roundtrip (ns : List Node) (h : quotableL ns = true) :
    lexAll (printList ns) = (listToks 1 ns).1 := by
  unfold lexAll
  rw [stripBOM_printList]
  have := lex_printList [] ns 1 0 h
  simp only [List.append_nil] at this
  rw [this]
  simp [lexGo]

/-- the token-level special case: a line of quoted words lexes to those words -/
theorem C20_lex_words_roundtrip (ws : List Str) (h : ∀ w ∈ ws, quotable w = true) :
    (lexAll (printArgs ws)).map Token.text = ws := by
  have hb : stripBOM (printArgs ws) = printArgs ws := by
    cases ws <;> simp [printArgs, stripBOM]
  unfold lexAll
  rw [hb]
  have := lex_printArgs 0 [] ws 1 h
  simp only [List.append_nil] at this
  rw [this]
  simp only [lexGo, List.isEmpty_nil, if_true, List.append_nil]
  clear this hb h
  generalize 1 = line
  induction ws generalizing line with
  | nil => simp [argToks]
  | cons a as ih => simp [argToks, ih]


/-! ## Parser: parsing the token stream of a printed tree -/

/-- dispenser state: the tokens `pre` are consumed, the cursor is on the last of them -/
def S (c0 : Ctx) (pre post : List Token) : Ctx :=
  { c0 with toks := pre ++ post, cursor := (pre.length : Int) - 1 }

theorem S_snoc (c0 : Ctx) (pre post : List Token) (b : Token) :
    ({ S c0 pre (b :: post) with cursor := (S c0 pre (b :: post)).cursor + 1 } : Ctx) = S c0 (pre ++ [b]) post := by
  unfold S
  simp only [List.length_append, List.length_cons, List.length_nil, List.append_assoc, List.cons_append, List.nil_append]
  congr 1
  push_cast
  omega

theorem S_tokAt_last (c0 : Ctx) (pre post : List Token) (cur : Token) :
    (S c0 (pre ++ [cur]) post).tokAt (S c0 (pre ++ [cur]) post).cursor = some cur := by
  unfold Ctx.tokAt S
  simp only [List.length_append, List.length_cons, List.length_nil]
  have h1 : ¬ ((pre.length + (0 + 1) : Nat) : Int) - 1 < 0 := by omega
  have h2 : (((pre.length + (0 + 1) : Nat) : Int) - 1).toNat = pre.length := by omega
  simp only [h1, if_false, h2]
  simp

theorem S_tokAt_next (c0 : Ctx) (pre post : List Token) (cur b : Token) :
    (S c0 (pre ++ [cur]) (b :: post)).tokAt ((S c0 (pre ++ [cur]) (b :: post)).cursor + 1) = some b := by
  unfold Ctx.tokAt S
  simp only [List.length_append, List.length_cons, List.length_nil]
  have h1 : ¬ ((pre.length + (0 + 1) : Nat) : Int) - 1 + 1 < 0 := by omega
  have h2 : (((pre.length + (0 + 1) : Nat) : Int) - 1 + 1).toNat = pre.length + 1 := by omega
  simp only [h1, if_false, h2]
  simp

theorem S_len (c0 : Ctx) (pre post : List Token) : (S c0 pre post).len = (pre.length : Int) + post.length := by
  unfold Ctx.len S; simp

theorem S_cursor (c0 : Ctx) (pre post : List Token) : (S c0 pre post).cursor = (pre.length : Int) - 1 := rfl

theorem S_inrange (pre post : List Token) (cur : Token) :
    ¬ ((((pre ++ [cur]).length : Nat) : Int) - 1 < 0 ∨
       ((pre ++ [cur]).length : Int) + (post.length : Int) ≤ (((pre ++ [cur]).length : Nat) : Int) - 1) := by
  simp only [List.length_append, List.length_cons, List.length_nil]; omega

theorem S_val (c0 : Ctx) (pre post : List Token) (cur : Token) : (S c0 (pre ++ [cur]) post).val = cur.text := by
  unfold Ctx.val
  rw [S_tokAt_last, S_len, S_cursor]
  have := S_inrange pre post cur
  simp only [ge_iff_le, Bool.or_eq_true, decide_eq_true_eq, this, if_false]

theorem S_line (c0 : Ctx) (pre post : List Token) (cur : Token) : (S c0 (pre ++ [cur]) post).line = cur.line := by
  unfold Ctx.line
  rw [S_tokAt_last, S_len, S_cursor]
  have := S_inrange pre post cur
  simp only [ge_iff_le, Bool.or_eq_true, decide_eq_true_eq, this, if_false]

theorem S_nlb (c0 : Ctx) (pre post : List Token) (cur : Token) :
    (S c0 (pre ++ [cur]) post).numLineBreaks (S c0 (pre ++ [cur]) post).cursor = nl cur.text := by
  unfold Ctx.numLineBreaks
  rw [S_tokAt_last, S_len, S_cursor]
  have := S_inrange pre post cur
  simp only [ge_iff_le, Bool.or_eq_true, decide_eq_true_eq, this, if_false, nl]

theorem S_nextArg_cons (c0 : Ctx) (pre post : List Token) (cur b : Token) :
    (S c0 (pre ++ [cur]) (b :: post)).nextArg =
      .ok (if cur.line + nl cur.text = b.line then (true, S c0 (pre ++ [cur] ++ [b]) post)
           else (false, S c0 (pre ++ [cur]) (b :: post))) := by
  unfold Ctx.nextArg
  rw [S_tokAt_last, S_tokAt_next, S_nlb, S_snoc, S_len, S_cursor]
  simp only [List.length_append, List.length_cons, List.length_nil]
  have h1 : ¬ ((pre.length + (0 + 1) : Nat) : Int) - 1 < 0 := by omega
  have h2 : ¬ ((pre.length + (0 + 1) : Nat) : Int) + ((post.length + 1 : Nat) : Int) ≤ ((pre.length + (0 + 1) : Nat) : Int) - 1 := by omega
  have h3 : ((pre.length + (0 + 1) : Nat) : Int) - 1 < ((pre.length + (0 + 1) : Nat) : Int) + ((post.length + 1 : Nat) : Int) - 1 := by omega
  simp only [h1, h2, h3, if_false, if_true, ge_iff_le, beq_iff_eq]
  split <;> rfl

theorem S_nextArg_nil (c0 : Ctx) (pre : List Token) (cur : Token) :
    (S c0 (pre ++ [cur]) []).nextArg = .ok (false, S c0 (pre ++ [cur]) []) := by
  unfold Ctx.nextArg
  rw [S_len, S_cursor]
  simp only [List.length_append, List.length_cons, List.length_nil]
  have h1 : ¬ ((pre.length + (0 + 1) : Nat) : Int) - 1 < 0 := by omega
  have h2 : ¬ ((pre.length + (0 + 1) : Nat) : Int) + ((0 : Nat) : Int) ≤ ((pre.length + (0 + 1) : Nat) : Int) - 1 := by omega
  have h3 : ¬ ((pre.length + (0 + 1) : Nat) : Int) - 1 < ((pre.length + (0 + 1) : Nat) : Int) + ((0 : Nat) : Int) - 1 := by omega
  simp only [h1, h2, h3, if_false, ge_iff_le]

theorem S_nextLine_cons (c0 : Ctx) (pre post : List Token) (cur b : Token) :
    (S c0 (pre ++ [cur]) (b :: post)).nextLine =
      .ok (if cur.line + nl cur.text < b.line then (true, S c0 (pre ++ [cur] ++ [b]) post)
           else (false, S c0 (pre ++ [cur]) (b :: post))) := by
  unfold Ctx.nextLine
  rw [S_tokAt_last, S_tokAt_next, S_nlb, S_snoc, S_len, S_cursor]
  simp only [List.length_append, List.length_cons, List.length_nil]
  have h1 : ¬ ((pre.length + (0 + 1) : Nat) : Int) - 1 < 0 := by omega
  have h2 : ¬ ((pre.length + (0 + 1) : Nat) : Int) + ((post.length + 1 : Nat) : Int) ≤ ((pre.length + (0 + 1) : Nat) : Int) - 1 := by omega
  have h3 : ((pre.length + (0 + 1) : Nat) : Int) - 1 < ((pre.length + (0 + 1) : Nat) : Int) + ((post.length + 1 : Nat) : Int) - 1 := by omega
  simp only [h1, h2, h3, if_false, if_true, ge_iff_le, decide_eq_true_eq]
  split <;> rfl

theorem S_nextLine_nil (c0 : Ctx) (pre : List Token) (cur : Token) :
    (S c0 (pre ++ [cur]) []).nextLine = .ok (false, S c0 (pre ++ [cur]) []) := by
  unfold Ctx.nextLine
  rw [S_len, S_cursor]
  simp only [List.length_append, List.length_cons, List.length_nil]
  have h1 : ¬ ((pre.length + (0 + 1) : Nat) : Int) - 1 < 0 := by omega
  have h2 : ¬ ((pre.length + (0 + 1) : Nat) : Int) + ((0 : Nat) : Int) ≤ ((pre.length + (0 + 1) : Nat) : Int) - 1 := by omega
  have h3 : ¬ ((pre.length + (0 + 1) : Nat) : Int) - 1 < ((pre.length + (0 + 1) : Nat) : Int) + ((0 : Nat) : Int) - 1 := by omega
  simp only [h1, h2, h3, if_false, ge_iff_le]

theorem S_next_cons (c0 : Ctx) (pre post : List Token) (b : Token) :
    (S c0 pre (b :: post)).next = (true, S c0 (pre ++ [b]) post) := by
  unfold Ctx.next
  rw [S_snoc, S_len, S_cursor]
  have h : (pre.length : Int) - 1 < (pre.length : Int) + ((b :: post).length : Int) - 1 := by
    simp only [List.length_cons]; omega
  simp only [h, if_true]

theorem S_next_nil (c0 : Ctx) (pre : List Token) : (S c0 pre []).next = (false, S c0 pre []) := by
  unfold Ctx.next
  rw [S_len, S_cursor]
  simp


/-- partial correctness: for any fuel the result is "out of fuel" or the expected value -/
def Exp {α} (r : Res α) (x : α) : Prop := r = .fuel ∨ r = .ok x

theorem Exp.fuel {α} (x : α) : Exp (.fuel : Res α) x := Or.inl rfl
theorem Exp.ok {α} (x : α) : Exp (.ok x) x := Or.inr rfl
theorem Exp.bind {α β} {x : Res α} {f : α → Res β} {a : α} {b : β} (h1 : Exp x a) (h2 : Exp (f a) b) :
    Exp (x >>= f) b := by
  rcases h1 with h | h <;> rw [h] <;> simp [bind_eq, Res.bind, Exp.fuel]
  exact h2
theorem Exp.of_eq {α} {r : Res α} {x : α} (h : r = .ok x) : Exp r x := Or.inr h

/-! ### Trees the quoted syntax can express -/

/-- an argument the reader takes literally: quotable, not a brace, no macro reference, no
environment placeholder -/
def argOK (a : Str) : Bool :=
  quotable a && a != lbrace && !isMacroRef a && !(hasInfix macroPre a && hasInfix [')'] a) && !hasInfix envPre a

/-- the last argument must not be the closing brace or the line-continuation backslash -/
def lastOK (args : List Str) : Bool := args.getLast? != some rbrace && args.getLast? != some backslash

/-- a directive name the reader takes literally -/
def nameOK (u : Uni) (name : Str) : Bool :=
  (validateNodeName u name).isNone && name != importName && name != lbrace && name != rbrace && quotable name &&
    !(['('].isPrefixOf name && hasSuffixCh name ')') && !macroPre.isPrefixOf name && !hasInfix envPre name

mutual
/-- **Expressible trees**: all tokens can be written in the quoted syntax and are taken literally
by the reader (decidable). -/
def PrintableN (u : Uni) : Node → Bool
  | .mk name args block ch sn ma _ _ =>
    nameOK u name && args.all argOK && lastOK args && !sn && !ma && (block || ch.isEmpty) && PrintableL u ch
def PrintableL (u : Uni) : List Node → Bool
  | [] => true
  | n :: ns => PrintableN u n && PrintableL u ns
end

mutual
/-- the tree as `Read` returns it for the printed text: same names, arguments and shape; `file`
and the line numbers of the canonical layout -/
def relabelN (file line : Nat) : Node → Node
  | .mk name args block ch sn ma _ _ =>
    .mk name args block (relabelL file ((argToks (line + nl name) args).2 + 1) ch) sn ma file line
def relabelL (file line : Nat) : List Node → List Node
  | [] => []
  | n :: ns => relabelN file line n :: relabelL file (nodeToks line n).2 ns
end

/-! ### Single steps of the parser, for any fuel -/

theorem readNodes_step (u : Uni) {c : Ctx} {X : List Node × Ctx} (hn : ¬ c.nesting > 255)
    (h : ∀ f, Exp (nodesLoop u f { c with nesting := c.nesting + 1 } [] false) X) : ∀ fuel, Exp (readNodes u fuel c) X
  | 0 => by unfold readNodes; exact Exp.fuel _
  | f + 1 => by unfold readNodes; simp only [hn, if_false]; exact h f

theorem readNode_step (u : Uni) {c : Ctx} {node : Node} {X : Node × Ctx} (hv : c.val ≠ lbrace)
    (hs : startNode c = .ok node) (h : ∀ f, Exp (argLoop u f c node false) X) : ∀ fuel, Exp (readNode u fuel c) X
  | 0 => by unfold readNode; exact Exp.fuel _
  | f + 1 => by
    unfold readNode
    have : (c.val == lbrace) = false := by simpa using hv
    simp only [this, Bool.false_eq_true, if_false, hs, bind_eq, Res.bind]
    exact h f

theorem afterArgs_step (u : Uni) {c : Ctx} {node : Node} {X : Node × Ctx}
    (hl : node.args.getLast? ≠ some backslash) (hf : finishNode u c node = .ok X) : ∀ fuel, Exp (afterArgs u fuel c node) X
  | 0 => by unfold afterArgs; exact Exp.fuel _
  | f + 1 => by
    unfold afterArgs
    have : (node.args.getLast? == some backslash) = false := by simpa using hl
    simp only [this, Bool.false_eq_true, if_false]
    exact Exp.of_eq hf

theorem startNode_plain (c : Ctx) (h : (['('].isPrefixOf c.val && hasSuffixCh c.val ')') = false) :
    startNode c = .ok (.mk c.val [] false [] false false c.file c.line) := by
  unfold startNode isSnippet
  simp [h, bind_eq, Res.bind]

theorem finishNode_plain (u : Uni) (c : Ctx) (node : Node) (h1 : macroPre.isPrefixOf node.name = false)
    (h2 : node.isSnip = false) (h3 : validateNodeName u node.name = none) : finishNode u c node = .ok (node, c) := by
  unfold finishNode parseAsMacro
  simp [h1, h2, h3, bind_eq, Res.bind]


theorem argLoop_arg (u : Uni) (f : Nat) (c0 : Ctx) (pre post : List Token) (cur b : Token) (node : Node)
    (hl : cur.line + nl cur.text = b.line) (hb : b.text ≠ lbrace) :
    argLoop u (f + 1) (S c0 (pre ++ [cur]) (b :: post)) node false =
      argLoop u f (S c0 (pre ++ [cur] ++ [b]) post) (node.setArgs (node.args ++ [b.text])) false := by
  rw [argLoop]
  unfold advanceArg
  rw [S_nextArg_cons]
  simp only [hl, if_true, bind_eq, Res.bind]
  rw [S_val]
  have : (b.text == lbrace) = false := by simpa using hb
  simp only [this, Bool.false_eq_true, if_false]

theorem argLoop_block (u : Uni) (f : Nat) (c0 : Ctx) (pre post : List Token) (cur b : Token) (node : Node)
    (hl : cur.line + nl cur.text = b.line) (hb : b.text = lbrace) :
    argLoop u (f + 1) (S c0 (pre ++ [cur]) (b :: post)) node false =
      (readNodes u f (S c0 (pre ++ [cur] ++ [b]) post) >>= fun rc => afterArgs u f rc.2 (node.setChildren true rc.1)) := by
  rw [argLoop]
  unfold advanceArg
  rw [S_nextArg_cons]
  simp only [hl, if_true, bind_eq, Res.bind]
  rw [S_val]
  simp only [hb, beq_self_eq_true, if_true]

theorem argLoop_stay (u : Uni) (f : Nat) (c0 : Ctx) (pre post : List Token) (cur : Token) (node : Node)
    (hp : ∀ b ∈ post.head?, cur.line + nl cur.text ≠ b.line) :
    argLoop u (f + 1) (S c0 (pre ++ [cur]) post) node false = afterArgs u f (S c0 (pre ++ [cur]) post) node := by
  rw [argLoop]
  unfold advanceArg
  cases post with
  | nil => rw [S_nextArg_nil]; simp [bind_eq, Res.bind]
  | cons b post =>
    rw [S_nextArg_cons]
    have := hp b (by simp)
    simp [this, bind_eq, Res.bind]

theorem argToks_snd_append (as bs : List Str) (L : Nat) :
    (argToks L (as ++ bs)).2 = (argToks (argToks L as).2 bs).2 := by
  induction as generalizing L with
  | nil => simp [argToks]
  | cons a as ih => simp [argToks, ih]

/-- consuming the plain arguments of a node -/
theorem argLoop_args (u : Uni) (c0 : Ctx) (tail : List Token) (X : Node × Ctx) :
    ∀ (as : List Str) (L : Nat) (pre : List Token) (cur : Token) (node : Node),
      cur.line + nl cur.text = L → (∀ a ∈ as, a ≠ lbrace) →
      (∀ f' pre' cur', cur'.line + nl cur'.text = (argToks L as).2 → pre' ++ [cur'] = pre ++ [cur] ++ (argToks L as).1 →
        Exp (argLoop u f' (S c0 (pre' ++ [cur']) tail) (node.setArgs (node.args ++ as)) false) X) →
      ∀ f, Exp (argLoop u f (S c0 (pre ++ [cur]) ((argToks L as).1 ++ tail)) node false) X
  | [], L, pre, cur, node, hl, _, hk => by
    intro f
    have := hk f pre cur (by simpa [argToks] using hl) (by simp [argToks])
    have e : node.setArgs (node.args ++ []) = node := by cases node; simp [Node.setArgs, Node.args, Node.name, Node.block, Node.children, Node.isSnip, Node.isMacro, Node.file, Node.line]
    rw [e] at this
    simpa [argToks] using this
  | a :: as, L, pre, cur, node, hl, ha, hk => by
    intro f
    cases f with
    | zero => rw [argLoop]; exact Exp.fuel _
    | succ f =>
      simp only [argToks, List.cons_append]
      rw [argLoop_arg u f c0 pre _ cur ⟨L, a⟩ node hl (ha a (by simp))]
      apply argLoop_args u c0 tail X as (L + nl a) (pre ++ [cur]) ⟨L, a⟩ _ rfl (fun x hx => ha x (by simp [hx]))
      intro f' pre' cur' h1 h2
      have := hk f' pre' cur' (by simpa [argToks] using h1) (by simpa [argToks] using h2)
      have e : (node.setArgs (node.args ++ [a])).setArgs ((node.setArgs (node.args ++ [a])).args ++ as) =
          node.setArgs (node.args ++ a :: as) := by
        cases node; simp [Node.setArgs, Node.args, Node.name, Node.block, Node.children, Node.isSnip, Node.isMacro, Node.file, Node.line]
      rw [e]; exact this


/-- the head of the `readNodes` loop can move on to a token on line `L` -/
def AdvOK (b : Bool) (pre : List Token) (L : Nat) : Prop :=
  b = false ∨ ∃ pre' cur, pre = pre' ++ [cur] ∧ cur.line + nl cur.text < L

theorem advanceLine_S_cons (c1 : Ctx) (pre post : List Token) (t : Token) (b : Bool) (h : AdvOK b pre t.line) :
    advanceLine (S c1 pre (t :: post)) b = .ok (false, S c1 (pre ++ [t]) post) := by
  unfold advanceLine
  rcases h with h | ⟨pre', cur, e, hl⟩
  · subst h
    simp [S_next_cons]
  · subst e
    cases b
    · simp [S_next_cons]
    · simp only [if_true]
      rw [S_nextLine_cons]
      simp [hl, bind_eq, Res.bind]

theorem advanceLine_S_nil (c1 : Ctx) (pre : List Token) (b : Bool) (h : b = false ∨ ∃ pre' cur, pre = pre' ++ [cur]) :
    advanceLine (S c1 pre []) b = .ok (true, S c1 pre []) := by
  unfold advanceLine
  rcases h with h | ⟨pre', cur, e⟩
  · subst h
    simp [S_next_nil]
  · subst e
    cases b
    · simp [S_next_nil]
    · simp only [if_true]
      rw [S_nextLine_nil]
      simp [bind_eq, Res.bind, S_next_nil]

theorem nodesLoop_eof (u : Uni) (f : Nat) (c1 : Ctx) (pre : List Token) (res : List Node) (b : Bool)
    (h : b = false ∨ ∃ pre' cur, pre = pre' ++ [cur]) :
    nodesLoop u (f + 1) (S c1 pre []) res b = .ok (res, S c1 pre []) := by
  rw [nodesLoop, advanceLine_S_nil c1 pre b h]
  simp [bind_eq, Res.bind]

theorem nodesLoop_close (u : Uni) (f : Nat) (c1 : Ctx) (pre post : List Token) (t : Token) (res : List Node) (b : Bool)
    (h : AdvOK b pre t.line) (ht : t.text = rbrace) (hn : 0 ≤ c1.nesting - 1) :
    nodesLoop u (f + 1) (S c1 pre (t :: post)) res b =
      .ok (res, S { c1 with nesting := c1.nesting - 1 } (pre ++ [t]) post) := by
  rw [nodesLoop, advanceLine_S_cons c1 pre post t b h]
  simp only [bind_eq, Res.bind, Bool.false_eq_true, if_false]
  rw [S_val]
  have h2 : ¬ (S c1 (pre ++ [t]) post).nesting - 1 < 0 := by
    show ¬ c1.nesting - 1 < 0
    omega
  simp only [ht, beq_self_eq_true, if_true, h2, if_false]
  rfl

theorem closeEdge_plain (node : Node) (c : Ctx) (h : node.args.getLast? ≠ some rbrace) :
    closeEdge node c = .ok (node, c, false) := by
  unfold closeEdge
  have : (node.args.getLast? == some rbrace) = false := by simpa using h
  simp [this]

theorem nodesLoop_node (u : Uni) (f : Nat) (c1 : Ctx) (pre post : List Token) (t : Token) (res : List Node) (b : Bool)
    (node : Node) (c2 : Ctx) (X : List Node × Ctx)
    (h : AdvOK b pre t.line) (ht : t.text ≠ rbrace)
    (hr : Exp (readNode u f (S c1 (pre ++ [t]) post)) (node, c2))
    (hlast : node.args.getLast? ≠ some rbrace) (hm : node.isMacro = false) (hs : node.isSnip = false)
    (hx : expandMacros c2.macros c2.line node = .ok node)
    (hk : Exp (nodesLoop u f c2 (res ++ [node]) true) X) :
    Exp (nodesLoop u (f + 1) (S c1 pre (t :: post)) res b) X := by
  rw [nodesLoop, advanceLine_S_cons c1 pre post t b h]
  simp only [bind_eq, Res.bind, Bool.false_eq_true, if_false]
  rw [S_val]
  have : (t.text == rbrace) = false := by simpa using ht
  simp only [this, Bool.false_eq_true, if_false]
  rcases hr with hr | hr
  · rw [hr]; exact Exp.fuel _
  · rw [hr]
    simp only [closeEdge_plain node c2 hlast, hm, hs, Bool.false_eq_true, if_false, hx]
    exact hk


theorem expandArgs_id (m : List (Str × List Str)) (l : Nat) : ∀ args : List Str, (∀ a ∈ args, argOK a = true) →
    expandArgs m l args = .ok args
  | [], _ => by simp [expandArgs]
  | a :: as, h => by
    have ha := h a (by simp)
    simp only [argOK, Bool.and_eq_true, Bool.not_eq_true', bne_iff_ne, ne_eq] at ha
    obtain ⟨⟨⟨⟨_, _⟩, h3⟩, h4⟩, _⟩ := ha
    unfold expandArgs
    simp only [h3, Bool.not_false, if_true, h4, Bool.false_eq_true, if_false, bind_eq, Res.bind,
      expandArgs_id m l as (fun x hx => h x (by simp [hx])), pure_eq]

mutual
theorem expandMacros_id (u : Uni) (m : List (Str × List Str)) (l : Nat) : ∀ (n : Node) (f L : Nat), PrintableN u n = true →
    expandMacros m l (relabelN f L n) = .ok (relabelN f L n)
  | .mk name args block ch sn ma _ _, f, L, h => by
    simp only [PrintableN, Bool.and_eq_true, List.all_eq_true] at h
    obtain ⟨⟨⟨⟨⟨⟨h1, h2⟩, _⟩, _⟩, _⟩, _⟩, h7⟩ := h
    simp only [nameOK, Bool.and_eq_true, Bool.not_eq_true'] at h1
    have hmr : isMacroRef name = false := by
      unfold isMacroRef; rw [h1.1.2]; simp
    unfold relabelN expandMacros
    simp only [hmr, Bool.false_eq_true, if_false, expandArgs_id m l args h2, bind_eq, Res.bind,
      expandMacrosList_id u m l ch f _ h7, pure_eq]
theorem expandMacrosList_id (u : Uni) (m : List (Str × List Str)) (l : Nat) : ∀ (ns : List Node) (f L : Nat), PrintableL u ns = true →
    expandMacrosList m l (relabelL f L ns) = .ok (relabelL f L ns)
  | [], f, L, _ => by simp [relabelL, expandMacrosList]
  | n :: ns, f, L, h => by
    simp only [PrintableL, Bool.and_eq_true] at h
    unfold relabelL expandMacrosList
    simp only [expandMacros_id u m l n f L h.1, bind_eq, Res.bind, expandMacrosList_id u m l ns f _ h.2, pure_eq]
end

theorem argToks_last : ∀ (as : List Str) (L : Nat) (pre : List Token) (cur : Token), cur.line + nl cur.text = L →
    ∃ init cur', pre ++ [cur] ++ (argToks L as).1 = init ++ [cur'] ∧ cur'.line + nl cur'.text = (argToks L as).2
  | [], L, pre, cur, h => ⟨pre, cur, by simp [argToks], by simpa [argToks] using h⟩
  | a :: as, L, pre, cur, _ => by
    obtain ⟨init, cur', e1, e2⟩ := argToks_last as (L + nl a) (pre ++ [cur]) ⟨L, a⟩ rfl
    exact ⟨init, cur', by simpa [argToks] using e1, by simpa [argToks] using e2⟩

theorem nodeToks_last : ∀ (n : Node) (L : Nat) (pre : List Token),
    ∃ init cur, pre ++ (nodeToks L n).1 = init ++ [cur] ∧ cur.line + nl cur.text + 1 = (nodeToks L n).2
  | .mk name args block ch sn ma f l, L, pre => by
    unfold nodeToks
    cases block
    · obtain ⟨init, cur, e1, e2⟩ := argToks_last args (L + nl name) pre ⟨L, name⟩ rfl
      refine ⟨init, cur, ?_, ?_⟩
      · simpa using e1
      · simp only [Bool.false_eq_true, if_false]; omega
    · refine ⟨pre ++ (⟨L, name⟩ :: (argToks (L + nl name) args).1 ++ [⟨(argToks (L + nl name) args).2, lbrace⟩] ++
          (listToks ((argToks (L + nl name) args).2 + 1) ch).1), ⟨(listToks ((argToks (L + nl name) args).2 + 1) ch).2, rbrace⟩, ?_, ?_⟩
      · simp
      · simp [nl, rbrace]


/-- what follows the tokens of a node list: end of input, or the closing brace of the block -/
def TailOK (c1 : Ctx) (pre' tail : List Token) (Lend : Nat) (res' : List Node) (X : List Node × Ctx) : Prop :=
  (tail = [] ∧ X = (res', S c1 pre' [])) ∨
  (∃ t post, tail = t :: post ∧ t.text = rbrace ∧ t.line = Lend ∧ 0 ≤ c1.nesting - 1 ∧
    X = (res', S { c1 with nesting := c1.nesting - 1 } (pre' ++ [t]) post))

theorem nodeToks_cons (n : Node) (L : Nat) : ∃ rest, (nodeToks L n).1 = ⟨L, n.name⟩ :: rest := by
  cases n with
  | mk name args block ch sn ma f l =>
    unfold nodeToks
    cases block <;> simp [Node.name]

theorem listToks_head (ns : List Node) (L : Nat) (tail : List Token)
    (ht : ∀ b ∈ tail.head?, b.line = (listToks L ns).2) : ∀ b ∈ ((listToks L ns).1 ++ tail).head?, b.line = L := by
  cases ns with
  | nil => simpa [listToks] using ht
  | cons n ns =>
    obtain ⟨rest, e⟩ := nodeToks_cons n L
    intro b hb
    simp [listToks, e] at hb
    rw [← hb]

theorem Ctx_nesting_restore (c0 : Ctx) : ({ c0 with nesting := c0.nesting + 1 - 1 } : Ctx) = c0 := by
  cases c0; simp

mutual
theorem readNode_print (u : Uni) : ∀ (n : Node) (c0 : Ctx) (pre rest post : List Token) (L k : Nat),
    PrintableN u n = true → c0.nesting = (k : Int) → checkNestingNode k n = none →
    (nodeToks L n).1 = ⟨L, n.name⟩ :: rest → (∀ b ∈ post.head?, b.line = (nodeToks L n).2) →
    ∀ f, Exp (readNode u f (S c0 (pre ++ [⟨L, n.name⟩]) (rest ++ post)))
      (relabelN c0.file L n, S c0 (pre ++ (nodeToks L n).1) post)
  | .mk name args block ch sn ma fl ln, c0, pre, rest, post, L, k, hp, hk, hck, hrest, hpost => by
    simp only [PrintableN, Bool.and_eq_true, List.all_eq_true, Bool.not_eq_true', Bool.or_eq_true] at hp
    obtain ⟨⟨⟨⟨⟨⟨hname, hargs⟩, hlast⟩, hsn⟩, hma⟩, hblk⟩, hch⟩ := hp
    subst hsn; subst hma
    have hname' := hname
    simp only [nameOK, Bool.and_eq_true, Bool.not_eq_true', bne_iff_ne, ne_eq, Option.isNone_iff_eq_none] at hname'
    obtain ⟨⟨⟨⟨⟨⟨⟨hv, _⟩, hnlb⟩, hnrb⟩, _⟩, hnsnip⟩, hnmac⟩, _⟩ := hname'
    simp only [lastOK, Bool.and_eq_true, bne_iff_ne, ne_eq] at hlast
    simp only [Node.name] at hrest ⊢
    apply readNode_step u (node := .mk name [] false [] false false c0.file L)
    · rw [S_val]; exact hnlb
    · rw [startNode_plain _ (by rw [S_val]; exact hnsnip), S_val, S_line]; rfl
    · -- the argument loop
      have hrest' : rest = (argToks (L + nl name) args).1 ++
          (if block then [⟨(argToks (L + nl name) args).2, lbrace⟩] ++ (listToks ((argToks (L + nl name) args).2 + 1) ch).1 ++
            [⟨(listToks ((argToks (L + nl name) args).2 + 1) ch).2, rbrace⟩] else []) := by
        unfold nodeToks at hrest
        cases block <;> simp at hrest ⊢ <;> exact hrest.symm
      rw [hrest', List.append_assoc]
      apply argLoop_args u c0 _ _ args (L + nl name) pre ⟨L, name⟩ _ rfl
      · intro a ha
        have := hargs a ha
        simp only [argOK, Bool.and_eq_true, bne_iff_ne, ne_eq] at this
        exact this.1.1.1.2
      · intro f' pre' cur' hl he
        have hnode : (Node.mk name [] false [] false false c0.file L).setArgs
            ((Node.mk name [] false [] false false c0.file L).args ++ args) = .mk name args false [] false false c0.file L := by
          simp [Node.setArgs, Node.args, Node.name, Node.block, Node.children, Node.isSnip, Node.isMacro, Node.file, Node.line]
        rw [hnode]
        cases block with
        | false =>
          have hch0 : ch = [] := by simpa using hblk
          subst hch0
          simp only [Bool.false_eq_true, if_false, List.nil_append]
          have hX : (relabelN c0.file L (.mk name args false [] false false fl ln), S c0 (pre ++ (nodeToks L (.mk name args false [] false false fl ln)).1) post) =
              ((Node.mk name args false [] false false c0.file L), S c0 (pre' ++ [cur']) post) := by
            simp only [relabelN, relabelL, nodeToks, Bool.false_eq_true, if_false, he]
            simp
          rw [hX]
          cases f' with
          | zero => rw [argLoop]; exact Exp.fuel _
          | succ f' =>
            rw [argLoop_stay u f' c0 pre' post cur' _ (by
              intro b hb
              have := hpost b hb
              simp only [nodeToks, Bool.false_eq_true, if_false] at this
              omega)]
            apply afterArgs_step u (by simpa [Node.args] using hlast.2)
            exact finishNode_plain u _ _ (by simpa [Node.name] using hnmac) rfl (by simpa [Node.name] using hv)
        | true =>
          simp only [if_true, List.append_assoc, List.cons_append, List.nil_append]
          cases f' with
          | zero => rw [argLoop]; exact Exp.fuel _
          | succ f' =>
            rw [argLoop_block u f' c0 pre' _ cur' ⟨(argToks (L + nl name) args).2, lbrace⟩ _ hl rfl]
            have hkk : ¬ k > 255 := by
              simp only [checkNestingNode, Bool.not_true, Bool.false_eq_true, if_false] at hck
              intro h; simp [h] at hck
            have hckl : checkNestingList (k + 1) ch = none := by
              simp only [checkNestingNode, Bool.not_true, Bool.false_eq_true, if_false, hkk] at hck
              exact hck
            apply Exp.bind (a := (relabelL c0.file ((argToks (L + nl name) args).2 + 1) ch,
              S c0 (pre' ++ [cur'] ++ [⟨(argToks (L + nl name) args).2, lbrace⟩] ++ (listToks ((argToks (L + nl name) args).2 + 1) ch).1 ++
                [⟨(listToks ((argToks (L + nl name) args).2 + 1) ch).2, rbrace⟩]) post))
            · apply readNodes_step u (by show ¬ c0.nesting > 255; omega)
              intro f2
              have := nodesLoop_print u ch { c0 with nesting := c0.nesting + 1 }
                (pre' ++ [cur'] ++ [⟨(argToks (L + nl name) args).2, lbrace⟩])
                (⟨(listToks ((argToks (L + nl name) args).2 + 1) ch).2, rbrace⟩ :: post)
                ((argToks (L + nl name) args).2 + 1) [] false (k + 1) hch (by show c0.nesting + 1 = ((k + 1 : Nat) : Int); omega) hckl
                (Or.inl rfl) _ (Or.inr ⟨_, post, rfl, rfl, rfl, by show 0 ≤ c0.nesting + 1 - 1; omega, rfl⟩) f2
              simp only [List.nil_append] at this
              rw [Ctx_nesting_restore] at this
              exact this
            · simp only
              have hX : (relabelN c0.file L (.mk name args true ch false false fl ln), S c0 (pre ++ (nodeToks L (.mk name args true ch false false fl ln)).1) post) =
                  ((Node.mk name args false [] false false c0.file L).setChildren true (relabelL c0.file ((argToks (L + nl name) args).2 + 1) ch),
                   S c0 (pre' ++ [cur'] ++ [⟨(argToks (L + nl name) args).2, lbrace⟩] ++ (listToks ((argToks (L + nl name) args).2 + 1) ch).1 ++
                    [⟨(listToks ((argToks (L + nl name) args).2 + 1) ch).2, rbrace⟩]) post) := by
                simp only [relabelN, nodeToks, if_true, he, Node.setChildren, Node.name, Node.args, Node.isSnip, Node.isMacro, Node.file, Node.line]
                simp
              rw [hX]
              apply afterArgs_step u (by simpa [Node.args, Node.setChildren] using hlast.2)
              exact finishNode_plain u _ _ (by simpa [Node.name, Node.setChildren] using hnmac) (by simp [Node.setChildren, Node.isSnip])
                (by simpa [Node.name, Node.setChildren] using hv)
theorem nodesLoop_print (u : Uni) : ∀ (ns : List Node) (c1 : Ctx) (pre tail : List Token) (L : Nat) (res : List Node) (b : Bool) (k : Nat),
    PrintableL u ns = true → c1.nesting = (k : Int) → checkNestingList k ns = none →
    AdvOK b pre L → ∀ X, TailOK c1 (pre ++ (listToks L ns).1) tail (listToks L ns).2 (res ++ relabelL c1.file L ns) X →
    ∀ f, Exp (nodesLoop u f (S c1 pre ((listToks L ns).1 ++ tail)) res b) X
  | [], c1, pre, tail, L, res, b, k, _, _, _, hadv, X, htail => by
    intro f
    cases f with
    | zero => rw [nodesLoop]; exact Exp.fuel _
    | succ f =>
      simp only [listToks, List.nil_append, List.append_nil, relabelL] at htail ⊢
      rcases htail with ⟨e1, e2⟩ | ⟨t, post, e1, e2, e3, e4, e5⟩
      · subst e1; subst e2
        apply Exp.of_eq
        apply nodesLoop_eof
        rcases hadv with h | ⟨pre', cur, e, _⟩
        · exact Or.inl h
        · exact Or.inr ⟨pre', cur, e⟩
      · subst e1; subst e5
        apply Exp.of_eq
        exact nodesLoop_close u f c1 pre post t res b (by rw [e3]; exact hadv) e2 e4
  | n :: ns, c1, pre, tail, L, res, b, k, hp, hk, hck, hadv, X, htail => by
    intro f
    cases f with
    | zero => rw [nodesLoop]; exact Exp.fuel _
    | succ f =>
      simp only [PrintableL, Bool.and_eq_true] at hp
      obtain ⟨rest, hrest⟩ := nodeToks_cons n L
      have hckn : checkNestingNode k n = none ∧ checkNestingList k ns = none := by
        simp only [checkNestingList] at hck
        split at hck
        · simp at hck
        · rename_i h; exact ⟨h, hck⟩
      have hpn := hp.1
      have hnm : n.name ≠ rbrace ∧ (relabelN c1.file L n).args.getLast? ≠ some rbrace ∧
          (relabelN c1.file L n).isMacro = false ∧ (relabelN c1.file L n).isSnip = false := by
        cases n with
        | mk name args block ch sn ma fl ln =>
          simp only [PrintableN, Bool.and_eq_true, Bool.not_eq_true'] at hpn
          obtain ⟨⟨⟨⟨⟨⟨hname, _⟩, hlast⟩, hsn⟩, hma⟩, _⟩, _⟩ := hpn
          simp only [nameOK, Bool.and_eq_true, bne_iff_ne, ne_eq] at hname
          simp only [lastOK, Bool.and_eq_true, bne_iff_ne, ne_eq] at hlast
          exact ⟨hname.1.1.1.1.2, by simpa [relabelN, Node.args] using hlast.1, by simpa [relabelN, Node.isMacro] using hma,
            by simpa [relabelN, Node.isSnip] using hsn⟩
      have htail_line : ∀ b ∈ tail.head?, b.line = (listToks (nodeToks L n).2 ns).2 := by
        intro b hb
        rcases htail with ⟨e1, _⟩ | ⟨t, post, e1, _, e3, _, _⟩
        · subst e1; simp at hb
        · subst e1; simp at hb; subst hb; simpa [listToks] using e3
      have hN := readNode_print u n c1 pre rest ((listToks (nodeToks L n).2 ns).1 ++ tail) L k hpn hk hckn.1 hrest
        (listToks_head ns _ tail htail_line) f
      obtain ⟨init, cur, el1, el2⟩ := nodeToks_last n L pre
      simp only [listToks, List.append_assoc]
      rw [hrest, List.cons_append]
      apply nodesLoop_node u f c1 pre _ ⟨L, n.name⟩ res b (relabelN c1.file L n) _ X hadv hnm.1 hN hnm.2.1 hnm.2.2.1 hnm.2.2.2
        (expandMacros_id u _ _ n _ _ hpn)
      have hfile : (S c1 (pre ++ (nodeToks L n).1) ((listToks (nodeToks L n).2 ns).1 ++ tail)).file = c1.file := rfl
      have := nodesLoop_print u ns c1 (pre ++ (nodeToks L n).1) tail (nodeToks L n).2 (res ++ [relabelN c1.file L n]) true k
        hp.2 hk hckn.2 (Or.inr ⟨init, cur, el1, by omega⟩) X (by
          simpa [listToks, relabelL, List.append_assoc] using htail) f
      exact this
end


/-! ### The stages after the block parser are the identity on expressible trees -/

mutual
theorem Printable_quotable (u : Uni) : ∀ n : Node, PrintableN u n = true → quotableN n = true
  | .mk name args block ch sn ma f l, h => by
    simp only [PrintableN, Bool.and_eq_true, List.all_eq_true] at h
    obtain ⟨⟨⟨⟨⟨⟨h1, h2⟩, _⟩, _⟩, _⟩, _⟩, h7⟩ := h
    simp only [nameOK, Bool.and_eq_true] at h1
    simp only [quotableN, Bool.and_eq_true, List.all_eq_true]
    refine ⟨⟨h1.1.1.1.2, ?_⟩, PrintableL_quotable u ch h7⟩
    intro a ha
    have := h2 a ha
    simp only [argOK, Bool.and_eq_true] at this
    exact this.1.1.1.1
theorem PrintableL_quotable (u : Uni) : ∀ ns : List Node, PrintableL u ns = true → quotableL ns = true
  | [], _ => by simp [quotableL]
  | n :: ns, h => by
    simp only [PrintableL, Bool.and_eq_true] at h
    simp only [quotableL, Bool.and_eq_true]
    exact ⟨Printable_quotable u n h.1, PrintableL_quotable u ns h.2⟩
end

mutual
theorem relabel_noimp (u : Uni) : ∀ (n : Node) (f L : Nat), PrintableN u n = true → NoImpN (relabelN f L n)
  | .mk name args block ch sn ma _ _, f, L, h => by
    simp only [PrintableN, Bool.and_eq_true] at h
    obtain ⟨⟨⟨⟨⟨⟨h1, _⟩, _⟩, _⟩, _⟩, _⟩, h7⟩ := h
    simp only [nameOK, Bool.and_eq_true, bne_iff_ne, ne_eq] at h1
    simp only [relabelN, NoImpN]
    exact ⟨h1.1.1.1.1.1.1.2, relabelL_noimp u ch f _ h7⟩
theorem relabelL_noimp (u : Uni) : ∀ (ns : List Node) (f L : Nat), PrintableL u ns = true → NoImpL (relabelL f L ns)
  | [], _, _, _ => by simp [relabelL, NoImpL]
  | n :: ns, f, L, h => by
    simp only [PrintableL, Bool.and_eq_true] at h
    simp only [relabelL, NoImpL]
    exact ⟨relabel_noimp u n f L h.1, relabelL_noimp u ns f _ h.2⟩
end

def rbraceCh : Char := '}'

mutual
/-- import expansion does nothing on an expressible tree (it has no `import` directive) -/
theorem impNode_id (u : Uni) (fs : Fs) (prev : Nat → Maps → Node → Nat → Res (Node × Maps)) (l : Nat) (m : Maps) :
    ∀ (n : Node) (f L d : Nat), PrintableN u n = true → impNode u fs prev l m (relabelN f L n) d = .ok (relabelN f L n, m)
  | .mk name args block ch sn ma _ _, f, L, d, h => by
    simp only [PrintableN, Bool.and_eq_true, Bool.or_eq_true] at h
    obtain ⟨⟨_, hblk⟩, h7⟩ := h
    unfold relabelN impNode
    cases block with
    | false => simp
    | true =>
      simp only [Bool.not_true, Bool.false_eq_true, if_false, bind_eq, Res.bind,
        impList_id u fs prev l m ch f _ d h7]
theorem impList_id (u : Uni) (fs : Fs) (prev : Nat → Maps → Node → Nat → Res (Node × Maps)) (l : Nat) (m : Maps) :
    ∀ (ns : List Node) (f L d : Nat), PrintableL u ns = true → impList u fs prev l m (relabelL f L ns) d = .ok (relabelL f L ns, false, m)
  | [], _, _, d, _ => by simp [relabelL, impList]
  | n :: ns, f, L, d, h => by
    simp only [PrintableL, Bool.and_eq_true] at h
    have hni : ((relabelN f L n).name == importName) = false := by
      have := (NoImpN_iff _).1 (relabel_noimp u n f L h.1)
      simpa using this.1
    unfold relabelL impList
    simp only [impNode_id u fs prev l m n f L (d + 1) h.1, bind_eq, Res.bind, hni, Bool.false_eq_true, if_false,
      impList_id u fs prev l m ns f _ d h.2]
end

mutual
theorem relabel_checkNesting : ∀ (n : Node) (f L k : Nat), checkNestingNode k (relabelN f L n) = none ↔ checkNestingNode k n = none
  | .mk name args block ch sn ma _ _, f, L, k => by
    simp only [relabelN, checkNestingNode]
    split
    · simp
    · split
      · simp
      · exact relabelL_checkNesting ch f _ (k + 1)
theorem relabelL_checkNesting : ∀ (ns : List Node) (f L k : Nat), checkNestingList k (relabelL f L ns) = none ↔ checkNestingList k ns = none
  | [], _, _, _ => by simp [relabelL, checkNestingList]
  | n :: ns, f, L, k => by
    simp only [relabelL, checkNestingList]
    have h1 := relabel_checkNesting n f L k
    have h2 := relabelL_checkNesting ns f (nodeToks L n).2 k
    cases ha : checkNestingNode k (relabelN f L n) <;> cases hb : checkNestingNode k n <;> simp_all
end

/-! ### Environment expansion is the identity on strings without `{env:` -/

theorem isPrefixOf_append_left : ∀ (a b s : Str), (a ++ b).isPrefixOf s = true → a.isPrefixOf s = true
  | [], _, _, _ => by simp
  | x :: a, b, [], h => by simp [List.isPrefixOf] at h
  | x :: a, b, y :: s, h => by
    simp only [List.cons_append, List.isPrefixOf, Bool.and_eq_true] at h ⊢
    exact ⟨h.1, isPrefixOf_append_left a b s h.2⟩

theorem replacerGo_noEnv (env : List (Str × Str)) : ∀ s : Str, hasInfix envPre s = false → replacerGo (envPairs env) 0 s = s
  | [], _ => by simp [replacerGo]
  | c :: cs, h => by
    simp only [hasInfix, Bool.or_eq_false_iff] at h
    have hfind : (envPairs env).find? (fun p => p.1.isPrefixOf (c :: cs)) = none := by
      rw [List.find?_eq_none]
      intro p hp
      simp only [envPairs, List.mem_map] at hp
      obtain ⟨kv, _, e⟩ := hp
      rw [← e]
      intro hpre
      have := isPrefixOf_append_left envPre (kv.1 ++ [rbraceCh]) (c :: cs) (by simpa [List.append_assoc, rbraceCh] using hpre)
      rw [h.1] at this
      exact absurd this (by simp)
    unfold replacerGo
    rw [hfind]
    simp only
    rw [replacerGo_noEnv env cs h.2]

theorem reRemove_noEnv : ∀ s : Str, hasInfix envPre s = false → reRemoveAllGo envPre rbraceCh 0 s = s
  | [], _ => by simp [reRemoveAllGo]
  | c :: cs, h => by
    simp only [hasInfix, Bool.or_eq_false_iff] at h
    have hm : reMatch envPre rbraceCh (c :: cs) = none := by
      unfold reMatch
      simp [h.1]
    unfold reRemoveAllGo
    rw [hm]
    simp only
    rw [reRemove_noEnv cs h.2]

theorem expandEnvStr_noEnv (env : List (Str × Str)) (s : Str) (h : hasInfix envPre s = false) : expandEnvStr env s = s := by
  unfold expandEnvStr removeUnexpandedEnvvars
  rw [replacerGo_noEnv env s h]
  exact reRemove_noEnv s h

mutual
theorem expandEnv_id (u : Uni) (env : List (Str × Str)) : ∀ (n : Node) (f L : Nat), PrintableN u n = true →
    expandEnvNode env (relabelN f L n) = relabelN f L n
  | .mk name args block ch sn ma _ _, f, L, h => by
    simp only [PrintableN, Bool.and_eq_true, List.all_eq_true] at h
    obtain ⟨⟨⟨⟨⟨⟨h1, h2⟩, _⟩, _⟩, _⟩, _⟩, h7⟩ := h
    simp only [nameOK, Bool.and_eq_true, Bool.not_eq_true'] at h1
    unfold relabelN expandEnvNode
    rw [expandEnvStr_noEnv env name h1.2, expandEnvL_id u env ch f _ h7]
    congr 1
    conv => rhs; rw [← List.map_id args]
    apply List.map_congr_left
    intro a ha
    have := h2 a ha
    simp only [argOK, Bool.and_eq_true, Bool.not_eq_true'] at this
    exact expandEnvStr_noEnv env a this.2
theorem expandEnvL_id (u : Uni) (env : List (Str × Str)) : ∀ (ns : List Node) (f L : Nat), PrintableL u ns = true →
    expandEnvList env (relabelL f L ns) = relabelL f L ns
  | [], _, _, _ => by simp [relabelL, expandEnvList]
  | n :: ns, f, L, h => by
    simp only [PrintableL, Bool.and_eq_true] at h
    unfold relabelL expandEnvList
    rw [expandEnv_id u env n f L h.1, expandEnvL_id u env ns f _ h.2]
end

/-! ### Parse ∘ print -/

theorem readNodes_print (u : Uni) (ns : List Node) (file : Nat) (hp : PrintableL u ns = true)
    (hck : checkNesting ns 0 = none) :
    readNodes u (parseFuel (listToks 1 ns).1.length) { toks := (listToks 1 ns).1, file := file } =
      .ok (relabelL file 1 ns, S { toks := (listToks 1 ns).1, nesting := 0, file := file } (listToks 1 ns).1 []) := by
  have hfuel := (parser_fuel u (parseFuel (listToks 1 ns).1.length)).2.2.2.2
    { toks := (listToks 1 ns).1, file := file } (by simp) (by simp [Ctx.len]; omega) (by intro p hp; simp at hp)
    (by rw [rem_init]; unfold parseFuel; omega)
  have hexp : Exp (readNodes u (parseFuel (listToks 1 ns).1.length) { toks := (listToks 1 ns).1, file := file })
      (relabelL file 1 ns, S { toks := (listToks 1 ns).1, nesting := 0, file := file } (listToks 1 ns).1 []) := by
    apply readNodes_step u (by simp)
    intro f
    have := nodesLoop_print u ns { toks := (listToks 1 ns).1, nesting := 0, file := file } [] [] 1 [] false 0 hp rfl hck
      (Or.inl rfl) _ (Or.inl ⟨rfl, rfl⟩) f
    simpa [S] using this
  rcases hexp with h | h
  · exact absurd h hfuel
  · exact h

/-- **Parse ∘ print**: for every expressible tree within the nesting limit, reading its canonical
text returns the same tree (names, arguments, block structure), located in the given file with the
line numbers of the canonical layout — in any environment and configuration directory. -/
theorem C20_parse_print_roundtrip (u : Uni) (fs : Fs) (env : List (Str × Str)) (ns : List Node)
    (hp : PrintableL u ns = true) (hck : checkNesting ns 0 = none) :
    Cfg.read u fs env (printList ns) = .ok (relabelL 0 1 ns) := by
  have hlex := C20_lex_print_roundtrip ns (PrintableL_quotable u ns hp)
  have hparse := readNodes_print u ns 0 hp hck
  unfold Cfg.read readTree readTreeWith
  rw [hlex, hparse]
  simp only [bind_eq, Res.bind]
  have hn : ¬ (S { toks := (listToks 1 ns).1, nesting := 0, file := 0 } (listToks 1 ns).1 []).nesting > 0 := by
    show ¬ (0 : Int) > 0; omega
  simp only [hn, if_false]
  have himp : expandImports u fs importGas
      (S { toks := (listToks 1 ns).1, nesting := 0, file := 0 } (listToks 1 ns).1 []).line
      ⟨(S { toks := (listToks 1 ns).1, nesting := 0, file := 0 } (listToks 1 ns).1 []).snippets,
       (S { toks := (listToks 1 ns).1, nesting := 0, file := 0 } (listToks 1 ns).1 []).macros, 0⟩
      (.mk [] [] true (relabelL 0 1 ns) false false 0 1) 0 =
      .ok (.mk [] [] true (relabelL 0 1 ns) false false 0 1, ⟨[], [], 0⟩) := by
    show impNode u fs (expandImports u fs 256) _ _ _ 0 = _
    unfold impNode
    simp only [Bool.not_true, Bool.false_eq_true, if_false, bind_eq, Res.bind, impList_id u fs _ _ _ ns 0 1 0 hp]
    rfl
  rw [himp]
  simp only [Node.children]
  have hck2 : checkNesting (relabelL 0 1 ns) 0 = none := by
    unfold checkNesting at *
    exact (relabelL_checkNesting ns 0 1 0).2 hck
  rw [hck2]
  simp only [expandEnvL_id u env ns 0 1 hp]

/-! ### Corollaries -/

mutual
/-- the tree without source positions -/
def stripN : Node → Node
  | .mk name args block ch sn ma _ _ => .mk name args block (stripL ch) sn ma 0 0
def stripL : List Node → List Node
  | [] => []
  | n :: ns => stripN n :: stripL ns
end

mutual
theorem strip_relabel : ∀ (n : Node) (f L : Nat), stripN (relabelN f L n) = stripN n
  | .mk name args block ch sn ma _ _, f, L => by simp only [relabelN, stripN, stripL_relabel ch f _]
theorem stripL_relabel : ∀ (ns : List Node) (f L : Nat), stripL (relabelL f L ns) = stripL ns
  | [], _, _ => by simp [relabelL, stripL]
  | n :: ns, f, L => by simp only [relabelL, stripL, strip_relabel n f L, stripL_relabel ns f _]
end

mutual
theorem print_relabel : ∀ (n : Node) (f L : Nat), printNode (relabelN f L n) = printNode n
  | .mk name args block ch sn ma _ _, f, L => by simp only [relabelN, printNode, printL_relabel ch f _]
theorem printL_relabel : ∀ (ns : List Node) (f L : Nat), printList (relabelL f L ns) = printList ns
  | [], _, _ => by simp [relabelL, printList]
  | n :: ns, f, L => by simp only [relabelL, printList, print_relabel n f L, printL_relabel ns f _]
end

/-- **Round trip, as the property states it**: printing an expressible tree and parsing the text
again yields the same tree (up to source positions). -/
theorem C20_roundtrip_same_tree (u : Uni) (fs : Fs) (env : List (Str × Str)) (ns : List Node)
    (hp : PrintableL u ns = true) (hck : checkNesting ns 0 = none) :
    ∃ ns', Cfg.read u fs env (printList ns) = .ok ns' ∧ stripL ns' = stripL ns ∧ printList ns' = printList ns :=
  ⟨relabelL 0 1 ns, C20_parse_print_roundtrip u fs env ns hp hck, stripL_relabel ns 0 1, printL_relabel ns 0 1⟩

/-- every tree `Read` returns is within the nesting limit, so an expressible returned tree can be
printed and read back (this is what the `fix:` for the nesting limit after import expansion buys). -/
theorem C20_parsed_trees_roundtrip (u : Uni) (hu : UniBrace u) (fs : Fs) (env : List (Str × Str)) (bs : List Nat)
    (ns : List Node) (h : readBytes u fs env bs = .ok ns) (hp : PrintableL u ns = true) (fs' : Fs) (env' : List (Str × Str)) :
    ∃ ns', Cfg.read u fs' env' (printList ns) = .ok ns' ∧ stripL ns' = stripL ns :=
  have hw := C20_output_wellformed u hu fs env bs ns h
  ⟨relabelL 0 1 ns, C20_parse_print_roundtrip u fs' env' ns hp hw.2.2.1, stripL_relabel ns 0 1⟩

/-! ## Non-vacuity -/

/-- ASCII letters and digits (what `unicode.IsLetter` / `IsDigit` say below U+0080) -/
def asciiUni : Uni where
  isLetter c := ('a' ≤ c && c ≤ 'z') || ('A' ≤ c && c ≤ 'Z')
  isDigit c := '0' ≤ c && c ≤ '9'

def noFs : Fs := fun _ => none

example : UniBrace asciiUni := ⟨by decide, by decide⟩

/-- a tree with a quoted argument containing a space, an escaped quote, a backslash pair and a
newline, a nested block and an empty block -/
def sampleTree : List Node :=
  [.mk "smtp".toList ["tcp://0.0.0.0:25".toList, "a \"b\" \\\\ c\nd".toList] true
      [.mk "check".toList [] true [.mk "spf".toList [] false [] false false 0 0] false false 0 0,
       .mk "limits".toList ["x".toList] true [] false false 7 7] false false 3 9,
   .mk "hostname".toList ["mx.example.org".toList] false [] false false 0 0]

example : PrintableL asciiUni sampleTree = true := by decide
example : checkNesting sampleTree 0 = none := by decide
example : quotable "a\\".toList = false := by decide
example : quotable "a\\\"".toList = false := by decide
example : quotable "a\\\\".toList = true := by decide
/-- …and such a token really is produced by the lexer from unquoted text: it is inexpressible in
the quoted syntax, which is why the round trip carries the hypothesis -/
example : lexAll "x a\\".toList = [⟨1, "x".toList⟩, ⟨1, "a\\".toList⟩] := by decide

/-- the model reads a configuration with a macro, a snippet, an import, an environment placeholder,
a comment, a line continuation and a quoted string (kernel evaluation of the executable model) -/
theorem C20_model_example :
    (match Cfg.read asciiUni noFs [("H".toList, "mx".toList)]
        "$(d) = example.org\n(s) {\n  deliver_to &q\n}\nsmtp {env:H} \\\n  x$(d)y { # c\n  import s\n  reject \"5 0\"\n}\n".toList with
      | .ok ns => printList ns
      | _ => []) =
      "\"smtp\" \"mx\" \"xexample.orgy\" {\n\"deliver_to\" \"&q\"\n\"reject\" \"5 0\"\n}\n".toList := by
  decide +kernel

/-- a macro whose declaration expands to no value, used inside a string: the crash that the first
`fix:` commit removed (the unfixed code indexed element 0 of the empty slice) now yields `xy` -/
theorem C20_empty_macro_in_string :
    (match Cfg.read asciiUni noFs [] "$(a) = $(b)\nn x$(a)y\n".toList with
      | .ok ns => printList ns
      | _ => []) = "\"n\" \"xy\"\n".toList := by
  decide +kernel

/-- a macro or snippet declaration that is the last thing in a block closed on the same line
(`x { $(m) = v }`, `y { (s) }`) is a declaration inside a block and is refused like one written on a line
of its own (fix 4; before it `readNodes` `continue`d past the `shouldStop` break and went on reading INSIDE
the closed block with `ctx.nesting` one too low: one level of recursion per such line, without any limit) -/
theorem C20_same_line_close_refused :
    (match Cfg.read asciiUni noFs [] "x { $(m) = v }\nz $(m)\n".toList with
      | .err k l => (k == ErrKind.macroNotTop) && l == 1
      | _ => false) = true ∧
    (match Cfg.read asciiUni noFs [] "y { (s) }\nz\n".toList with
      | .err k l => (k == ErrKind.snippetNotTop) && l == 1
      | _ => false) = true := by
  constructor <;> decide +kernel

/-- self-importing snippet: terminates with the import expansion limit error -/
theorem C20_self_import_terminates :
    (match Cfg.read asciiUni noFs [] "(s) {\n import s\n}\nimport s\n".toList with
      | .err k _ => k == ErrKind.importLimit
      | _ => false) = true := by
  decide +kernel

/-! ## Round 9: imports through files under every spelling; nested and spliced placeholders

The file system is the parameter `fs : Str → Option (Nat × Str)`, a function of the NAME as written in the
`import` directive: `main`, `main.conf`, `./main`, `../conf/main`, an absolute path are different
arguments of `fs` that may or may not answer with the same file. Every termination theorem above
(`expandImports_term`, `C20_terminates`, `C20_total`) is stated for every `fs`, i.e. for every way names
can be made to reach files — cycles through any spelling included. The statements below make the two facts
explicit on which that rests: an imported file is expanded ONE LEVEL DEEPER than the directive that
imports it (the counter crosses files), and at depth 256 an import is refused before anything is resolved. -/

/-- `resolveImport` on a file: the imported file's tree is read with `expansionDepth + 1`, whatever the
name, whether it was found directly or through the `.conf` fallback, and with the budget counter of the
importing context -/
theorem C20_file_import_one_deeper (u : Uni) (fs : Fs) (prev : Nat → Maps → Node → Nat → Res (Node × Maps))
    (m : Maps) (child : Node) (name : Str) (depth : Nat) (f : Nat × Str)
    (hs : lookup m.snippets name = none)
    (hf : fs name = some f ∨ (fs name = none ∧ fs (name ++ dotConf) = some f)) :
    resolveImport u fs prev m child name depth =
      (readTreeWith u prev f.2 f.1 (depth + 1) m.cnt >>= fun r =>
        .ok (r.1, ⟨r.2.snippets ++ m.snippets, r.2.macros ++ m.macros, r.2.cnt⟩)) := by
  unfold resolveImport
  rw [hs]
  rcases hf with h | ⟨h1, h2⟩
  · simp [h]
  · simp [h1, h2]

/-- an `import` directive met at expansion depth 256 or more is refused with the import limit error
before its argument is looked at: no snippet, no file, no name can get past it -/
theorem C20_import_at_depth_limit_refused (u : Uni) (fs : Fs) (prev : Nat → Maps → Node → Nat → Res (Node × Maps))
    (errLine : Nat) (m : Maps) (args : List Str) (ch : List Node) (sn ma : Bool) (f l : Nat) (rest : List Node)
    (depth : Nat) (h : depth > 255) :
    impList u fs prev errLine m (.mk importName args false ch sn ma f l :: rest) depth = .err .importLimit l := by
  rw [impList, impNode]
  simp [Bind.bind, Res.bind, Node.name, Node.line, h]

/-- a directory in which EVERY name (any spelling) answers with the same file, and that file imports `x`:
the longest possible chain. It ends with the import limit error. -/
def loopFs : Fs := fun _ => some (1, "w {\n import ./x\n}\n".toList)

theorem C20_file_cycle_any_name_terminates :
    (match Cfg.read asciiUni loopFs [] "import ../conf/main\n".toList with
      | .err k _ => k == ErrKind.importLimit
      | _ => false) = true := by
  decide +kernel

/-- the main file on disk as `main.conf`, imported as `main` (found through the `.conf` fallback only) -/
def mainConfFs : Fs := fun name =>
  if name == "main.conf".toList then some (0, "x 1\nimport main\n".toList) else none

theorem C20_self_import_without_extension_terminates :
    (match Cfg.read asciiUni mainConfFs [] "x 1\nimport main\n".toList with
      | .err k l => (k == ErrKind.importLimit) && l == 2
      | _ => false) = true := by
  decide +kernel

/-- two files importing each other, one by its full name and one without the extension, inside blocks -/
def twoFs : Fs := fun name =>
  if name == "a.conf".toList then some (1, "p {\n import b\n}\n".toList)
  else if name == "b.conf".toList then some (2, "q {\n import a.conf\n}\n".toList)
  else none

theorem C20_two_file_cycle_terminates :
    (match Cfg.read asciiUni twoFs [] "import a\n".toList with
      | .err k _ => k == ErrKind.importLimit
      | _ => false) = true := by
  decide +kernel

/-- placeholders nested in or spliced around each other: the clean-up takes everything from the first
`{env:` to the LAST `}` of the `$`-free stretch, so removing an inner placeholder can never leave the outer
halves to close up into a new one -/
theorem C20_nested_placeholders_removed :
    expandEnvStr [("H".toList, "v".toList)] "{env:{env:UNSET}H}".toList = [] ∧
    expandEnvStr [("H".toList, "v".toList)] "{e{env:UNSET}nv:H}".toList = "{e".toList ∧
    expandEnvStr [("H".toList, "v".toList)] "a{env:U{env:H}}b".toList = "ab".toList ∧
    expandEnvStr [("H".toList, "v".toList)] "{env:UNSET}-{env:H}".toList = "-v".toList ∧
    expandEnvStr [("H".toList, "v".toList)] "{env:UNSET}-{env:U2}".toList = [] ∧
    expandEnvStr [("H".toList, "v".toList)] "{env:UNSET}$-{env:H}".toList = "$-v".toList ∧
    expandEnvStr [] "{env:{env:{env:U}U2}H}x".toList = "x".toList := by
  decide +kernel

theorem reRemove_skip (pre : Str) (close : Char) : ∀ (xs rest : Str),
    reRemoveAllGo pre close xs.length (xs ++ rest) = reRemoveAllGo pre close 0 rest
  | [], rest => by simp
  | x :: xs, rest => by
    simp only [List.length_cons, List.cons_append]
    conv => lhs; unfold reRemoveAllGo
    exact reRemove_skip pre close xs rest

/-- `{env:` + body + `}` followed by text without `$` and `}`: the match runs to this LAST `}`, whatever the
body contains (braces, complete placeholders, halves of placeholders) as long as it has no `$` -/
theorem reMatch_env_span (body post : Str) (hn : body ≠ []) (hn1 : ∀ c ∈ body, c ≠ '$')
    (hp : ∀ c ∈ post, c ≠ '$' ∧ c ≠ '}') :
    reMatch envPre '}' (envPre ++ body ++ ['}'] ++ post) = some (body.length + 6, body) := by
  unfold reMatch
  have hpre : envPre.isPrefixOf (envPre ++ body ++ ['}'] ++ post) = true := by
    simp [envPre, List.isPrefixOf]
  rw [hpre]
  simp only [if_true]
  have hdrop : (envPre ++ body ++ ['}'] ++ post).drop envPre.length = body ++ '}' :: post := by
    simp [envPre]
  rw [hdrop]
  have htw : (body ++ '}' :: post).takeWhile (· != '$') = body ++ '}' :: post := by
    apply takeWhile_all
    intro c hc
    simp only [List.mem_append, List.mem_cons] at hc
    rcases hc with hc | hc | hc
    · simpa using hn1 c hc
    · subst hc; decide
    · simpa using (hp c hc).1
  rw [htw]
  have hlen : 1 ≤ body.length := by
    cases body with
    | nil => exact absurd rfl hn
    | cons _ _ => simp
  rw [lastIdx_last '}' post (fun x hx => (hp x hx).2) body 0 (by omega)]
  simp only [Nat.zero_add]
  have : (body ++ '}' :: post).take body.length = body := by simp
  rw [this]
  simp [envPre]; omega

theorem reRemove_noClose : ∀ s : Str, (∀ c ∈ s, c ≠ '}') → reRemoveAllGo envPre '}' 0 s = s
  | [], _ => by simp [reRemoveAllGo]
  | c :: cs, h => by
    have hm : reMatch envPre '}' (c :: cs) = none := by
      unfold reMatch
      have hl : lastIdxFrom1 '}' 0 (List.takeWhile (fun x => x != '$') (List.drop envPre.length (c :: cs))) = none := by
        apply lastIdx_none
        intro x hx
        have h1 := (List.takeWhile_prefix _).subset hx
        have h2 := List.mem_of_mem_drop h1
        exact h x h2
      split
      · simp only [hl]
      · rfl
    unfold reRemoveAllGo
    rw [hm]
    simp only
    rw [reRemove_noClose cs (fun x hx => h x (by simp [hx]))]

/-- **nested and spliced placeholders vanish as a whole.** Text without `{`, then `{env:`, then ANY
non-empty `$`-free body — it may contain complete placeholders, `{env:` halves, braces —, the closing
`}`, then text without `$` and `}`: the clean-up of unset placeholders returns exactly the two outer
texts. Removing an inner placeholder first and letting the rest close up into a new placeholder
(`{env:{env:UNSET}HOME}` ↦ `{env:HOME}`) is not something this function can do. -/
theorem C20_placeholder_span_removed (pre body post : Str) (hpre : ∀ c ∈ pre, c ≠ '{')
    (hn : body ≠ []) (hn1 : ∀ c ∈ body, c ≠ '$') (hp : ∀ c ∈ post, c ≠ '$' ∧ c ≠ '}') :
    removeUnexpandedEnvvars (pre ++ (envPre ++ body ++ ['}'] ++ post)) = pre ++ post := by
  unfold removeUnexpandedEnvvars
  induction pre with
  | nil =>
    simp only [List.nil_append]
    have hm := reMatch_env_span body post hn hn1 hp
    have hshape : envPre ++ body ++ ['}'] ++ post = '{' :: ("env:".toList ++ body ++ ['}']) ++ post := by simp [envPre]
    rw [hshape] at hm ⊢
    simp only [List.cons_append] at hm ⊢
    unfold reRemoveAllGo
    rw [hm]
    simp only
    have hskip := reRemove_skip envPre '}' ("env:".toList ++ body ++ ['}']) post
    have hl : ("env:".toList ++ body ++ ['}']).length = body.length + 6 - 1 := by simp
    rw [hl] at hskip
    simp only [List.append_assoc, List.cons_append, List.nil_append] at hskip ⊢
    rw [hskip]
    exact reRemove_noClose post (fun c hc => (hp c hc).2)
  | cons c cs ih =>
    have hc : c ≠ '{' := hpre c (by simp)
    have hm : reMatch envPre '}' (c :: (cs ++ (envPre ++ body ++ ['}'] ++ post))) = none := by
      unfold reMatch
      have : envPre.isPrefixOf (c :: (cs ++ (envPre ++ body ++ ['}'] ++ post))) = false := by
        simp [envPre, List.isPrefixOf]
        intro h1; exact absurd h1.symm hc
      rw [this]
      simp
    simp only [List.cons_append]
    unfold reRemoveAllGo
    rw [hm]
    simp only
    rw [ih (fun x hx => hpre x (by simp [hx]))]

example : removeUnexpandedEnvvars "x={env:{env:UNSET}HOME}/y".toList = "x=/y".toList :=
  C20_placeholder_span_removed "x=".toList "{env:UNSET}HOME".toList "/y".toList (by decide) (by decide) (by decide) (by decide)

/-! ### No placeholder is left: the general statement -/

/-- `Dfree s`: no `$` in `s` -/
def Dfree (s : Str) : Prop := ∀ c ∈ s, c ≠ '$'

/-- a complete placeholder stands at the start of `t`: `{env:`, a non-empty `$`-free name, `}` -/
def PlaceholderAt (t : Str) : Prop :=
  ∃ body rest, body ≠ [] ∧ Dfree body ∧ t = envPre ++ body ++ '}' :: rest

/-- `Safe x`: the `$`-free stretch at the start of `x` holds no `}` -/
def SafeRun (x : Str) : Prop := ∀ body rest, Dfree body → x ≠ body ++ '}' :: rest

theorem lastIdx_some_of_mem (c : Char) : ∀ (xs : Str) (i : Nat), 1 ≤ i → c ∈ xs → lastIdxFrom1 c i xs ≠ none
  | [], _, _, h => by simp at h
  | x :: xs, i, hi, h => by
    unfold lastIdxFrom1
    cases hr : lastIdxFrom1 c (i + 1) xs with
    | some q => simp
    | none =>
      simp only
      have hx : c ∉ xs := fun hm => lastIdx_some_of_mem c xs (i + 1) (by omega) hm hr
      have : x = c := by
        rcases List.mem_cons.mp h with h | h
        · exact h.symm
        · exact absurd h hx
      simp [this, hi]

theorem lastIdx_spec (c : Char) : ∀ (xs : Str) (i p : Nat), lastIdxFrom1 c i xs = some p →
    ∃ a b, xs = a ++ c :: b ∧ p = i + a.length ∧ (∀ x ∈ b, x ≠ c) ∧ 1 ≤ p
  | [], _, _, h => by simp [lastIdxFrom1] at h
  | x :: xs, i, p, h => by
    unfold lastIdxFrom1 at h
    cases hr : lastIdxFrom1 c (i + 1) xs with
    | some q =>
      rw [hr] at h
      simp only [Option.some.injEq] at h
      subst h
      obtain ⟨a, b, h1, h2, h3, h4⟩ := lastIdx_spec c xs (i + 1) q hr
      exact ⟨x :: a, b, by simp [h1], by simp [h2]; omega, h3, h4⟩
    | none =>
      rw [hr] at h
      simp only at h
      by_cases hx : (x == c && decide (i ≥ 1)) = true
      · rw [if_pos hx] at h
        simp only [Option.some.injEq] at h
        subst h
        simp only [Bool.and_eq_true, beq_iff_eq, decide_eq_true_eq] at hx
        refine ⟨[], xs, by simp [hx.1], by simp, ?_, hx.2⟩
        intro y hy hyc
        subst hyc
        exact lastIdx_some_of_mem y xs (i + 1) (by omega) hy hr
      · rw [if_neg hx] at h
        simp at h


theorem dropWhile_head {p : Char → Bool} : ∀ (d : Str) (e0 : Char) (e' : Str), d.dropWhile p = e0 :: e' → p e0 = false
  | [], _, _, h => by simp at h
  | x :: xs, e0, e', h => by
    by_cases hx : p x = true
    · rw [List.dropWhile_cons_of_pos hx] at h
      exact dropWhile_head xs e0 e' h
    · rw [List.dropWhile_cons_of_neg hx] at h
      simp only [List.cons.injEq] at h
      rw [← h.1]; simpa using hx

theorem mem_takeWhile_sat {p : Char → Bool} : ∀ (l : Str) (c : Char), c ∈ l.takeWhile p → p c = true
  | [], _, h => by simp at h
  | x :: xs, c, h => by
    by_cases hx : p x = true
    · rw [List.takeWhile_cons_of_pos hx] at h
      rcases List.mem_cons.mp h with h | h
      · rw [h]; exact hx
      · exact mem_takeWhile_sat xs c h
    · rw [List.takeWhile_cons_of_neg hx] at h
      simp at h

theorem takeWhile_append_all {p : Char → Bool} : ∀ (a l : Str), (∀ c ∈ a, p c = true) →
    (a ++ l).takeWhile p = a ++ l.takeWhile p
  | [], _, _ => rfl
  | x :: a, l, h => by
    simp only [List.cons_append, List.takeWhile, h x (by simp)]
    rw [takeWhile_append_all a l (fun c hc => h c (by simp [hc]))]

theorem safeRun_after (b dw : Str) (hb : ∀ x ∈ b, x ≠ '}') (hdw : ∀ e0 e', dw = e0 :: e' → e0 = '$') :
    SafeRun (b ++ dw) := by
  intro body rest hbody heq
  rcases List.append_eq_append_iff.mp heq with ⟨a', h1, h2⟩ | ⟨c', h1, h2⟩
  · -- body = b ++ a', dw = a' ++ '}' :: rest
    cases a' with
    | nil =>
      have := hdw '}' rest (by simpa using h2)
      exact absurd this (by decide)
    | cons x a'' =>
      have hx := hdw x (a'' ++ '}' :: rest) (by simpa using h2)
      exact hbody x (by rw [h1]; simp) hx
  · cases c' with
    | nil =>
      have := hdw '}' rest (by simpa using h2.symm)
      exact absurd this (by decide)
    | cons y c'' =>
      simp only [List.cons_append, List.cons.injEq] at h2
      exact hb y (by rw [h1]; simp) h2.1.symm

/-- what a match of the clean-up pattern is: `{env:` + non-empty `$`-free body + `}`, taken up to the LAST `}`
of the `$`-free stretch — what follows the match has no `}` before its first `$` -/
theorem reMatch_env_some (t : Str) (n : Nat) (g : Str) (h : reMatch envPre '}' t = some (n, g)) :
    ∃ body rest, body ≠ [] ∧ Dfree body ∧ t = envPre ++ body ++ '}' :: rest ∧ n = body.length + 6 ∧ SafeRun rest := by
  unfold reMatch at h
  by_cases hp : envPre.isPrefixOf t = true
  · rw [if_pos hp] at h
    obtain ⟨d, hd⟩ := List.isPrefixOf_iff_prefix.mp hp
    subst hd
    have hdrop : (envPre ++ d).drop envPre.length = d := by simp
    rw [hdrop] at h
    simp only at h
    cases hl : lastIdxFrom1 '}' 0 (d.takeWhile (· != '$')) with
    | none => rw [hl] at h; simp at h
    | some p =>
      rw [hl] at h
      simp only [Option.some.injEq, Prod.mk.injEq] at h
      obtain ⟨a, b, h1, h2, h3, h4⟩ := lastIdx_spec '}' _ 0 p hl
      have hsplit : d = d.takeWhile (· != '$') ++ d.dropWhile (· != '$') := (List.takeWhile_append_dropWhile).symm
      have hall : ∀ c ∈ d.takeWhile (· != '$'), c ≠ '$' := by
        intro c hc
        have := mem_takeWhile_sat _ c hc
        simpa using this
      refine ⟨a, b ++ d.dropWhile (· != '$'), ?_, ?_, ?_, ?_, ?_⟩
      · intro ha; subst ha; simp at h2; omega
      · intro c hc; exact hall c (by rw [h1]; simp [hc])
      · conv => lhs; rw [hsplit, h1]
        simp
      · rw [← h.1, h2]; simp [envPre]; omega
      · apply safeRun_after b _ h3
        intro e0 e' he
        have := dropWhile_head d e0 e' he
        simpa using this
  · rw [if_neg hp] at h; simp at h

theorem reMatch_env_of_placeholder (t : Str) (h : PlaceholderAt t) : reMatch envPre '}' t ≠ none := by
  obtain ⟨body, rest, hne, hfree, ht⟩ := h
  subst ht
  unfold reMatch
  have hpre : envPre.isPrefixOf (envPre ++ body ++ '}' :: rest) = true := by
    simp [envPre, List.isPrefixOf]
  rw [if_pos hpre]
  have hdrop : (envPre ++ body ++ '}' :: rest).drop envPre.length = body ++ '}' :: rest := by simp [envPre]
  rw [hdrop]
  simp only
  have htw : (body ++ '}' :: rest).takeWhile (· != '$') = body ++ ('}' :: rest).takeWhile (· != '$') :=
    takeWhile_append_all body _ (fun c hc => by simpa using hfree c hc)
  rw [htw]
  cases body with
  | nil => exact absurd rfl hne
  | cons b0 body' =>
    have hmem : '}' ∈ body' ++ ('}' :: rest).takeWhile (· != '$') := by
      simp [List.takeWhile]
    have hs := lastIdx_some_of_mem '}' _ 1 (by omega) hmem
    simp only [List.cons_append]
    unfold lastIdxFrom1
    cases hl : lastIdxFrom1 '}' (0 + 1) (body' ++ ('}' :: rest).takeWhile (· != '$')) with
    | none => exact absurd hl hs
    | some q => simp


theorem reRemove_drop (pre : Str) (close : Char) : ∀ (k : Nat) (s : Str),
    reRemoveAllGo pre close k s = reRemoveAllGo pre close 0 (s.drop k)
  | 0, s => by simp
  | k + 1, [] => by simp [reRemoveAllGo]
  | k + 1, x :: xs => by
    conv => lhs; unfold reRemoveAllGo
    simp only [List.drop_succ_cons]
    exact reRemove_drop pre close k xs

theorem cleanup_nomatch (c : Char) (cs : Str) (h : reMatch envPre '}' (c :: cs) = none) :
    removeUnexpandedEnvvars (c :: cs) = c :: removeUnexpandedEnvvars cs := by
  unfold removeUnexpandedEnvvars
  conv => lhs; unfold reRemoveAllGo
  rw [h]

theorem cleanup_match (c : Char) (cs : Str) (n : Nat) (g : Str) (h : reMatch envPre '}' (c :: cs) = some (n, g)) (hn : 1 ≤ n) :
    removeUnexpandedEnvvars (c :: cs) = removeUnexpandedEnvvars ((c :: cs).drop n) := by
  unfold removeUnexpandedEnvvars
  conv => lhs; unfold reRemoveAllGo
  rw [h]
  simp only
  rw [reRemove_drop]
  obtain ⟨m, rfl⟩ : ∃ m, n = m + 1 := ⟨n - 1, by omega⟩
  simp

theorem placeholderAt_append (u y : Str) (h : PlaceholderAt u) : PlaceholderAt (u ++ y) := by
  obtain ⟨body, rest, h1, h2, h3⟩ := h
  exact ⟨body, rest ++ y, h1, h2, by rw [h3]; simp⟩

theorem dfree_envPre : Dfree envPre := by
  intro c hc
  simp [envPre] at hc
  rcases hc with h | h | h | h | h <;> (subst h; decide)

theorem placeholderAt_of_safe (u x : Str) (hx : SafeRun x) (h : PlaceholderAt (u ++ x)) : PlaceholderAt u := by
  obtain ⟨body, rest, h1, h2, h3⟩ := h
  have h3' : u ++ x = (envPre ++ body) ++ '}' :: rest := by rw [h3]
  have hw : Dfree (envPre ++ body) := by
    intro c hc
    rcases List.mem_append.mp hc with hc | hc
    · exact dfree_envPre c hc
    · exact h2 c hc
  rcases List.append_eq_append_iff.mp h3' with ⟨a', ha1, ha2⟩ | ⟨c', hc1, hc2⟩
  · -- envPre ++ body = u ++ a', x = a' ++ '}' :: rest
    exfalso
    exact hx a' rest (fun c hc => hw c (by rw [ha1]; simp [hc])) ha2
  · -- u = envPre ++ body ++ c', '}' :: rest = c' ++ x
    cases c' with
    | nil =>
      exfalso
      exact hx [] rest (fun c hc => by simp at hc) (by simpa using hc2.symm)
    | cons y c'' =>
      simp only [List.cons_append, List.cons.injEq] at hc2
      refine ⟨body, c'', h1, h2, ?_⟩
      rw [hc1, ← hc2.1]

theorem safeRun_dollar (cs : Str) : SafeRun ('$' :: cs) := by
  intro body rest hb heq
  cases body with
  | nil => simp at heq
  | cons b0 body' =>
    simp only [List.cons_append, List.cons.injEq] at heq
    exact hb b0 (by simp) heq.1.symm

theorem safeRun_tail (c : Char) (cs : Str) (hc : c ≠ '$') (h : SafeRun (c :: cs)) : SafeRun cs := by
  intro body rest hb heq
  apply h (c :: body) rest
  · intro x hx
    rcases List.mem_cons.mp hx with hx | hx
    · rw [hx]; exact hc
    · exact hb x hx
  · rw [heq]; simp

theorem safeRun_nomatch (x : Str) (h : SafeRun x) : reMatch envPre '}' x = none := by
  cases hm : reMatch envPre '}' x with
  | none => rfl
  | some r =>
    obtain ⟨body, rest, h1, h2, h3, _, _⟩ := reMatch_env_some x r.1 r.2 hm
    exfalso
    apply h (envPre ++ body) rest
    · intro c hc
      rcases List.mem_append.mp hc with hc | hc
      · exact dfree_envPre c hc
      · exact h2 c hc
    · rw [h3]

theorem safeRun_cleanup : ∀ x : Str, SafeRun x → SafeRun (removeUnexpandedEnvvars x)
  | [], h => by simpa [removeUnexpandedEnvvars, reRemoveAllGo] using h
  | c :: cs, h => by
    rw [cleanup_nomatch c cs (safeRun_nomatch _ h)]
    by_cases hc : c = '$'
    · subst hc; exact safeRun_dollar _
    · have ih := safeRun_cleanup cs (safeRun_tail c cs hc h)
      intro body rest hb heq
      cases body with
      | nil =>
        simp only [List.nil_append, List.cons.injEq] at heq
        exact h [] cs (fun x hx => by simp at hx) (by rw [heq.1]; simp)
      | cons b0 body' =>
        simp only [List.cons_append, List.cons.injEq] at heq
        exact ih body' rest (fun x hx => hb x (by simp [hx])) heq.2

/-- the output of the clean-up starts with a piece of the input that was copied, followed by text whose
`$`-free stretch holds no `}` -/
theorem cleanup_shape : ∀ cs : Str, ∃ u y x, cs = u ++ y ∧ removeUnexpandedEnvvars cs = u ++ x ∧ SafeRun x
  | [] => ⟨[], [], [], by simp, by simp [removeUnexpandedEnvvars, reRemoveAllGo], by
      intro body rest _ h; simp at h⟩
  | c :: cs => by
    cases hm : reMatch envPre '}' (c :: cs) with
    | none =>
      obtain ⟨u, y, x, h1, h2, h3⟩ := cleanup_shape cs
      exact ⟨c :: u, y, x, by rw [h1]; simp, by rw [cleanup_nomatch c cs hm, h2]; simp, h3⟩
    | some r =>
      obtain ⟨body, rest, _, _, h3, h4, h5⟩ := reMatch_env_some (c :: cs) r.1 r.2 hm
      refine ⟨[], c :: cs, removeUnexpandedEnvvars rest, by simp, ?_, safeRun_cleanup rest h5⟩
      rw [cleanup_match c cs r.1 r.2 hm (by omega)]
      have : (c :: cs).drop r.1 = rest := by
        rw [h3, h4]
        have : (envPre ++ body ++ '}' :: rest) = (envPre ++ body ++ ['}']) ++ rest := by simp
        rw [this]
        have hl : (envPre ++ body ++ ['}']).length = body.length + 6 := by simp [envPre]
        rw [← hl]
        simp
      rw [this]; simp

/-- **no placeholder is left.** Whatever the input — placeholders nested in each other, halves of a
placeholder around another one, any number of levels —, no complete placeholder (`{env:`, a non-empty
`$`-free name, `}`) stands anywhere in what the clean-up of unset placeholders returns. -/
theorem C20_no_placeholder_residue_aux : ∀ (n : Nat) (s : Str), s.length ≤ n →
    ∀ t, t <:+ removeUnexpandedEnvvars s → ¬ PlaceholderAt t
  | _, [], _, t, ht, hp => by
    have : t = [] := by simpa [removeUnexpandedEnvvars, reRemoveAllGo] using ht
    subst this
    obtain ⟨body, rest, _, _, h⟩ := hp
    simp [envPre] at h
  | 0, c :: cs, hl, _, _, _ => by simp at hl
  | n + 1, c :: cs, hl, t, ht, hp => by
    cases hm : reMatch envPre '}' (c :: cs) with
    | none =>
      rw [cleanup_nomatch c cs hm] at ht
      rcases List.suffix_cons_iff.mp ht with h | h
      · subst h
        obtain ⟨u, y, x, h1, h2, h3⟩ := cleanup_shape cs
        rw [h2] at hp
        have hp' : PlaceholderAt ((c :: u) ++ x) := by simpa using hp
        have hu := placeholderAt_of_safe (c :: u) x h3 hp'
        have hcs := placeholderAt_append (c :: u) y hu
        have : (c :: u) ++ y = c :: cs := by rw [h1]; simp
        rw [this] at hcs
        exact reMatch_env_of_placeholder _ hcs hm
      · exact C20_no_placeholder_residue_aux n cs (by simp at hl; omega) t h hp
    | some r =>
      obtain ⟨body, rest, _, _, h3, h4, _⟩ := reMatch_env_some (c :: cs) r.1 r.2 hm
      rw [cleanup_match c cs r.1 r.2 hm (by omega)] at ht
      refine C20_no_placeholder_residue_aux n ((c :: cs).drop r.1) ?_ t ht hp
      simp only [List.length_drop, List.length_cons] at hl ⊢
      omega

theorem C20_no_placeholder_residue (s t : Str) (ht : t <:+ removeUnexpandedEnvvars s) : ¬ PlaceholderAt t :=
  C20_no_placeholder_residue_aux s.length s (Nat.le_refl _) t ht

/-- … and therefore in no string `expandEnvStr` returns, for every environment (values that contain
placeholder text included: the clean-up runs after the replacement) -/
theorem C20_expandEnvStr_no_placeholder (env : List (Str × Str)) (s t : Str) (ht : t <:+ expandEnvStr env s) :
    ¬ PlaceholderAt t :=
  C20_no_placeholder_residue _ t ht

/-- no complete placeholder anywhere in the string -/
def NoPh (s : Str) : Prop := ∀ t, t <:+ s → ¬ PlaceholderAt t

mutual
def NoPhN : Node → Prop
  | .mk name args _ ch _ _ _ _ => NoPh name ∧ (∀ a ∈ args, NoPh a) ∧ NoPhL ch
def NoPhL : List Node → Prop
  | [] => True
  | n :: ns => NoPhN n ∧ NoPhL ns
end

mutual
theorem expandEnv_noPh (env : List (Str × Str)) : ∀ n : Node, NoPhN (expandEnvNode env n)
  | .mk name args block ch sn ma f l => by
    unfold expandEnvNode
    unfold NoPhN
    refine ⟨fun t ht => C20_expandEnvStr_no_placeholder env name t ht, ?_, expandEnvL_noPh env ch⟩
    intro a ha
    obtain ⟨a0, _, rfl⟩ := List.mem_map.mp ha
    exact fun t ht => C20_expandEnvStr_no_placeholder env a0 t ht
theorem expandEnvL_noPh (env : List (Str × Str)) : ∀ ns : List Node, NoPhL (expandEnvList env ns)
  | [] => by simp [expandEnvList, NoPhL]
  | n :: ns => by
    unfold expandEnvList
    unfold NoPhL
    exact ⟨expandEnv_noPh env n, expandEnvL_noPh env ns⟩
end

/-- **every tree `Read` returns is free of environment placeholders**: no directive name and no argument,
at any depth, wherever it came from (main file, snippet body, imported file, macro value), contains
`{env:` + a non-empty `$`-free name + `}` — for every input, directory and environment. -/
theorem C20_no_placeholder_in_tree (u : Uni) (fs : Fs) (env : List (Str × Str)) (bs : List Nat) (ns : List Node)
    (h : readBytes u fs env bs = .ok ns) : NoPhL ns := by
  unfold readBytes Cfg.read at h
  cases hr : readTree u fs (decodeUtf8 bs) with
  | ok r =>
    rw [hr] at h
    simp only [Bind.bind, Res.bind, Res.ok.injEq] at h
    rw [← h]
    exact expandEnvL_noPh env r.1
  | err k l => rw [hr] at h; simp [Bind.bind, Res.bind] at h
  | panic => rw [hr] at h; simp [Bind.bind, Res.bind] at h
  | fuel => rw [hr] at h; simp [Bind.bind, Res.bind] at h

/-- the hypothesis-free statement is not vacuous: `{env:HOME}` is a placeholder, and the nested input of the
reviewers comes out without one -/
example : PlaceholderAt "{env:HOME}/x".toList := ⟨"HOME".toList, "/x".toList, by decide, by intro c hc; simp at hc; rcases hc with h | h | h | h <;> (subst h; decide), by decide⟩

/-- placeholders in a snippet body and in an imported file are expanded wherever the snippet is imported:
`Read` expands the environment on the finished tree, after import expansion -/
def envFs : Fs := fun name =>
  if name == "lib".toList then some (1, "(fs) {\n c {env:H}\n}\nd {env:H}{env:U}\n".toList) else none

theorem C20_placeholders_in_snippets_and_files_expanded :
    (match Cfg.read asciiUni envFs [("H".toList, "v".toList)]
        "(s) {\n a {env:H} x{env:U}y \"{env:{env:U}H}\"\n}\nimport s\nb {\n import s\n import lib\n import fs\n}\n".toList with
      | .ok ns => printList ns
      | _ => []) =
      "\"a\" \"v\" \"xy\" \"\"\n\"b\" {\n\"a\" \"v\" \"xy\" \"\"\n\"d\" \"v\"\n\"c\" \"v\"\n}\n".toList := by
  decide +kernel


/-! ## UTF-8: decoding the encoding of a character list gives it back -/

/-- `utf8.EncodeRune` / `string(rune)` for a Unicode scalar value -/
def encodeChar (c : Char) : List Nat :=
  let n := c.toNat
  if n < 0x80 then [n]
  else if n < 0x800 then [0xC0 + n / 64, 0x80 + n % 64]
  else if n < 0x10000 then [0xE0 + n / 4096, 0x80 + (n / 64) % 64, 0x80 + n % 64]
  else [0xF0 + n / 262144, 0x80 + (n / 4096) % 64, 0x80 + (n / 64) % 64, 0x80 + n % 64]

def encodeUtf8 (s : Str) : List Nat := s.flatMap encodeChar

theorem char_range (c : Char) : c.toNat < 0xD800 ∨ (0xDFFF < c.toNat ∧ c.toNat < 0x110000) := by
  have := c.valid
  simp only [UInt32.isValidChar, Nat.isValidChar] at this
  exact this

theorem mkChar_toNat (c : Char) : mkChar c.toNat = c := by
  unfold mkChar
  have : c.toNat.isValidChar := by
    have := char_range c
    simp only [Nat.isValidChar]; omega
  simp [this, Char.ofNat_toNat]

theorem decodeRune_encodeChar (c : Char) (rest : List Nat) :
    decodeRune (encodeChar c ++ rest) = (c, (encodeChar c).length) := by
  have hr := char_range c
  unfold encodeChar
  simp only
  by_cases h1 : c.toNat < 0x80
  · simp only [h1, if_true, List.cons_append, List.nil_append, decodeRune, List.length_cons, List.length_nil]
    rw [mkChar_toNat]
  · by_cases h2 : c.toNat < 0x800
    · simp only [h1, h2, if_true, if_false, List.cons_append, List.nil_append, decodeRune, List.length_cons, List.length_nil]
      have a1 : ¬ 0xC0 + c.toNat / 64 < 0x80 := by omega
      have a2 : ¬ 0xC0 + c.toNat / 64 < 0xC2 := by omega
      have a3 : 0xC0 + c.toNat / 64 < 0xE0 := by omega
      have a4 : isCont (0x80 + c.toNat % 64) = true := by simp [isCont]; omega
      have a5 : (0xC0 + c.toNat / 64 - 0xC0) * 64 + (0x80 + c.toNat % 64 - 0x80) = c.toNat := by omega
      simp only [a1, a2, a3, a4, a5, if_true, if_false, mkChar_toNat]
    · by_cases h3 : c.toNat < 0x10000
      · simp only [h1, h2, h3, if_true, if_false, List.cons_append, List.nil_append, decodeRune, List.length_cons, List.length_nil]
        have a1 : ¬ 0xE0 + c.toNat / 4096 < 0x80 := by omega
        have a2 : ¬ 0xE0 + c.toNat / 4096 < 0xC2 := by omega
        have a3 : ¬ 0xE0 + c.toNat / 4096 < 0xE0 := by omega
        have a4 : 0xE0 + c.toNat / 4096 < 0xF0 := by omega
        have a5 : isCont (0x80 + c.toNat % 64) = true := by simp [isCont]; omega
        have a6 : ((if (0xE0 + c.toNat / 4096 == 0xE0) = true then 0xA0 else 0x80) ≤ 0x80 + c.toNat / 64 % 64 &&
            0x80 + c.toNat / 64 % 64 ≤ (if (0xE0 + c.toNat / 4096 == 0xED) = true then 0x9F else 0xBF)) = true := by
          simp only [Bool.and_eq_true, decide_eq_true_eq, beq_iff_eq]
          constructor
          · split <;> omega
          · split <;> omega
        have a7 : (0xE0 + c.toNat / 4096 - 0xE0) * 4096 + (0x80 + c.toNat / 64 % 64 - 0x80) * 64 + (0x80 + c.toNat % 64 - 0x80) = c.toNat := by omega
        simp only [a1, a2, a3, a4, if_true, if_false]
        simp only [a6, a5, Bool.and_self, if_true, a7, mkChar_toNat]
      · simp only [h1, h2, h3, if_false, List.cons_append, List.nil_append, decodeRune, List.length_cons, List.length_nil]
        have a1 : ¬ 0xF0 + c.toNat / 262144 < 0x80 := by omega
        have a2 : ¬ 0xF0 + c.toNat / 262144 < 0xC2 := by omega
        have a3 : ¬ 0xF0 + c.toNat / 262144 < 0xE0 := by omega
        have a4 : ¬ 0xF0 + c.toNat / 262144 < 0xF0 := by omega
        have a4' : 0xF0 + c.toNat / 262144 < 0xF5 := by omega
        have a5 : isCont (0x80 + c.toNat % 64) = true := by simp [isCont]; omega
        have a5' : isCont (0x80 + c.toNat / 64 % 64) = true := by simp [isCont]; omega
        have a6 : ((if (0xF0 + c.toNat / 262144 == 0xF0) = true then 0x90 else 0x80) ≤ 0x80 + c.toNat / 4096 % 64 &&
            0x80 + c.toNat / 4096 % 64 ≤ (if (0xF0 + c.toNat / 262144 == 0xF4) = true then 0x8F else 0xBF)) = true := by
          simp only [Bool.and_eq_true, decide_eq_true_eq, beq_iff_eq]
          constructor
          · split <;> omega
          · split <;> omega
        have a7 : (0xF0 + c.toNat / 262144 - 0xF0) * 262144 + (0x80 + c.toNat / 4096 % 64 - 0x80) * 4096 +
            (0x80 + c.toNat / 64 % 64 - 0x80) * 64 + (0x80 + c.toNat % 64 - 0x80) = c.toNat := by omega
        simp only [a1, a2, a3, a4, a4', if_true, if_false]
        simp only [a6, a5, a5', Bool.and_self, if_true, a7, mkChar_toNat]

theorem decodeGo_skip : ∀ (xs rest : List Nat), decodeGo xs.length (xs ++ rest) = decodeGo 0 rest
  | [], rest => by simp
  | x :: xs, rest => by
    simp only [List.length_cons, List.cons_append]
    rw [decodeGo]
    exact decodeGo_skip xs rest

theorem encodeChar_ne_nil (c : Char) : ∃ b bs, encodeChar c = b :: bs := by
  unfold encodeChar
  simp only
  split
  · exact ⟨_, _, rfl⟩
  · split
    · exact ⟨_, _, rfl⟩
    · split <;> exact ⟨_, _, rfl⟩

theorem decodeGo_encode : ∀ s : Str, decodeGo 0 (encodeUtf8 s) = s
  | [] => by simp [encodeUtf8, decodeGo]
  | c :: cs => by
    have ih := decodeGo_encode cs
    unfold encodeUtf8 at ih ⊢
    simp only [List.flatMap_cons]
    obtain ⟨b, bs, e⟩ := encodeChar_ne_nil c
    have hd := decodeRune_encodeChar c (List.flatMap encodeChar cs)
    rw [e] at hd ⊢
    simp only [List.cons_append] at hd ⊢
    rw [decodeGo, hd]
    simp only [List.length_cons, Nat.add_sub_cancel]
    rw [decodeGo_skip, ih]

/-- `ReadRune` over the UTF-8 encoding of a character list yields the list -/
theorem decodeUtf8_encodeUtf8 (s : Str) : decodeUtf8 (encodeUtf8 s) = s := decodeGo_encode s

/-- **Round trip on bytes**: the UTF-8 text of the canonical print of an expressible tree reads
back as that tree. -/
theorem C20_roundtrip_bytes (u : Uni) (fs : Fs) (env : List (Str × Str)) (ns : List Node)
    (hp : PrintableL u ns = true) (hck : checkNesting ns 0 = none) :
    readBytes u fs env (encodeUtf8 (printList ns)) = .ok (relabelL 0 1 ns) := by
  unfold readBytes
  rw [decodeUtf8_encodeUtf8]
  exact C20_parse_print_roundtrip u fs env ns hp hck

/-! ## For the real Unicode tables the name conditions of `PrintableN` follow from validity -/

/-- `unicode.IsLetter` / `IsDigit` reject the six syntax characters (checked on the library by the harness) -/
def UniStd (u : Uni) : Prop :=
  ∀ c ∈ ['{', '}', '(', '$', '"', '\\'], u.isLetter c = false ∧ u.isDigit c = false

theorem validName_chars (u : Uni) (s : Str) (h : validateNodeName u s = none) :
    s ≠ [] ∧ ∀ c ∈ s, (u.isLetter c || u.isDigit c || allowedPunct c) = true := by
  unfold validateNodeName at h
  match s, h with
  | [], h => simp at h
  | c :: cs, h =>
    simp only at h
    split at h
    · simp at h
    · split at h
      · rename_i hall
        exact ⟨by simp, fun x hx => List.all_eq_true.mp hall x hx⟩
      · simp at h

theorem validName_nospecial (u : Uni) (hu : UniStd u) (s : Str) (h : validateNodeName u s = none) :
    ∀ c ∈ s, c ≠ '{' ∧ c ≠ '}' ∧ c ≠ '(' ∧ c ≠ '$' ∧ c ≠ '"' ∧ c ≠ '\\' := by
  intro c hc
  have hv := (validName_chars u s h).2 c hc
  have key : ∀ k ∈ ['{', '}', '(', '$', '"', '\\'], c ≠ k := by
    intro k hk e
    subst e
    have := hu c hk
    rw [this.1, this.2] at hv
    simp only [Bool.false_or] at hv
    revert hv
    simp only [List.mem_cons, List.not_mem_nil, or_false] at hk
    rcases hk with rfl | rfl | rfl | rfl | rfl | rfl <;> decide
  exact ⟨key _ (by simp), key _ (by simp), key _ (by simp), key _ (by simp), key _ (by simp), key _ (by simp)⟩

theorem quotableGo_plain : ∀ s : Str, (∀ c ∈ s, c ≠ '"' ∧ c ≠ '\\') → quotableGo false s = true
  | [], _ => by simp [quotableGo]
  | c :: cs, h => by
    have hc := h c (by simp)
    unfold quotableGo
    have h1 : (c == '\\') = false := by simpa using hc.2
    have h2 : (c == '"') = false := by simpa using hc.1
    simp only [h1, h2, Bool.false_eq_true, if_false]
    exact quotableGo_plain cs (fun x hx => h x (by simp [hx]))

theorem hasInfix_false_of_first (p : Str) (k : Char) (rest : Str) (hp : p = k :: rest) :
    ∀ s : Str, (∀ c ∈ s, c ≠ k) → hasInfix p s = false
  | [], _ => by subst hp; simp [hasInfix]
  | c :: cs, h => by
    subst hp
    have hc := h c (by simp)
    simp only [hasInfix, List.isPrefixOf, Bool.or_eq_false_iff, Bool.and_eq_false_imp, beq_iff_eq]
    exact ⟨fun e => absurd e.symm hc, hasInfix_false_of_first _ k rest rfl cs (fun x hx => h x (by simp [hx]))⟩

/-- with the real Unicode classification, a valid directive name other than `import` satisfies
all the name conditions of expressibility -/
theorem nameOK_of_valid (u : Uni) (hu : UniStd u) (name : Str) (hv : validateNodeName u name = none)
    (hi : name ≠ importName) : nameOK u name = true := by
  have hs := validName_nospecial u hu name hv
  have hne := (validName_chars u name hv).1
  obtain ⟨c, cs, e⟩ : ∃ c cs, name = c :: cs := by
    cases name with
    | nil => exact absurd rfl hne
    | cons c cs => exact ⟨c, cs, rfl⟩
  have hc := hs c (by rw [e]; simp)
  simp only [nameOK, Bool.and_eq_true, Bool.not_eq_true', bne_iff_ne, ne_eq, Option.isNone_iff_eq_none]
  refine ⟨⟨⟨⟨⟨⟨⟨hv, hi⟩, ?_⟩, ?_⟩, ?_⟩, ?_⟩, ?_⟩, ?_⟩
  · intro h; rw [h] at hs; exact (hs '{' (by simp [lbrace])).1 rfl
  · intro h; rw [h] at hs; exact (hs '}' (by simp [rbrace])).2.1 rfl
  · exact quotableGo_plain name (fun x hx => ⟨(hs x hx).2.2.2.2.1, (hs x hx).2.2.2.2.2⟩)
  · rw [e]
    simp only [List.isPrefixOf, Bool.and_eq_false_imp, Bool.and_true, beq_iff_eq]
    intro h; exact absurd h.symm hc.2.2.1
  · rw [e]
    unfold macroPre
    cases cs with
    | nil => simp [List.isPrefixOf]
    | cons d ds =>
      simp only [List.isPrefixOf, Bool.and_eq_false_imp, beq_iff_eq]
      intro h; exact absurd h.symm hc.2.2.2.1
  · exact hasInfix_false_of_first envPre '{' _ rfl name (fun x hx => (hs x hx).1)

mutual
/-- the argument part of expressibility, alone -/
def argsOKN : Node → Bool
  | .mk _ args _ ch _ _ _ _ => args.all argOK && lastOK args && argsOKL ch
def argsOKL : List Node → Bool
  | [] => true
  | n :: ns => argsOKN n && argsOKL ns
end

theorem UniStd.brace {u : Uni} (h : UniStd u) : UniBrace u := h '{' (by simp)

mutual
theorem Printable_of_good (u : Uni) (hu : UniStd u) : ∀ n : Node, GoodN u n → NoImpN n → argsOKN n = true → PrintableN u n = true
  | .mk name args block ch sn ma f l, hg, hi, ha => by
    simp only [GoodN] at hg
    simp only [NoImpN] at hi
    simp only [argsOKN, Bool.and_eq_true] at ha
    obtain ⟨h1, h2, h3, h4, h5⟩ := hg
    subst h1; subst h2
    simp only [PrintableN, Bool.and_eq_true, Bool.not_false, Bool.or_eq_true, and_true]
    refine ⟨⟨⟨⟨nameOK_of_valid u hu name h3 hi.1, ha.1.1⟩, ha.1.2⟩, ?_⟩, PrintableL_of_good u hu ch h5 hi.2 ha.2⟩
    cases block with
    | true => exact Or.inl rfl
    | false => right; rw [h4 rfl]; rfl
theorem PrintableL_of_good (u : Uni) (hu : UniStd u) : ∀ ns : List Node, GoodL u ns → NoImpL ns → argsOKL ns = true → PrintableL u ns = true
  | [], _, _, _ => by simp [PrintableL]
  | n :: ns, hg, hi, ha => by
    simp only [GoodL] at hg
    simp only [NoImpL] at hi
    simp only [argsOKL, Bool.and_eq_true] at ha
    simp only [PrintableL, Bool.and_eq_true]
    exact ⟨Printable_of_good u hu n hg.1 hi.1 ha.1, PrintableL_of_good u hu ns hg.2 hi.2 ha.2⟩
end

/-- **Parsed trees round-trip** (the property's second sentence, for the real Unicode
classification): whatever `Read` returns, if its *arguments* are expressible in the quoted syntax
then printing it and reading the text again — in any environment and configuration directory —
yields the same tree up to source positions.  Names, flags, `import`-freedom and the depth bound
need no hypothesis: they are guaranteed by `C20_output_wellformed`. -/
theorem C20_parsed_trees_roundtrip_std (u : Uni) (hu : UniStd u) (fs : Fs) (env : List (Str × Str)) (bs : List Nat)
    (ns : List Node) (h : readBytes u fs env bs = .ok ns) (ha : argsOKL ns = true) (fs' : Fs) (env' : List (Str × Str)) :
    ∃ ns', readBytes u fs' env' (encodeUtf8 (printList ns)) = .ok ns' ∧ stripL ns' = stripL ns := by
  have hw := C20_output_wellformed u hu.brace fs env bs ns h
  have hp := PrintableL_of_good u hu ns hw.1 hw.2.1 ha
  exact ⟨relabelL 0 1 ns, C20_roundtrip_bytes u fs' env' ns hp hw.2.2.1, stripL_relabel ns 0 1⟩

example : UniStd asciiUni := by
  intro c hc
  simp only [List.mem_cons, List.not_mem_nil, or_false] at hc
  rcases hc with rfl | rfl | rfl | rfl | rfl | rfl <;> exact ⟨by decide, by decide⟩

example : argsOKL sampleTree = true := by decide

/-! ## Recursion depth of the block parser (round 8)

`readNodesD` … (`Model/Cfg.lean`) is the block parser with the number of simultaneously active `readNodes`
calls made explicit.  `parser_erase`: dropping the bookkeeping gives back the parser all other theorems are
about.  `parser_depth`: the invariant "calls active ≤ `ctx.nesting` + 1" — `ctx.nesting` is only ever
decremented immediately before the `readNodes` call that incremented it returns (a `}` at the start of a
line, or `}` as the last argument of a directive; since fix 4 a declaration in that position is refused
instead of carrying on inside the block) — so the check `ctx.nesting > 255` at the START of `readNodes`
bounds the recursion while parsing, for every input. -/

theorem DRes.bind_res {α β} (x : DRes α) (f : α → DRes β) :
    (x.bind f).res = Res.bind x.res (fun a => (f a).res) := by
  obtain ⟨r, p⟩ := x
  cases r <;> rfl

@[simp] theorem DRes.step_res {α} (d : Nat) (x : Res α) : (DRes.step d x).res = x := rfl
@[simp] theorem DRes.step_peak {α} (d : Nat) (x : Res α) : (DRes.step d x).peak = d := rfl

theorem Res.bind_congr {α β} (x : Res α) (f g : α → Res β) (h : ∀ a, x = .ok a → f a = g a) :
    Res.bind x f = Res.bind x g := by
  cases x <;> simp [Res.bind]
  exact h _ rfl

def EraseInv (u : Uni) (fuel : Nat) : Prop :=
  (∀ d c node b, (argLoopD u fuel d c node b).res = argLoop u fuel c node b) ∧
  (∀ d c node, (afterArgsD u fuel d c node).res = afterArgs u fuel c node) ∧
  (∀ d c res b, (nodesLoopD u fuel d c res b).res = nodesLoop u fuel c res b) ∧
  (∀ d c, (readNodeD u fuel d c).res = readNode u fuel c) ∧
  (∀ d c, (readNodesD u fuel d c).res = readNodes u fuel c)

theorem parser_erase (u : Uni) : ∀ fuel, EraseInv u fuel := by
  intro fuel
  induction fuel with
  | zero =>
    refine ⟨?_, ?_, ?_, ?_, ?_⟩ <;> intros <;> simp [argLoopD, afterArgsD, nodesLoopD, readNodeD, readNodesD, argLoop, afterArgs, nodesLoop, readNode, readNodes]
  | succ fuel ih =>
    obtain ⟨ihArg, ihAfter, ihLoop, ihNode, ihNodes⟩ := ih
    refine ⟨?_, ?_, ?_, ?_, ?_⟩
    · intro d c node b
      simp only [argLoopD, argLoop, DRes.bind_res, DRes.step_res, bind_eq]
      apply Res.bind_congr
      intro r _
      split
      · split
        · rw [DRes.bind_res, ihNodes]
          apply Res.bind_congr
          intro rc _
          exact ihAfter _ _ _
        · exact ihArg _ _ _ _
      · exact ihAfter _ _ _
    · intro d c node
      simp only [afterArgsD, afterArgs]
      split
      · exact ihArg _ _ _ _
      · rfl
    · intro d c res b
      simp only [nodesLoopD, nodesLoop, DRes.bind_res, DRes.step_res, bind_eq]
      apply Res.bind_congr
      intro r _
      split
      · rfl
      · split
        · rfl
        · rw [DRes.bind_res, ihNode]
          apply Res.bind_congr
          intro rn _
          rw [DRes.bind_res]
          apply Res.bind_congr
          intro e _
          try simp only [DRes.step_res]
          split
          · split
            · rfl
            · rw [DRes.bind_res]
              apply Res.bind_congr
              intro nm _
              exact ihLoop _ _ _ _
          · split
            · split
              · rfl
              · split
                · rfl
                · exact ihLoop _ _ _ _
            · rw [DRes.bind_res]
              apply Res.bind_congr
              intro nm _
              split
              · rfl
              · exact ihLoop _ _ _ _
    · intro d c
      simp only [readNodeD, readNode]
      split
      · rfl
      · rw [DRes.bind_res]
        apply Res.bind_congr
        intro node _
        exact ihArg _ _ _ _
    · intro d c
      simp only [readNodesD, readNodes]
      split
      · rfl
      · exact ihLoop _ _ _ _

/-- the peak is at most `B`, and a value satisfies `P` -/
def DP {α} (B : Nat) (P : α → Prop) (x : DRes α) : Prop := x.peak ≤ B ∧ OkP P x.res

theorem DP.bind {α β} {B : Nat} {P : α → Prop} {Q : β → Prop} {x : DRes α} {f : α → DRes β}
    (hx : DP B P x) (hf : ∀ a, P a → DP B Q (f a)) : DP B Q (x.bind f) := by
  obtain ⟨r, p⟩ := x
  obtain ⟨h1, h2⟩ := hx
  cases r with
  | ok a =>
    have := hf a h2
    exact ⟨Nat.max_le.mpr ⟨h1, this.1⟩, this.2⟩
  | err k l => exact ⟨h1, trivial⟩
  | panic => exact ⟨h1, trivial⟩
  | fuel => exact ⟨h1, trivial⟩

theorem DP.step {α} {B d : Nat} {P : α → Prop} {x : Res α} (hd : d ≤ B) (hx : OkP P x) : DP B P (DRes.step d x) :=
  ⟨hd, hx⟩

theorem DP.mono {α} {B : Nat} {P Q : α → Prop} {x : DRes α} (hx : DP B P x) (h : ∀ a, P a → Q a) : DP B Q x :=
  ⟨hx.1, hx.2.mono h⟩

theorem nextArg_nest (c : Ctx) : OkP (fun r : Bool × Ctx => r.2.nesting = c.nesting) c.nextArg := by
  unfold Ctx.nextArg
  repeat' split
  all_goals simp [OkP]

theorem nextLine_nest (c : Ctx) : OkP (fun r : Bool × Ctx => r.2.nesting = c.nesting) c.nextLine := by
  unfold Ctx.nextLine
  repeat' split
  all_goals simp [OkP]

theorem next_nest (c : Ctx) : c.next.2.nesting = c.nesting := by
  unfold Ctx.next; split <;> rfl

theorem advanceArg_nest (c : Ctx) (b : Bool) : OkP (fun r : Bool × Ctx => r.2.nesting = c.nesting) (advanceArg c b) := by
  unfold advanceArg
  apply OkP.bind (nextArg_nest c)
  intro r hr
  split
  · exact hr
  · split
    · exact (nextLine_nest r.2).mono (fun a h => by rw [h, hr])
    · exact hr

theorem advanceLine_nest (c : Ctx) (b : Bool) : OkP (fun r : Bool × Ctx => r.2.nesting = c.nesting) (advanceLine c b) := by
  unfold advanceLine
  split
  · apply OkP.bind (nextLine_nest c)
    intro r hr
    split
    · exact hr
    · split
      · simp [OkP, Ctx.err]
      · show r.2.next.2.nesting = c.nesting
        rw [next_nest, hr]
  · exact next_nest c

theorem finishNode_ctx (u : Uni) (c : Ctx) (node : Node) : OkP (fun r : Node × Ctx => r.2 = c) (finishNode u c node) :=
  (finishNode_spec u c node).okp.mono (fun _ h => h.1)

theorem closeEdge_nest (node : Node) (c : Ctx) :
    OkP (fun e : Node × Ctx × Bool => (e.2.2 = false ∧ e.2.1.nesting = c.nesting) ∨
      (e.2.2 = true ∧ e.2.1.nesting = c.nesting - 1)) (closeEdge node c) := by
  unfold closeEdge
  split
  · split
    · simp [OkP, Ctx.err]
    · simp [OkP]
  · simp [OkP]

/-- bound on the number of simultaneously active `readNodes` calls: the call that is refused by the
nesting check is number `255 + 3` at most -/
def maxParseDepth : Nat := 258

def DepthInv (u : Uni) (fuel : Nat) : Prop :=
  (∀ (d : Nat) c node b, (d : Int) ≤ c.nesting + 1 → d ≤ 257 →
      DP maxParseDepth (fun r : Node × Ctx => (d : Int) ≤ r.2.nesting + 1) (argLoopD u fuel d c node b)) ∧
  (∀ (d : Nat) c node, (d : Int) ≤ c.nesting + 1 → d ≤ 257 →
      DP maxParseDepth (fun r : Node × Ctx => (d : Int) ≤ r.2.nesting + 1) (afterArgsD u fuel d c node)) ∧
  (∀ (d : Nat) c res b, (d : Int) ≤ c.nesting + 1 → d ≤ 257 →
      DP maxParseDepth (fun r : List Node × Ctx => (d : Int) ≤ r.2.nesting + 2) (nodesLoopD u fuel d c res b)) ∧
  (∀ (d : Nat) c, (d : Int) ≤ c.nesting + 1 → d ≤ 257 →
      DP maxParseDepth (fun r : Node × Ctx => (d : Int) ≤ r.2.nesting + 1) (readNodeD u fuel d c)) ∧
  (∀ (d : Nat) c, (d : Int) ≤ c.nesting + 1 → d ≤ 257 →
      DP maxParseDepth (fun r : List Node × Ctx => (d : Int) ≤ r.2.nesting + 1) (readNodesD u fuel d c))

theorem parser_depth (u : Uni) : ∀ fuel, DepthInv u fuel := by
  intro fuel
  induction fuel with
  | zero =>
    refine ⟨?_, ?_, ?_, ?_, ?_⟩ <;> intros <;>
      simp [argLoopD, afterArgsD, nodesLoopD, readNodeD, readNodesD, DP, OkP, maxParseDepth] <;> omega
  | succ fuel ih =>
    obtain ⟨ihArg, ihAfter, ihLoop, ihNode, ihNodes⟩ := ih
    have h258 : ∀ d : Nat, d ≤ 257 → d ≤ maxParseDepth := fun d h => by unfold maxParseDepth; omega
    refine ⟨?_, ?_, ?_, ?_, ?_⟩
    · intro d c node b hd h257
      simp only [argLoopD]
      apply DP.bind (DP.step (h258 d h257) (advanceArg_nest c b))
      intro r hr
      split
      · split
        · apply DP.bind (ihNodes d r.2 (by rw [hr]; exact hd) h257)
          intro rc hrc
          exact ihAfter d rc.2 _ hrc h257
        · exact ihArg d r.2 _ false (by rw [hr]; exact hd) h257
      · exact ihAfter d r.2 node (by rw [hr]; exact hd) h257
    · intro d c node hd h257
      simp only [afterArgsD]
      split
      · exact ihArg d c _ true hd h257
      · exact DP.step (h258 d h257) ((finishNode_ctx u c node).mono (fun r h => by rw [h]; exact hd))
    · intro d c res b hd h257
      simp only [nodesLoopD]
      apply DP.bind (DP.step (h258 d h257) (advanceLine_nest c b))
      intro r hr
      split
      · exact DP.step (h258 d h257) (by show (d : Int) ≤ r.2.nesting + 2; omega)
      · split
        · apply DP.step (h258 d h257)
          split
          · simp [OkP, Ctx.err]
          · show (d : Int) ≤ (r.2.nesting - 1) + 2; omega
        · apply DP.bind (ihNode d r.2 (by rw [hr]; exact hd) h257)
          intro rn hrn
          apply DP.bind (DP.step (h258 d h257) (closeEdge_nest rn.1 rn.2))
          intro e he
          try simp only []
          split
          · split
            · exact DP.step (h258 d h257) (by simp [OkP, Ctx.err])
            · rename_i hcond
              have hflag : e.2.2 = false := by
                cases hf : e.2.2 <;> simp_all
              have hn : e.2.1.nesting = rn.2.nesting := by
                rcases he with ⟨_, h⟩ | ⟨h, _⟩
                · exact h
                · rw [hflag] at h; cases h
              apply DP.bind (DP.step (h258 d h257) (OkP.triv _))
              intro nm _
              exact ihLoop d _ res true (by show (d : Int) ≤ e.2.1.nesting + 1; omega) h257
          · split
            · split
              · exact DP.step (h258 d h257) (by simp [OkP, Ctx.err])
              · rename_i hcond
                have hflag : e.2.2 = false := by
                  cases hf : e.2.2 <;> simp_all
                have hn : e.2.1.nesting = rn.2.nesting := by
                  rcases he with ⟨_, h⟩ | ⟨h, _⟩
                  · exact h
                  · rw [hflag] at h; cases h
                split
                · exact DP.step (h258 d h257) (by simp [OkP, Ctx.err])
                · exact ihLoop d _ res true (by show (d : Int) ≤ e.2.1.nesting + 1; omega) h257
            · apply DP.bind (DP.step (h258 d h257) (OkP.triv _))
              intro nm _
              split
              · apply DP.step (h258 d h257)
                show (d : Int) ≤ e.2.1.nesting + 2
                rcases he with ⟨_, h⟩ | ⟨_, h⟩ <;> omega
              · rename_i hflag
                have hn : e.2.1.nesting = rn.2.nesting := by
                  rcases he with ⟨_, h⟩ | ⟨h, _⟩
                  · exact h
                  · exact absurd h hflag
                exact ihLoop d _ _ true (by omega) h257
    · intro d c hd h257
      simp only [readNodeD]
      split
      · exact DP.step (h258 d h257) (by simp [OkP])
      · apply DP.bind (DP.step (h258 d h257) (OkP.triv _))
        intro node _
        exact ihArg d c node false hd h257
    · intro d c hd h257
      simp only [readNodesD]
      split
      · exact DP.step (by unfold maxParseDepth; omega) (by simp [OkP, Ctx.err])
      · rename_i hlim
        have := ihLoop (d + 1) { c with nesting := c.nesting + 1 } [] false
          (by show ((d + 1 : Nat) : Int) ≤ c.nesting + 1 + 1; omega) (by omega)
        exact this.mono (fun r hr => by
          have : ((d + 1 : Nat) : Int) ≤ r.2.nesting + 2 := hr
          omega)

theorem readNodesD_res (u : Uni) (fuel d : Nat) (c : Ctx) : (readNodesD u fuel d c).res = readNodes u fuel c :=
  (parser_erase u fuel).2.2.2.2 d c

theorem C20_parser_recursion_bounded_gen (u : Uni) (fuel : Nat) (toks : List Token) (file : Nat) :
    (readNodesD u fuel 0 { toks := toks, file := file }).peak ≤ maxParseDepth ∧
      (readNodesD u fuel 0 { toks := toks, file := file }).res = readNodes u fuel { toks := toks, file := file } :=
  ⟨((parser_depth u fuel).2.2.2.2 0 { toks := toks, file := file } (by show ((0 : Nat) : Int) ≤ -1 + 1; omega) (by omega)).1,
   readNodesD_res u fuel 0 _⟩

theorem C20_parser_recursion_bounded (u : Uni) (src : Str) : parsePeakDepth u src ≤ maxParseDepth :=
  (C20_parser_recursion_bounded_gen u _ (lexAll src) 0).1

theorem C20_parser_recursion_bounded_bytes (u : Uni) (bs : List Nat) : parsePeakDepth u (decodeUtf8 bs) ≤ 255 + 3 :=
  C20_parser_recursion_bounded u _

example : parsePeakDepth asciiUni "a {\n b {\n }\n}\nc\n".toList = 3 := by decide +kernel

theorem C20_T1_parse_time_nesting_check :
    ("parse.go", "readNodes", "ctx.nesting", ">", 255) ∈ Generated.CfgFacts.comparisons := by decide


/-! ## The import budget charges exactly what is spliced in (round 8) -/

theorem C20_import_charge (u : Uni) (fs : Fs) (prev : Nat → Maps → Node → Nat → Res (Node × Maps)) (l : Nat)
    (m m' : Maps) (name : Str) (rest st : List Node) (d : Nat) (sn ma : Bool) (f ln : Nat) (hd : d ≤ 255)
    (hres : resolveImport u fs prev m (.mk importName [name] false [] sn ma f ln) name d = .ok (st, m')) :
    impList u fs prev l m (.mk importName [name] false [] sn ma f ln :: rest) d =
      if m'.cnt + (1 + sizeL st) > maxExpandedNodes then .err .importNodes ln
      else Res.bind (impList u fs prev l { m' with cnt := m'.cnt + (1 + sizeL st) } rest d)
        (fun rr => .ok (st ++ rr.1, true, rr.2.2)) := by
  have hd' : ¬ d > 255 := by omega
  simp [impList, impNode, bind_eq, Res.bind, Node.name, Node.args, Node.line, hd', hres, Nat.add_assoc]

theorem length_le_sizeL : ∀ ns : List Node, ns.length ≤ sizeL ns
  | [] => by simp [sizeL]
  | n :: ns => by
    have := length_le_sizeL ns
    have := sizeN_eq n
    simp only [sizeL, List.length_cons]; omega

example : sizeL [.mk "w".toList [] true [.mk "p".toList [] false [] false false 0 2, .mk "q".toList [] false [] false false 0 3] false false 0 1] = 3 := by
  decide

theorem C20_tree_size_le_tokens_plus_charges (u : Uni) (fs : Fs) (src : Str) (r : List Node × Maps)
    (h : readTree u fs src = .ok r) :
    sizeL r.1 ≤ (lexAll src).length + r.2.cnt ∧ r.2.cnt ≤ maxExpandedNodes := by
  have := (readTreeWith_size u (expandImports u fs importGas) (expandImports_size u fs importGas) src 0 0 0).of_ok h
  exact ⟨by omega, this.2.2 (by unfold maxExpandedNodes; omega)⟩

/-! ## T1: constants of the current tree (regenerated on every run) agree with the model -/

theorem C20_T1_comparisons : Generated.CfgFacts.comparisons = Expect.CfgFacts.comparisons := by decide

theorem C20_T1_regexps :
    Generated.CfgFacts.regexps = Expect.CfgFacts.regexps.map (fun s => s.toList.map Char.toNat) := by decide

theorem C20_T1_start_nesting : Generated.CfgFacts.startNesting = Expect.CfgFacts.startNesting ∧
    (({ toks := [] } : Ctx).nesting = -1) := ⟨by decide, rfl⟩

theorem C20_T1_lexer_runes : Generated.CfgFacts.lexerRunes = Expect.CfgFacts.lexerRunes := by decide

/-- the model's `allowedPunct` is exactly the rune set in `validateNodeName` of the current tree -/
theorem C20_T1_allowed_punct (c : Char) : allowedPunct c = true ↔ c.toNat ∈ Generated.CfgFacts.allowedPunct := by
  have key : ∀ k : Char, (c = k ↔ c.toNat = k.toNat) := fun k =>
    ⟨fun h => by rw [h], fun h => by rw [← Char.ofNat_toNat c, h, Char.ofNat_toNat]⟩
  simp only [allowedPunct, Bool.or_eq_true, beq_iff_eq, Generated.CfgFacts.allowedPunct, List.mem_cons,
    List.not_mem_nil, or_false, key]
  have h1 : ('.' : Char).toNat = 46 := by decide
  have h2 : ('-' : Char).toNat = 45 := by decide
  have h3 : ('_' : Char).toNat = 95 := by decide
  rw [h1, h2, h3]
  omega

/-- the model's regexp prefixes are the literal prefixes of the two patterns -/
theorem C20_T1_regexp_shape :
    Generated.CfgFacts.regexps =
      [("\\$\\(".toList ++ "([^\\$]+)".toList ++ "\\)".toList).map Char.toNat,
       (envPre ++ "([^\\$]+)".toList ++ "}".toList).map Char.toNat] ∧ macroPre = "$(".toList := by
  decide

end MaddyVerif.C20
