import MaddyVerif.Model.Address
/-!
# C17 — address normalisation is a consistent equivalence; conversions round-trip

Quantifier: all code-point lists, all primitive implementations `P : Prims` (laws the real
Unicode/IDNA primitives must satisfy appear as explicit hypotheses and are sampled against the
real libraries by the correspondence harness).
-/
namespace MaddyVerif.C17
open MaddyVerif.Address

/-! ## comparison coincides with key equality; equivalence relation -/

/-- **C17.** `Equal` holds exactly when the lookup keys are equal — for any primitives. -/
theorem C17_equal_iff_key_eq (P : Prims) (a b : Str) :
    equal P a b = true ↔ key P a = key P b := by
  unfold equal
  constructor
  · intro h
    simp at h
    rcases h with h | h
    · rw [h]
    · exact h
  · intro h; simp [h]

theorem C17_equal_refl (P : Prims) (a : Str) : equal P a a = true :=
  (C17_equal_iff_key_eq P a a).mpr rfl

theorem C17_equal_symm (P : Prims) (a b : Str) (h : equal P a b = true) : equal P b a = true :=
  (C17_equal_iff_key_eq P b a).mpr ((C17_equal_iff_key_eq P a b).mp h).symm

theorem C17_equal_trans (P : Prims) (a b c : Str) (h1 : equal P a b = true) (h2 : equal P b c = true) :
    equal P a c = true :=
  (C17_equal_iff_key_eq P a c).mpr
    (((C17_equal_iff_key_eq P a b).mp h1).trans ((C17_equal_iff_key_eq P b c).mp h2))

/-- Same for domains. -/
theorem C17_dnsEqual_iff_key_eq (P : Prims) (a b : Str) :
    dnsEqual P a b = true ↔ (dnsForLookup P a).1 = (dnsForLookup P b).1 := by
  unfold dnsEqual
  constructor
  · intro h; simp at h; rcases h with h | h
    · rw [h]
    · exact h
  · intro h; simp [h]

/-! ## IsASCII -/

/-- **C17.** A string is reported ASCII exactly when all its characters are below U+0080. -/
theorem C17_isASCII_iff_all_below_0x80 (s : Str) : isASCII s = true ↔ ∀ c ∈ s, c < 128 := by
  simp [isASCII]

/-! ## Split / join -/

theorem splitLastAt_none_of_no_at (d : Str) (h : AT ∉ d) : splitLastAt d = none := by
  induction d with
  | nil => rfl
  | cons c r ih =>
    simp at h
    simp [splitLastAt, ih h.2]
    intro hc; exact absurd hc.symm h.1

theorem splitLastAt_join (m d : Str) (h : AT ∉ d) : splitLastAt (m ++ AT :: d) = some (m, d) := by
  induction m with
  | nil => simp [splitLastAt, splitLastAt_none_of_no_at d h]
  | cons c r ih => simp [splitLastAt, ih]

theorem splitLastAt_sound (a m d : Str) (h : splitLastAt a = some (m, d)) :
    a = m ++ AT :: d ∧ AT ∉ d := by
  induction a generalizing m with
  | nil => simp [splitLastAt] at h
  | cons c r ih =>
    simp only [splitLastAt] at h
    cases hr : splitLastAt r with
    | some p =>
      obtain ⟨m', d'⟩ := p
      simp [hr] at h
      obtain ⟨rfl, rfl⟩ := h
      have := ih m' hr
      exact ⟨by simp [this.1], this.2⟩
    | none =>
      simp [hr] at h
      obtain ⟨hc, rfl, rfl⟩ := h
      refine ⟨by simp [hc], ?_⟩
      intro hmem
      -- if '@' were in r, splitLastAt r would not be none
      have : ∀ (l : Str), AT ∈ l → splitLastAt l ≠ none := by
        intro l
        induction l with
        | nil => simp
        | cons x xs ihx =>
          intro hx
          simp only [splitLastAt]
          cases hxs : splitLastAt xs with
          | some p => simp
          | none =>
            simp at hx
            rcases hx with hx | hx
            · simp [hx]
            · exact absurd hxs (ihx hx)
      exact this _ hmem hr

theorem not_postmaster_of_at (a : Str) (h : AT ∈ a) : isPostmaster a = false := by
  unfold isPostmaster
  by_cases hl : a.length = postmaster.length
  · simp only [hl, beq_self_eq_true, Bool.true_and]
    rw [Bool.eq_false_iff]
    intro hall
    rw [List.all_eq_true] at hall
    obtain ⟨i, hi, hget⟩ := List.getElem_of_mem h
    have hi2 : i < postmaster.length := by omega
    have hz : (a[i], postmaster[i]) ∈ a.zip postmaster := by
      have : (a.zip postmaster)[i]'(by simp [List.length_zip]; omega) = (a[i], postmaster[i]) := by
        simp
      rw [← this]; exact List.getElem_mem _
    have := hall _ hz
    rw [hget] at this
    have hp : ∀ t ∈ postmaster, foldEqChar AT t = false := by decide
    rw [hp _ (List.getElem_mem _)] at this
    cases this
  · simp [hl]

/-- **C17 (split ∘ join).** Joining a non-empty local part and a non-empty '@'-free domain and
splitting again gives the parts back. -/
theorem C17_split_join (m d : Str) (hm : m ≠ []) (hd : d ≠ []) (hat : AT ∉ d) :
    split (m ++ AT :: d) = .ok (m, d) := by
  unfold split
  rw [not_postmaster_of_at _ (by simp)]
  simp [splitLastAt_join m d hat, hm, hd]

/-- **C17 (join ∘ split).** A successful split with a domain re-joins to the original. -/
theorem C17_join_split (a m d : Str) (h : split a = .ok (m, d)) (hd : d ≠ []) :
    a = m ++ AT :: d ∧ m ≠ [] ∧ AT ∉ d := by
  unfold split at h
  split at h
  · simp at h; exact absurd h.2.symm (by simpa using hd)
  · split at h
    · cases h
    · rename_i m' d' hs
      split at h
      · cases h
      · split at h
        · cases h
        · rename_i hm' hd'
          simp at h; obtain ⟨rfl, rfl⟩ := h
          have := splitLastAt_sound a m' d' hs
          exact ⟨this.1, by simpa using hm', this.2⟩

/-! ## Quote / unquote -/

/-- Running the unquoter over the escaped form, inside quotes, appends the original. -/
theorem uqRun_escapeAll (m : Str) (acc : Str) (rest : Str) :
    uqRun { quoted := true, escaped := false, terminated := false, out := acc } (escapeAll m ++ rest) =
    uqRun { quoted := true, escaped := false, terminated := false, out := m.reverse ++ acc } rest := by
  induction m generalizing acc with
  | nil => simp [escapeAll]
  | cons c r ih =>
    by_cases hc : (c == BS || c == DQ) = true
    · simp only [escapeAll, hc, ↓reduceIte, List.cons_append]
      rw [uqRun]
      have h1 : uqStep { quoted := true, escaped := false, terminated := false, out := acc } BS =
          .ok { quoted := true, escaped := true, terminated := false, out := acc } := by
        simp [uqStep, BS, DQ]
      rw [h1]; simp only
      rw [uqRun]
      have h2 : uqStep { quoted := true, escaped := true, terminated := false, out := acc } c =
          .ok { quoted := true, escaped := false, terminated := false, out := c :: acc } := by
        simp [uqStep]
      rw [h2]; simp only
      rw [ih]; simp
    · simp only [escapeAll, hc, Bool.false_eq_true, ↓reduceIte, List.cons_append]
      rw [uqRun]
      have h1 : uqStep { quoted := true, escaped := false, terminated := false, out := acc } c =
          .ok { quoted := true, escaped := false, terminated := false, out := c :: acc } := by
        simp at hc
        simp [uqStep, hc.1, hc.2]
      rw [h1]; simp only
      rw [ih]; simp

/-- Outside quotes, a string without special characters passes through unchanged. -/
theorem uqRun_plain (m : Str) (acc : Str) (h : m.any isSpecial = false) :
    uqRun { quoted := false, escaped := false, terminated := false, out := acc } m =
    .ok { quoted := false, escaped := false, terminated := false, out := m.reverse ++ acc } := by
  induction m generalizing acc with
  | nil => simp [uqRun]
  | cons c r ih =>
    simp at h
    have hc : isSpecial c = false := h.1
    have hDQ : (c == DQ) = false := by
      cases hh : c == DQ with
      | false => rfl
      | true => simp at hh; subst hh; simp [isSpecial, DQ] at hc
    have hBS : (c == BS) = false := by
      cases hh : c == BS with
      | false => rfl
      | true => simp at hh; subst hh; simp [isSpecial, BS] at hc
    have hAT : (c == AT) = false := by
      cases hh : c == AT with
      | false => rfl
      | true => simp at hh; subst hh; simp [isSpecial, AT] at hc
    rw [uqRun]
    have h1 : uqStep { quoted := false, escaped := false, terminated := false, out := acc } c =
        .ok { quoted := false, escaped := false, terminated := false, out := c :: acc } := by
      simp [uqStep, hDQ, hBS, hAT]
    rw [h1]; simp only
    rw [ih (c :: acc) (by simpa using h.2)]; simp

/-- **C17 (unquote ∘ quote).** Quoting any non-empty local part and unquoting it gives it back. -/
theorem C17_unquote_quote (m : Str) (hm : m ≠ []) : unquoteMbox (quoteMbox m) = .ok m := by
  unfold unquoteMbox quoteMbox
  by_cases hs : m.any isSpecial = true
  · simp only [hs, ↓reduceIte]
    rw [uqRun]
    have h0 : uqStep {} DQ = .ok { quoted := true, escaped := false, terminated := false, out := [] } := by
      simp [uqStep]
    rw [h0]; simp only
    rw [uqRun_escapeAll m [] [DQ]]
    rw [uqRun]
    have h1 : uqStep { quoted := true, escaped := false, terminated := false, out := m.reverse ++ [] } DQ =
        .ok { quoted := false, escaped := false, terminated := true, out := m.reverse ++ [] } := by
      simp [uqStep]
    rw [h1]; simp only [uqRun]
    simp [hm]
  · have hs' : m.any isSpecial = false := by simpa using hs
    simp only [hs', Bool.false_eq_true, ↓reduceIte]
    have := uqRun_plain m [] hs'
    have h0 : ({} : UQ) = { quoted := false, escaped := false, terminated := false, out := [] } := rfl
    rw [h0, this]
    simp [hm]

/-! ## lookup key: congruence (variants), idempotence -/

/-- **C17 (variants ⇒ one key).** Two addresses whose local parts agree after NFC+lower-casing and
whose domains have the same DNS lookup key have the same lookup key, hence compare equal.
With the primitive laws sampled by the harness (case, NFC/NFD and A-label/U-label variants have
equal NFC∘lower resp. DNS keys) this is the variant-insensitivity of the property. -/
theorem C17_variants_same_key (P : Prims) (a b m1 d1 m2 d2 : Str)
    (ha : split a = .ok (m1, d1)) (hb : split b = .ok (m2, d2))
    (hd1 : d1 ≠ []) (hd2 : d2 ≠ [])
    (hm : P.lower (P.nfc m1) = P.lower (P.nfc m2))
    (hd : dnsForLookup P d1 = dnsForLookup P d2) (hok : (dnsForLookup P d1).2 = true) :
    key P a = key P b ∧ equal P a b = true := by
  have hk : key P a = key P b := by
    have ha0 : a ≠ [] := by intro h; subst h; simp [split, isPostmaster, postmaster, splitLastAt] at ha
    have hb0 : b ≠ [] := by intro h; subst h; simp [split, isPostmaster, postmaster, splitLastAt] at hb
    unfold key forLookup
    have e1 : d1.isEmpty = false := by cases d1 <;> simp_all
    have e2 : d2.isEmpty = false := by cases d2 <;> simp_all
    have ea : a.isEmpty = false := by cases a <;> simp_all
    have eb : b.isEmpty = false := by cases b <;> simp_all
    simp only [ea, eb, Bool.false_eq_true, ↓reduceIte, ha, hb, e1, e2]
    rw [← hd]
    cases hq : dnsForLookup P d1 with
    | mk dk ok =>
      rw [hq] at hok
      simp at hok; subst hok
      simp [hm]
  exact ⟨hk, (C17_equal_iff_key_eq P a b).mpr hk⟩

/-- **C17 (key idempotent).** On an address whose normalised parts are fixed points of the
primitives (the law valid addresses satisfy; sampled on the real libraries), computing the
lookup key twice equals computing it once. -/
theorem C17_key_idempotent (P : Prims) (a m d mk dk : Str)
    (ha : split a = .ok (m, d)) (hd : d ≠ [])
    (hdk : dnsForLookup P d = (dk, true)) (hmk : P.lower (P.nfc m) = mk)
    (hmk0 : mk ≠ []) (hdk0 : dk ≠ []) (hat : AT ∉ dk)
    (lawM : P.lower (P.nfc mk) = mk) (lawD : dnsForLookup P dk = (dk, true)) :
    key P (key P a) = key P a := by
  have ha0 : a ≠ [] := by intro h; subst h; simp [split, isPostmaster, postmaster, splitLastAt] at ha
  have ea : a.isEmpty = false := by cases a <;> simp_all
  have ed : d.isEmpty = false := by cases d <;> simp_all
  have edk : dk.isEmpty = false := by cases dk <;> simp_all
  have hkey : key P a = mk ++ AT :: dk := by
    unfold key forLookup
    simp [ea, ha, ed, hdk, hmk, edk]
  rw [hkey]
  unfold key forLookup
  have e2 : (mk ++ AT :: dk).isEmpty = false := by cases mk <;> simp
  simp [e2, C17_split_join mk dk hmk0 hdk0 hat, edk, lawD, lawM]

/-- **C17 (CleanDomain idempotent)** under the corresponding law for the domain. -/
theorem C17_cleanDomain_idempotent (P : Prims) (a m d u c : Str)
    (ha : split a = .ok (m, d)) (hd : d ≠ [])
    (hu : dnsToUnicode P d = (u, true)) (hc : P.lower (P.nfc u) = c)
    (hc0 : c ≠ []) (hat : AT ∉ c)
    (lawD : ∃ u', dnsToUnicode P c = (u', true) ∧ P.lower (P.nfc u') = c) :
    cleanDomain P (cleanDomain P a).1 = cleanDomain P a := by
  have hm0 : m ≠ [] := (C17_join_split a m d ha hd).2.1
  have ha0 : a ≠ [] := by intro h; subst h; simp [split, isPostmaster, postmaster, splitLastAt] at ha
  have ea : a.isEmpty = false := by cases a <;> simp_all
  have ed : d.isEmpty = false := by cases d <;> simp_all
  have ec : c.isEmpty = false := by cases c <;> simp_all
  obtain ⟨u', hu', hl'⟩ := lawD
  have h1 : cleanDomain P a = (m ++ AT :: c, true) := by
    unfold cleanDomain; simp [ea, ha, hu, ed, hc]
  rw [h1]
  unfold cleanDomain
  have e2 : (m ++ AT :: c).isEmpty = false := by cases m <;> simp
  simp [e2, C17_split_join m c hm0 hc0 hat, hu', ec, hl']

/-- **C17 (ASCII/Unicode round trip).** For an address with an ASCII local part whose domain
round-trips through the IDNA primitives, `ToUnicode (ToASCII a) = a`. -/
theorem C17_idna_roundtrip (P : Prims) (a m d ad : Str)
    (ha : split a = .ok (m, d)) (hd : d ≠ []) (hasc : isASCII m = true)
    (h1 : P.toASCII d = (ad, true)) (had0 : ad ≠ []) (hat : AT ∉ ad)
    (h2 : P.toUnicode ad = (d, true)) (h3 : P.nfc d = d) :
    toASCII P a = (m ++ AT :: ad, true) ∧ toUnicode P (toASCII P a).1 = (a, true) := by
  have hj := C17_join_split a m d ha hd
  have ed : d.isEmpty = false := by cases d <;> simp_all
  have ead : ad.isEmpty = false := by cases ad <;> simp_all
  have e1 : toASCII P a = (m ++ AT :: ad, true) := by
    unfold toASCII; simp [ha, hasc, ed, h1]
  refine ⟨e1, ?_⟩
  rw [e1]
  unfold toUnicode
  simp [C17_split_join m ad hj.2.1 had0 hat, ead, h2, h3]
  exact hj.1.symm

/-! ## the key keeps different addresses apart; Split drops nothing -/

/-- **C17 (join ∘ split, every outcome).** Whatever `Split` accepts re-joins to the string it was
given: no code point (leading / trailing white space included) is dropped, added or moved. The
domain-less outcome (`postmaster`) returns the input itself. -/
theorem C17_split_rejoin_any (a m d : Str) (h : split a = .ok (m, d)) :
    (d = [] → m = a) ∧ (d ≠ [] → a = m ++ AT :: d) := by
  refine ⟨?_, fun hd => (C17_join_split a m d h hd).1⟩
  intro hd
  unfold split at h
  split at h
  · simp at h; exact h.1.symm
  · split at h
    · cases h
    · split at h
      · cases h
      · split at h
        · cases h
        · rename_i hd'
          simp at h; obtain ⟨_, rfl⟩ := h
          subst hd; simp at hd'

theorem key_of_parts (P : Prims) (a m d dk : Str)
    (ha : split a = .ok (m, d)) (hd : d ≠ [])
    (hdk : dnsForLookup P d = (dk, true)) (hdk0 : dk ≠ []) :
    key P a = P.lower (P.nfc m) ++ AT :: dk := by
  have ha0 : a ≠ [] := by intro h; subst h; simp [split, isPostmaster, postmaster, splitLastAt] at ha
  have ea : a.isEmpty = false := by cases a <;> simp_all
  have ed : d.isEmpty = false := by cases d <;> simp_all
  have edk : dk.isEmpty = false := by cases dk <;> simp_all
  unfold key forLookup
  simp [ea, ha, ed, hdk, edk]

/-- **C17 (equal keys ⇒ same normalised parts).** Two addresses with the same lookup key have the
same NFC+lower-cased local part *as written* (quotes and escapes included) and the same DNS key:
the key never merges addresses whose local parts differ after normalisation (a dropped leading
U+3000, a removed escape, a compatibility mapping would). -/
theorem C17_key_separates (P : Prims) (a b ma da mb db dka dkb : Str)
    (ha : split a = .ok (ma, da)) (hb : split b = .ok (mb, db))
    (hda : da ≠ []) (hdb : db ≠ [])
    (hka : dnsForLookup P da = (dka, true)) (hkb : dnsForLookup P db = (dkb, true))
    (h0a : dka ≠ []) (h0b : dkb ≠ []) (hata : AT ∉ dka) (hatb : AT ∉ dkb)
    (hk : key P a = key P b) :
    P.lower (P.nfc ma) = P.lower (P.nfc mb) ∧ dka = dkb := by
  rw [key_of_parts P a ma da dka ha hda hka h0a, key_of_parts P b mb db dkb hb hdb hkb h0b] at hk
  have h1 := splitLastAt_join (P.lower (P.nfc ma)) dka hata
  have h2 := splitLastAt_join (P.lower (P.nfc mb)) dkb hatb
  rw [hk, h2] at h1
  simp at h1
  exact ⟨h1.1.symm, h1.2.symm⟩

/-- **C17 (different addresses ⇒ different keys, not Equal).** -/
theorem C17_distinct_not_equal (P : Prims) (a b ma da mb db dka dkb : Str)
    (ha : split a = .ok (ma, da)) (hb : split b = .ok (mb, db))
    (hda : da ≠ []) (hdb : db ≠ [])
    (hka : dnsForLookup P da = (dka, true)) (hkb : dnsForLookup P db = (dkb, true))
    (h0a : dka ≠ []) (h0b : dkb ≠ []) (hata : AT ∉ dka) (hatb : AT ∉ dkb)
    (hne : P.lower (P.nfc ma) ≠ P.lower (P.nfc mb) ∨ dka ≠ dkb) :
    key P a ≠ key P b ∧ equal P a b = false := by
  have hk : key P a ≠ key P b := by
    intro hk
    have := C17_key_separates P a b ma da mb db dka dkb ha hb hda hdb hka hkb h0a h0b hata hatb hk
    cases hne with
    | inl h => exact h this.1
    | inr h => exact h this.2
  refine ⟨hk, ?_⟩
  rw [Bool.eq_false_iff]
  intro he
  exact hk ((C17_equal_iff_key_eq P a b).mp he)

/-! ## ACE prefix in any letter case -/

theorem asciiLower_eq_120 (a : Nat) : asciiLower a = 120 ↔ (a = 120 ∨ a = 88) := by
  unfold asciiLower; split <;> omega
theorem asciiLower_eq_110 (a : Nat) : asciiLower a = 110 ↔ (a = 110 ∨ a = 78) := by
  unfold asciiLower; split <;> omega
theorem asciiLower_eq_45 (a : Nat) : asciiLower a = 45 ↔ a = 45 := by
  unfold asciiLower; split <;> omega

theorem isAcePrefixFold_iff (l : Str) :
    isAcePrefixFold l = true ↔
      ∃ a b c d r, l = a :: b :: c :: d :: r ∧ asciiLower a = 120 ∧ asciiLower b = 110 ∧
        asciiLower c = 45 ∧ asciiLower d = 45 := by
  constructor
  · intro h
    match l, h with
    | a :: b :: c :: d :: r, h =>
      simp [isAcePrefixFold] at h
      refine ⟨a, b, c, d, r, rfl, ?_, ?_, ?_, ?_⟩
      · exact (asciiLower_eq_120 a).mpr h.1.1.1
      · exact (asciiLower_eq_110 b).mpr h.1.1.2
      · exact (asciiLower_eq_45 c).mpr h.1.2
      · exact (asciiLower_eq_45 d).mpr h.2
  · rintro ⟨a, b, c, d, r, rfl, h1, h2, h3, h4⟩
    simp [isAcePrefixFold]
    exact ⟨⟨⟨(asciiLower_eq_120 a).mp h1, (asciiLower_eq_110 b).mp h2⟩, (asciiLower_eq_45 c).mp h3⟩,
      (asciiLower_eq_45 d).mp h4⟩

/-- **C17 (A-label letter case).** Two spellings of a label that differ only in ASCII letter case,
one of which carries the ACE prefix in some case, are mapped to the same label before IDNA
decoding — so `XN--MNCHEN-3YA` and `xn--mnchen-3ya` get the same lookup key whatever the IDNA
primitive does. -/
theorem C17_ace_label_case_insensitive (l l' : Str)
    (h : l'.map asciiLower = l.map asciiLower) (hp : isAcePrefixFold l = true) :
    lowerACELabel l' = lowerACELabel l := by
  have hp' : isAcePrefixFold l' = true := by
    rw [isAcePrefixFold_iff] at hp ⊢
    obtain ⟨a, b, c, d, r, rfl, h1, h2, h3, h4⟩ := hp
    match l', h with
    | a' :: b' :: c' :: d' :: r', h =>
      simp at h
      exact ⟨a', b', c', d', r', rfl, by rw [h.1]; exact h1, by rw [h.2.1]; exact h2,
        by rw [h.2.2.1]; exact h3, by rw [h.2.2.2.1]; exact h4⟩
    | [], h => simp at h
    | [_], h => simp at h
    | [_, _], h => simp at h
    | [_, _, _], h => simp at h
  simp [lowerACELabel, hp, hp', h]

/-- Labels without the ACE prefix are left untouched (no behaviour change for U-labels). -/
theorem C17_non_ace_label_untouched (l : Str) (h : isAcePrefixFold l = false) :
    lowerACELabel l = l := by simp [lowerACELabel, h]

/-! ## every address `Valid` accepts has a lookup key -/

theorem validDomain_toUnicode_ok (P : Prims) (d : Str) (h : validDomain P d = true) :
    (dnsToUnicode P d).2 = true := by
  unfold validDomain at h
  split at h
  · cases h
  · split at h
    · cases h
    · split at h
      · cases h
      · split at h
        · cases h
        · rename_i hu; simpa using hu

/-- A valid address with a domain part: the domain has a DNS lookup key. -/
theorem C17_valid_dns_key (P : Prims) (a m d : Str) (ha : split a = .ok (m, d)) (hd : d ≠ [])
    (hv : valid P a = true) : (dnsToUnicode P d).2 = true ∧ (dnsForLookup P d).2 = true := by
  have ed : d.isEmpty = false := by cases d <;> simp_all
  have hvd : validDomain P d = true := by
    unfold valid at hv
    split at hv
    · cases hv
    · simp [ha, ed] at hv; exact hv.2
  have hu := validDomain_toUnicode_ok P d hvd
  refine ⟨hu, ?_⟩
  unfold dnsForLookup
  cases hq : dnsToUnicode P d with
  | mk u ok => rw [hq] at hu; simp at hu; subst hu; simp

/-- **C17 (valid ⇒ key).** Every address `address.Valid` accepts gets a lookup key: `ForLookup`
does not fail — for any primitives (no law needed: `ValidDomain` asks `dns.ToUnicode` itself). -/
theorem C17_valid_has_key (P : Prims) (a : Str) (hv : valid P a = true) :
    (forLookup P a).2 = true := by
  unfold forLookup
  split
  · rfl
  · cases hs : split a with
    | error e => unfold valid at hv; split at hv <;> simp [hs] at hv
    | ok p =>
      obtain ⟨m, d⟩ := p
      simp only
      by_cases ed : d.isEmpty = true
      · simp [ed]
      · have ed' : d.isEmpty = false := by simpa using ed
        have hd : d ≠ [] := by intro h; subst h; simp at ed'
        have := (C17_valid_dns_key P a m d hs hd hv).2
        simp only [ed', Bool.false_eq_true, ↓reduceIte]
        cases hq : dnsForLookup P d with
        | mk dk ok =>
          rw [hq] at this; simp at this; subst this
          simp only [Bool.not_true, Bool.false_eq_true, ↓reduceIte]
          split <;> rfl

/-- Same for `CleanDomain` (the empty-domain case, `postmaster`, asks the IDNA primitive about the
empty string: hypothesis `hE`). -/
theorem C17_valid_cleanDomain_ok (P : Prims) (a : Str) (hE : (P.toUnicode []).2 = true)
    (hv : valid P a = true) : (cleanDomain P a).2 = true := by
  unfold cleanDomain
  split
  · rfl
  · cases hs : split a with
    | error e => unfold valid at hv; split at hv <;> simp [hs] at hv
    | ok p =>
      obtain ⟨m, d⟩ := p
      simp only
      by_cases ed : d.isEmpty = true
      · have : d = [] := by simpa using ed
        subst this
        have h0 : dnsToUnicode P [] = P.toUnicode [] := by
          simp [dnsToUnicode, lowerACE, splitDots, splitDotsAux, joinDots, lowerACELabel, isAcePrefixFold]
        rw [h0]
        cases hq : P.toUnicode [] with
        | mk u ok => rw [hq] at hE; simp at hE; subst hE; simp
      · have ed' : d.isEmpty = false := by simpa using ed
        have hd : d ≠ [] := by intro h; subst h; simp at ed'
        have := (C17_valid_dns_key P a m d hs hd hv).1
        cases hq : dnsToUnicode P d with
        | mk u ok => rw [hq] at this; simp at this; subst this; simp [ed']

/-- A domain the IDNA decoder rejects (after ACE-prefix lower-casing) is not a valid domain, however
its ACE prefix is spelled. -/
theorem C17_undecodable_domain_invalid (P : Prims) (d : Str) (h : (P.toUnicode (lowerACE d)).2 = false) :
    validDomain P d = false := by
  cases hv : validDomain P d with
  | false => rfl
  | true =>
    have := validDomain_toUnicode_ok P d hv
    simp [dnsToUnicode, h] at this

/-! ## Non-vacuity -/

/-- An ASCII-only instance of the primitives (identity NFC, ASCII lower-casing, no punycode). -/
def asciiPrims : Prims where
  nfc := id
  lower := fun s => s.map (fun c => if 65 ≤ c ∧ c ≤ 90 then c + 32 else c)
  toUnicode := fun s => (s, true)
  toASCII := fun s => (s, true)

-- "Bob@Example.ORG" and "bob@example.org"
def ex1 : Str := [66, 111, 98, 64, 69, 120, 97, 109, 112, 108, 101, 46, 79, 82, 71]
def ex2 : Str := [98, 111, 98, 64, 101, 120, 97, 109, 112, 108, 101, 46, 111, 114, 103]
example : equal asciiPrims ex1 ex2 = true ∧ ex1 ≠ ex2 := by decide
example : key asciiPrims (key asciiPrims ex1) = key asciiPrims ex1 := by decide
example : unquoteMbox (quoteMbox [97, 32, 34, 64, 92, 98]) = .ok [97, 32, 34, 64, 92, 98] := by rfl
example : split ex1 = .ok ([66, 111, 98], [69, 120, 97, 109, 112, 108, 101, 46, 79, 82, 71]) := by rfl
example : valid asciiPrims ex1 = true ∧ (forLookup asciiPrims ex1).2 = true := by decide
-- "a b@example.org" is not valid unquoted, `"a b"@example.org` is
example : valid asciiPrims ([97, 32, 98] ++ ex2.drop 3) = false ∧
    valid asciiPrims ([34, 97, 32, 98, 34] ++ ex2.drop 3) = true := by decide
-- "XN--A.De" -> "xn--a.De"
example : lowerACE [88, 78, 45, 45, 65, 46, 68, 101] = [120, 110, 45, 45, 97, 46, 68, 101] := by decide

/-- U+3000 + "bob@example.org" and "bob@example.org": different keys, not Equal; Split keeps the U+3000;
a quoted local part whose NFC form needs no quotes ('"' '<' U+0338 '"') keeps its quotes in the key -/
example : key asciiPrims (0x3000 :: ex2) ≠ key asciiPrims ex2 ∧ equal asciiPrims (0x3000 :: ex2) ex2 = false ∧
    split (0x3000 :: ex2) = .ok ([0x3000, 98, 111, 98], ex2.drop 4) := ⟨by decide, by decide, by rfl⟩
/-- the hypotheses of `C17_distinct_not_equal` are satisfiable (the instance above) -/
example : key asciiPrims (0x3000 :: ex2) ≠ key asciiPrims ex2 :=
  (C17_distinct_not_equal asciiPrims (0x3000 :: ex2) ex2 [0x3000, 98, 111, 98] (ex2.drop 4) [98, 111, 98] (ex2.drop 4)
    (ex2.drop 4) (ex2.drop 4) (by rfl) (by rfl) (by decide) (by decide) (by decide) (by decide) (by decide) (by decide)
    (by decide) (by decide) (Or.inl (by decide))).1
example : key asciiPrims ([34, 60, 0x338, 34] ++ ex2.drop 3) = [34, 60, 0x338, 34] ++ ex2.drop 3 := by decide

end MaddyVerif.C17
