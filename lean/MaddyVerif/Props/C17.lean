import MaddyVerif.Model.Address
/-!
# C17 — address normalisation is a consistent equivalence; conversions round-trip

Quantifier: all code-point lists, all primitive implementations `P : Prims` (laws the real
Unicode/IDNA primitives must satisfy appear as explicit hypotheses and are sampled against the
real libraries by the correspondence harness).
-/
namespace MaddyVerif.C17
open MaddyVerif.Address

/-! ## comparison coincides with key equality; equivalence relation -/

/-- **C17.** `Equal` holds exactly when the lookup keys are equal — for any primitives. -/
theorem C17_equal_iff_key_eq (P : Prims) (a b : Str) :
    equal P a b = true ↔ key P a = key P b := by
  unfold equal
  constructor
  · intro h
    simp at h
    rcases h with h | h
    · rw [h]
    · exact h
  · intro h; simp [h]

theorem C17_equal_refl (P : Prims) (a : Str) : equal P a a = true :=
  (C17_equal_iff_key_eq P a a).mpr rfl

theorem C17_equal_symm (P : Prims) (a b : Str) (h : equal P a b = true) : equal P b a = true :=
  (C17_equal_iff_key_eq P b a).mpr ((C17_equal_iff_key_eq P a b).mp h).symm

theorem C17_equal_trans (P : Prims) (a b c : Str) (h1 : equal P a b = true) (h2 : equal P b c = true) :
    equal P a c = true :=
  (C17_equal_iff_key_eq P a c).mpr
    (((C17_equal_iff_key_eq P a b).mp h1).trans ((C17_equal_iff_key_eq P b c).mp h2))

/-- Same for domains. -/
theorem C17_dnsEqual_iff_key_eq (P : Prims) (a b : Str) :
    dnsEqual P a b = true ↔ (dnsForLookup P a).1 = (dnsForLookup P b).1 := by
  unfold dnsEqual
  constructor
  · intro h; simp at h; rcases h with h | h
    · rw [h]
    · exact h
  · intro h; simp [h]

/-! ## IsASCII -/

/-- **C17.** A string is reported ASCII exactly when all its characters are below U+0080. -/
theorem C17_isASCII_iff_all_below_0x80 (s : Str) : isASCII s = true ↔ ∀ c ∈ s, c < 128 := by
  simp [isASCII]

/-! ## Split / join -/

theorem splitLastAt_none_of_no_at (d : Str) (h : AT ∉ d) : splitLastAt d = none := by
  induction d with
  | nil => rfl
  | cons c r ih =>
    simp at h
    simp [splitLastAt, ih h.2]
    intro hc; exact absurd hc.symm h.1

theorem splitLastAt_join (m d : Str) (h : AT ∉ d) : splitLastAt (m ++ AT :: d) = some (m, d) := by
  induction m with
  | nil => simp [splitLastAt, splitLastAt_none_of_no_at d h]
  | cons c r ih => simp [splitLastAt, ih]

theorem splitLastAt_sound (a m d : Str) (h : splitLastAt a = some (m, d)) :
    a = m ++ AT :: d ∧ AT ∉ d := by
  induction a generalizing m with
  | nil => simp [splitLastAt] at h
  | cons c r ih =>
    simp only [splitLastAt] at h
    cases hr : splitLastAt r with
    | some p =>
      obtain ⟨m', d'⟩ := p
      simp [hr] at h
      obtain ⟨rfl, rfl⟩ := h
      have := ih m' hr
      exact ⟨by simp [this.1], this.2⟩
    | none =>
      simp [hr] at h
      obtain ⟨hc, rfl, rfl⟩ := h
      refine ⟨by simp [hc], ?_⟩
      intro hmem
      -- if '@' were in r, splitLastAt r would not be none
      have : ∀ (l : Str), AT ∈ l → splitLastAt l ≠ none := by
        intro l
        induction l with
        | nil => simp
        | cons x xs ihx =>
          intro hx
          simp only [splitLastAt]
          cases hxs : splitLastAt xs with
          | some p => simp
          | none =>
            simp at hx
            rcases hx with hx | hx
            · simp [hx]
            · exact absurd hxs (ihx hx)
      exact this _ hmem hr

theorem not_postmaster_of_at (a : Str) (h : AT ∈ a) : isPostmaster a = false := by
  unfold isPostmaster
  by_cases hl : a.length = postmaster.length
  · simp only [hl, beq_self_eq_true, Bool.true_and]
    rw [Bool.eq_false_iff]
    intro hall
    rw [List.all_eq_true] at hall
    obtain ⟨i, hi, hget⟩ := List.getElem_of_mem h
    have hi2 : i < postmaster.length := by omega
    have hz : (a[i], postmaster[i]) ∈ a.zip postmaster := by
      have : (a.zip postmaster)[i]'(by simp [List.length_zip]; omega) = (a[i], postmaster[i]) := by
        simp
      rw [← this]; exact List.getElem_mem _
    have := hall _ hz
    rw [hget] at this
    have hp : ∀ t ∈ postmaster, foldEqChar AT t = false := by decide
    rw [hp _ (List.getElem_mem _)] at this
    cases this
  · simp [hl]

/-- **C17 (split ∘ join).** Joining a non-empty local part and a non-empty '@'-free domain and
splitting again gives the parts back. -/
theorem C17_split_join (m d : Str) (hm : m ≠ []) (hd : d ≠ []) (hat : AT ∉ d) :
    split (m ++ AT :: d) = .ok (m, d) := by
  unfold split
  rw [not_postmaster_of_at _ (by simp)]
  simp [splitLastAt_join m d hat, hm, hd]

/-- **C17 (join ∘ split).** A successful split with a domain re-joins to the original. -/
theorem C17_join_split (a m d : Str) (h : split a = .ok (m, d)) (hd : d ≠ []) :
    a = m ++ AT :: d ∧ m ≠ [] ∧ AT ∉ d := by
  unfold split at h
  split at h
  · simp at h; exact absurd h.2.symm (by simpa using hd)
  · split at h
    · cases h
    · rename_i m' d' hs
      split at h
      · cases h
      · split at h
        · cases h
        · rename_i hm' hd'
          simp at h; obtain ⟨rfl, rfl⟩ := h
          have := splitLastAt_sound a m' d' hs
          exact ⟨this.1, by simpa using hm', this.2⟩

/-! ## Quote / unquote -/

/-- Running the unquoter over the escaped form, inside quotes, appends the original. -/
theorem uqRun_escapeAll (m : Str) (acc : Str) (rest : Str) :
    uqRun { quoted := true, escaped := false, terminated := false, out := acc } (escapeAll m ++ rest) =
    uqRun { quoted := true, escaped := false, terminated := false, out := m.reverse ++ acc } rest := by
  induction m generalizing acc with
  | nil => simp [escapeAll]
  | cons c r ih =>
    by_cases hc : (c == BS || c == DQ) = true
    · simp only [escapeAll, hc, ↓reduceIte, List.cons_append]
      rw [uqRun]
      have h1 : uqStep { quoted := true, escaped := false, terminated := false, out := acc } BS =
          .ok { quoted := true, escaped := true, terminated := false, out := acc } := by
        simp [uqStep, BS, DQ]
      rw [h1]; simp only
      rw [uqRun]
      have h2 : uqStep { quoted := true, escaped := true, terminated := false, out := acc } c =
          .ok { quoted := true, escaped := false, terminated := false, out := c :: acc } := by
        simp [uqStep]
      rw [h2]; simp only
      rw [ih]; simp
    · simp only [escapeAll, hc, Bool.false_eq_true, ↓reduceIte, List.cons_append]
      rw [uqRun]
      have h1 : uqStep { quoted := true, escaped := false, terminated := false, out := acc } c =
          .ok { quoted := true, escaped := false, terminated := false, out := c :: acc } := by
        simp at hc
        simp [uqStep, hc.1, hc.2]
      rw [h1]; simp only
      rw [ih]; simp

/-- Outside quotes, a string without special characters passes through unchanged. -/
theorem uqRun_plain (m : Str) (acc : Str) (h : m.any isSpecial = false) :
    uqRun { quoted := false, escaped := false, terminated := false, out := acc } m =
    .ok { quoted := false, escaped := false, terminated := false, out := m.reverse ++ acc } := by
  induction m generalizing acc with
  | nil => simp [uqRun]
  | cons c r ih =>
    simp at h
    have hc : isSpecial c = false := h.1
    have hDQ : (c == DQ) = false := by
      cases hh : c == DQ with
      | false => rfl
      | true => simp at hh; subst hh; simp [isSpecial, DQ] at hc
    have hBS : (c == BS) = false := by
      cases hh : c == BS with
      | false => rfl
      | true => simp at hh; subst hh; simp [isSpecial, BS] at hc
    have hAT : (c == AT) = false := by
      cases hh : c == AT with
      | false => rfl
      | true => simp at hh; subst hh; simp [isSpecial, AT] at hc
    rw [uqRun]
    have h1 : uqStep { quoted := false, escaped := false, terminated := false, out := acc } c =
        .ok { quoted := false, escaped := false, terminated := false, out := c :: acc } := by
      simp [uqStep, hDQ, hBS, hAT]
    rw [h1]; simp only
    rw [ih (c :: acc) (by simpa using h.2)]; simp

/-- **C17 (unquote ∘ quote).** Quoting any non-empty local part and unquoting it gives it back. -/
theorem C17_unquote_quote (m : Str) (hm : m ≠ []) : unquoteMbox (quoteMbox m) = .ok m := by
  unfold unquoteMbox quoteMbox
  by_cases hs : m.any isSpecial = true
  · simp only [hs, ↓reduceIte]
    rw [uqRun]
    have h0 : uqStep {} DQ = .ok { quoted := true, escaped := false, terminated := false, out := [] } := by
      simp [uqStep]
    rw [h0]; simp only
    rw [uqRun_escapeAll m [] [DQ]]
    rw [uqRun]
    have h1 : uqStep { quoted := true, escaped := false, terminated := false, out := m.reverse ++ [] } DQ =
        .ok { quoted := false, escaped := false, terminated := true, out := m.reverse ++ [] } := by
      simp [uqStep]
    rw [h1]; simp only [uqRun]
    simp [hm]
  · have hs' : m.any isSpecial = false := by simpa using hs
    simp only [hs', Bool.false_eq_true, ↓reduceIte]
    have := uqRun_plain m [] hs'
    have h0 : ({} : UQ) = { quoted := false, escaped := false, terminated := false, out := [] } := rfl
    rw [h0, this]
    simp [hm]

/-! ## lookup key: congruence (variants), idempotence -/

/-- **C17 (variants ⇒ one key).** Two addresses whose local parts agree after NFC+lower-casing and
whose domains have the same DNS lookup key have the same lookup key, hence compare equal.
With the primitive laws sampled by the harness (case, NFC/NFD and A-label/U-label variants have
equal NFC∘lower resp. DNS keys) this is the variant-insensitivity of the property. -/
theorem C17_variants_same_key (P : Prims) (a b m1 d1 m2 d2 : Str)
    (ha : split a = .ok (m1, d1)) (hb : split b = .ok (m2, d2))
    (hd1 : d1 ≠ []) (hd2 : d2 ≠ [])
    (hm : P.lower (P.nfc m1) = P.lower (P.nfc m2))
    (hd : dnsForLookup P d1 = dnsForLookup P d2) (hok : (dnsForLookup P d1).2 = true) :
    key P a = key P b ∧ equal P a b = true := by
  have hk : key P a = key P b := by
    have ha0 : a ≠ [] := by intro h; subst h; simp [split, isPostmaster, postmaster, splitLastAt] at ha
    have hb0 : b ≠ [] := by intro h; subst h; simp [split, isPostmaster, postmaster, splitLastAt] at hb
    unfold key forLookup
    have e1 : d1.isEmpty = false := by cases d1 <;> simp_all
    have e2 : d2.isEmpty = false := by cases d2 <;> simp_all
    have ea : a.isEmpty = false := by cases a <;> simp_all
    have eb : b.isEmpty = false := by cases b <;> simp_all
    simp only [ea, eb, Bool.false_eq_true, ↓reduceIte, ha, hb, e1, e2]
    rw [← hd]
    cases hq : dnsForLookup P d1 with
    | mk dk ok =>
      rw [hq] at hok
      simp at hok; subst hok
      simp [hm]
  exact ⟨hk, (C17_equal_iff_key_eq P a b).mpr hk⟩

/-- **C17 (key idempotent).** On an address whose normalised parts are fixed points of the
primitives (the law valid addresses satisfy; sampled on the real libraries), computing the
lookup key twice equals computing it once. -/
theorem C17_key_idempotent (P : Prims) (a m d mk dk : Str)
    (ha : split a = .ok (m, d)) (hd : d ≠ [])
    (hdk : dnsForLookup P d = (dk, true)) (hmk : P.lower (P.nfc m) = mk)
    (hmk0 : mk ≠ []) (hdk0 : dk ≠ []) (hat : AT ∉ dk)
    (lawM : P.lower (P.nfc mk) = mk) (lawD : dnsForLookup P dk = (dk, true)) :
    key P (key P a) = key P a := by
  have ha0 : a ≠ [] := by intro h; subst h; simp [split, isPostmaster, postmaster, splitLastAt] at ha
  have ea : a.isEmpty = false := by cases a <;> simp_all
  have ed : d.isEmpty = false := by cases d <;> simp_all
  have edk : dk.isEmpty = false := by cases dk <;> simp_all
  have hkey : key P a = mk ++ AT :: dk := by
    unfold key forLookup
    simp [ea, ha, ed, hdk, hmk, edk]
  rw [hkey]
  unfold key forLookup
  have e2 : (mk ++ AT :: dk).isEmpty = false := by cases mk <;> simp
  simp [e2, C17_split_join mk dk hmk0 hdk0 hat, edk, lawD, lawM]

/-- **C17 (CleanDomain idempotent)** under the corresponding law for the domain. -/
theorem C17_cleanDomain_idempotent (P : Prims) (a m d u c : Str)
    (ha : split a = .ok (m, d)) (hd : d ≠ [])
    (hu : dnsToUnicode P d = (u, true)) (hc : P.lower (P.nfc u) = c)
    (hc0 : c ≠ []) (hat : AT ∉ c)
    (lawD : ∃ u', dnsToUnicode P c = (u', true) ∧ P.lower (P.nfc u') = c) :
    cleanDomain P (cleanDomain P a).1 = cleanDomain P a := by
  have hm0 : m ≠ [] := (C17_join_split a m d ha hd).2.1
  have ha0 : a ≠ [] := by intro h; subst h; simp [split, isPostmaster, postmaster, splitLastAt] at ha
  have ea : a.isEmpty = false := by cases a <;> simp_all
  have ed : d.isEmpty = false := by cases d <;> simp_all
  have ec : c.isEmpty = false := by cases c <;> simp_all
  obtain ⟨u', hu', hl'⟩ := lawD
  have h1 : cleanDomain P a = (m ++ AT :: c, true) := by
    unfold cleanDomain; simp [ea, ha, hu, ed, hc]
  rw [h1]
  unfold cleanDomain
  have e2 : (m ++ AT :: c).isEmpty = false := by cases m <;> simp
  simp [e2, C17_split_join m c hm0 hc0 hat, hu', ec, hl']

/-- **C17 (ASCII/Unicode round trip).** For an address with an ASCII local part whose domain
round-trips through the IDNA primitives, `ToUnicode (ToASCII a) = a`. -/
theorem C17_idna_roundtrip (P : Prims) (a m d ad : Str)
    (ha : split a = .ok (m, d)) (hd : d ≠ []) (hasc : isASCII m = true)
    (h1 : P.toASCII d = (ad, true)) (had0 : ad ≠ []) (hat : AT ∉ ad)
    (h2 : P.toUnicode ad = (d, true)) (h3 : P.nfc d = d) :
    toASCII P a = (m ++ AT :: ad, true) ∧ toUnicode P (toASCII P a).1 = (a, true) := by
  have hj := C17_join_split a m d ha hd
  have ed : d.isEmpty = false := by cases d <;> simp_all
  have ead : ad.isEmpty = false := by cases ad <;> simp_all
  have e1 : toASCII P a = (m ++ AT :: ad, true) := by
    unfold toASCII; simp [ha, hasc, ed, h1]
  refine ⟨e1, ?_⟩
  rw [e1]
  unfold toUnicode
  simp [C17_split_join m ad hj.2.1 had0 hat, ead, h2, h3]
  exact hj.1.symm

/-! ## the key keeps different addresses apart; Split drops nothing -/

/-- **C17 (join ∘ split, every outcome).** Whatever `Split` accepts re-joins to the string it was
given: no code point (leading / trailing white space included) is dropped, added or moved. The
domain-less outcome (`postmaster`) returns the input itself. -/
theorem C17_split_rejoin_any (a m d : Str) (h : split a = .ok (m, d)) :
    (d = [] → m = a) ∧ (d ≠ [] → a = m ++ AT :: d) := by
  refine ⟨?_, fun hd => (C17_join_split a m d h hd).1⟩
  intro hd
  unfold split at h
  split at h
  · simp at h; exact h.1.symm
  · split at h
    · cases h
    · split at h
      · cases h
      · split at h
        · cases h
        · rename_i hd'
          simp at h; obtain ⟨_, rfl⟩ := h
          subst hd; simp at hd'

theorem key_of_parts (P : Prims) (a m d dk : Str)
    (ha : split a = .ok (m, d)) (hd : d ≠ [])
    (hdk : dnsForLookup P d = (dk, true)) (hdk0 : dk ≠ []) :
    key P a = P.lower (P.nfc m) ++ AT :: dk := by
  have ha0 : a ≠ [] := by intro h; subst h; simp [split, isPostmaster, postmaster, splitLastAt] at ha
  have ea : a.isEmpty = false := by cases a <;> simp_all
  have ed : d.isEmpty = false := by cases d <;> simp_all
  have edk : dk.isEmpty = false := by cases dk <;> simp_all
  unfold key forLookup
  simp [ea, ha, ed, hdk, edk]

/-- **C17 (equal keys ⇒ same normalised parts).** Two addresses with the same lookup key have the
same NFC+lower-cased local part *as written* (quotes and escapes included) and the same DNS key:
the key never merges addresses whose local parts differ after normalisation (a dropped leading
U+3000, a removed escape, a compatibility mapping would). -/
theorem C17_key_separates (P : Prims) (a b ma da mb db dka dkb : Str)
    (ha : split a = .ok (ma, da)) (hb : split b = .ok (mb, db))
    (hda : da ≠ []) (hdb : db ≠ [])
    (hka : dnsForLookup P da = (dka, true)) (hkb : dnsForLookup P db = (dkb, true))
    (h0a : dka ≠ []) (h0b : dkb ≠ []) (hata : AT ∉ dka) (hatb : AT ∉ dkb)
    (hk : key P a = key P b) :
    P.lower (P.nfc ma) = P.lower (P.nfc mb) ∧ dka = dkb := by
  rw [key_of_parts P a ma da dka ha hda hka h0a, key_of_parts P b mb db dkb hb hdb hkb h0b] at hk
  have h1 := splitLastAt_join (P.lower (P.nfc ma)) dka hata
  have h2 := splitLastAt_join (P.lower (P.nfc mb)) dkb hatb
  rw [hk, h2] at h1
  simp at h1
  exact ⟨h1.1.symm, h1.2.symm⟩

/-- **C17 (different addresses ⇒ different keys, not Equal).** -/
theorem C17_distinct_not_equal (P : Prims) (a b ma da mb db dka dkb : Str)
    (ha : split a = .ok (ma, da)) (hb : split b = .ok (mb, db))
    (hda : da ≠ []) (hdb : db ≠ [])
    (hka : dnsForLookup P da = (dka, true)) (hkb : dnsForLookup P db = (dkb, true))
    (h0a : dka ≠ []) (h0b : dkb ≠ []) (hata : AT ∉ dka) (hatb : AT ∉ dkb)
    (hne : P.lower (P.nfc ma) ≠ P.lower (P.nfc mb) ∨ dka ≠ dkb) :
    key P a ≠ key P b ∧ equal P a b = false := by
  have hk : key P a ≠ key P b := by
    intro hk
    have := C17_key_separates P a b ma da mb db dka dkb ha hb hda hdb hka hkb h0a h0b hata hatb hk
    cases hne with
    | inl h => exact h this.1
    | inr h => exact h this.2
  refine ⟨hk, ?_⟩
  rw [Bool.eq_false_iff]
  intro he
  exact hk ((C17_equal_iff_key_eq P a b).mp he)

/-! ## ACE prefix in any letter case -/

theorem asciiLower_eq_120 (a : Nat) : asciiLower a = 120 ↔ (a = 120 ∨ a = 88) := by
  unfold asciiLower; split <;> omega
theorem asciiLower_eq_110 (a : Nat) : asciiLower a = 110 ↔ (a = 110 ∨ a = 78) := by
  unfold asciiLower; split <;> omega
theorem asciiLower_eq_45 (a : Nat) : asciiLower a = 45 ↔ a = 45 := by
  unfold asciiLower; split <;> omega

theorem isAcePrefixFold_iff (l : Str) :
    isAcePrefixFold l = true ↔
      ∃ a b c d r, l = a :: b :: c :: d :: r ∧ asciiLower a = 120 ∧ asciiLower b = 110 ∧
        asciiLower c = 45 ∧ asciiLower d = 45 := by
  constructor
  · intro h
    match l, h with
    | a :: b :: c :: d :: r, h =>
      simp [isAcePrefixFold] at h
      refine ⟨a, b, c, d, r, rfl, ?_, ?_, ?_, ?_⟩
      · exact (asciiLower_eq_120 a).mpr h.1.1.1
      · exact (asciiLower_eq_110 b).mpr h.1.1.2
      · exact (asciiLower_eq_45 c).mpr h.1.2
      · exact (asciiLower_eq_45 d).mpr h.2
  · rintro ⟨a, b, c, d, r, rfl, h1, h2, h3, h4⟩
    simp [isAcePrefixFold]
    exact ⟨⟨⟨(asciiLower_eq_120 a).mp h1, (asciiLower_eq_110 b).mp h2⟩, (asciiLower_eq_45 c).mp h3⟩,
      (asciiLower_eq_45 d).mp h4⟩

/-- **C17 (A-label letter case).** Two spellings of a label that differ only in ASCII letter case,
one of which carries the ACE prefix in some case, are mapped to the same label before IDNA
decoding — so `XN--MNCHEN-3YA` and `xn--mnchen-3ya` get the same lookup key whatever the IDNA
primitive does. -/
theorem C17_ace_label_case_insensitive (l l' : Str)
    (h : l'.map asciiLower = l.map asciiLower) (hp : isAcePrefixFold l = true) :
    lowerACELabel l' = lowerACELabel l := by
  have hp' : isAcePrefixFold l' = true := by
    rw [isAcePrefixFold_iff] at hp ⊢
    obtain ⟨a, b, c, d, r, rfl, h1, h2, h3, h4⟩ := hp
    match l', h with
    | a' :: b' :: c' :: d' :: r', h =>
      simp at h
      exact ⟨a', b', c', d', r', rfl, by rw [h.1]; exact h1, by rw [h.2.1]; exact h2,
        by rw [h.2.2.1]; exact h3, by rw [h.2.2.2.1]; exact h4⟩
    | [], h => simp at h
    | [_], h => simp at h
    | [_, _], h => simp at h
    | [_, _, _], h => simp at h
  simp [lowerACELabel, hp, hp', h]

/-- Labels without the ACE prefix are left untouched (no behaviour change for U-labels). -/
theorem C17_non_ace_label_untouched (l : Str) (h : isAcePrefixFold l = false) :
    lowerACELabel l = l := by simp [lowerACELabel, h]

/-! ## every address `Valid` accepts has a lookup key -/

theorem validDomain_toUnicode_ok (P : Prims) (d : Str) (h : validDomain P d = true) :
    (dnsToUnicode P d).2 = true := by
  unfold validDomain at h
  split at h
  · cases h
  · split at h
    · cases h
    · split at h
      · cases h
      · split at h
        · cases h
        · rename_i hu; simpa using hu

/-- A valid address with a domain part: the domain has a DNS lookup key. -/
theorem C17_valid_dns_key (P : Prims) (a m d : Str) (ha : split a = .ok (m, d)) (hd : d ≠ [])
    (hv : valid P a = true) : (dnsToUnicode P d).2 = true ∧ (dnsForLookup P d).2 = true := by
  have ed : d.isEmpty = false := by cases d <;> simp_all
  have hvd : validDomain P d = true := by
    unfold valid at hv
    split at hv
    · cases hv
    · simp [ha, ed] at hv; exact hv.2
  have hu := validDomain_toUnicode_ok P d hvd
  refine ⟨hu, ?_⟩
  unfold dnsForLookup
  cases hq : dnsToUnicode P d with
  | mk u ok => rw [hq] at hu; simp at hu; subst hu; simp

/-- **C17 (valid ⇒ key).** Every address `address.Valid` accepts gets a lookup key: `ForLookup`
does not fail — for any primitives (no law needed: `ValidDomain` asks `dns.ToUnicode` itself). -/
theorem C17_valid_has_key (P : Prims) (a : Str) (hv : valid P a = true) :
    (forLookup P a).2 = true := by
  unfold forLookup
  split
  · rfl
  · cases hs : split a with
    | error e => unfold valid at hv; split at hv <;> simp [hs] at hv
    | ok p =>
      obtain ⟨m, d⟩ := p
      simp only
      by_cases ed : d.isEmpty = true
      · simp [ed]
      · have ed' : d.isEmpty = false := by simpa using ed
        have hd : d ≠ [] := by intro h; subst h; simp at ed'
        have := (C17_valid_dns_key P a m d hs hd hv).2
        simp only [ed', Bool.false_eq_true, ↓reduceIte]
        cases hq : dnsForLookup P d with
        | mk dk ok =>
          rw [hq] at this; simp at this; subst this
          simp only [Bool.not_true, Bool.false_eq_true, ↓reduceIte]
          split <;> rfl

/-- Same for `CleanDomain` (the empty-domain case, `postmaster`, asks the IDNA primitive about the
empty string: hypothesis `hE`). -/
theorem C17_valid_cleanDomain_ok (P : Prims) (a : Str) (hE : (P.toUnicode []).2 = true)
    (hv : valid P a = true) : (cleanDomain P a).2 = true := by
  unfold cleanDomain
  split
  · rfl
  · cases hs : split a with
    | error e => unfold valid at hv; split at hv <;> simp [hs] at hv
    | ok p =>
      obtain ⟨m, d⟩ := p
      simp only
      by_cases ed : d.isEmpty = true
      · have : d = [] := by simpa using ed
        subst this
        have h0 : dnsToUnicode P [] = P.toUnicode [] := by
          simp [dnsToUnicode, lowerACE, splitDots, splitDotsAux, joinDots, lowerACELabel, isAcePrefixFold]
        rw [h0]
        cases hq : P.toUnicode [] with
        | mk u ok => rw [hq] at hE; simp at hE; subst hE; simp
      · have ed' : d.isEmpty = false := by simpa using ed
        have hd : d ≠ [] := by intro h; subst h; simp at ed'
        have := (C17_valid_dns_key P a m d hs hd hv).1
        cases hq : dnsToUnicode P d with
        | mk u ok => rw [hq] at this; simp at this; subst this; simp [ed']

/-- A domain the IDNA decoder rejects (after ACE-prefix lower-casing) is not a valid domain, however
its ACE prefix is spelled. -/
theorem C17_undecodable_domain_invalid (P : Prims) (d : Str) (h : (P.toUnicode (lowerACE d)).2 = false) :
    validDomain P d = false := by
  cases hv : validDomain P d with
  | false => rfl
  | true =>
    have := validDomain_toUnicode_ok P d hv
    simp [dnsToUnicode, h] at this

/-! ## the error branch: one total function of the whole string -/

/-- **C17 (key on the error branch).** Whenever `ForLookup` fails — the address does not split, or the
domain cannot be normalised (undecodable A-label …) — the key is `strings.ToLower` of the WHOLE
string as written: the local part is *not* NFC-normalised on this branch, and nothing of the domain
is dropped. -/
theorem C17_key_error_branch (P : Prims) (a : Str) (h : (forLookup P a).2 = false) :
    key P a = P.lower a := by
  unfold key
  unfold forLookup at h ⊢
  split
  · rename_i he; simp [he] at h
  · rename_i he
    simp only [he] at h
    cases hs : split a with
    | error e => rfl
    | ok p =>
      obtain ⟨m, d⟩ := p
      simp only [hs] at h ⊢
      by_cases ed : d.isEmpty = true
      · simp [ed] at h
      · simp only [ed] at h ⊢
        cases hq : dnsForLookup P d with
        | mk dk ok =>
          simp only [hq] at h ⊢
          cases ok with
          | false => simp
          | true =>
            simp at h
            split at h <;> simp at h

/-- the two ways into the error branch -/
theorem forLookup_split_error (P : Prims) (a : Str) (e : SplitErr) (h0 : a ≠ []) (h : split a = .error e) :
    forLookup P a = (P.lower a, false) := by
  have ea : a.isEmpty = false := by cases a <;> simp_all
  unfold forLookup; simp [ea, h]

theorem forLookup_domain_error (P : Prims) (a m d : Str) (ha : split a = .ok (m, d)) (hd : d ≠ [])
    (hf : (dnsForLookup P d).2 = false) : forLookup P a = (P.lower a, false) := by
  have ha0 : a ≠ [] := by intro h; subst h; simp [split, isPostmaster, postmaster, splitLastAt] at ha
  have ea : a.isEmpty = false := by cases a <;> simp_all
  have ed : d.isEmpty = false := by cases d <;> simp_all
  unfold forLookup
  cases hq : dnsForLookup P d with
  | mk dk ok => rw [hq] at hf; simp at hf; subst hf; simp [ea, ha, ed, hq]

/-- **C17 (Equal on the error branch).** When neither address gets a key without error, `Equal` is
exactly equality of the lower-cased whole strings — the same total function on both sides. -/
theorem C17_equal_error_branch (P : Prims) (a b : Str)
    (ha : (forLookup P a).2 = false) (hb : (forLookup P b).2 = false) :
    equal P a b = true ↔ P.lower a = P.lower b := by
  rw [C17_equal_iff_key_eq, C17_key_error_branch P a ha, C17_key_error_branch P b hb]

/-- **C17 (no component-wise shortcut).** Two addresses with the SAME undecodable domain whose local
parts agree after NFC + lower-casing are still not `Equal` when their lower-cased whole strings
differ (`E` + U+0301 vs U+00C9 in front of `@xn--99999999999.example.org`): comparison follows the
key, not the components. -/
theorem C17_equal_error_branch_whole_string (P : Prims) (a b ma mb d : Str)
    (ha : split a = .ok (ma, d)) (hb : split b = .ok (mb, d)) (hd : d ≠ [])
    (hf : (dnsForLookup P d).2 = false) (hne : P.lower a ≠ P.lower b) :
    equal P a b = false := by
  have h1 := forLookup_domain_error P a ma d ha hd hf
  have h2 := forLookup_domain_error P b mb d hb hd hf
  rw [Bool.eq_false_iff]
  intro he
  exact hne ((C17_equal_error_branch P a b (by rw [h1]) (by rw [h2])).mp he)

/-- mixed case: one side fails, the other does not — still the keys decide -/
theorem C17_equal_one_error (P : Prims) (a b : Str) (ha : (forLookup P a).2 = false) :
    equal P a b = true ↔ P.lower a = key P b := by
  rw [C17_equal_iff_key_eq, C17_key_error_branch P a ha]

/-- `dns.ForLookup` on its error branch: the lower-cased domain as written. -/
theorem C17_dns_key_error_branch (P : Prims) (d : Str) (h : (dnsForLookup P d).2 = false) :
    (dnsForLookup P d).1 = P.lower d := by
  unfold dnsForLookup at h ⊢
  cases hq : dnsToUnicode P d with
  | mk u ok =>
    simp only [hq] at h ⊢
    cases ok with
    | false => simp
    | true => simp at h

/-! ## IsASCII on bytes (Go strings are byte strings) -/

theorem decodeOne_ascii (b : Nat) (r : List Nat) (h : b < 128) : decodeOne (b :: r) = (b, 1) := by
  simp [decodeOne, h]

theorem decodeOne_nonascii (b : Nat) (r : List Nat) (h : ¬ b < 128) : 128 ≤ (decodeOne (b :: r)).1 := by
  unfold decodeOne
  simp only [h, ↓reduceIte]
  repeat' split
  all_goals simp_all
  all_goals omega

theorem isASCII_decodeFuel (n : Nat) (bs : List Nat) (h : bs.length ≤ n) :
    isASCII (decodeFuel n bs) = bs.all (fun b => b < 128) := by
  induction n generalizing bs with
  | zero =>
    have : bs = [] := by cases bs <;> simp_all
    subst this; simp [decodeFuel, isASCII]
  | succ n ih =>
    cases bs with
    | nil => simp [decodeFuel, isASCII]
    | cons b r =>
      by_cases hb : b < 128
      · simp only [decodeFuel, decodeOne_ascii b r hb]
        have hl : r.length ≤ n := by simp at h; omega
        have := ih r hl
        simp only [isASCII] at this ⊢
        simp [this, hb]
      · have h1 := decodeOne_nonascii b r hb
        simp only [decodeFuel, isASCII, List.all_cons]
        have : decide ((decodeOne (b :: r)).1 < 128) = false := by simp; omega
        simp [this, hb]

/-- **C17 (IsASCII, byte level).** For EVERY byte string — well-formed UTF-8 or not — decoding it the
way Go's `range` does and testing the code points (what `address.IsASCII` does) is the same as testing
the bytes: `IsASCII(s)` ⇔ every byte of `s` is below 0x80.  An invalid byte decodes to U+FFFD, which
is not ASCII; counting runes against bytes would not see it. -/
theorem C17_isASCII_bytes (bs : List Nat) : isASCIIBytes bs = bs.all (fun b => b < 128) := by
  unfold isASCIIBytes decodeUtf8
  exact isASCII_decodeFuel bs.length bs (Nat.le_refl _)

theorem C17_isASCII_bytes_iff (bs : List Nat) : isASCIIBytes bs = true ↔ ∀ b ∈ bs, b < 128 := by
  rw [C17_isASCII_bytes]; simp

theorem decodeFuel_ascii (n : Nat) (bs : List Nat) (h : bs.length ≤ n) (ha : ∀ b ∈ bs, b < 128) :
    decodeFuel n bs = bs := by
  induction n generalizing bs with
  | zero =>
    have : bs = [] := by cases bs <;> simp_all
    subst this; simp [decodeFuel]
  | succ n ih =>
    cases bs with
    | nil => simp [decodeFuel]
    | cons b r =>
      have hb : b < 128 := ha b (by simp)
      simp only [decodeFuel, decodeOne_ascii b r hb]
      have hl : r.length ≤ n := by simp at h; omega
      simp [ih r hl (fun x hx => ha x (by simp [hx]))]

/-- ASCII byte strings decode to themselves. -/
theorem C17_decode_ascii (bs : List Nat) (ha : ∀ b ∈ bs, b < 128) : decodeUtf8 bs = bs :=
  decodeFuel_ascii bs.length bs (Nat.le_refl _) ha

/-- **C17 (ToASCII result is ASCII).** When `ToASCII` succeeds its result is ASCII, given that the
IDNA primitive returns ASCII on success (sampled on the real library): a non-ASCII local part —
invalid bytes included, by `C17_isASCII_bytes` — is refused. -/
theorem C17_toASCII_ok_is_ascii (P : Prims) (a : Str)
    (law : ∀ d, (P.toASCII d).2 = true → isASCII (P.toASCII d).1 = true)
    (h : (toASCII P a).2 = true) : isASCII (toASCII P a).1 = true := by
  unfold toASCII at h ⊢
  cases hs : split a with
  | error e => simp [hs] at h
  | ok p =>
    obtain ⟨m, d⟩ := p
    simp only [hs] at h ⊢
    by_cases hm : isASCII m = true
    · simp only [hm, Bool.not_true, Bool.false_eq_true, ↓reduceIte] at h ⊢
      by_cases ed : d.isEmpty = true
      · simp [ed, hm]
      · simp only [ed, Bool.false_eq_true, ↓reduceIte] at h ⊢
        have hl := law d
        cases hq : P.toASCII d with
        | mk ad ok =>
          rw [hq] at hl
          simp only [hq] at h ⊢
          cases ok with
          | false => simp at h
          | true =>
            have := hl rfl
            simp only [isASCII] at this hm ⊢
            simp [this, hm, AT]
    · simp [hm] at h

/-- … and it refuses every address whose local part is not ASCII. -/
theorem C17_toASCII_refuses_non_ascii_local (P : Prims) (a m d : Str) (ha : split a = .ok (m, d))
    (hm : isASCII m = false) : toASCII P a = (a, false) := by
  unfold toASCII; simp [ha, hm]

/-! ## Non-vacuity -/

/-- An ASCII-only instance of the primitives (identity NFC, ASCII lower-casing, no punycode). -/
def asciiPrims : Prims where
  nfc := id
  lower := fun s => s.map (fun c => if 65 ≤ c ∧ c ≤ 90 then c + 32 else c)
  toUnicode := fun s => (s, true)
  toASCII := fun s => (s, true)

-- "Bob@Example.ORG" and "bob@example.org"
def ex1 : Str := [66, 111, 98, 64, 69, 120, 97, 109, 112, 108, 101, 46, 79, 82, 71]
def ex2 : Str := [98, 111, 98, 64, 101, 120, 97, 109, 112, 108, 101, 46, 111, 114, 103]
example : equal asciiPrims ex1 ex2 = true ∧ ex1 ≠ ex2 := by decide
example : key asciiPrims (key asciiPrims ex1) = key asciiPrims ex1 := by decide
example : unquoteMbox (quoteMbox [97, 32, 34, 64, 92, 98]) = .ok [97, 32, 34, 64, 92, 98] := by rfl
example : split ex1 = .ok ([66, 111, 98], [69, 120, 97, 109, 112, 108, 101, 46, 79, 82, 71]) := by rfl
example : valid asciiPrims ex1 = true ∧ (forLookup asciiPrims ex1).2 = true := by decide
-- "a b@example.org" is not valid unquoted, `"a b"@example.org` is
example : valid asciiPrims ([97, 32, 98] ++ ex2.drop 3) = false ∧
    valid asciiPrims ([34, 97, 32, 98, 34] ++ ex2.drop 3) = true := by decide
-- "XN--A.De" -> "xn--a.De"
example : lowerACE [88, 78, 45, 45, 65, 46, 68, 101] = [120, 110, 45, 45, 97, 46, 68, 101] := by decide

/-- U+3000 + "bob@example.org" and "bob@example.org": different keys, not Equal; Split keeps the U+3000;
a quoted local part whose NFC form needs no quotes ('"' '<' U+0338 '"') keeps its quotes in the key -/
example : key asciiPrims (0x3000 :: ex2) ≠ key asciiPrims ex2 ∧ equal asciiPrims (0x3000 :: ex2) ex2 = false ∧
    split (0x3000 :: ex2) = .ok ([0x3000, 98, 111, 98], ex2.drop 4) := ⟨by decide, by decide, by rfl⟩
/-- the hypotheses of `C17_distinct_not_equal` are satisfiable (the instance above) -/
example : key asciiPrims (0x3000 :: ex2) ≠ key asciiPrims ex2 :=
  (C17_distinct_not_equal asciiPrims (0x3000 :: ex2) ex2 [0x3000, 98, 111, 98] (ex2.drop 4) [98, 111, 98] (ex2.drop 4)
    (ex2.drop 4) (ex2.drop 4) (by rfl) (by rfl) (by decide) (by decide) (by decide) (by decide) (by decide) (by decide)
    (by decide) (by decide) (Or.inl (by decide))).1
example : key asciiPrims ([34, 60, 0x338, 34] ++ ex2.drop 3) = [34, 60, 0x338, 34] ++ ex2.drop 3 := by decide

/-- primitives with a non-trivial NFC (`E` + U+0301 → U+00C9) and an IDNA decoder that refuses labels
starting with `xn--9` -/
def nfcPrims : Prims where
  nfc := fun s =>
    let rec go : Str → Str
      | 69 :: 0x301 :: r => 0xC9 :: go r
      | c :: r => c :: go r
      | [] => []
    go s
  lower := fun s => s.map (fun c => if 65 ≤ c ∧ c ≤ 90 then c + 32 else if c == 0xC9 then 0xE9 else c)
  toUnicode := fun s => (s, !(s.take 5 == [120, 110, 45, 45, 57]))
  toASCII := fun s => (s, true)

-- "xn--9.org"
def badDom : Str := [120, 110, 45, 45, 57, 46, 111, 114, 103]
/-- `E`+U+0301 `@xn--9.org` vs U+00C9 `@xn--9.org`: same undecodable domain, canonically equivalent
local parts, but different keys and not Equal (the error branch lower-cases the whole string only);
in front of a decodable domain the same two local parts ARE Equal -/
example : (forLookup nfcPrims ([69, 0x301, 64] ++ badDom)).2 = false ∧
    key nfcPrims ([69, 0x301, 64] ++ badDom) ≠ key nfcPrims ([0xC9, 64] ++ badDom) ∧
    equal nfcPrims ([69, 0x301, 64] ++ badDom) ([0xC9, 64] ++ badDom) = false ∧
    equal nfcPrims ([69, 0x301, 64] ++ ex2.drop 4) ([0xC9, 64] ++ ex2.drop 4) = true := by decide
example : equal nfcPrims ([69, 0x301, 64] ++ badDom) ([0xC9, 64] ++ badDom) = false :=
  C17_equal_error_branch_whole_string nfcPrims _ _ [69, 0x301] [0xC9] badDom (by rfl) (by rfl) (by decide)
    (by decide) (by decide)
/-- byte level: Latin-1 `caf\xe9`, a lone continuation byte, an overlong NUL, a surrogate, a truncated
sequence all decode with U+FFFD and are not ASCII; well-formed `é` decodes to U+00E9 -/
example : decodeUtf8 [0x63, 0x61, 0x66, 0xE9] = [0x63, 0x61, 0x66, 0xFFFD] ∧ isASCIIBytes [0x63, 0x61, 0x66, 0xE9] = false ∧
    decodeUtf8 [0x80] = [0xFFFD] ∧ decodeUtf8 [0xC0, 0x80] = [0xFFFD, 0xFFFD] ∧
    decodeUtf8 [0xED, 0xA0, 0x80] = [0xFFFD, 0xFFFD, 0xFFFD] ∧ decodeUtf8 [0x74, 0xD1] = [0x74, 0xFFFD] ∧
    decodeUtf8 [0xC3, 0xA9, 0x40] = [0xE9, 0x40] ∧ decodeUtf8 [0xF0, 0x9F, 0x98, 0x80] = [0x1F600] ∧
    decodeUtf8 [0xE2, 0x82, 0xAC, 0xE2, 0x82] = [0x20AC, 0xFFFD, 0xFFFD] ∧ decodeUtf8 [0xF4, 0x90, 0x80, 0x80] = [0xFFFD, 0xFFFD, 0xFFFD, 0xFFFD] := by
  decide
/-- `ToASCII("caf\xe9@example.org")` is refused -/
example : toASCII asciiPrims (decodeUtf8 [0x63, 0x61, 0x66, 0xE9] ++ ex2.drop 3) = (decodeUtf8 [0x63, 0x61, 0x66, 0xE9] ++ ex2.drop 3, false) := by
  decide
/-- the law of `C17_toASCII_ok_is_ascii` is satisfiable (an IDNA primitive that refuses what it cannot
make ASCII), and the theorem applies to a successful conversion -/
def strictPrims : Prims := { asciiPrims with toASCII := fun s => (s, s.all (fun c => c < 128)) }
example : isASCII (toASCII strictPrims ex1).1 = true ∧ (toASCII strictPrims ex1).2 = true :=
  ⟨C17_toASCII_ok_is_ascii strictPrims ex1 (by intro d h; simpa [strictPrims, isASCII] using h) (by decide), by decide⟩

/-! ## crash-freedom: every modelled function is total (round 9)

In Lean a function returns for every argument; the content of the statements below is the *shape* of the
model of a call (`run`): `Outcome` has a constructor for a Go panic and `run` never produces it, for any
input (code points, or arbitrary bytes decoded the way Go's `range` does), any length, any primitives. The
harness observes every call of the real function under `recover` and prints `panic` for a crash — by
`C17_no_panic` that observation never agrees with the model (a divergence), and it is the monitor violation
`C17/panic` with the call as replay. -/

/-- **C17 (crash-freedom obligation).** No call of a modelled function crashes. -/
theorem C17_no_panic (P : Prims) (c : Call) : run P c ≠ Outcome.panic := by
  cases c <;> simp only [run] <;> (try split) <;> simp

/-- … on arbitrary byte strings (ill-formed UTF-8 included), whatever the function and the bytes -/
theorem C17_no_panic_bytes (P : Prims) (c : Call) : run P (c.mapArgs decodeUtf8) ≠ Outcome.panic :=
  C17_no_panic P _

/-- **C17 (totality).** Every call returns a value, a value with an error flag, or an error. -/
theorem C17_total (P : Prims) (c : Call) :
    (∃ s, run P c = .str s) ∨ (∃ b, run P c = .flag b) ∨ (∃ s ok, run P c = .res s ok) ∨
    (∃ m d, run P c = .parts m d) ∨ run P c = .err := by
  cases c <;> simp only [run] <;> (try split) <;> simp

/-- the functions that return `(string, error)` always return the string: on the error branch too (the
callers use it: `ForLookup` returns the lower-cased input together with the error) -/
theorem C17_string_result_always (P : Prims) (a : Str) :
    (∃ s ok, run P (.forlookup a) = .res s ok) ∧ (∃ s ok, run P (.cleandomain a) = .res s ok) ∧
    (∃ s ok, run P (.toascii a) = .res s ok) ∧ (∃ s ok, run P (.tounicode a) = .res s ok) ∧
    (∃ s ok, run P (.dnsforlookup a) = .res s ok) ∧ (∃ s ok, run P (.dnstounicode a) = .res s ok) := by
  simp [run]

/-- `Equal` / `dns.Equal` answer for every pair, and the answer is the comparison of the keys — in
particular when both keys come from the error branch (no input is "too malformed to compare") -/
theorem C17_equal_total (P : Prims) (a b : Str) :
    ∃ r, run P (.equal a b) = .flag r ∧ (r = true ↔ key P a = key P b) :=
  ⟨equal P a b, rfl, C17_equal_iff_key_eq P a b⟩

/-- an over-long label behind an ACE prefix in upper case (`XN--` + 70 × `a`, 74 octets — longer than any
A-label) is an input like any other: the call returns, the prefix is lower-cased, the key is computed -/
def longAce : Str := [88, 78, 45, 45] ++ List.replicate 70 97
example : run asciiPrims (.dnsforlookup longAce) = .res ([120, 110, 45, 45] ++ List.replicate 70 97) true := by decide
example : run asciiPrims (.equal ([117, 64] ++ longAce) ([85, 64] ++ longAce.map asciiLower)) = .flag true := by decide
example : run asciiPrims (.validdomain longAce) = .flag false := by decide
example : run asciiPrims ((Call.forlookup [0x63, 0xE9]).mapArgs decodeUtf8) ≠ .panic := C17_no_panic_bytes _ _

/-! ## Round 10: answers do not depend on the history or on concurrent callers

`runHist` / `runPar` answer every call with `run`: the statements below are what a caller may rely on, and what the
`hist` / `par` ops (real code: calls made one after the other on names the process has not seen before, and the same
calls made by several goroutines at once) tie to the code. -/

theorem C17_hist_length (P : Prims) (cs : List Call) : (runHist P cs).length = cs.length := by
  simp [runHist]

/-- **C17 (no hidden state).** The `i`-th answer of a history is `run` of the `i`-th call, whatever was asked before. -/
theorem C17_hist_answer (P : Prims) (cs : List Call) (i : Nat) (h : i < cs.length) :
    (runHist P cs)[i]? = some (run P cs[i]) := by
  simp [runHist, h]

/-- the answers to `cs` after any prefix `pre` are the answers to `cs` alone: a first lookup and a later lookup of
the same strings cannot differ -/
theorem C17_hist_independent_of_prefix (P : Prims) (pre cs : List Call) :
    (runHist P (pre ++ cs)).drop pre.length = runHist P cs := by
  simp [runHist]

/-- the same call twice in one history: the same answer -/
theorem C17_hist_same_call_same_answer (P : Prims) (cs : List Call) (i j : Nat) (hi : i < cs.length) (hj : j < cs.length)
    (h : cs[i] = cs[j]) : (runHist P cs)[i]? = (runHist P cs)[j]? := by
  rw [C17_hist_answer P cs i hi, C17_hist_answer P cs j hj, h]

/-- `Equal(a, b)` asked at any point of a history and `Equal(b, a)` asked at any other point agree -/
theorem C17_hist_equal_symmetric (P : Prims) (cs : List Call) (a b : Str) (i j : Nat)
    (hi : i < cs.length) (hj : j < cs.length) (h1 : cs[i] = .equal a b) (h2 : cs[j] = .equal b a) :
    (runHist P cs)[i]? = (runHist P cs)[j]? := by
  rw [C17_hist_answer P cs i hi, C17_hist_answer P cs j hj, h1, h2]
  simp only [run]
  cases hab : equal P a b <;> cases hba : equal P b a <;> try rfl
  · rw [C17_equal_symm P b a hba] at hab; cases hab
  · rw [C17_equal_symm P a b hab] at hba; cases hba

/-- `Equal(a, b)` asked at any point of a history agrees with the keys `ForLookup` hands out at any other points of
the same history -/
theorem C17_hist_equal_iff_keys (P : Prims) (cs : List Call) (a b : Str) (i j k : Nat)
    (hi : i < cs.length) (hj : j < cs.length) (hk : k < cs.length)
    (h1 : cs[i] = .equal a b) (h2 : cs[j] = .forlookup a) (h3 : cs[k] = .forlookup b) :
    ∃ r ka oka kb okb, (runHist P cs)[i]? = some (.flag r) ∧ (runHist P cs)[j]? = some (.res ka oka) ∧
      (runHist P cs)[k]? = some (.res kb okb) ∧ (r = true ↔ ka = kb) := by
  refine ⟨equal P a b, key P a, (forLookup P a).2, key P b, (forLookup P b).2, ?_, ?_, ?_, C17_equal_iff_key_eq P a b⟩
  · rw [C17_hist_answer P cs i hi, h1]; rfl
  · rw [C17_hist_answer P cs j hj, h2]; rfl
  · rw [C17_hist_answer P cs k hk, h3]; rfl

/-- **C17 (concurrent callers).** What thread `t` sees for its `i`-th call is `run` of that call: it does not depend
on the other threads' programs (nor on any schedule — none occurs in `runPar`). -/
theorem C17_par_answer (P : Prims) (ts : List (List Call)) (t i : Nat) (ht : t < ts.length) (hi : i < ts[t].length) :
    ∃ os, (runPar P ts)[t]? = some os ∧ os[i]? = some (run P (ts[t])[i]) := by
  refine ⟨runHist P ts[t], ?_, C17_hist_answer P _ i hi⟩
  simp [runPar, ht]

/-- the same program next to any other threads: the same answers as alone -/
theorem C17_par_independent_of_other_threads (P : Prims) (before after : List (List Call)) (cs : List Call) :
    (runPar P (before ++ cs :: after))[before.length]? = some (runHist P cs) := by
  simp [runPar]

/-- any serialisation of the calls (a permutation `sched` of `cs`) yields the same answers, call by call -/
theorem C17_par_schedule_independent (P : Prims) (sched cs : List Call) (h : sched.Perm cs) :
    (sched.zip (runHist P sched)).Perm (cs.zip (runHist P cs)) := by
  have e : ∀ l : List Call, l.zip (runHist P l) = l.map (fun c => (c, run P c)) := by
    intro l; induction l with
    | nil => rfl
    | cons c l ih => simp [runHist] at ih ⊢; exact ih
  rw [e, e]; exact h.map _

/-- no answer of a history / of a concurrent caller is a crash -/
theorem C17_hist_no_panic (P : Prims) (cs : List Call) : Outcome.panic ∉ runHist P cs := by
  simp only [runHist, List.mem_map, not_exists, not_and]
  intro c _ h; exact C17_no_panic P c h

/-- the reviewer's shape: first `ForLookup`, `Equal` both ways, `ForLookup` again, in front of an A-label that does
not decode — the second answer is the first one, `Equal` is `false` both ways (the keys differ) -/
example : runHist nfcPrims [.forlookup ([69, 0x301, 64] ++ badDom), .equal ([69, 0x301, 64] ++ badDom) ([0xC9, 64] ++ badDom),
      .equal ([0xC9, 64] ++ badDom) ([69, 0x301, 64] ++ badDom), .forlookup ([69, 0x301, 64] ++ badDom)] =
    [.res ([101, 0x301, 64] ++ badDom) false, .flag false, .flag false, .res ([101, 0x301, 64] ++ badDom) false] := by decide
example : runPar asciiPrims [[.forlookup ex1, .forlookup ex2], [.forlookup ex2]] =
    [[.res ex2 true, .res ex2 true], [.res ex2 true]] := by decide

/-! ## round 11: no size enters the key — names whose U-label form is (much) bigger than their A-label form -/

/-- **C17 (a key for every name the library decodes, whatever its size).** `dns.ForLookup` has no branch on the
length of its argument: whenever the library decodes the name (with the ACE prefixes lower-cased), the key is the
NFC lower-case form of what it returned, without the root dot. There is no hypothesis on `d.length`: a U-label
spelling of 257 or 900 octets of a name whose A-label form fits RFC 1035 gets a key like any other. -/
theorem C17_dns_key_any_size (P : Prims) (d u : Str) (h : P.toUnicode (lowerACE d) = (u, true)) :
    dnsForLookup P d = (trimDot (P.lower (P.nfc u)), true) := by
  simp [dnsForLookup, dnsToUnicode, h]

/-- **C17 (spellings of one name, whatever their sizes).** Two spellings the library decodes to texts with the same
NFC lower-case form (A-labels vs U-labels, NFD, upper case; a root dot on either) have the same DNS key and are
`dns.Equal` — again without any bound on the lengths of `d1`, `d2`. -/
theorem C17_dns_spellings_any_size (P : Prims) (d1 d2 u1 u2 : Str)
    (h1 : P.toUnicode (lowerACE d1) = (u1, true)) (h2 : P.toUnicode (lowerACE d2) = (u2, true))
    (hn : trimDot (P.lower (P.nfc u1)) = trimDot (P.lower (P.nfc u2))) :
    dnsForLookup P d1 = dnsForLookup P d2 ∧ dnsEqual P d1 d2 = true := by
  have e : dnsForLookup P d1 = dnsForLookup P d2 := by
    rw [C17_dns_key_any_size P d1 u1 h1, C17_dns_key_any_size P d2 u2 h2, hn]
  exact ⟨e, (C17_dnsEqual_iff_key_eq P d1 d2).mpr (by rw [e])⟩

/-- **C17 (the key of a key, whatever its size).** If the library leaves the key alone (it is in U-label form: the
law sampled on the real library) and NFC + lower-casing + trimming fix it, `dns.ForLookup` of the key is the key,
without error — however many octets the key has. -/
theorem C17_dns_key_idempotent_any_size (P : Prims) (d u k : Str)
    (h : P.toUnicode (lowerACE d) = (u, true)) (hk : trimDot (P.lower (P.nfc u)) = k)
    (lawU : P.toUnicode (lowerACE k) = (k, true)) (lawN : trimDot (P.lower (P.nfc k)) = k) :
    dnsForLookup P (dnsForLookup P d).1 = dnsForLookup P d := by
  rw [C17_dns_key_any_size P d u h, hk]
  simp only
  rw [C17_dns_key_any_size P k k lawU, lawN]

end MaddyVerif.C17
